"""Deterministic scheduler for REAL threads running pymemcache's pool code.

Every worker runs under sys.settrace; at each new source line (or, optionally, each bytecode instruction) executed in
the watched files it parks until the scheduler grants it a step.  The pool's lock is a cooperative lock installed
through the library's own lock_generator seam: a contended acquire parks the thread as 'lockwait' instead of blocking
the OS thread, so deadlocks are observed, not suffered.  A run is determined by its plan: the global step indices at
which the running thread is preempted (bounded-preemption exploration)."""
import sys
import threading


class Deadlock(Exception):
    pass


class Sched:
    def __init__(self, files, plan=(), opcodes=False, max_steps=20000, yield_points=False):
        self.yield_points = yield_points      # an explicit point (a blocking socket call) lets the other threads run, as a real one does
        self.files = set(files)
        self.plan = set(plan)
        self.opcodes = opcodes
        self.max_steps = max_steps
        self.go, self.parked, self.done = {}, {}, set()
        self.mu = threading.Lock()
        self.ctl = threading.Event()
        self.trace = []
        self.tid_of = {}
        self.steps = 0
        self.preempted = False

    # ---- worker side
    def tracer(self, tid):
        def local(frame, event, arg):
            if event == ("opcode" if self.opcodes else "line"):
                self.park(tid, ("at", frame.f_code.co_name, frame.f_lineno))
            return local

        def glob(frame, event, arg):
            if frame.f_code.co_filename in self.files:
                if self.opcodes:
                    frame.f_trace_opcodes = True
                return local
            return None
        return glob

    def park(self, tid, why):
        ev = self.go[tid]
        ev.clear()
        with self.mu:
            self.parked[tid] = why
        self.ctl.set()
        ev.wait()

    def me(self):
        return self.tid_of[threading.get_ident()]

    def point(self, label):
        """an explicit scheduling point inside user code (e.g. 'the socket call')"""
        self.park(self.me(), ("point", label, 0))

    # ---- controller
    def run(self, bodies):
        n = len(bodies)
        errors = {}
        for tid, b in enumerate(bodies):
            self.go[tid] = threading.Event()

            def work(tid=tid, b=b):
                self.tid_of[threading.get_ident()] = tid
                sys.settrace(self.tracer(tid))
                try:
                    self.park(tid, ("start", "", 0))
                    b()
                except BaseException as e:  # noqa
                    errors[tid] = e
                finally:
                    sys.settrace(None)
                    with self.mu:
                        self.done.add(tid)
                        self.parked.pop(tid, None)
                    self.ctl.set()
            threading.Thread(target=work, daemon=True).start()
        cur = 0
        while True:
            while True:
                with self.mu:
                    live = [t for t in range(n) if t not in self.done]
                    ready = all(t in self.parked for t in live)
                if ready:
                    break
                self.ctl.wait(0.2)
                self.ctl.clear()
            if not live:
                return "OK", errors
            runnable = [t for t in live if not (self.parked[t][0] == "lockwait" and self.parked[t][1].held)]
            if not runnable:
                return "DEADLOCK", errors
            # blocking socket calls: after the first planned preemption (if there is a plan), a thread that reaches its socket call
            # lets the others run; before it, the first thread runs undisturbed up to the planned point
            armed = self.yield_points and (not self.plan or self.preempted)
            at_point = armed and cur in self.parked and self.parked[cur][0] == "point" and len(runnable) > 1
            if self.steps in self.plan:
                self.preempted = True
            if cur not in runnable or self.steps in self.plan or at_point:
                # preempt (or the current thread finished / is blocked): next runnable thread in cyclic order
                later = [t for t in runnable if t > cur]
                cur = (later or runnable)[0]
            self.trace.append((cur, self.parked[cur][:3] if self.parked[cur][0] != "lockwait" else ("lockwait",)))
            with self.mu:
                del self.parked[cur]
            self.steps += 1
            if self.steps > self.max_steps:
                return "LIVELOCK", errors
            self.go[cur].set()


class CoopLock:
    """lock_generator seam: the pool's lock, cooperative"""
    sched = None

    def __init__(self):
        self.held = False
        self.owner = None

    def __enter__(self):
        s = CoopLock.sched
        tid = s.me()
        while self.held:
            s.park(tid, ("lockwait", self))
        self.held = True
        self.owner = tid
        return self

    def __exit__(self, *a):
        self.held = False
        self.owner = None
