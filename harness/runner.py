"""Generic per-property check: regenerate -> build -> audit -> correspondence -> search -> verdict.

A property module (harness/props/Cxx.py) defines:
  PROP, GEN (translator targets), VO (make targets), MODULE (Properties module), THEOREMS,
  DRIVER (name of Extract/D_<name>.v or None), TRUSTED (list of strings), ASSUMPTIONS (list of strings)
  correspondence(ctx) -> dict(evaluations, distinct_nontrivial, rule, samples, disagreements=[...], ...)
  search(ctx)         -> list of violation dicts found by driving the IMPLEMENTATION against the spec oracle
  known(ctx)          -> optional: list of (finding_id, text, still_fails: bool)
  replay(ctx, obj)    -> optional: re-execute a replay file, return True if it still violates
"""
import importlib
import json
import os
import random
import signal
import sys
import time
import traceback

from . import core


class Ctx:
    def __init__(self, prop, tier, seed):
        self.prop = prop
        self.tier = tier
        self.seed = seed
        self.rng = random.Random(seed)
        self.driver = None
        self.oracle = None
        self.quick = tier == "quick"
        self.notes = []


class Watchdog(Exception):
    pass


def _alarm(signum, frame):
    raise Watchdog("time limit exceeded")


def setup_impl_path():
    if core.REPO not in sys.path:
        sys.path.insert(0, core.REPO)
    os.environ[core.GUARD] = "1"
    for m in list(sys.modules):
        if m == "pymemcache" or m.startswith("pymemcache."):
            del sys.modules[m]


def main(prop, tier, seed, replay_path=None):
    t0 = time.time()
    mod = importlib.import_module("harness.props." + prop)
    ctx = Ctx(prop, tier, seed)
    setup_impl_path()
    broken = []          # obligations that no longer check: dicts
    log_dir = os.path.join(core.BUILD, "logs")
    os.makedirs(log_dir, exist_ok=True)

    if replay_path:
        obj = json.load(open(replay_path))
        # the specification oracle / extracted model, when this property's replay uses them and they have been built by a check run
        for attr, name in (("oracle", getattr(mod, "ORACLE", None)), ("driver", getattr(mod, "DRIVER", None))):
            if name:
                try:
                    with core.Lock():
                        setattr(ctx, attr, core.get_driver(name)[0])
                except Exception:  # noqa
                    pass
        still = mod.replay(ctx, obj) if hasattr(mod, "replay") else None
        print("replay %s: %s" % (replay_path, {True: "still violates", False: "no longer violates",
                                                 None: "no replay procedure for this entry"}[still]))
        return 1 if still else 0

    # 1-3 regenerate, build, audit (serialised: the Coq tree is shared between checks)
    with core.Lock():
        ok, glog = core.regen(getattr(mod, "GEN", []))
        if not ok:
            for line in glog.split("\n"):
                if line.startswith("REFUSED"):
                    broken.append({"kind": "translation", "what": line})
        if hasattr(mod, "pre_build"):
            for b in mod.pre_build(ctx) or []:
                broken.append(b)
        ok, blog = core.build(mod.VO, timeout=1500 if tier == "thorough" else 900)
        open(os.path.join(log_dir, prop + ".build.log"), "w").write(glog + "\n" + blog)
        if not ok:
            units = core.failing_units(blog)
            for u in units or [{"file": "?", "line": 0, "error": blog[-400:]}]:
                u = dict(u)
                u["kind"] = "proof"
                u["lemma"] = core.lemma_at(u["file"], u["line"]) if u.get("line") else None
                u["what"] = "%s:%s %s: %s" % (u["file"], u["line"], u["lemma"], u["error"])
                broken.append(u)
        files = []
        for vo in mod.VO:
            core.cone(vo[:-1], files)
        n_obl = core.count_obligations(files)
        audit = {}
        if ok:
            audit = core.print_assumptions(prop, mod.MODULE, mod.THEOREMS)
            for t, r in audit.items():
                if r == "closed":
                    continue
                if isinstance(r, list) and all(a.split(".")[-1] in core.STDLIB_AXIOMS or a in core.STDLIB_AXIOMS
                                               for a in r) and set(r) <= set(getattr(mod, "ALLOWED_AXIOMS", [])):
                    continue
                broken.append({"kind": "audit", "what": "Print Assumptions %s: %s" % (t, r)})
        hits = core.forbidden_scan(files)
        for h in hits:
            broken.append({"kind": "audit", "what": "forbidden construct: " + h})
        if ok and tier == "thorough" and getattr(mod, "COQCHK", True):
            okc, clog = core.coqchk(["PM." + mod.MODULE])
            open(os.path.join(log_dir, prop + ".coqchk.log"), "w").write(clog)
            if not okc:
                broken.append({"kind": "audit", "what": "coqchk failed: " + clog[-300:]})
            else:
                ctx.notes.append("coqchk -o: " + " ".join(clog.split())[-400:])
        drv_err = None
        if getattr(mod, "ORACLE", None):
            ctx.oracle, oerr = core.get_driver(mod.ORACLE)
            if ctx.oracle is None:
                broken.append({"kind": "oracle", "what": "specification oracle does not build: " + (oerr or "")[-400:]})
        if getattr(mod, "DRIVER", None):
            ctx.driver, drv_err = core.get_driver(mod.DRIVER)
            if ctx.driver is None:
                broken.append({"kind": "model", "what": "executable model does not build: " + (drv_err or "")[-400:]})

    # 4 correspondence (model vs implementation) and 5 search (implementation vs spec oracle)
    limit = int(os.environ.get("VERIF_TIME_LIMIT", "0")) or (600 if tier == "quick" else 3000)
    signal.signal(signal.SIGALRM, _alarm)
    corr = {"evaluations": 0, "distinct_nontrivial": 0, "rule": "", "samples": [], "disagreements": []}
    found = []
    try:
        signal.alarm(limit)
        try:
            if ctx.driver is not None or not getattr(mod, "DRIVER", None):
                corr = mod.correspondence(ctx)
            else:
                corr["rule"] = "skipped: the executable model does not build (reported as a broken obligation)"
        except Watchdog:
            raise
        except Exception as e:
            corr["disagreements"].append({"error": "correspondence harness failed: %r" % (e,),
                                          "trace": traceback.format_exc()[-1500:]})
        for d in corr.get("disagreements", [])[:5]:
            broken.append({"kind": "correspondence", "what": "model and implementation differ", "case": d})
        try:
            found = mod.search(ctx) or []
        except Watchdog:
            raise
        except Exception as e:
            broken.append({"kind": "search", "what": "search harness failed: %r" % (e,),
                           "trace": traceback.format_exc()[-1500:]})
    except Watchdog:
        broken.append({"kind": "timeout", "what": "implementation did not finish within %ds (possible hang)" % limit})
    finally:
        signal.alarm(0)
        if ctx.driver:
            ctx.driver.close()
        if ctx.oracle:
            ctx.oracle.close()

    # 6 verdict
    kf = core.known_findings()
    listed = [f for f in kf.get("findings", []) if f["property"] == prop]
    rc = 0
    new = []
    for v in found:
        hit = [f for f in listed if f["id"] == v.get("finding")]
        if hit:
            print("KNOWN-FINDING: property=%s %s" % (prop, hit[0]["what"]))
        else:
            new.append(v)
    nviol = 0
    if new:
        for v in new[:3]:
            path = core.write_replay(prop, {"violation": v, "broken_obligations": broken})
            print("VIOLATION property=%s replay=%s" % (prop, path))
            nviol += 1
        rc = 1
    elif broken:
        # a proof obligation or the correspondence no longer checks and no failing input was found
        path = core.write_replay(prop, {"violation": None, "broken_obligations": broken,
                                        "note": "no concrete failing input found by the search"})
        print("VIOLATION property=%s replay=%s no-failing-input-found" % (prop, path))
        nviol += 1
        rc = 1
    for b in broken[:6]:
        print("  broken: [%s] %s" % (b.get("kind"), str(b.get("what"))[:300]))

    cov = {
        "obligations": n_obl, "discharged": n_obl if not [b for b in broken if b["kind"] in ("proof", "translation", "audit")] else 0,
        "checker_cmd": "cd coq && make -j16 %s  (coqc 8.16.1, full .vo) ; Print Assumptions %s" % (
            " ".join(mod.VO), ", ".join(mod.THEOREMS)),
        "trusted_base": list(getattr(mod, "TRUSTED", [])),
        "print_assumptions": audit,
        "evaluations": corr.get("evaluations", 0),
        "distinct_nontrivial": corr.get("distinct_nontrivial", 0),
        "rule": corr.get("rule", ""),
        "samples": corr.get("samples", [])[:8] or ["(none)"],
        "disagreements_checked": corr.get("evaluations", 0),
        "disagreements": len(corr.get("disagreements", [])),
        "search": corr.get("search_summary") or getattr(ctx, "search_summary", None),
        "distribution": corr.get("distribution"),
        "exhaustive": bool(corr.get("exhaustive", False)),
        "broken_obligations": [str(b.get("what"))[:300] for b in broken],
        "notes": ctx.notes,
        "repo": core.REPO,
    }
    core.write_evidence(prop, tier, seed, "proof", cov, list(getattr(mod, "ASSUMPTIONS", [])), time.time() - t0, nviol)
    print("%s %s tier=%s seed=%d obligations=%d corr_cases=%d disagreements=%d search_violations=%d wall=%.1fs" % (
        prop, "FAIL" if rc else "ok", tier, seed, n_obl, corr.get("evaluations", 0),
        len(corr.get("disagreements", [])), len(found), time.time() - t0))
    return rc
