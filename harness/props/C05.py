"""C05 — return values report the server's actual outcome over any history."""
import random

from harness import clientsim as cs
from harness import core
from harness.refserver import Server
from harness.props.C02 import render_py

PROP = "C05"
GEN = ["Handlers", "Wrappers", "Aliases"]
VO = ["Properties/C05.vo", "Extract/D_Client.vo", "Extract/D_Server.vo"]
MODULE = "Properties.C05"
THEOREMS = ["c05_store_partial", "c05_delete_partial", "c05_touch_partial", "c05_flush_partial", "c05_arith_partial", "c05_noreply_effect", "c05_reply_iff",
            "c05_e2e_delete", "c05_e2e_touch", "c05_e2e_flush", "c05_e2e_arith", "c05_e2e_store", "c05_e2e_cas", "c05_e2e_set_many", "c05_e2e_delete_many", "c05_e2e_gat", "c05_e2e_gats", "c05_gat_retimes", "c05_noreply_defaults", "c05_aliases"]
DRIVER = "D_Client"
TECHNIQUE = ("Coq proof: a specification server (in-memory map with expiry and cas versions); for every state of it the client's "
             "reading of the reply line is the documented result of what the server did; end to end on the Client model (Hoare "
             "logic, exact consumption of the reply) for every one-command operation, cas, set_many and delete_many (retrievals: C04); "
             "plus differential runs against an independent abstract-map oracle")
LEVEL_TEXT = ("c05_store/delete/touch/flush/arith_partial: for EVERY server state (so after every history and clock advance) and all "
              "arguments, the line Spec/Server.v answers is accepted by the client's reply table for that verb and is read as the "
              "documented value (True/False/None, the new counter, MemcacheClientError for a non-numeric item); c05_noreply_effect, "
              "c05_reply_iff: noreply never changes the effect and a reply is sent exactly when the command does not say noreply; "
              "c05_e2e_delete/touch/flush/arith/store: on a client that is connected with nothing pending or closed (it then connects first; parameter fr of the theorems), a fault-free transport and "
              "the specification server as peer, run_op of set/add/replace/append/prepend (one key), delete, incr, decr, touch, "
              "flush_all returns exactly the documented result, advances the server by exactly that command and leaves nothing "
              "unread -- for every server state, key, value and argument, hence along every history of such calls; c05_e2e_cas: the "
              "same for cas (True / False / None as stored, changed, absent); c05_e2e_set_many, c05_e2e_delete_many: the server reads "
              "the batch as exactly the intended commands, executes them in order, the client reads one line per command and returns "
              "[] / True; c05_e2e_gat/gats + c05_gat_retimes: the item comes back as for get/gets and the server re-times it. Retrievals "
              "end to end: C04; calls that reconnect first: c01_ready_* at the exchange level. The Pooled/Hash stacks are related to "
              "Client by C16 and exercised by the search.")
LEVEL_NOTE = ("Trusted: Coq kernel; Spec/Server.v as the reading of protocol.txt (compared with harness/refserver.py on every run); "
              "the hand model's correspondence with base.py. No axioms.")
TRUSTED = ["Coq 8.16.1 kernel; no axioms",
           "coq/Spec/Server.v (specification server) and its Python twin harness/refserver.py, compared on random sessions every run",
           "hand-written model coq/Model/Client.v tied to base.py by this check's correspondence run",
           "the abstract-map oracle in this file (AbsMap), written at the client API level",
           "extraction: ExtrOcamlBasic only; coq/Extract/ocaml/driver.ml"]
ASSUMPTIONS = ["a faithful memcached = Spec/Server.v (LRU eviction, item size limits and slab behaviour are outside the model)",
               "values are bytes/str/int without a custom serializer in the history search"]

REL = 60 * 60 * 24 * 30


class AbsMap:
    """The plain in-memory map a user has in mind: key -> [value bytes, expiry second or 0, version]."""

    def __init__(self, now, prefix, default_noreply):
        self.d, self.now, self.ver, self.prefix, self.dn = {}, now, 0, prefix, default_noreply

    def _k(self, k):
        return self.prefix + (k.encode() if isinstance(k, str) else k)

    def _live(self, k):
        it = self.d.get(k)
        if it is not None and it[1] != 0 and it[1] <= self.now:
            del self.d[k]
            return None
        return it

    def _exp(self, e):
        return 0 if e == 0 else -1 if e < 0 else e if e > REL else self.now + e

    def _put(self, k, v, e):
        self.ver += 1
        x = self._exp(e)
        if x == -1:
            self.d.pop(k, None)
        else:
            self.d[k] = [v, x, self.ver]

    def _val(self, v):
        return v if isinstance(v, bytes) else str(v).encode()

    def _nr(self, n):
        return self.dn if n is None else bool(n)

    def store(self, verb, k, v, e, n):
        k, v, it = self._k(k), self._val(v), self._live(self._k(k))
        ok = True
        if verb == "add" and it is not None:
            ok = False
        if verb in ("replace", "append", "prepend") and it is None:
            ok = False
        if ok:
            if verb == "append":
                self.ver += 1
                self.d[k] = [it[0] + v, it[1], self.ver]
            elif verb == "prepend":
                self.ver += 1
                self.d[k] = [v + it[0], it[1], self.ver]
            else:
                self._put(k, v, e)
        return True if self._nr(n) else ok

    def set_many(self, pairs, e, n):
        for k, v in dict(pairs).items():
            self._put(self._k(k), self._val(v), e)
        return []

    def cas(self, k, v, token, e, n):
        k, it = self._k(k), self._live(self._k(k))
        tok = int(token if isinstance(token, (bytes, int)) else token.encode())
        if it is None:
            r = None
        elif it[2] != tok:
            r = False
        else:
            self._put(k, self._val(v), e)
            r = True
        return True if n else r

    def fetch(self, keys, cas, touch=None):
        out = {}
        for key in keys:
            k = self._k(key)
            it = self._live(k)
            if it is None:
                continue
            out[key] = (it[0], str(it[2]).encode()) if cas else it[0]
            if touch is not None:
                x = self._exp(touch)
                if x == -1:
                    del self.d[k]
                else:
                    it[1] = x
        return out

    def delete(self, k, n):
        k = self._k(k)
        found = self._live(k) is not None
        self.d.pop(k, None)
        return True if self._nr(n) else found

    def arith(self, inc, k, delta, n):
        k, it = self._k(k), self._live(self._k(k))
        if it is None:
            return None
        if not it[0].isdigit() or int(it[0]) >= 2 ** 64:
            return None if n else "MemcacheClientError"
        cur = int(it[0])
        cur = (cur + delta) % 2 ** 64 if inc else max(0, cur - delta)
        self.ver += 1
        self.d[k] = [str(cur).encode(), it[1], self.ver]
        return None if n else cur

    def touch(self, k, e, n):
        k, it = self._k(k), self._live(self._k(k))
        if it is not None:
            x = self._exp(e)
            if x == -1:
                del self.d[k]
            else:
                it[1] = x
        return True if self._nr(n) else it is not None

    def apply(self, op):
        c = op[0]
        if c == 0:
            return self.store(cs.VERBS[op[1]], op[2], op[3], op[4], op[5])
        if c == 1:
            return self.set_many(op[1], op[2], op[3])
        if c == 2:
            return self.cas(op[1], op[2], op[3], op[4], op[5])
        if c == 3:
            return self.fetch([op[1]], False).get(op[1], op[2])
        if c == 4:
            return self.fetch([op[1]], True).get(op[1], (op[2], op[3]))
        if c == 5:
            return self.fetch([op[1]], False, op[2]).get(op[1], op[3])
        if c == 6:
            return self.fetch([op[1]], True, op[2]).get(op[1], (op[3], op[4]))
        if c in (7, 8):
            return self.fetch(list(op[2]), c == 8)
        if c == 9:
            return self.delete(op[1], op[2])
        if c == 10:
            for k in op[2]:
                self.delete(k, op[3])
            return True
        if c in (11, 12):
            return self.arith(c == 11, op[1], op[2], op[3])
        if c == 13:
            return self.touch(op[1], op[2], op[3])
        if c == 14:
            if op[1] == 0:
                self.d.clear()
            return True
        raise ValueError(op)


KEYS = [b"a", b"b", "c", b"n"]
VALS = [b"v", b"w", b"5", b"18446744073709551615", "txt", 7, b"x\r\ny", b""]


OMIT = "omit"        # the noreply argument is not passed at all: the operation's documented default applies
NOREPLY_AT = {0: 5, 1: 3, 2: 5, 9: 2, 10: 3, 11: 3, 12: 3, 13: 3, 14: 2}
DOCUMENTED_DEFAULT = {2: False, 11: False, 12: False}       # cas, incr, decr wait for their reply unless told otherwise; the others follow default_noreply (None)


def apply_maybe_omitted(cl, op):
    code = op[0]
    if code not in NOREPLY_AT or op[NOREPLY_AT[code]] != OMIT:
        return cs.apply_op(cl, op)
    if code == 0:
        return getattr(cl, cs.VERBS[op[1]])(op[2], op[3], op[4])
    if code == 1:
        return cl.set_many(dict(op[1]), op[2])
    if code == 2:
        return cl.cas(op[1], op[2], op[3], op[4])
    if code == 9:
        return cl.delete(op[1])
    if code == 10:
        return cl.delete_many(list(op[2]))
    if code in (11, 12):
        return (cl.incr if code == 11 else cl.decr)(op[1], op[2])
    if code == 13:
        return cl.touch(op[1], op[2])
    return cl.flush_all(op[1])


def as_documented(op):
    code = op[0]
    if code in NOREPLY_AT and op[NOREPLY_AT[code]] == OMIT:
        i = NOREPLY_AT[code]
        return tuple(op[:i]) + (DOCUMENTED_DEFAULT.get(code),) + tuple(op[i + 1:])
    return op


def random_history(rng, n):
    ops = []
    for _ in range(n):
        r = rng.random()
        k = rng.choice(KEYS)
        nr = rng.choice([None, None, True, False, OMIT, OMIT])
        e = rng.choice([0, 0, 0, 2, 5, -1, 100, REL + 5000])
        if r < 0.1:
            ops.append(("tick", rng.choice([1, 2, 3, 6, 100])))
        elif r < 0.35:
            ops.append((0, rng.randrange(5), k, rng.choice(VALS), e, nr, None))
        elif r < 0.42:
            ops.append((1, list({rng.choice(KEYS): rng.choice(VALS) for _ in range(rng.randrange(1, 4))}.items()), e, nr, None))
        elif r < 0.52:
            ops.append((2, k, rng.choice(VALS), rng.choice([1, 2, 3, b"4", "5", 6, 7, 8]), e, rng.choice([False, False, True, OMIT, OMIT]), None))
        elif r < 0.6:
            ops.append((3, k, b"dflt"))
        elif r < 0.68:
            ops.append((4, k, None, b"cd"))
        elif r < 0.72:
            ops.append((5, k, e, rng.choice([None, b"d5"])))
        elif r < 0.76:
            ops.append((6, k, e, rng.choice([None, b"d6"]), rng.choice([None, b"c6"])))
        elif r < 0.82:
            ops.append((rng.choice([7, 8]), False, rng.sample(KEYS, rng.randrange(0, 4))))
        elif r < 0.87:
            ops.append((9, k, nr))
        elif r < 0.89:
            ops.append((10, False, rng.sample(KEYS, rng.randrange(0, 3)), nr))
        elif r < 0.95:
            ops.append((rng.choice([11, 12]), k, rng.choice([0, 1, 3, 2 ** 64 - 1]), rng.choice([False, False, True, OMIT])))
        elif r < 0.99:
            ops.append((13, k, e, nr))
        else:
            # a delayed flush whose deadline no history reaches: until then nothing changes (Spec/Server.v models no later effect)
            ops.append((14, rng.choice([0, 0, 10 ** 6]), nr))
    return ops


def canon(v):
    if v == "MemcacheClientError":
        return ("e", v)
    return ("o", cs.canon_value(v))


class Aliased:
    """the same client called through its documented aliases (get_multi for get_many, ...)"""
    MAP = {"get_many": "get_multi", "set_many": "set_multi", "delete_many": "delete_multi", "gets_many": "gets_multi"}

    def __init__(self, cl):
        self._cl = cl

    def __getattr__(self, name):
        a = self.MAP.get(name)
        return getattr(self._cl, a if a and hasattr(self._cl, a) else name)


def run_history(stack, c, ops):
    """-> list of (op, got, expected) for the first difference, or None"""
    stack, _, via = stack.partition("+")
    srv = Server(now=1000)
    oracle = AbsMap(1000, c.get("prefix", b""), c.get("default_noreply", True))
    world = cs.World([], [], (), 1, srv.feed)
    server, kw = cs.client_kwargs(c, world)
    if "default_noreply" not in c:
        kw.pop("default_noreply")       # the constructor is not told: every class documents default_noreply=True
    from pymemcache.client.base import Client, PooledClient
    from pymemcache.client.hash import HashClient
    if stack == "Client":
        cl = Client(server, **kw)
    elif stack == "PooledClient":
        cl = PooledClient(server, max_pool_size=2, **kw)
    else:
        cl = HashClient([server], **kw)
    if via == "aliases":
        cl = Aliased(cl)
    for i, op in enumerate(ops):
        if op[0] == "tick":
            srv.now += op[1]
            oracle.now += op[1]
            continue
        world.current_op = i
        try:
            got = ("o", cs.canon_value(apply_maybe_omitted(cl, op)))
        except BaseException as e:  # noqa
            got = ("e", core.exn_name(e))
        exp = canon(oracle.apply(as_documented(op)))
        if stack == "HashClient" and op[0] == 14:
            exp = ("o", cs.canon_value(None))       # HashClient.flush_all is documented to return None
        if got != exp:
            return i, op, got, exp
    return None


def sessions(ctx):
    rng = random.Random(ctx.seed * 43 + 5)
    keys = [b"a", b"b", b"k:1"]
    datas = [b"", b"v", b"5", b"18446744073709551615", b"x\r\ny", b"12ab"]
    out = []
    for _ in range(300 if ctx.quick else 3000):
        evs = []
        for _ in range(rng.randrange(1, 8)):
            if rng.random() < 0.15:
                evs.append(rng.choice([1, 2, 5, 100]))
                continue
            cmds = []
            for _ in range(rng.randrange(1, 3)):
                t = rng.randrange(9)
                k = rng.choice(keys)
                nr = rng.random() < 0.3
                ex = rng.choice([0, 0, 2, 5, -1, 100, REL + 2000])
                if t < 3:
                    name = rng.choice(["set", "add", "replace", "append", "prepend", "cas"])
                    cmds.append((name, k, rng.choice([0, 3]), ex, rng.choice(datas), rng.choice([1, 2, 3, 4]) if name == "cas" else None, nr))
                elif t == 3:
                    cmds.append((rng.choice(["get", "gets"]), tuple(rng.sample(keys, rng.randrange(1, 4)))))
                elif t == 4:
                    cmds.append((rng.choice(["gat", "gats"]), ex, tuple(rng.sample(keys, rng.randrange(1, 3)))))
                elif t == 5:
                    cmds.append(("delete", k, nr))
                elif t == 6:
                    cmds.append((rng.choice(["incr", "decr"]), k, rng.choice([0, 1, 7, 2 ** 64 - 1]), nr))
                elif t == 7:
                    cmds.append(("touch", k, ex, nr))
                else:
                    cmds.append(rng.choice([("flush_all", rng.choice([0, 0, 9]), nr), ("version",)]))
            evs.append(b"".join(render_py(x) for x in cmds))
        out.append(evs)
    return out


def correspondence(ctx):
    dis = []
    sdrv, serr = core.get_driver("D_Server")
    ss = sessions(ctx)
    ns = 0
    if sdrv is None:
        dis.append({"what": "server", "error": "Spec/Server.v driver does not build: %s" % (serr or "")[-300:]})
    else:
        try:
            res = sdrv.call_many([(1, (1000, evs)) for evs in ss])
            for evs, m in zip(ss, res):
                ns += 1
                srv = Server(now=1000)
                replies = []
                for e in evs:
                    if isinstance(e, int):
                        srv.now += e
                    else:
                        replies.append(srv.feed(e))
                dump = sorted((k, v[0], v[1], v[2], v[3]) for k, v in list(srv.d.items()) if srv.live(k))
                exp = (replies, dump, srv.cas)
                got = (list(m[1][0]), sorted(tuple(x) for x in m[1][1]), m[1][2]) if m[0] == "ok" else m
                if got != exp:
                    dis.append({"what": "specification server vs reference server", "session": repr(evs)[:300], "coq": repr(got)[:400], "python": repr(exp)[:400]})
        finally:
            sdrv.close()
    # the Client model vs the real Client on histories, with the reference server's replies
    rng = random.Random(ctx.seed * 47 + 5)
    hk = cs.handler_kinds()
    reqs, impl, cases = [], [], []
    cfgs = [dict(tcp=False, prefix=p, default_noreply=dn, ignore_exc=False) for p in (b"", b"p:") for dn in (False, True)]
    for i in range(250 if ctx.quick else 2500):
        c = cfgs[i % 4]
        ops = [o for o in random_history(rng, rng.randrange(2, 9)) if o[0] != "tick"]
        srv = Server(now=1000)
        r = cs.run_impl(c, ops, [], [], (), None, srv.feed)
        replies = [t[2] for t in r[6].tags]
        impl.append(r)
        cases.append((c, ops))
        reqs.append(cs.model_req(c, ops, [], [], replies, hk))
    model = ctx.driver.call_many(reqs)
    for (c, ops), r, m in zip(cases, impl, model):
        mm = cs.decode_model(m)
        if tuple(r[:3]) != tuple(mm[:3]):
            dis.append({"what": "Client model vs Client", "cfg": repr(c), "ops": repr(ops)[:300], "impl": repr(r[0])[:300], "model": repr(mm[0] if len(mm) > 2 else mm)[:300]})
    return {"evaluations": ns + len(cases), "distinct_nontrivial": ns + len(cases),
            "rule": "Spec/Server.v (extracted) vs harness/refserver.py on %d random sessions (1-7 sendalls of 1-2 rendered commands over 3 keys, clock "
                    "advances in between): every reply byte, the live items and the cas counter; extracted Client model vs the real Client on %d "
                    "histories of 2-8 operations with the reference server's replies: results and socket traces" % (ns, len(cases)),
            "samples": [{"session": repr(x)[:160]} for x in ss[:2]],
            "distribution": {"server_sessions": ns, "client_histories": len(cases)}, "disagreements": dis}


def search(ctx):
    """client + reference server against the independent abstract map, over histories with clock advances"""
    rng = random.Random(ctx.seed * 53 + 5)
    found = []
    n = 0
    cfgs = [dict(tcp=False, prefix=p, default_noreply=dn, ignore_exc=False) for p in (b"", b"p:") for dn in (False, True)]
    cfgs.append(dict(tcp=False, prefix=b"", ignore_exc=False))      # default_noreply left to the class's own (documented) default
    # expiry-changing operations observed after the clock moves: (initial ttl, new ttl, seconds elapsed)
    targeted = []
    for ret in (lambda e: (5, b"a", e, None), lambda e: (6, b"a", e, None, None), lambda e: (13, b"a", e, False), lambda e: (13, b"a", e, True)):
        for t0, e, d in ((3, 50, 10), (50, 2, 5), (0, 3, 5), (3, 0, 10), (5, 5, 3), (100, -1, 0)):
            for obs in ((3, b"a", b"dflt"), (4, b"a", None, None), (7, False, [b"a", b"b"]), (0, 1, b"a", b"new", 0, False, None), (11, b"a", 1, False), (9, b"a", False)):
                targeted.append([(0, 0, b"a", b"5", t0, False, None), ret(e), ("tick", d), obs, (3, b"a", None)])
    # a delayed flush, observed before its deadline: the items are still there (and a flush with delay 0 empties the cache at once)
    for d in (0, 10 ** 6):
        for nr in (None, False, True, OMIT):
            targeted.append([(0, 0, b"a", b"5", 0, False, None), (14, d, nr), ("tick", 3), (3, b"a", b"dflt"), (0, 1, b"a", b"new", 0, False, None), (3, b"a", None)])
    # the miss value of every read with DIFFERENT defaults for the value and the cas token
    targeted.append([(3, b"zz", b"d3"), (4, b"zz", b"d4", b"c4"), (4, b"zz", b"d4", None), (5, b"zz", 9, b"d5"), (6, b"zz", 9, b"d6", b"c6"), (6, b"zz", 9, b"d6", None),
                     (6, b"zz", 9, None, b"c6")])
    nt = len(targeted)
    for i in range(nt + (400 if ctx.quick else 6000)):
        c = cfgs[i % 5]
        ops = targeted[i] if i < nt else random_history(rng, rng.randrange(3, 14))
        for stack in ("Client", "PooledClient", "HashClient", "Client+aliases", "PooledClient+aliases", "HashClient+aliases"):
            if stack != "Client" and i % 3 and i >= nt:      # 3 is coprime to the 5 configurations: the wrappers meet all of them
                continue
            if "+" in stack and not any(o[0] in (1, 7, 8, 10) for o in ops):
                continue
            n += 1
            r = run_history(stack, c, ops)
            if r:
                j, op, got, exp = r
                found.append({"clause": "call %d %r returned %r; a plain map with expiry and cas versions gives %r" % (j, op, got, exp),
                              "input": {"class": stack, "cfg": repr(c), "ops": repr(ops[:j + 1])}, "size": j + 1, "case": repr((stack, c, ops[:j + 1]))})
    ctx.search_summary = {"histories": n}
    found.sort(key=lambda v: v["size"])
    if found:
        stack, c, ops = eval(found[0]["case"])
        changed = True
        while changed and len(ops) > 1:
            changed = False
            for i in range(len(ops) - 1):
                trial = ops[:i] + ops[i + 1:]
                r = run_history(stack, c, trial)
                if r and r[0] == len(trial) - 1:
                    ops, changed = trial, True
                    j, op, got, exp = r
                    found[0] = {"clause": "call %d %r returned %r; a plain map with expiry and cas versions gives %r" % (j, op, got, exp),
                                "input": {"class": stack, "cfg": repr(c), "ops": repr(ops)}, "size": len(ops), "case": repr((stack, c, ops))}
                    break
    return found[:1]


def replay(ctx, obj):
    v = obj.get("violation")
    if not v or not v.get("case"):
        return None
    stack, c, ops = eval(v["case"])
    r = run_history(stack, c, ops)
    print(r or "history agrees with the abstract map")
    return bool(r)
