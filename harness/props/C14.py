"""C14 — murmur3_32 equals the reference MurmurHash3 x86_32."""
import itertools

PROP = "C14"
GEN = ["Murmur3"]
VO = ["Properties/C14.vo", "Extract/D_C14.vo", "Extract/O_C14.vo"]
MODULE = "Properties.C14"
THEOREMS = ["c14_reference", "c14_range"]
DRIVER = "D_C14"
ORACLE = "O_C14"
TRUSTED = [
    "Coq 8.16.1 kernel (coqc, vm_compute for Examples; no native_compute); thorough tier: coqchk",
    "axioms: none (Print Assumptions: Closed under the global context for c14_reference, c14_range)",
    "translator tools/py2coq (sem.py typed-Z mode, gen.py:gen_murmur3) and PM.Lib.Py rendering of len/ord/indexing/range/int operators",
    "Spec.MurmurRef = Appleby's MurmurHash3_x86_32 on 32-bit words, validated by 21 published vectors (Examples)",
    "extraction: ExtrOcamlBasic only (bool, option, unit, list, prod, sumbool); Z/positive stay inductive; no Extract Constant; coq/Extract/ocaml/driver.ml",
]
ASSUMPTIONS = [
    "Python int arithmetic is unbounded Z; str is a list of code points; ord(s[i]) is the code point",
    "c14_reference assumes len(data) < 2^32 (the source masks the length with 0xFFFFFFFC)",
]
ALPHA = [0x00, 0x41, 0x7F, 0x80, 0xFF, 0x1234]
SEEDS = [0, 1, 2 ** 31, 2 ** 32 - 1]
ODD_SEEDS = [-1, 2 ** 40 + 7]


def impl():
    from pymemcache.client.murmur3 import murmur3_32
    return murmur3_32


def call_impl(f, s, seed):
    from harness.core import exn_name
    try:
        return ("ok", f(s, seed))
    except BaseException as e:   # noqa
        return ("ex", exn_name(e))


def cases(ctx):
    out = []
    # pairs whose TEXT runs together to the same string (data followed by the seed's digits): the hash is a function of the pair,
    # whatever was hashed before (a result remembered under data + str(seed) would answer the second of each pair with the first's)
    for d, sd in (("k", 10), ("key-4", 2), ("abcd", 4294967295), ("", 123), ("7", 7), ("a-x", 10)):
        digits = str(sd)
        for j in range(1, len(digits) + 1):
            d2, s2 = d + digits[:j], digits[j:]
            if s2 == "" or (len(s2) > 1 and s2[0] == "0"):
                continue
            out += [(d, sd), (d2, int(s2))]
        out += [(d + digits[:1], 0), (d, sd)] if len(digits) > 1 and digits[1:] == "0" else []
    for n in range(0, 4):
        for t in itertools.product(ALPHA, repeat=n):
            s = "".join(map(chr, t))
            for seed in SEEDS + (ODD_SEEDS if n <= 2 else []):
                out.append((s, seed))
    # whole 4-byte blocks with special values (all zero, all ones, a lone high bit at either end) at every block position, with every tail length
    words = ["\x00\x00\x00\x00", "\xff\xff\xff\xff", "\x00\x00\x00\x80", "\x80\x00\x00\x00", "AAAA"]
    for nb in (1, 2, 3):
        for t in itertools.product(words, repeat=nb):
            for tail in ("", "\x00", "A\x00", "\x00\x00\x00"):
                out.append(("".join(t) + tail, SEEDS[(nb + len(tail)) % len(SEEDS)]))
    nrand = 400 if ctx.quick else 6000
    for _ in range(nrand):
        n = ctx.rng.randrange(0, 65)
        mode = ctx.rng.random()
        hi = 256 if mode < 0.8 else 0x110000
        s = "".join(chr(ctx.rng.randrange(0, hi)) for _ in range(n))
        s = s.encode("utf-16", "surrogatepass").decode("utf-16", "surrogatepass")
        seed = ctx.rng.choice(SEEDS + [ctx.rng.randrange(0, 2 ** 32), ctx.rng.randrange(-2 ** 33, 2 ** 65)])
        out.append((s, seed))
    for n in (255, 256, 257, 1023, 4099):
        out.append(("".join(chr(ctx.rng.randrange(0, 256)) for _ in range(n)), ctx.rng.randrange(0, 2 ** 32)))
    return out


def correspondence(ctx):
    f = impl()
    cs = cases(ctx)
    model = ctx.driver.call_many([(1, (s, seed)) for s, seed in cs]) if ctx.driver else []
    dis = []
    for (s, seed), m in zip(cs, model):
        r = call_impl(f, s, seed)
        if r != m:
            dis.append({"data": [ord(c) for c in s], "seed": seed, "impl": r, "model": m})
    distinct = len({(s, seed) for s, seed in cs if len(s) >= 1})
    return {"evaluations": len(cs), "distinct_nontrivial": distinct,
            "rule": "generated Gallina murmur3_32 (extracted) vs Python murmur3_32: all strings of length <= 3 over "
                    "{00,41,7F,80,FF,U+1234} x seeds {0,1,2^31,2^32-1,(-1,2^40+7)}, 1-3 blocks of special words (zero, ones, lone high bit) x 4 tails, random lengths 0..64 (80% Latin-1, "
                    "20% any code point) with 32-bit and out-of-range seeds, lengths 255..4099; non-trivial = non-empty string",
            "samples": [{"data": [ord(c) for c in s], "seed": seed, "result": m} for (s, seed), m in list(zip(cs, model))[300:304]],
            "distribution": {"lengths": {str(k): sum(1 for s, _ in cs if len(s) == k) for k in (0, 1, 2, 3)},
                             "longer": sum(1 for s, _ in cs if len(s) > 3),
                             "non_latin1": sum(1 for s, _ in cs if any(ord(c) > 255 for c in s))},
            "disagreements": dis, "exhaustive": False}


def search(ctx):
    """Implementation vs the extracted reference (Spec.MurmurRef) on bytes-like strings and 32-bit seeds;
    range/determinism for everything else."""
    f = impl()
    cs = cases(ctx)
    found = []
    latin = [(s, seed) for s, seed in cs if all(ord(c) < 256 for c in s) and 0 <= seed < 2 ** 32]
    ref = ctx.oracle.call_many([(2, (s, seed)) for s, seed in latin])
    bad = []
    prev = None
    for (s, seed), r in zip(latin, ref):
        got = call_impl(f, s, seed)
        if got != r:
            bad.append({"input": {"data": [ord(c) for c in s], "seed": seed}, "observed": got, "expected": r,
                        "oracle": "Spec.MurmurRef.murmur3_x86_32 (extracted)",
                        "called_just_before": None if prev is None else {"data": [ord(c) for c in prev[0]], "seed": prev[1]}})
        prev = (s, seed)
    if bad:
        found.append(min(bad, key=lambda b: (len(b["input"]["data"]), b["input"]["seed"])))   # smallest failing input
    for s, seed in cs:
        got = call_impl(f, s, seed)
        if got[0] != "ok" or not isinstance(got[1], int) or not (0 <= got[1] < 2 ** 32) or call_impl(f, s, seed) != got:
            found.append({"input": {"data": [ord(c) for c in s], "seed": seed}, "observed": got,
                          "expected": "a deterministic value in [0, 2^32)"})
            break
    # strings with code points above 255: the published algorithm is silent; "does not change between releases" makes the pinned
    # release's own values the reference (corpus/murmur3_release_pins.json, written once from the commit under verification)
    import json
    import os
    pins = json.load(open(os.path.join(os.path.dirname(__file__), "..", "..", "corpus", "murmur3_release_pins.json")))["pins"]
    for pin in pins:
        got = call_impl(f, "".join(map(chr, pin["data"])), pin["seed"])
        if got != ("ok", pin["value"]) and list(got) != ["ok", pin["value"]]:
            found.append({"input": {"data": pin["data"], "seed": pin["seed"]}, "observed": got, "expected": ["ok", pin["value"]],
                          "oracle": "the value computed by the pinned release for this non-byte string (placement must not change between releases)"})
            break
    ctx.search_summary = {"reference_comparisons": len(latin), "range_checks": len(cs), "release_pins": len(pins)}
    return found


def replay(ctx, obj):
    v = obj.get("violation")
    if not v:
        return None
    f = impl()
    s = "".join(map(chr, v["input"]["data"]))
    if v.get("called_just_before"):      # the call made just before it in the search (a value that depends on it is a finding in itself)
        call_impl(f, "".join(map(chr, v["called_just_before"]["data"])), v["called_just_before"]["seed"])
    got = call_impl(f, s, v["input"]["seed"])
    print("input", v["input"], "observed", got, "expected", v["expected"])
    exp = v["expected"]
    if isinstance(exp, (list, tuple)):
        return list(got) != list(exp)
    return not (got[0] == "ok" and 0 <= got[1] < 2 ** 32)

TECHNIQUE = "Coq proof about the Gallina translation of murmur3.py regenerated every run (equality with a word-level MurmurHash3 reference for all inputs), plus extracted-model/implementation differential run"
LEVEL_TEXT = ("Theorems c14_reference (all Latin-1 strings shorter than 2^32, all 32-bit seeds: equal to Appleby's "
              "MurmurHash3_x86_32) and c14_range (every string, every integer seed: total and 32-bit) are proved about the "
              "model that tools/py2coq regenerates from murmur3.py on every run; the generated model is also executed "
              "against the Python function. A universal statement over all byte strings is out of reach of tests.")
LEVEL_NOTE = ("Trusted: Coq kernel; the translator and PM.Lib.Py's rendering of Python int/str primitives; the reference "
              "spec (21 published vectors); extraction (ExtrOcamlBasic) and the OCaml driver for the differential run. "
              "No axioms (Closed under the global context).")
