"""C08 — pooled connections are never shared between threads."""
import itertools
import random

from harness import core
from harness.sched import Sched, CoopLock

PROP = "C08"
GEN = ["PoolLocks", "Wrappers"]
VO = ["Properties/C08.vo", "Extract/D_PoolConc.vo"]
MODULE = "Properties.C08"
THEOREMS = ["c08_reachable", "c08_step", "c08_one_holder", "c08_no_duplicates", "c08_capacity", "c08_final_accounting", "c08_progress",
            "c08_exhaustion", "c08_reduction", "c08_lock_discipline"]
DRIVER = "D_PoolConc"
TECHNIQUE = ("Coq proof: an inductive invariant of the object pool under any number of threads, any programs and any schedule at "
             "locked-block granularity (one holder per connection, no duplicates, capacity, exactly-once closing, progress); a generic "
             "reduction theorem (lock => its block is atomic); the lock discipline of pool.py read from source each run; the atomic "
             "model tied to the code by running the real pool under a deterministic line/opcode-level scheduler")
LEVEL_TEXT = ("c08_reachable/c08_step: the invariant holds in every state reachable under every schedule, for unboundedly many threads "
              "and operations; c08_one_holder, c08_no_duplicates, c08_capacity, c08_final_accounting, c08_progress, c08_exhaustion: its "
              "consequences (at most one holder; the lists never share or repeat an object nor exceed max_size; when all threads are done "
              "every created object is idle in the pool or was closed exactly once; an unfinished thread can always move; the only "
              "checkout failure is exhaustion); c08_reduction: for any program whose shared accesses lie inside one lock's blocks, "
              "states reachable by interleaving single accesses satisfy every invariant of the block-atomic semantics whenever the "
              "lock is free; c08_lock_discipline: every access to the two deques in pool.py is under `with self._lock`.")
LEVEL_NOTE = ("Trusted: Coq kernel; CPython's atomicity of one deque operation and of the lock; the hand-written atomic model's "
              "correspondence with pool.py (every interleaving explored by the scheduler must end in an outcome of the model; bounded "
              "preemptions); the structural extractor gen_poollocks. The reduction theorem is generic: its instantiation to pool.py "
              "rests on c08_lock_discipline, not on a translated micro-step program. idle_timeout = 0. No axioms.")
TRUSTED = ["Coq 8.16.1 kernel; no axioms",
           "hand-written model coq/Model/PoolConc.v tied to pymemcache/pool.py by this check's scheduler runs",
           "harness/sched.py (sys.settrace line/opcode scheduler, cooperative lock through the lock_generator seam)",
           "tools/py2coq/gen_more.py:gen_poollocks, gen_wrappers (every PooledClient method brackets its use in get_and_release)",
           "extraction: ExtrOcamlBasic only; coq/Extract/ocaml/driver.ml"]
ASSUMPTIONS = ["single deque operations and threading.Lock are atomic (CPython)", "threads release or destroy only what they checked out (get_and_release)",
               "the concurrent MODEL has idle_timeout = 0; idle expiry under interleavings is searched on the implementation only (its sequential semantics are C09's theorems)"]


class Boom(Exception):
    pass


class Stop(BaseException):
    pass


def run_pool(max_size, progs, plan, opcodes=False, pooled=False, yield_points=False, idle=0):
    """-> (status, outcome, problems, steps, trace)"""
    import pymemcache.pool as pool_mod
    import pymemcache.client.base as base_mod
    created, closed, inuse, problems, cur_op = [], [], set(), [], {}
    exhausted = [0] * len(progs)
    s = Sched([pool_mod.__file__] + ([base_mod.__file__] if pooled else []), plan, opcodes, yield_points=yield_points)
    CoopLock.sched = s

    class Obj:
        def __init__(self, *a, **k):
            self.id = len(created)
            created.append(self)

        def get(self, key, default=None):
            if self.id in inuse:
                problems.append("connection %d is used by two threads at once" % self.id)
            inuse.add(self.id)
            s.point("socket call")
            inuse.discard(self.id)
            if key == b"boom":
                raise Boom()
            if key == b"stop":
                raise Stop()        # an interruption that is not an Exception (gevent.Timeout, GreenletExit, KeyboardInterrupt)
            return b"v"

        def quit(self):
            self.get(b"k")

        def close(self):
            # close() / clear() closes every connection whoever holds it: that is what it is for; any other close of a connection that
            # some thread is in the middle of using means it was handed to two threads
            if self.id in inuse and cur_op.get(s.me()) != 2:
                problems.append("connection %d was closed while another thread was using it" % self.id)
            closed.append(self.id)
    if pooled:
        pc = base_mod.PooledClient(("h", 1), max_pool_size=max_size, lock_generator=CoopLock, pool_idle_timeout=idle)
        pc.client_class = Obj
        pool = pc.client_pool
    else:
        pool = pool_mod.ObjectPool(Obj, after_remove=lambda o: closed.append(o.id), max_size=max_size, lock_generator=CoopLock, idle_timeout=idle)
    if idle:
        # a clock that jumps past the idle timeout at every reading: every checkout finds the idle objects expired
        ticks = [0]

        def fake_clock():
            ticks[0] += 10 * idle
            return ticks[0]
        pool._idle_clock = fake_clock

    def body(tid, prog):
        def f():
            for a in prog:
                cur_op[tid] = a
                try:
                    if a == 2:
                        (pc.close() if pooled else pool.clear())
                    elif a == 3 and pooled:
                        pc.quit()           # use, then discard the connection whatever happened
                    elif a == 3:
                        with pool.get_and_release(destroy_on_fail=True) as o:
                            try:
                                o.get(b"k")
                            finally:
                                pool.destroy(o)
                    elif a == 5:
                        # the pool used directly, with the default destroy_on_fail=False: a failing body gives the object back
                        with pool.get_and_release() as o:
                            o.get(b"boom")
                    elif pooled:
                        pc.get({1: b"boom", 4: b"stop"}.get(a, b"k"))
                    else:
                        with pool.get_and_release(destroy_on_fail=True) as o:
                            o.get({1: b"boom", 4: b"stop"}.get(a, b"k"))
                except (Boom, Stop):
                    pass
                except RuntimeError as e:
                    if "Too many objects" in str(e):
                        exhausted[tid] += 1
                    else:
                        problems.append("thread %d: internal error %r" % (tid, e))
                except BaseException as e:  # noqa
                    problems.append("thread %d: internal error %s: %s" % (tid, type(e).__name__, e))
        return f
    status, errors = s.run([body(i, p) for i, p in enumerate(progs)])
    for tid, e in errors.items():
        problems.append("thread %d died: %r" % (tid, e))
    free = [o.id for o in pool._free_objs]
    used = [o.id for o in pool._used_objs]
    if status != "OK":
        problems.append("schedule ends in %s" % status)
    if len(set(free + used)) != len(free + used):
        problems.append("the pool lists an object twice: free=%r used=%r" % (free, used))
    if len(free) + len(used) > max_size:
        problems.append("the pool holds %d objects, max_size=%d" % (len(free) + len(used), max_size))
    if status == "OK":
        if used:
            problems.append("all threads are done and %r are still checked out" % (used,))
        for o in created:
            c = closed.count(o.id)
            if not ((o.id in free and c == 0) or (o.id not in free and c == 1)):
                problems.append("object %d: in pool=%s, closed %d times" % (o.id, o.id in free, c))
    outcome = (free, sorted(closed), exhausted, len(created), used)
    return status, outcome, problems, s.steps, s.trace


def model_outcomes(ctx, max_size, progs, memo={}):
    key = (max_size, repr(progs))
    if key not in memo:
        # quit (3) = use, then destroy; interrupted use (4): for the pool exactly what use-and-fail (1) does
        # use-and-fail under destroy_on_fail=False (5): the object goes back to the pool, as after a successful use (0)
        r = ctx.driver.call(1, max_size, [[1 if a in (3, 4) else 0 if a == 5 else a for a in p] for p in progs], 80)
        if r[0] != "ok":
            raise RuntimeError("model error %r" % (r,))
        memo[key] = {(tuple(f), tuple(sorted(c)), tuple(e), n, tuple(u)) for f, c, e, n, u in r[1]}
    return memo[key]


SCENARIOS = [(1, [[0], [0]]), (1, [[0], [1]]), (1, [[1], [1]]), (2, [[0, 0], [0]]), (2, [[0], [1], [0]]), (1, [[0], [2]]), (2, [[1], [2]]), (2, [[0, 2], [0]]),
             (1, [[0, 0], [0, 1]]), (2, [[0], [0], [0]]), (2, [[1, 0], [2, 0]]), (3, [[0], [0], [1]]), (1, [[0, 1, 0], [2]]), (2, [[0, 0, 0], [1, 1]]),
             (1, [[3], [0]]), (2, [[3, 0], [0]]), (2, [[0], [3], [0]]), (1, [[4], [0]]), (2, [[4, 0], [0]]), (2, [[0], [4], [1]]),
             (1, [[5], [0]]), (2, [[5, 0], [0]]), (2, [[5], [0], [0]]), (2, [[5, 5], [1]])]


EXHAUSTIVE_PAIRS = [(2, [[5, 0], [0]])]


def plans_for(n, bound, rng, limit):
    out = [()]
    out += [(k,) for k in range(n)]
    if bound >= 2:
        pairs = list(itertools.combinations(range(n), 2))
        if len(pairs) > limit:
            pairs = rng.sample(pairs, limit)
        out += pairs
    if bound >= 3:
        out += [tuple(sorted(rng.sample(range(n), 3))) for _ in range(limit // 2)] if n >= 3 else []
    return out


def explore(ctx, check):
    """drive `check(scenario, plan, opcodes, pooled, result)` over the exploration (runs are shared between correspondence and search)"""
    if getattr(ctx, "c08_runs", None) is not None:
        n = 0
        for args, r in ctx.c08_runs:
            n += 1
            if check(*args, r):
                break
        return n
    ctx.c08_runs = []
    rng = random.Random(ctx.seed * 83 + 8)
    n = 0
    for max_size, progs in SCENARIOS:
        for pooled in (False, True):
            if pooled and any(5 in p for p in progs):
                continue            # PooledClient always asks for destroy_on_fail=True
            for opcodes in (False, True):
                if opcodes and (pooled or len(progs) > 2) and ctx.quick:
                    continue
                base = run_pool(max_size, progs, (), opcodes, pooled)
                steps = base[3]
                limit = (40 if ctx.quick else 600) if not opcodes else (0 if ctx.quick else 200)
                if (max_size, progs) in EXHAUSTIVE_PAIRS and not opcodes and not pooled:
                    limit = 10 ** 9         # every pair of preemption points (the double hand-out needs two well-placed ones)
                bound = 2 if (not opcodes or not ctx.quick) else 1
                plans = plans_for(steps + 2, bound if limit else 1, rng, limit)
                if opcodes and ctx.quick:
                    plans = plans[::3]
                for plan in plans:
                    n += 1
                    r = run_pool(max_size, progs, plan, opcodes, pooled)
                    ctx.c08_runs.append((((max_size, progs), plan, opcodes, pooled), r))
                    check((max_size, progs), plan, opcodes, pooled, r)
                    if len(plan) <= 1 and not opcodes and (pooled or not ctx.quick):
                        # the same plan with blocking socket calls: a thread inside its socket call lets the others run
                        n += 1
                        r = run_pool(max_size, progs, plan, opcodes, pooled, True)
                        ctx.c08_runs.append((((max_size, progs), plan + ("yield",), opcodes, pooled), r))
                        check((max_size, progs), plan + ("yield",), opcodes, pooled, r)
    return n


def correspondence(ctx):
    dis = []
    seen = {}

    def check(sc, plan, opcodes, pooled, r):
        status, outcome, problems, steps, trace = r
        if status != "OK":
            return False
        outs = model_outcomes(ctx, sc[0], sc[1])
        o = (tuple(outcome[0]), tuple(outcome[1]), tuple(outcome[2]), outcome[3], tuple(outcome[4]))
        seen.setdefault((sc[0], repr(sc[1])), set()).add(o)
        if o not in outs:
            dis.append({"scenario": repr(sc), "class": "PooledClient" if pooled else "ObjectPool", "granularity": "opcode" if opcodes else "line",
                        "preempt_at": [x for x in plan if x != "yield"], "socket_calls_block": "yield" in plan, "impl_outcome": repr(outcome), "model_outcomes": repr(sorted(outs))[:400]})
            return len(dis) >= 5
        return False
    n = explore(ctx, check)
    reached = sum(len(v) for v in seen.values())
    total = sum(len(model_outcomes(ctx, m, p)) for m, p in SCENARIOS)
    return {"evaluations": n, "distinct_nontrivial": n - 4 * len(SCENARIOS),
            "rule": "the real ObjectPool and PooledClient (stub connections) under the deterministic scheduler: %d scenarios of 2-3 threads with 1-3 "
                    "operations (use, use-and-fail, clear, quit), every single preemption point and sampled pairs of preemption points at source-line "
                    "granularity (and at bytecode-instruction granularity in the thorough tier / for 2-thread ObjectPool scenarios), lock contention "
                    "resolved by the scheduler; each run's final outcome (idle list in order, closed objects, exhaustion count per thread, objects "
                    "created, still checked out) must be one of the outcomes the Coq model reaches under SOME schedule (exhaustive in the model). "
                    "Model outcomes reached by the implementation runs: %d of %d" % (len(SCENARIOS), reached, total),
            "samples": [{"scenario": repr(s)} for s in SCENARIOS[:3]],
            "distribution": {"runs": n, "model_outcomes": total, "model_outcomes_reached": reached}, "disagreements": dis}


def search(ctx):
    found = []

    def check(sc, plan, opcodes, pooled, r):
        status, outcome, problems, steps, trace = r
        if problems:
            found.append({"clause": problems[0], "input": {"class": "PooledClient" if pooled else "ObjectPool", "max_size": sc[0], "programs": repr(sc[1]),
                                                            "granularity": "opcode" if opcodes else "line", "preempt_at_steps": [x for x in plan if x not in ("yield", "idle")], "pool_idle_timeout": 5 if "idle" in plan else 0,
                                                            "socket_calls_block": "yield" in plan},
                          "observed": repr(outcome), "schedule": [(t, w[1:]) for t, w in trace][:80], "size": len([x for x in plan if x not in ("yield", "idle")]) * 1000 + steps,
                          "case": repr((sc, plan, opcodes, pooled))})
            return len(found) >= 8
        return False
    n = explore(ctx, check)
    # the same accounting with pool_idle_timeout set and every idle object expired at every checkout (no model behind these runs:
    # the concurrent model has no clock; the sequential one is C09's)
    rng = random.Random(ctx.seed * 89 + 8)
    ni = 0
    for sc in [(2, [[0, 0], [0]]), (2, [[0], [0], [0]]), (1, [[0, 1], [0]]), (3, [[0, 0, 0], [1, 0]])]:
        for pooled in (False, True):
            base = run_pool(sc[0], sc[1], (), False, pooled, False, 5)
            for plan in plans_for(base[3] + 2, 2, rng, 25 if ctx.quick else 300):
                ni += 1
                r = run_pool(sc[0], sc[1], plan, False, pooled, False, 5)
                if check(sc, plan + ("idle",), False, pooled, r):
                    break
    ctx.search_summary = {"interleavings_run": n, "with_idle_expiry": ni}
    found.sort(key=lambda v: v["size"])
    return found[:1]


def replay(ctx, obj):
    v = obj.get("violation")
    if not v or not v.get("case"):
        return None
    sc, plan, opcodes, pooled = eval(v["case"])
    r = run_pool(sc[0], sc[1], tuple(x for x in plan if x not in ("yield", "idle")), opcodes, pooled, "yield" in plan, 5 if "idle" in plan else 0)
    print(r[0], r[1], r[2])
    return bool(r[2])
