"""C13 — HashClient failover: bounded probing, eviction, rerouting, recovery."""
import itertools

from harness import hashsim as hs
from harness.clientsim import TAGS

PROP = "C13"
GEN = []
VO = ["Properties/C13.vo", "Extract/D_Hash.vo", "Extract/O_C13.vo"]
MODULE = "Properties.C13"
THEOREMS = ["c13_windows", "c13_evictions", "c13_never_failed", "c13_escapes", "c13_revival", "c13_rotation_restored", "c13_check_time_bound", "c13_two_periods", "c13_two_periods_all", "c13_no_bypass", "c13_retry_window", "c13_not_evicted_by_one", "c13_eviction_clean", "c13_eviction_contact"]
DRIVER = "D_Hash"
ORACLE = "O_C13"
TECHNIQUE = ("Coq proof on a hand-written Gallina model of HashClient: the probing bounds for every history of key-addressed calls "
             "(an invariant coupling each server's failure/eviction record with its contact log, linked to the executable oracle "
             "windows_ok), plus the per-call decision rules (no contact inside the retry window, one failure does not evict, "
             "eviction is clean, healthy servers are never bypassed); model tied to the code by a differential run with a virtual "
             "clock; the same oracle and the remaining clauses are checked on the real class")
LEVEL_TEXT = ("c13_windows: for every placement function that returns nodes in rotation, every configuration with retry_attempts >= 0 "
              "and retry_timeout < dead_timeout, every set of servers, every non-decreasing clock script, every outcome script of "
              "successes and OSError-class failures and every history of single-key commands, set_many, get_many/gets_many, "
              "delete_many and ticks (unbounded length), the contact log of EVERY server passes Spec.Failover.windows_ok: at most 2 failing contacts in any "
              "retry_timeout window and at most retry_attempts+2 in any dead_timeout window. c13_evictions: in every such history each "
              "eviction of a server (retries configured) came after at least two failing contacts of it in a row. c13_never_failed: "
              "in every such history a server without a failing contact has no failure record, is not evicted and is still in "
              "rotation (so, by c13_no_bypass, it is contacted by every call placed on it). c13_escapes: in every such history with "
              "valid keys every call returns a value or - only without ignore_exc - raises an OSError-class error or MemcacheError "
              "(all servers down): never a KeyError/ValueError of the failover tables. Proved for every state: c13_no_bypass, "
              "c13_retry_window, c13_not_evicted_by_one, c13_eviction_clean (no KeyError/ValueError, only the evicted server "
              "changes), c13_eviction_contact. c13_revival + c13_rotation_restored: the call that finds the "
              "dead-server check due and every evicted server out for more than dead_timeout empties the eviction table, and "
              "whenever that table is empty the rotation is exactly the set of servers the client started with. c13_check_time_bound, "
              "c13_two_periods, c13_two_periods_all: in every state of every history the last check time is at most dead_timeout later "
              "than the eviction time of every server still evicted, so the first key-addressed call whose clock reading is later than "
              "eviction + 2 * dead_timeout revives that server, and when that holds of all evicted servers the rotation is the original "
              "one ('within two dead_timeout periods of traffic'). The search on the real class runs "
              "the same oracle and clauses (blip episodes, random long histories, recovery probes).")
LEVEL_NOTE = ("Trusted: Coq kernel; hand model's correspondence with hash.py (random histories of key-addressed calls, clock "
              "advances and failing/recovering servers: results, contact log, hasher nodes, failure/dead tables compared). "
              "'Failing' means raising an OSError-family error (the only errors the mechanism counts). No axioms.")
TRUSTED = ["Coq 8.16.1 kernel; no axioms",
           "hand-written model coq/Model/Hash.v tied to pymemcache/client/hash.py by this check's correspondence run",
           "Spec/Failover.v is the written meaning of the probing bounds (extracted and run on the real contact log)",
           "extraction: ExtrOcamlBasic only; coq/Extract/ocaml/driver.ml"]
ASSUMPTIONS = ["retry_timeout < dead_timeout", "a failing server raises an OSError-family error; non-key-addressed calls (flush_all, stats, quit, close) are outside the statement",
               "the clock does not go back (time.time() readings non-decreasing)",
               "inner calls succeed or raise an OSError-class error (c13_windows' outcome hypothesis)"]

SERVERS = [("10.0.0.1", 11211), ("10.0.0.2", 11211), ("10.0.0.3", 11211)]
KEYS = ["k%d" % i for i in range(8)]
# the same histories over socket-path servers (and a mix): a server is then named by a str, not a (host, port) pair
UNIX_SERVERS = ["/var/run/mc-a.sock", "/var/run/mc-b.sock", ("10.0.0.3", 11211)]


def pick(nserv):
    """nserv: a number (that many TCP servers) or ('u', number) (socket-path servers first)"""
    return SERVERS[:nserv] if isinstance(nserv, int) else UNIX_SERVERS[:nserv[1]]


def history(rng, nserv, length):
    """events: ('op', kind, key) | ('adv', dt) | ('fail', i) | ('heal', i)"""
    ev = []
    for _ in range(length):
        r = rng.random()
        if r < 0.55:
            ev.append(("op", rng.choice(["get", "set", "set_many", "get_many", "delete"]), rng.sample(KEYS, 3)))
        elif r < 0.8:
            ev.append(("adv", rng.choice([0, 1, 2, 4, 6, 11, 31, 61])))
        elif r < 0.92:
            ev.append(("fail", rng.randrange(nserv), rng.choice(["refused", "refused", "timeout", "unreachable", "reset"])))
        else:
            ev.append(("heal", rng.randrange(nserv)))
    return ev


def run_history(cfg, servers, events):
    """Drive the real HashClient with per-server up/down switches; returns contact log per server, escapes, final state"""
    import pymemcache.client.hash as H
    ra, rt, dt, ign = cfg
    clock = hs.VClock([], 0)
    down = {}
    contacts = {hs.server_name(s): [] for s in servers}

    class Inner:
        def __init__(self, server, **kw):
            self.server = server
            self.name = hs.server_name(server)

        def _do(self, result):
            ok = not down.get(self.name)
            contacts[self.name].append((clock.last, ok))
            if down.get(self.name) == "refuse-once":
                # a HEALTHY server turning one request down at the protocol level (CLIENT_ERROR: incr on a non-numeric value): not a failure
                down[self.name] = False
                contacts[self.name][-1] = (clock.last, True)
                from pymemcache.exceptions import MemcacheClientError
                raise MemcacheClientError(b"cannot increment or decrement non-numeric value")
            if not ok:
                # a server can fail in more than one way; every OSError-family error counts
                how = down.get(self.name)
                if how == "timeout":
                    import socket as _s
                    raise _s.timeout("timed out")
                if how == "unreachable":
                    raise OSError(113, "No route to host")
                if how == "reset":
                    raise ConnectionResetError(104, "reset")
                raise ConnectionRefusedError("down")
            return result

        def get(self, key, default=None, **k):
            return self._do(b"v")

        def set(self, key, value, *a, **k):
            return self._do(True)

        def delete(self, key, *a, **k):
            return self._do(True)

        def set_many(self, values, *a, **k):
            return self._do([])

        def get_many(self, keys, *a, **k):
            return self._do({k: b"v" for k in keys})

        def close(self):
            pass

    class HC(H.HashClient):
        client_class = Inner
    saved = H.time
    H.time = clock
    escapes = []
    bypass = []
    evictions = []
    try:
        hc = HC(servers, retry_attempts=ra, retry_timeout=rt, dead_timeout=dt, ignore_exc=ign)
        ever_failed = set()
        from pymemcache.client.rendezvous import RendezvousHash
        full = RendezvousHash([hs.server_name(s) for s in servers])
        for i, e in enumerate(events):
            if e[0] == "adv":
                clock.last += e[1]
            elif e[0] == "fail":
                down[hs.server_name(servers[e[1]])] = e[2] if len(e) > 2 else True
                ever_failed.add(hs.server_name(servers[e[1]]))
            elif e[0] == "heal":
                down[hs.server_name(servers[e[1]])] = False
            elif e[0] == "refuse":
                down[hs.server_name(servers[e[1]])] = "refuse-once"
            else:
                _, kind, keys = e
                before = {n: len(c) for n, c in contacts.items()}
                nodes_before = list(hc.hasher.nodes)
                raised = False
                try:
                    if kind == "get":
                        hc.get(keys[0])
                    elif kind == "set":
                        hc.set(keys[0], b"v")
                    elif kind == "delete":
                        hc.delete(keys[0])
                    elif kind == "set_many":
                        hc.set_many({k: b"v" for k in keys})
                    else:
                        hc.get_many(keys)
                except BaseException as ex:  # noqa
                    from pymemcache.exceptions import MemcacheError, MemcacheClientError
                    kindx = "server" if isinstance(ex, OSError) else ("all-down" if type(ex) is MemcacheError else "internal:" + type(ex).__name__)
                    if isinstance(ex, MemcacheClientError) and not ign:
                        kindx = "server"        # the server's own refusal of this request, handed to the caller
                    escapes.append((i, kindx, ign))
                    raised = True
                for n in nodes_before:
                    if n not in hc.hasher.nodes:
                        log = contacts[n][:before[n]]
                        k = 0
                        while k < len(log) and not log[-1 - k][1]:
                            k += 1
                        evictions.append((i, n, k))
                used = [] if raised else keys if kind in ("set_many", "get_many") else keys[:1]
                for k in used:
                    own = full.get_node(k)
                    if own not in ever_failed and len(contacts[own]) == before[own]:
                        bypass.append((i, k, own))
        run_history.extra = (evictions, bypass)
        return contacts, escapes, sorted(hc.hasher.nodes), dict(hc._dead_clients), clock.last
    finally:
        H.time = saved


def correspondence(ctx):
    from harness.props import C12
    n = 1200 if ctx.quick else 15000
    cases = [C12.rand_case(ctx.rng, failures=True) for _ in range(n)]
    # shorter dead_timeout / more clock movement so that evictions and revivals happen
    model = ctx.driver.call_many([hs.model_req(*c) for c in cases])
    dis = []
    evicts = revives = 0
    for c, m in zip(cases, model):
        r = hs.run_impl(*c)
        mm = hs.decode_model(m)
        evicts += sum(1 for e in r[5] if e[0] == 1)
        revives += sum(1 for e in r[5] if e[0] == 2)
        if tuple(r) != tuple(mm):
            d = {"case": repr(c)[:600]}
            for i, (a, b) in enumerate(zip(r, mm)):
                if a != b:
                    d["field %d" % i] = {"impl": repr(a)[:300], "model": repr(b)[:300]}
            dis.append(d)
    return {"evaluations": n, "distinct_nontrivial": len({repr(c) for c in cases if any(isinstance(o, tuple) and len(o) == 1 for o in c[4])}),
            "rule": "extracted HashClient model vs the real class (client_class seam, virtual clock): random histories of 1..9 "
                    "key-addressed calls over 1..5 servers with connection errors, other errors, clock advances of 0..61 s, "
                    "retry_attempts 0..2, retry_timeout {1,5}, dead_timeout {10,60}, ignore_exc on/off; results, contact log with "
                    "times, evictions/revivals, hasher nodes, _failed_clients, _dead_clients, _last_dead_check_time compared",
            "samples": [{"cfg": repr(c[0]), "servers": repr(c[1]), "ops": repr(c[5])[:160]} for c in cases[5:8]],
            "distribution": {"evictions_seen": evicts, "revivals_seen": revives}, "disagreements": dis}


def real_clients_probe(ctx):
    """The same bounds with REAL inner clients (Client / PooledClient over scripted sockets) instead of stubs at the client_class seam:
    what HashClient hands its inner clients (e.g. ignore_exc) can hide a server's failures from the failover bookkeeping.  One server is
    down (it refuses connections and resets the ones it had); a key it owns is read / written once a second."""
    import pymemcache.client.hash as H
    from pymemcache.client.hash import HashClient
    from harness import clientsim as cs
    from harness.refserver import Server
    found, n = [], 0
    servers = [("10.0.0.1", 11211), ("10.0.0.2", 11211)]
    for ign in (False, True):
        for pooling in (False, True):
            for ra in (0, 1, 2):
                for opname in ("get", "set", "get_many", "set_many", "delete"):
                    n += 1
                    world = cs.World([], [], (), 1)
                    nodes = {}
                    world.addr_peer = lambda remote, data: nodes.setdefault(remote, Server()).feed(data)
                    clock = hs.VClock([], 1000)
                    saved = H.time
                    H.time = clock
                    try:
                        hc = HashClient(servers, use_pooling=pooling, retry_attempts=ra, retry_timeout=5, dead_timeout=30, ignore_exc=ign,
                                        socket_module=cs.FakeSocketModule(world), default_noreply=False, connect_timeout=cs.CONNECT_TIMEOUT, timeout=cs.IO_TIMEOUT)
                        key = next(k for k in ("k%d" % i for i in range(64)) if hc.hasher.get_node(k) == "10.0.0.1:11211")
                        world.refuse.add(("10.0.0.1", "11211"))
                        log, escapes = [], []
                        attempts = lambda: sum(1 for sk in world.socks if getattr(sk, "remote", None) == ("10.0.0.1", "11211"))
                        for step in range(45):
                            clock.last += 1
                            before = attempts()
                            try:
                                {"get": lambda: hc.get(key), "set": lambda: hc.set(key, b"v"), "get_many": lambda: hc.get_many([key]),
                                 "set_many": lambda: hc.set_many({key: b"v"}), "delete": lambda: hc.delete(key)}[opname]()
                            except OSError:
                                pass
                            except Exception as e:  # noqa
                                escapes.append((step, type(e).__name__))
                            log += [(clock.last, False)] * (attempts() - before)
                        why = None
                        if not ctx.oracle.call(1, ra, 5, 30, log)[1]:
                            why = "failing server contacted %d times in %d s: outside the window bounds (contacts at %r)" % (len(log), 45, [t - 1000 for t, _ in log][:12])
                        elif not any(r == ("10.0.0.2", "11211") for r in nodes):
                            why = "the failing server's key was never served by the remaining server"
                        elif ign and escapes:
                            why = "with ignore_exc something escaped: %r" % (escapes[:3],)
                        if why:
                            found.append({"clause": "with real inner clients: " + why, "input": {"retry_attempts": ra, "ignore_exc": ign, "use_pooling": pooling, "operation": opname,
                                                                                             "history": "server 10.0.0.1 down; one call on its key every second for 45 s"},
                                          "size": 1, "finding": None, "case": None})
                    finally:
                        H.time = saved
    return found, n


def judge_case(ctx, cfg, nserv, events):
    """-> None, or what is wrong with this history (the clauses of C13 on the real HashClient over scripted inner clients)"""
    if True:
        servers = pick(nserv)
        fam, nserv = nserv, len(servers)
        contacts, escapes, nodes, dead, tend = run_history(cfg, servers, events)
        evictions, bypass = run_history.extra
        why = None
        for name, log in contacts.items():
            # times may be fractions of a second (multiples of 1/8 here): the window oracle is stated over integers, in any unit
            ok = ctx.oracle.call(1, cfg[0], int(cfg[1] * 8), int(cfg[2] * 8), [(int(t * 8), o) for t, o in log])[1]
            if not ok:
                why = "server %s was probed too often while failing (contact log %r)" % (name, log[:30])
                break
        if why is None and cfg[0] > 0:
            early = [e for e in evictions if e[2] < 2]
            if early:
                why = ("with retries configured, server %s was taken out of rotation at event %d after %d consecutive failed contact(s) "
                       "(its contact log %r)" % (early[0][1], early[0][0], early[0][2], contacts[early[0][1]][-12:]))
        if why is None and bypass:
            why = "server %s never failed, yet the call at event %d on its key %r did not reach it" % (bypass[0][2], bypass[0][0], bypass[0][1])
        if why is None:
            bad = [e for e in escapes if e[1].startswith("internal") or e[2]]
            if bad:
                why = "an error other than the failing server's own or 'all servers down' escaped a key-addressed call (or something escaped with ignore_exc): %r" % (bad[:3],)
        for traffic in ("get", "get_many", "set_many", "delete"):
            if why is not None:
                break
            # recovery: heal everything, flush pending evictions, then three rounds of calls spaced > dead_timeout apart restore the
            # rotation - whatever KIND of key-addressed call the traffic consists of
            ev2 = events + [("heal", i) for i in range(nserv)]
            for k in KEYS:
                ev2.append(("op", traffic, [k, KEYS[0], KEYS[-1]]))
            for _ in range(3):
                ev2.append(("adv", cfg[2] + 1))
                for k in KEYS:
                    ev2.append(("op", traffic, [k, KEYS[0], KEYS[-1]]))
            _, _, nodes2, dead2, _ = run_history(cfg, servers, ev2)
            if nodes2 != sorted(hs.server_name(s) for s in servers) or dead2:
                why = "placement did not return to the original rotation after every server was healthy again (traffic: %s calls only): nodes %r dead %r" % (traffic, nodes2, dead2)
        if why is None:
            # ... and under STEADY traffic (calls much closer together than dead_timeout) within two dead_timeout periods
            gap = max(1, cfg[2] // 4)
            ev3 = events + [("heal", i) for i in range(nserv)]
            for k in KEYS:
                ev3.append(("op", "get", [k]))
            for _ in range((2 * cfg[2]) // gap + 3):
                ev3.append(("adv", gap))
                for k in KEYS[:4]:
                    ev3.append(("op", "get", [k]))
            _, _, nodes3, dead3, _ = run_history(cfg, servers, ev3)
            if nodes3 != sorted(hs.server_name(s) for s in servers) or dead3:
                why = ("with every server healthy and a call every %d s, placement did not return to the original within two dead_timeout "
                       "periods (%d s): nodes %r dead %r" % (gap, 2 * cfg[2], nodes3, dead3))
        return why


def search(ctx):
    """The property's clauses on the real client: window bounds (extracted oracle), escapes, recovery."""
    rng = ctx.rng
    found = []
    nh = 0

    def judge(cfg, fam, events):
        why = judge_case(ctx, cfg, fam, events)
        if why:
            found.append({"clause": why, "input": {"retry_attempts": cfg[0], "retry_timeout": cfg[1], "dead_timeout": cfg[2], "ignore_exc": cfg[3],
                                                    "servers": repr(pick(fam)), "events": repr(events)}, "size": len(events), "case": repr((cfg, fam, events))})

    for trial in range(250 if ctx.quick else 4000):
        nserv = rng.choice([2, 3])
        cfg = (rng.choice([0, 1, 2, 3]), 5, 30, rng.random() < 0.5)
        events = history(rng, nserv, rng.randrange(5, 40))
        nh += 1
        judge(cfg, ("u", nserv) if trial % 4 == 3 else nserv, events)
    # a healthy server turns ONE request down (a protocol-level error, not a failure of the server): the calls that follow still reach it
    for ra in (0, 1, 2, 3):
        for ign in (False, True):
            for kind in ("get", "set", "delete"):
                events = [("op", kind, [k]) for k in KEYS]
                for rnd in range(3):
                    events += [("refuse", 0), ("refuse", 1)] + [("op", kind, [k]) for k in KEYS] + [("adv", 0 if rnd == 0 else 2)] + [("op", "get", [k]) for k in KEYS]
                nh += 1
                judge((ra, 5, 30, ign), 2, events)
    # sub-second retry_timeout and a clock that is not on whole seconds: a failing server's key is read every 1/8 s
    for ra in (1, 2, 3):
        for ign in (False, True):
            for start in (0.625, 0.0, 0.875):
                for rt in (0.5, 0.25, 1.5):
                    events = [("adv", 100 + start), ("fail", 0, "refused"), ("fail", 1, "refused")]
                    for _ in range(24):
                        events += [("op", "get", KEYS[:1]), ("op", "get", KEYS[1:2]), ("adv", 0.125)]
                    nh += 1
                    judge((ra, rt, 30, ign), 2, events)
    # blip episodes: a server fails for one call of kind a and answers the retry of kind b, twice (thrice in the thorough tier), for every
    # pair of call kinds - a successful retry must clear the failure record whichever call made it
    kinds = ["get", "set", "set_many", "get_many", "delete"]
    import itertools as _it
    for reps in ((2,) if ctx.quick else (2, 3)):
        for pair in _it.product(_it.product(kinds, kinds), repeat=reps):
            if ctx.quick and len({k for ab in pair for k in ab}) > 2:
                continue
            for ra in (1, 2):
                for ign in (False, True):
                    events = []
                    for a, b in pair:
                        events += [("fail", 0), ("fail", 1), ("op", a, KEYS[:3]), ("heal", 0), ("heal", 1), ("adv", 6), ("op", b, KEYS[:3]), ("adv", 11)]
                    nh += 1
                    judge((ra, 5, 30, ign), 2, events)
    # the ignore_exc + set_many path specifically (a refusing server must be marked, not contacted on every call)
    for ra in (0, 1, 2):
      for how in ("refused", "timeout", "unreachable", "reset"):
        events = [("fail", 0, how), ("fail", 1, how)] + [("op", "set_many", KEYS[:3])] * 6
        contacts, escapes, nodes, dead, _ = run_history((ra, 5, 30, True), SERVERS[:2], events)
        for name, log in contacts.items():
            if not ctx.oracle.call(1, ra, 5, 30, [(t, o) for t, o in log])[1]:
                found.append({"clause": "set_many with ignore_exc: failing (%s) server %s contacted on every call (%d contacts at one instant), never marked failed" % (how, name, len(log)),
                              "input": {"retry_attempts": ra, "ignore_exc": True, "events": repr(events)}, "size": 0, "finding": None,
                              "case": repr(((ra, 5, 30, True), 2, events))})
                break
    f2, n_real = real_clients_probe(ctx)
    found += f2
    ctx.search_summary = {"histories": nh, "real_inner_client_probes": n_real}
    found.sort(key=lambda v: v["size"])
    return found[:1]


def replay(ctx, obj):
    v = obj.get("violation")
    if not v or not v.get("case"):
        return None
    cfg, nserv, events = eval(v["case"])
    if not ctx.oracle:
        return None
    why = judge_case(ctx, cfg, nserv, events)
    print(why or "the history satisfies every clause")
    return bool(why)
