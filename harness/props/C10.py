"""C10 — asynchronous interruption cannot desynchronise a client or leak a pool slot."""
from harness import clientsim as cs
from harness.clientsim import TAGS

PROP = "C10"
GEN = ["Handlers"]
VO = ["Properties/C10.vo", "Extract/D_Client.vo"]
MODULE = "Properties.C10"
THEOREMS = ["c10_src_handlers", "c10_fetch", "c10_store", "c10_misc", "c10_fresh_connection", "c10_pool_slot"]
DRIVER = "D_Client"
TECHNIQUE = ("Coq proof (Hoare logic over the Client and pool models): with BaseException cleanup handlers every exception of "
             "any class escaping a socket phase leaves sock None and the pool invariant restored; handler classes extracted "
             "from source each run; models tied to the code by an exhaustive interruption-point differential run")
LEVEL_TEXT = ("c10_fetch/store/misc: for every configuration, peer, script and recv behaviour, any exception (KeyboardInterrupt, "
              "SystemExit, greenlet timeout, at any socket call - before the call takes effect or, for sendall, after the kernel has "
              "taken the bytes and the reply is on its way) escaping the socket phase leaves self.sock = None, so the "
              "interrupted connection is never read again; c10_pool_slot: after any PooledClient call nothing stays checked "
              "out; c10_src_handlers ties the hypotheses to the handler classes read from base.py/pool.py on this run.")
LEVEL_NOTE = ("Trusted: Coq kernel; hand models' correspondence with base.py/pool.py (exhaustive: every operation x every socket "
              "call position x 3 interruption kinds, followed by further calls; pool sizes 1 and 2); the structural extractor "
              "of handler classes (tools/py2coq/gen_more.py:gen_handlers). A socket half-set-up inside _connect when the "
              "interruption arrives may stay open: not part of C10's claim. No axioms.")
TRUSTED = ["Coq 8.16.1 kernel; no axioms",
           "hand-written models coq/Model/{World,Readers,Client,Pooled}.v tied to base.py/pool.py by this check's correspondence run",
           "tools/py2coq/gen_more.py:gen_handlers (structural extraction of handler classes; fail-closed)",
           "extraction: ExtrOcamlBasic only; coq/Extract/ocaml/driver.ml"]
ASSUMPTIONS = ["HashClient adds no handler of its own for non-Exception errors: its inner clients are Client/PooledClient",
               "Python's contextmanager protocol is modelled as try/except around the body"]

BASE = ["KeyboardInterrupt", "SystemExit", "GreenletTimeout"]
OPS = [((3, b"k", None), b"VALUE k 0 1\r\nv\r\nEND\r\n"), ((0, 0, b"k", b"v", 0, False, None), b"STORED\r\n"),
       ((9, b"k", False), b"DELETED\r\n"), ((1, [(b"a", b"1"), (b"b", b"2")], 0, False, None), b"STORED\r\nSTORED\r\n"),
       ((15,), b"VERSION 1\r\n"), ((7, False, [b"a", b"b"]), b"VALUE a 0 1\r\nx\r\nEND\r\n"), ((11, b"k", 1, False), b"5\r\n"),
       ((0, 0, b"k", b"v", 0, True, None), None), ((2, b"k", b"v", b"7", 0, False, None), b"EXISTS\r\n"),
       ((13, b"k", 0, False), b"TOUCHED\r\n"), ((14, 0, False), b"OK\r\n"), ((16, b"x", b"\r\n"), b"y\r\n"), ((17,), None), ((23, 64), b"OK\r\n"), ((24, False), b"ERROR\r\n"),
       ((10, False, [b"a", b"b", b"c"], False), b"DELETED\r\nDELETED\r\nNOT_FOUND\r\n")]
FOLLOW = [((9, b"j", False), b"NOT_FOUND\r\n"), ((3, b"j", None), b"END\r\n"), ((0, 1, b"j", b"w", 0, False, None), b"NOT_STORED\r\n")]
CONFIGS = [dict(tcp=False), dict(tcp=True, naddr=2), dict(tcp=True, naddr=1, tls=True, ignore_exc=True)]


def cases(ctx):
    out = []
    for cfg in CONFIGS:
        c = dict(cfg, default_noreply=False)
        for op, rep in OPS:
            for fop, frep in FOLLOW:
                ops = [op, fop, fop]
                rbo = {0: rep or b"", 1: frep, 2: frep}
                for kind in BASE:
                    for pos in range(0, 9):
                        out.append((c, ops, [0] * pos + [(TAGS[kind],)], [], rbo))
                    for rpos in range(0, 3):
                        out.append((c, ops, [], [2] * rpos + [(TAGS[kind],)], rbo))
                    # a reply of several lines (set_many, delete_many, a value block): the interruption after the first line(s) have been read
                    lines = (rep or b"").split(b"\r\n")[:-1]
                    if len(lines) >= 2:
                        n1 = len(lines[0]) + 2
                        for first in (n1, n1 + 3, n1 + len(lines[1]) + 2):
                            out.append((c, ops, [], [first, (TAGS[kind],)], rbo))
    return out


def cleanup_cases(ctx):
    """an ordinary failure first (the read times out: the server is slow, its reply will still arrive), then the interruption lands
    inside the close() of the cleanup that follows"""
    out = []
    for cfg in CONFIGS:
        c = dict(cfg, default_noreply=False)
        for op, rep in OPS:
            if not rep:
                continue
            for fop, frep in FOLLOW:
                ops = [op, fop, fop]
                rbo = {0: rep, 1: frep, 2: frep}
                dry = cs.run_impl(c, ops, [], [], (), None, None, rbo)
                sends = [i for i, e in enumerate([e for e in dry[1] if e[0] != 8]) if e[0] == 7]
                if not sends:
                    continue
                for kind in BASE:
                    out.append((c, ops, [0] * (sends[0] + 1) + [(TAGS[kind],)], [(TAGS["SocketTimeout"],)], rbo))
        # a call rejected for its ARGUMENT on a warm connection: nothing is sent, a pool discards the client, and the interruption
        # lands inside the close() of that discard
        warm = (0, 0, b"w", b"1", 0, False, None)
        for bad in ((0, 0, b"bad key", b"x", 0, False, None), (3, b"bad key", None), (13, b"k", "soon", False)):
            for fop, frep in FOLLOW[:2]:
                ops = [warm, bad, fop, fop]
                rbo = {0: b"STORED\r\n", 1: b"", 2: frep, 3: frep}
                dry = cs.run_impl(c, [warm], [], [], (), None, None, {0: b"STORED\r\n"})
                n0 = sum(1 for e in dry[1] if e[0] != 8)
                for kind in BASE:
                    out.append((c, ops, [0] * n0 + [(TAGS[kind],)], [], rbo))
    return out


IDLE_CLOCK = [0, 0] + [100] * 40       # the warm call at time 0, everything else 100 s later: the idle connection has expired


def idle_cases(ctx):
    """pool_idle_timeout > 0: a connection has sat idle for longer than the timeout, the next call's checkout closes it, and the
    interruption lands inside that close() (or at any later socket call of the same operation)"""
    out = []
    warm = (0, 0, b"w", b"1", 0, False, None)
    for cfg in CONFIGS[:2]:
        c = dict(cfg, default_noreply=False)
        dry = cs.run_impl(c, [warm], [], [], (), None, None, {0: b"STORED\r\n"})
        n0 = sum(1 for e in dry[1] if e[0] != 8)
        for op, rep in OPS:
            if op[0] == 23:
                continue
            for fop, frep in FOLLOW[:2]:
                ops = [warm, op, fop, fop]
                rbo = {0: b"STORED\r\n", 1: rep or b"", 2: frep, 3: frep}
                for kind in BASE:
                    for pos in range(0, 4):
                        out.append((c, ops, [0] * (n0 + pos) + [(TAGS[kind],)], [], rbo))
    return out


def correspondence(ctx):
    cl = cases(ctx) + late_cases(ctx)[::3] + cleanup_cases(ctx)
    hk = cs.handler_kinds()
    hp = cs.pool_handler_kind()
    reqs = []
    for c, ops, sc, ch, rbo in cl:
        reqs.append(cs.model_req(c, ops, sc, ch, [rbo[i] for i in range(len(ops))], hk))
    model = ctx.driver.call_many(reqs)
    dis = []
    for (c, ops, sc, ch, rbo), m in zip(cl, model):
        # the model's scripted peer answers the k-th sendall; align by giving the real run the same list
        r = cs.run_impl(c, ops, sc, ch, [rbo[i] for i in range(len(ops))])
        mm = cs.decode_model(m)
        if tuple(r[:6]) != tuple(mm[:6]):
            dis.append({"cfg": repr(c), "ops": repr(ops)[:120], "script": repr(sc), "choices": repr(ch), "impl": repr((r[0], r[2])), "model": repr((mm[0], mm[2]) if len(mm) > 2 else mm)})
    # pooled
    pooled = [(c, (size, 0), ops, sc, ch, rbo) for (c, ops, sc, ch, rbo) in cl[::7] for size in (1, 2) if not c.get("tls") and ops[0][0] != 23]   # PooledClient has no cache_memlimit
    pm = ctx.driver.call_many([cs.pooled_req(c, pc, ops, sc, ch, [rbo[i] for i in range(len(ops))], [], hk, hp) for c, pc, ops, sc, ch, rbo in pooled])
    for (c, pc, ops, sc, ch, rbo), m in zip(pooled, pm):
        r = cs.run_pooled(c, pc, ops, sc, ch, [rbo[i] for i in range(len(ops))])
        mm = cs.decode_pooled(m)
        if tuple(r[:5]) != tuple(mm[:5]):
            dis.append({"pooled": True, "cfg": repr(c), "pool": pc, "ops": repr(ops)[:120], "script": repr(sc), "choices": repr(ch), "impl": repr(r[0]), "model": repr(mm[0] if len(mm) > 1 else mm)})
    # pooled with an idle timeout: the checkout that follows the expiry closes the idle connection, the interruption lands there
    idle = [(c, (size, 5), ops, sc, ch, rbo) for (c, ops, sc, ch, rbo) in idle_cases(ctx)[::3] for size in (1, 2)]
    im = ctx.driver.call_many([cs.pooled_req(c, pc, ops, sc, ch, [rbo[i] for i in range(len(ops))], IDLE_CLOCK, hk, hp) for c, pc, ops, sc, ch, rbo in idle])
    for (c, pc, ops, sc, ch, rbo), m in zip(idle, im):
        r = cs.run_pooled(c, pc, ops, sc, ch, [rbo[i] for i in range(len(ops))], IDLE_CLOCK)
        mm = cs.decode_pooled(m)
        if tuple(r[:5]) != tuple(mm[:5]):
            dis.append({"pooled": True, "cfg": repr(c), "pool": pc, "ops": repr(ops)[:120], "script": repr(sc), "clock": "0,0,100...", "impl": repr(r[0]), "model": repr(mm[0] if len(mm) > 1 else mm)})
    pooled = pooled + idle
    return {"evaluations": len(cl) + len(pooled), "distinct_nontrivial": len(cl) + len(pooled),
            "rule": "extracted Client and PooledClient models vs the real classes (results, full socket traces, pool used/free "
                    "counts): 16 operations (incl. delete_many, quit, cache_memlimit, shutdown) x 3 follow-up operations (twice) x 3 configurations x KeyboardInterrupt/SystemExit/"
                    "greenlet timeout at EVERY non-recv socket call position 0..8 and at each of the first 3 recv calls, and raised inside "
                    "sendall AFTER the bytes were taken (the reply will arrive), and inside the close() of the cleanup after a read timeout; pooled "
                    "with max_pool_size 1 and 2, and with pool_idle_timeout=5 after an idle period (the interruption inside the close of the expired connection); every case is non-trivial (one interruption)",
            "samples": [{"cfg": repr(c), "ops": repr(o)[:80], "script": repr(s), "choices": repr(h)} for c, o, s, h, r in cl[100:103]],
            "distribution": {"client_cases": len(cl), "pooled_cases": len(pooled)}, "exhaustive": True, "disagreements": dis}


def late_cases(ctx):
    """the interruption surfaces inside sendall AFTER the request has been taken by the kernel (so its reply will arrive):
    every operation that reads a reply x every position of a non-recv socket call x the three exception kinds"""
    out = []
    for cfg in CONFIGS:
        c = dict(cfg, default_noreply=False)
        for op, rep in OPS:
            if rep is None:
                continue
            for fop, frep in FOLLOW:
                ops = [op, fop, fop]
                rbo = {0: rep, 1: frep, 2: frep}
                for kind in BASE:
                    for pos in range(0, 9):
                        out.append((c, ops, [0] * pos + [(TAGS[kind], "after")], [], rbo))
    return out


def search(ctx):
    """Reply ownership on the real classes: bytes are tagged with the call that elicited them."""
    found = []
    cl = cases(ctx) + late_cases(ctx) + cleanup_cases(ctx)
    n = 0
    for c, ops, sc, ch, rbo in cl:
        for pooled_size in (None, 1, "hash", "hash-pooled"):
            if pooled_size and (c.get("tls") or ops[0][0] == 23):
                continue
            if isinstance(pooled_size, str) and ops[0][0] in (15, 16, 24):
                continue        # HashClient has no version / raw_command / shutdown
            n += 1
            if isinstance(pooled_size, str):
                r = cs.run_impl(c, ops, sc, ch, (), hash_maker(pooled_size == "hash-pooled"), None, rbo)
                results, world = r[0], r[6]
                used_after = []
            elif pooled_size:
                r = cs.run_pooled(c, (pooled_size, 0), ops, sc, ch, (), (), rbo)
                results, world, pool = [x[0] for x in r[0]], r[5], r[6]
                used_after = [x[1] for x in r[0]]
            else:
                r = cs.run_impl(c, ops, sc, ch, (), None, None, rbo)
                results, world = r[0], r[6]
                used_after = []
            why = None
            if world.foreign:
                rd, owner, sid = world.foreign[0]
                why = "call %d consumed reply bytes that answer call %d (socket %d)" % (rd, owner, sid)
            elif any(u != 0 for u in used_after):
                why = "pool slot lost: %r clients checked out after the calls" % (used_after,)
            elif any(x == ("e", "RuntimeError") for x in results):
                why = "pool exhausted after an interrupted call (RuntimeError: Too many objects)"
            else:
                # a call that was not itself interrupted must see its own reply
                for i, x in enumerate(results[1:], 1):
                    exp_ok = {9: ("o", ("bool", False)), 3: ("o", ("NoneType", None)), 0: ("o", ("bool", False))}.get(ops[i][0])
                    if exp_ok is None or ops[i] not in [f[0] for f in FOLLOW]:
                        continue
                    first_fault_consumed = world.pos >= len(sc) and world.cpos >= len(ch)
                    if first_fault_consumed and results[0][0] == "e" and x != exp_ok and i == 2:
                        why = "call %d after the interruption returned %r, its own reply says %r" % (i, x, exp_ok)
                        break
            if why:
                found.append({"clause": why, "input": {"class": {None: "Client", 1: "PooledClient(max_pool_size=1)", "hash": "HashClient", "hash-pooled": "HashClient(use_pooling=True)"}[pooled_size], "cfg": repr(c), "ops": repr(ops), "script": repr(sc), "choices": repr(ch)},
                              "observed": repr(results), "size": len(sc) + len(ch), "case": repr((c, ops, sc, ch, rbo, pooled_size))})
    ni = 0
    for c, ops, sc, ch, rbo in idle_cases(ctx):
        for size in (1, 2):
            ni += 1
            r = cs.run_pooled(c, (size, 5), ops, sc, ch, (), IDLE_CLOCK, rbo)
            results, world = [x[0] for x in r[0]], r[5]
            used_after = [x[1] for x in r[0]]
            why = None
            if world.foreign:
                rd, owner, sid = world.foreign[0]
                why = "call %d consumed reply bytes that answer call %d (socket %d)" % (rd, owner, sid)
            elif any(u != 0 for u in used_after):
                why = "pool slot lost: %r clients checked out after the calls (pool_idle_timeout=5, the idle connection had expired)" % (used_after,)
            elif any(x == ("e", "RuntimeError") for x in results):
                why = "pool exhausted after an interrupted call (RuntimeError: Too many objects)"
            if why:
                found.append({"clause": why, "input": {"class": "PooledClient(max_pool_size=%d, pool_idle_timeout=5)" % size, "cfg": repr(c), "ops": repr(ops),
                                                        "script": repr(sc), "clock": "warm call at 0, the rest at 100"},
                              "observed": repr(r[0]), "size": len(sc) + len(ch), "case": repr((c, ops, sc, ch, rbo, ("idle", size)))})
    # two overlapping calls on one pool, one of them interrupted (C08's scheduler and pool accounting; operation 4 = a BaseException in
    # the socket call): the interrupted call's slot comes back and the OTHER call's connection is left alone
    from harness.props import C08 as c08
    import random as _random
    rng2 = _random.Random(ctx.seed * 97 + 10)
    nt = 0
    for sc in [(2, [[4], [0]]), (2, [[4, 0], [0]]), (2, [[0], [4]]), (2, [[4], [4], [0]])]:
        for pooled in (False, True):
            base = c08.run_pool(sc[0], sc[1], (), False, pooled)
            for plan in c08.plans_for(base[3] + 2, 2, rng2, 60 if ctx.quick else 600):
                nt += 1
                r = c08.run_pool(sc[0], sc[1], plan, False, pooled)
                if r[2]:
                    found.append({"clause": "two overlapping calls, one interrupted: " + r[2][0],
                                  "input": {"class": "PooledClient" if pooled else "ObjectPool", "max_size": sc[0], "thread programs (4 = interrupted use)": repr(sc[1]),
                                            "preempt_at_steps": list(plan)}, "observed": repr(r[1]), "size": 50 + len(plan),
                                  "case": repr((sc, plan, pooled, "threads"))})
                    break
    ctx.search_summary = {"runs_with_tagged_replies": n, "idle_expiry_runs": ni, "two_thread_interruption_runs": nt}
    found.sort(key=lambda v: v["size"])
    return found[:1]


def hash_maker(pooling):
    def mk(server, kw):
        from pymemcache.client.hash import HashClient
        return HashClient([server], use_pooling=pooling, max_pool_size=1, retry_attempts=0, dead_timeout=0, **kw)
    return mk


def replay(ctx, obj):
    v = obj.get("violation")
    if not v or not v.get("case"):
        return None
    case = eval(v["case"])
    if len(case) == 4 and case[3] == "threads":
        from harness.props import C08 as c08
        r = c08.run_pool(case[0][0], case[0][1], case[1], False, case[2])
        print(r[0], r[1], r[2])
        return bool(r[2])
    c, ops, sc, ch, rbo, ps = case
    if isinstance(ps, tuple):
        r = cs.run_pooled(c, (ps[1], 5), ops, sc, ch, (), IDLE_CLOCK, rbo)
        print("results", r[0], "foreign", r[5].foreign)
        return bool(r[5].foreign) or any(x[1] for x in r[0]) or any(x[0] == ("e", "RuntimeError") for x in r[0])
    if isinstance(ps, str):
        r = cs.run_impl(c, ops, sc, ch, (), hash_maker(ps == "hash-pooled"), None, rbo)
        print("results", r[0], "foreign reads", r[6].foreign)
        return bool(r[6].foreign)
    if ps:
        r = cs.run_pooled(c, (ps, 0), ops, sc, ch, (), (), rbo)
        print("results", r[0], "foreign", r[5].foreign)
        return bool(r[5].foreign) or any(x[1] for x in r[0])
    r = cs.run_impl(c, ops, sc, ch, (), None, None, rbo)
    print("results", r[0], "foreign reads", r[6].foreign)
    return bool(r[6].foreign)
