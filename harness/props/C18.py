"""C18 — FallbackClient: reads fall through in order, writes touch only the primary."""
import itertools

PROP = "C18"
GEN = ["Fallback"]
VO = ["Properties/C18.vo", "Extract/D_C18.vo"]
MODULE = "Properties.C18"
THEOREMS = ["c18_reads", "c18_writes", "c18_stateless"]
DRIVER = "D_C18"
TECHNIQUE = ("Coq proof by induction over the cache list of a hand-written Gallina model of fallback.py (any number of "
             "caches, any state); model tied to the code by an exhaustive extracted-model/implementation differential run")
LEVEL_TEXT = ("c18_reads: for every number of caches and every assignment of answers, a read returns the first hit in order and "
              "consults exactly the caches up to it; c18_writes: each mutating operation is one call on cache 0 with the "
              "caller's arguments. The model is run against the real FallbackClient over 1..4 caches x all hit/miss/raise "
              "assignments x all 15 operations.")
LEVEL_NOTE = ("Trusted: Coq kernel; hand model's correspondence with fallback.py is checked by exhaustive differential "
              "execution (not proved); extraction + driver. No axioms.")
TRUSTED = ["Coq 8.16.1 kernel; no axioms", "hand-written model coq/Model/Fallback.v tied to pymemcache/fallback.py by this check's correspondence run",
           "extraction: ExtrOcamlBasic only; coq/Extract/ocaml/driver.ml"]
ASSUMPTIONS = ["caches are arbitrary objects whose answers are scripted (value, falsy value, or exception)"]

METHS = ["set", "add", "replace", "append", "prepend", "cas", "get", "get_many", "gets", "gets_many", "delete", "incr",
         "decr", "touch", "flush_all"]
READS = {"get": 6, "get_many": 7, "gets": 8, "gets_many": 9}
WRITE_ARGS = {"set": ("k", b"v", 3, False), "add": ("k", b"v", 0, True), "replace": ("k", b"v", 9, False),
              "append": ("k", b"v", 1, True), "prepend": ("k", b"v", 2, False), "cas": ("k", b"v", b"77", 4, False),
              "delete": ("k", False), "incr": ("k", 5, False), "decr": ("k", 6, True), "touch": ("k", 30, False),
              "flush_all": (7, True)}
# arguments a caller may leave out, per mutating operation: FallbackClient documents ONE rule for all of them - noreply=True, expire/delay=0
OPTIONAL = {"set": ("expire", "noreply"), "add": ("expire", "noreply"), "replace": ("expire", "noreply"), "append": ("expire", "noreply"),
            "prepend": ("expire", "noreply"), "cas": ("expire", "noreply"), "delete": ("noreply",), "incr": ("noreply",), "decr": ("noreply",),
            "touch": ("expire", "noreply"), "flush_all": ("delay", "noreply")}
RULE = {"noreply": True, "expire": 0, "delay": 0}


def completed(meth, args):
    """the argument list the primary must see when the caller gave only `args` (trailing optional ones left out)"""
    full = len(WRITE_ARGS[meth])
    opt = OPTIONAL[meth]
    missing = full - len(args)
    return tuple(args) + tuple(RULE[name] for name in opt[len(opt) - missing:]) if missing else tuple(args)


SINGLE_ANS = [None, 0, b"", b"x", ("e",)]           # miss, falsy hits, hit, raises
MULTI_ANS = [{}, {"k": b"v"}, [], ("e",)]


class Cache:
    def __init__(self, idx, log, answer):
        self.idx, self.log, self.answer = idx, log, answer

    def __getattr__(self, name):
        if name.startswith("__"):
            raise AttributeError(name)

        def m(*args, **kw):
            self.log.append((self.idx, METHS.index(name), list(args) + ([("KW", sorted(kw.items()))] if kw else [])))
            if self.answer == ("e",):
                raise ValueError("scripted")
            return self.answer
        return m


def run_impl(meth, args, answers, seq=list):
    from pymemcache.fallback import FallbackClient
    log = []
    fc = FallbackClient(seq(Cache(i, log, a) for i, a in enumerate(answers)))     # the caches as a list or as a tuple
    try:
        r = ("o", getattr(fc, meth)(*args))
    except ValueError:
        r = ("e",)
    return r, log


def all_cases(ctx):
    cases = []
    for n in range(1, 5):
        for meth in READS:
            pool = SINGLE_ANS if meth in ("get", "gets") else MULTI_ANS
            for answers in itertools.product(pool, repeat=n):
                arg = "k" if meth in ("get", "gets") else ["k", "j"]
                cases.append((meth, (arg,), list(answers)))
        for meth, args in WRITE_ARGS.items():
            for a0 in (None, True, ("e",)):
                cases.append((meth, args, [a0] + [None] * (n - 1)))
            # optional arguments left out (one, then both): the primary sees the documented defaults in their place
            for drop in range(1, len(OPTIONAL[meth]) + 1):
                cases.append((meth, args[:len(args) - drop], [True] + [None] * (n - 1)))
            # "with the caller's arguments": each argument in turn over boundary values (falsy ones in particular)
            if n <= 2:
                for pos in range(len(args)):
                    for v in (0, None, False, True, b"", "", 1, -1):
                        if v == args[pos] and type(v) is type(args[pos]):
                            continue
                        cases.append((meth, args[:pos] + (v,) + args[pos + 1:], [True] + [None] * (n - 1)))
    return cases


def canon(m):
    res, log = m[1]
    r = ("o", res[1]) if res[0] == "o" else ("e",)
    return r, [(i, mm, list(a)) for i, mm, a in log]


def norm(v):
    from harness.core import PyDict
    if isinstance(v, dict):
        return PyDict(list(v.items()))
    return v


def correspondence(ctx):
    cases = all_cases(ctx)
    reqs = []
    for meth, args, answers in cases:
        if meth in READS:
            reqs.append((1, (READS[meth], args[0], list(answers))))
        else:
            reqs.append((2, (METHS.index(meth), list(completed(meth, args)), answers[0])))
    model = ctx.driver.call_many(reqs)
    dis = []
    for c, m in zip(cases, model):
        r, log = run_impl(*c)
        r = (r[0], norm(r[1])) if r[0] == "o" else r
        if m[0] != "ok" or (r, log) != canon(m):
            dis.append({"case": repr(c), "impl": repr((r, log)), "model": repr(m)})
    return {"evaluations": len(cases), "distinct_nontrivial": len({repr(c) for c in cases if len(c[2]) >= 2}),
            "rule": "extracted model vs FallbackClient: 1..4 caches x every assignment of {miss, falsy hit(s), hit, raises} "
                    "per cache x get/gets/get_many/gets_many, and all 11 mutating operations x {returns, raises}; call logs "
                    "(cache index, method, positional arguments) and results compared; non-trivial = at least 2 caches",
            "samples": [{"case": repr(c), "model": repr(canon(m))} for c, m in list(zip(cases, model))[100:103]],
            "distribution": {"read_cases": sum(1 for c in cases if c[0] in READS), "write_cases": sum(1 for c in cases if c[0] not in READS)},
            "exhaustive": True, "disagreements": dis}


def search(ctx):
    """The property's clauses evaluated on the implementation's call log."""
    found = []
    cases = all_cases(ctx)
    for meth, args, answers, seq in [c + (list,) for c in cases] + [c + (tuple,) for c in cases[::3]]:
        try:
            r, log = run_impl(meth, args, answers, seq)
        except Exception as e:  # noqa -- anything but the caches' own scripted ValueError
            r, log = ("e", "%s: %s" % (type(e).__name__, e)), []
        why = None
        if meth in READS:
            hit = (lambda v: v is not None) if meth in ("get", "gets") else (lambda v: bool(v))
            k = next((i for i, a in enumerate(answers) if a == ("e",) or hit(a)), None)
            upto = len(answers) if k is None else k + 1
            exp_log = [(i, METHS.index(meth), [args[0]]) for i in range(upto)]
            if k is None:
                exp = ("o", None if meth in ("get", "gets") else [])
            elif answers[k] == ("e",):
                exp = ("e",)
            else:
                exp = ("o", answers[k])
            if log != exp_log:
                why = "caches consulted are not exactly those up to the first hit, in order"
            elif r != exp:
                why = "result is not the first hit"
        else:
            if log != [(0, METHS.index(meth), list(completed(meth, args)))]:
                why = "a mutating operation must be exactly one call on the first cache with the caller's arguments"
        if why:
            found.append({"clause": why, "input": {"method": meth, "args": repr(args), "cache_answers": repr(answers), "caches_given_as": seq.__name__},
                          "observed": {"result": repr(r), "log": repr(log)}, "size": len(answers), "case": repr((meth, args, answers, seq.__name__))})
    # histories on ONE FallbackClient: a read answered by a fallback cache, then each mutating operation on the same key - what was
    # read, and from where, changes nothing about where writes go
    from pymemcache.fallback import FallbackClient
    nhist = 0
    for n in (2, 3, 4):
        for hit in range(n):
            for read in READS:
                hitval = {"get": b"v", "gets": (b"v", b"49"), "get_many": {"k": b"v"}, "gets_many": {"k": (b"v", b"49")}}[read]
                for meth, args in WRITE_ARGS.items():
                    nhist += 1
                    log = []
                    miss = None if read in ("get", "gets") else {}
                    fc = FallbackClient([Cache(i, log, hitval if i == hit else miss) for i in range(n)])
                    getattr(fc, read)("k" if read in ("get", "gets") else ["k"])
                    del log[:]
                    for c in fc.caches:
                        c.answer = True
                    try:
                        getattr(fc, meth)(*args)
                    except Exception as e:  # noqa
                        log.append(("raised", type(e).__name__))
                    if log != [(0, METHS.index(meth), list(args))]:
                        found.append({"clause": "after %s('k') was answered by cache %d of %d, %s%r was logged as %r: a mutating operation is exactly one call on the first "
                                                "cache with the caller's arguments" % (read, hit, n, meth, args, log),
                                      "input": {"caches": n, "read": read, "answered_by": hit, "then": meth, "args": repr(args)}, "observed": repr(log), "size": n,
                                      "case": None, "history_case": repr((n, hit, read, meth))})
    ctx.search_summary = {"runs_checked_against_clauses": len(cases), "read_then_write_histories": nhist}
    found.sort(key=lambda v: v["size"])
    return found[:1]


def replay(ctx, obj):
    v = obj.get("violation")
    if not v:
        return None
    if not v.get("case"):
        return None
    c = list(eval(v["case"]))
    if len(c) == 4:
        c[3] = {"list": list, "tuple": tuple}[c[3]]
    try:
        r, log = run_impl(*c)
    except Exception as e:  # noqa
        r, log = ("e", "%s: %s" % (type(e).__name__, e)), []
    print(c, "->", r, log, "| recorded", v["observed"])
    return {"result": repr(r), "log": repr(log)} == v["observed"]
