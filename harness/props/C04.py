"""C04 — what is stored is what is fetched: values and keys survive the round trip."""
import pickle
import random

from harness import clientsim as cs
from harness import core
from harness.refserver import Server

PROP = "C04"
GEN = ["Handlers"]
VO = ["Properties/C04.vo", "Properties/C03.vo", "Properties/C15.vo", "Extract/D_Client.vo", "Extract/D_Server.vo"]
MODULE = "Properties.C04"
THEOREMS = ["c04_set_then_get_partial", "c04_other_keys_untouched", "c04_found_own", "c04_reply_roundtrip", "c04_server_invariant",
            "c04_e2e_get", "c04_e2e_gets", "c04_e2e_get_many", "c04_e2e_set_then_get", "c04_roundtrips_native", "c04_e2e_set_then_get_any",
            "c04_e2e_set_keeps_other", "c04_src_handlers"]
DRIVER = "D_Client"
TECHNIQUE = ("Coq proof: end to end on the Client model with the specification server as peer - get/gets/get_many return "
             "exactly the live items under the caller's keys, set followed by get returns the stored value for any bytes and, with "
             "PickleSerde/CompressedSerde, any value the pickle and codec oracles round-trip; a set leaves other keys' reads unchanged, "
             "nothing is left unread; plus the server-side and reply-framing theorems; model tied to base.py and serde.py by differential "
             "runs (store-then-fetch sequences, three serializer configurations) and round trips on the three client classes")
LEVEL_TEXT = ("c04_set_then_get_partial, c04_other_keys_untouched, c04_found_own: for every server state, key, flags, expiry and data "
              "a set followed by a get before expiry returns exactly those bytes and flags under that key, stores never change other "
              "keys, and a retrieval lists each present requested key with its own item; c04_reply_roundtrip: for ANY data bytes "
              "(CR LF, END, VALUE lines, any size) and any number of items the strict reply reader recovers exactly the items. "
              "c04_e2e_get/gets/get_many: on a Client model that is connected with nothing pending or closed (it then connects first; parameter fr of the theorems), a fault-free transport (any recv chunking) "
              "and Spec/Server as the peer, for every server state, configuration (prefix, encoding, serializer) and key, the call "
              "returns the deserialised live item under the caller's own key object (the default / an absent entry otherwise), the "
              "server state is unchanged and nothing is left unread; for get_many with any number of keys whose wire keys differ. "
              "c04_e2e_set_then_get: set then get returns the value stored - the stored bytes without a serializer, the value itself with "
              "PickleSerde or CompressedSerde whenever the serializer round-trips it - whatever bytes it contains; c04_roundtrips_native: "
              "every bytes/str/int value does, with no assumption; c04_e2e_set_then_get_any: ANY value comes back as itself (same "
              "constructor = same type) provided pickle round-trips that value and, for CompressedSerde, the codec round-trips (pickle, "
              "the codec, the pickle protocol and min_compress_len are parameters of the configuration). c04_e2e_set_keeps_other: a set "
              "does not change what a get of another key returns. c04_server_invariant: the side condition (non-negative flags and cas "
              "versions) holds in every reachable server state. PooledClient and HashClient return what Client returns on the connection "
              "they use (C16); a caller-supplied flags argument replaces the "
              "serializer's flags and is outside the property.")
LEVEL_NOTE = ("Trusted: Coq kernel; Spec/Server.v, Spec/Reply.v as readings of protocol.txt (compared with harness/refserver.py); the "
              "hand model's correspondence with base.py and serde.py; pickle and the compression codecs are oracles (hypotheses of the "
              "theorem, as in C15). No axioms.")
TRUSTED = ["Coq 8.16.1 kernel; no axioms",
           "coq/Spec/{Server,Reply}.v and harness/refserver.py (compared on every run)",
           "hand-written model coq/Model/Client.v tied to base.py by this check's correspondence run",
           "extraction: ExtrOcamlBasic only; coq/Extract/ocaml/driver.ml"]
ASSUMPTIONS = ["a faithful memcached = Spec/Server.v; item size limit not modelled",
               "pickle.loads(pickle.dumps(v)) == v for the value stored and decompress(compress(b)) == b (hypotheses of c04_e2e_set_then_get_any)"]

NASTY = [b"", b"v", b"\r\n", b"END\r\n", b"\r\nEND\r\n", b"VALUE k 0 1\r\nz\r\nEND\r\n", b"x" * 4094, b"x" * 4095, b"x" * 4096, b"x" * 4097, b"y" * 8192,
         b"a\r\nb" * 1500, bytes(range(256)) * 3, b"\x00", b"STORED\r\n", b"ERROR\r\n"]
KEYS = [b"k", "k2", b"key:3", "\xe9", "€uro", b"x" * 240, b"!\x01\x7f~"]


def reply_cases(ctx):
    rng = random.Random(ctx.seed * 59 + 4)
    out = []
    for _ in range(150 if ctx.quick else 1500):
        n = rng.randrange(0, 4)
        keys = rng.sample([b"a", b"b", b"c", b"key:4", b"\xc3\xa9"], n)
        items = [(k, rng.choice([0, 5, 2 ** 32 - 1]), rng.choice(NASTY), rng.randrange(1, 2 ** 40)) for k in keys]
        wc = rng.random() < 0.5
        rep = b"".join(b"VALUE " + k + b" %d %d" % (f, len(d)) + (b" %d" % c if wc else b"") + b"\r\n" + d + b"\r\n" for k, f, d, c in items) + b"END\r\n"
        out.append((wc, keys + [b"zz"], items, rep, [rng.choice([1, 2, 7, 100, 4096]) for _ in range(rng.randrange(0, 60))]))
        # a near miss: damage one byte of the framing
        if items and rng.random() < 0.5:
            m = bytearray(rep)
            i = rng.randrange(min(len(m), 24))
            m[i] = rng.choice(b" \r\nX09")
            out.append((wc, keys + [b"zz"], None, bytes(m), []))
    return out


def fetch_impl(wc, keys, rep, chunks):
    world = cs.World([], chunks, [rep], 1)
    world.on_block = "SocketTimeout"
    from pymemcache.client.base import Client
    server, kw = cs.client_kwargs(dict(tcp=False), world)
    cl = Client(server, **kw)
    try:
        r = cl.gets_many(keys) if wc else cl.get_many(keys)
        return ("o", sorted((k, (v[0], int(v[1])) if wc else (v, 0)) for k, v in r.items()))
    except BaseException as e:  # noqa
        return ("e", core.exn_name(e))


SERDES = ["none", "pickle0", "pickle2", "pickle5", "compressed", "custom", "legacy", "wideflags"]


def make_serde(name):
    from pymemcache import serde
    if name == "none":
        return None
    if name.startswith("pickle"):
        return serde.PickleSerde(pickle_version=int(name[6:]))
    if name == "compressed":
        return serde.CompressedSerde(min_compress_len=16)

    # a serializer of the application's own, with its own flag values: small ones, or (name "wideflags") flags that need all 32 bits
    fa, fb = (2 ** 32 - 1, 1 << 16) if name == "wideflags" else (9, 11)

    class Rev:
        def serialize(self, key, value):
            return (value[::-1], fa) if isinstance(value, bytes) else (repr(value).encode(), fb)

        def deserialize(self, key, value, flags):
            if flags not in (fa, fb):
                raise ValueError("item came back with flags %r, stored with %r or %r" % (flags, fa, fb))
            return value[::-1] if flags == fa else eval(value.decode())
    return Rev()


VALUES_OBJ = [b"bytes\r\nEND\r\n", "text \xe9€", 0, -7, 2 ** 70, 10 ** 450 + 12345, -(7 ** 300), "z" * 600 + "\xe9", True, None, 3.5, (1, "a", b"b"), {"k": [1, 2, {"z": b"\r\n"}]}, b"x" * 5000, "y" * 5000, [], frozenset([1, 2])]


def subclass_values():
    """instances of str/int/bytes subclasses: pickle and compressed serializers must give the same type back"""
    from harness.props.C15 import MyStr, MyInt, MyBytes
    return [MyStr("subclassed text"), MyStr(""), MyInt(7), MyBytes(b"sub\r\nbytes")]


def expected_back(serde_name, enc, v):
    """what C04 promises comes back"""
    if serde_name == "none":
        return v if isinstance(v, bytes) else str(v).encode("ascii" if enc == 0 else "utf8")
    return v


def roundtrip(stack, c, serde_name, key, value, chunks, coll):
    """-> None or description"""
    srv = Server()
    world = cs.World([], chunks, (), 1, srv.feed)
    server, kw = cs.client_kwargs(c, world)
    sd = make_serde("custom" if serde_name == "legacy" else serde_name)
    if serde_name == "legacy":
        # the older spelling: two functions instead of an object (wrapped by LegacyWrappingSerde in each of the three classes)
        kw["serializer"], kw["deserializer"] = sd.serialize, sd.deserialize
    elif sd is not None:
        kw["serde"] = sd
    from pymemcache.client.base import Client, PooledClient
    from pymemcache.client.hash import HashClient
    cl = {"Client": lambda: Client(server, **kw), "PooledClient": lambda: PooledClient(server, max_pool_size=2, **kw),
          "HashClient": lambda: HashClient([server], **kw)}[stack]()
    other = b"other"
    try:
        want = expected_back(serde_name, c.get("enc", 0), value)
    except UnicodeError:
        return None                      # the value cannot be stored without a serializer under this encoding
    try:
        if cl.set(key, value, noreply=False) is not True:
            return "set did not report success"
        cl.set(other, b"OTHER" if serde_name in ("none", "custom", "legacy", "wideflags") else "OTHER", noreply=False)
        got = cl.get(key)
        if got != want or type(got) is not type(want):
            return "get returned %r (%s), stored %r (%s)" % (repr(got)[:80], type(got).__name__, repr(want)[:80], type(want).__name__)
        g2 = cl.gets(key)
        if g2[0] != want or type(g2[0]) is not type(want):
            return "gets returned %r (%s), stored %s" % (repr(g2)[:100], type(g2[0]).__name__, type(want).__name__)
        # the get-and-touch forms fetch the same item (and the same cas token)
        g3 = cl.gat(key, 0)
        if g3 != want or type(g3) is not type(want):
            return "gat returned %r (%s), stored %r (%s)" % (repr(g3)[:80], type(g3).__name__, repr(want)[:80], type(want).__name__)
        g4 = cl.gats(key, 0)
        if g4[0] != want or type(g4[0]) is not type(want) or g4[1] != g2[1]:
            return "gats returned %r (%s), gets returned %r" % (repr(g4)[:100], type(g4[0]).__name__, repr(g2)[:100])
        ks = [other, key, b"absent"]
        mk_arg = {"list": lambda: list(ks), "tuple": lambda: tuple(ks), "set": lambda: set(ks), "dict_keys": lambda: dict.fromkeys(ks).keys(),
                  "iterator": lambda: iter(list(ks)), "generator": lambda: (k for k in ks)}[coll]
        arg = mk_arg()
        gmany = cl.gets_many(mk_arg())          # the same kind of collection (a fresh one: one-shot iterators are used up) for the cas form
        if set(gmany.keys()) != {other, key} or gmany[key][0] != want or type(gmany[key][0]) is not type(want) or gmany[key][1] != g2[1]:
            return "gets_many(%s) returned keys %r with %r (gets gave %r)" % (coll, sorted(map(repr, gmany.keys())), repr(gmany.get(key))[:80], repr(g2)[:60])
        many = cl.get_many(arg)
        if set(many.keys()) != {other, key} or many[key] != want or type(many[key]) is not type(want):
            return "get_many(%s) returned keys %r with %r" % (coll, sorted(map(repr, many.keys())), repr(many.get(key))[:80])
        if many[other] not in (b"OTHER", "OTHER"):
            return "get_many returned another key's value for %r: %r" % (other, many[other])
        # a second key that BEGINS with the configured prefix: it is prefixed like any other (its wire key is prefix + prefix + ...)
        pfx = c.get("prefix", b"")
        if pfx:
            kb = key.encode("utf8") if isinstance(key, str) else key
            shadow = pfx + kb
            sval = b"SHADOW" if serde_name in ("none", "custom", "legacy", "wideflags") else "SHADOW"
            if cl.set(shadow, sval, noreply=False) is not True:
                return "set(%r) did not report success" % (shadow,)
            g_own, g_sh = cl.get(key), cl.get(shadow)
            if g_own != want or type(g_own) is not type(want) or g_sh not in (b"SHADOW", "SHADOW"):
                return "after also storing %r (the prefix followed by the key): get(key) returned %r, get(%r) returned %r" % (shadow, repr(g_own)[:60], shadow, repr(g_sh)[:60])
            both = cl.get_many([key, shadow])
            if len(both) != 2 or both.get(key) != want or both.get(shadow) not in (b"SHADOW", "SHADOW"):
                return "get_many([key, prefix + key]) returned %r" % (repr(both)[:120],)
        # the other ways to store: replace (existing key), cas (with the token just read), add (fresh key) - each followed by a fetch
        k2 = b"verb-key"
        steps = [("add", lambda: cl.add(k2, value, noreply=False)), ("replace", lambda: cl.replace(k2, value, noreply=False)),
                 ("cas", lambda: cl.cas(k2, value, cl.gets(k2)[1], noreply=False))]
        for verb, store in steps:
            if store() is not True:
                return "%s did not report success" % verb
            gv = cl.get(k2)
            if gv != want or type(gv) is not type(want):
                return "after %s(key, value): get returned %r (%s), stored %r (%s)" % (verb, repr(gv)[:80], type(gv).__name__, repr(want)[:80], type(want).__name__)
        # a key named more than once: every present requested key still comes back under itself with its own value
        for fetch in ("get_many", "gets_many"):
            rep = getattr(cl, fetch)([key, key, other, b"absent", other, key])
            vals_ = {k2: (v2[0] if fetch == "gets_many" else v2) for k2, v2 in rep.items()}
            if set(vals_) != {other, key} or vals_[key] != want or type(vals_[key]) is not type(want) or vals_[other] not in (b"OTHER", "OTHER"):
                return "%s with repeated keys [key, key, other, absent, other, key] returned %r" % (fetch, repr(rep)[:160])
        # a batch of values of DIFFERENT kinds stored by one set_many: each comes back as itself (each item has its own flags)
        batch = {b"m-bytes": b"raw\r\n", b"m-text": "text", b"m-int": 7, b"m-bytes2": b"\xff\xfe"}
        if serde_name in ("none", "custom", "legacy", "wideflags"):
            batch = {k: v for k, v in batch.items() if isinstance(v, bytes)}
        else:
            batch[b"m-obj"] = (1, "a", None)
            batch[b"m-last"] = b"tail"
        if cl.set_many(batch, noreply=False) != []:
            return "set_many(%r) reported failed keys" % (batch,)
        back = cl.get_many(list(batch))
        for bk, bv in batch.items():
            one = cl.get(bk)
            for how, got_v in (("get", one), ("get_many", back.get(bk))):
                if got_v != bv or type(got_v) is not type(bv):
                    return "after set_many(%r): %s(%r) returned %r (%s), stored %r (%s)" % (list(batch.items()), how, bk, repr(got_v)[:60], type(got_v).__name__,
                                                                                           repr(bv)[:60], type(bv).__name__)
        p = c.get("prefix", b"")
        wire = p + (key.encode("utf8") if isinstance(key, str) else key)
        if wire not in srv.d:
            return "the server holds %r, not the prefixed key %r" % (sorted(srv.d)[:3], wire)
        if any(isinstance(k, bytes) and p and k.startswith(p) and k != key for k in many.keys()):
            return "the key prefix is visible to the caller: %r" % (list(many.keys()),)
    except BaseException as e:  # noqa
        return "raised %s: %s" % (type(e).__name__, str(e)[:100])
    return None


def rt_cases(ctx):
    rng = random.Random(ctx.seed * 61 + 4)
    out = []
    for serde_name in SERDES:
        vals = NASTY if serde_name in ("none", "custom", "legacy", "wideflags") else NASTY[:6] + VALUES_OBJ
        if serde_name == "none":
            vals = vals + ["text", "\xe9", 5, -5]
        for v in vals:
            for prefix in (b"", b"p:"):
                key = rng.choice(KEYS)
                c = dict(tcp=False, prefix=prefix, unicode=True, enc=rng.choice([0, 1]), default_noreply=False, ignore_exc=False)
                chunks = [rng.choice([1, 3, 100, 4095, 4096, 4097]) for _ in range(rng.randrange(0, 40))]
                out.append((rng.choice(["Client", "Client", "PooledClient", "HashClient"]), c, serde_name, key, v, chunks,
                            rng.choice(["list", "tuple", "set", "dict_keys", "iterator", "generator"])))
    for key in KEYS:
        for coll in ("list", "tuple", "set", "dict_keys", "iterator", "generator"):
            out.append(("Client", dict(tcp=False, prefix=b"p:", unicode=True, enc=1, default_noreply=False, ignore_exc=False), "none", key, b"v\r\nEND\r\n", [1] * 30, coll))
    for serde_name in SERDES:
        if serde_name in ("none", "custom", "legacy", "wideflags"):
            continue
        for v in subclass_values():
            for stack in ("Client", "PooledClient", "HashClient"):
                c = dict(tcp=False, prefix=rng.choice([b"", b"p:"]), unicode=True, enc=rng.choice([0, 1]), default_noreply=False, ignore_exc=False)
                out.append((stack, c, serde_name, rng.choice(KEYS), v, [rng.choice([1, 7, 4096]) for _ in range(20)], "list"))
    return out


def correspondence(ctx):
    dis = []
    sdrv, serr = core.get_driver("D_Server")
    rc = reply_cases(ctx)
    nr_ = 0
    if sdrv is None:
        dis.append({"what": "reply parser", "error": "Spec/Reply.v driver does not build: %s" % (serr or "")[-300:]})
    else:
        try:
            res = sdrv.call_many([(2, (wc, rep)) for wc, keys, items, rep, ch in rc])
            for (wc, keys, items, rep, ch), m in zip(rc, res):
                nr_ += 1
                spec = None if m[0] != "ok" or m[1] is None else sorted((k, (d, c) if wc else (d, 0)) for k, f, d, c in m[1])
                got = fetch_impl(wc, keys, rep, ch)
                if spec is not None and any(k not in keys for k, _ in spec):
                    spec = None
                if items is not None and spec is None:
                    dis.append({"what": "Spec/Reply.v rejects a rendered reply", "reply": repr(rep)[:200]})
                elif spec is not None and got != ("o", spec):
                    dis.append({"what": "fetch loop vs strict reply reader", "reply": repr(rep)[:200], "chunks": ch[:10], "impl": repr(got)[:300], "spec": repr(spec)[:300]})
                elif spec is None and got[0] == "o" and items is None and got[1]:
                    # the strict reader rejects the damaged reply; the client may be more lenient only if it returns nothing it was not sent
                    pass
        finally:
            sdrv.close()
    # the Client model vs the real Client: store then fetch, nasty values, segmentations
    rng = random.Random(ctx.seed * 67 + 4)
    hk = cs.handler_kinds()
    reqs, impl, cases = [], [], []
    for i in range(200 if ctx.quick else 2000):
        c = dict(tcp=False, prefix=rng.choice([b"", b"p:"]), default_noreply=False, ignore_exc=False, serde=rng.choice([0, 1, 1, 2, 3, 12]), unicode=True, enc=rng.choice([0, 1]))
        k, v = rng.choice(KEYS[:5]), rng.choice(NASTY[:8] + ["text", 5])
        ops = [(0, 0, k, v, 0, False, None), (3, k, None), (4, k, None, None), (5, k, 0, None), (6, k, 0, None, None), (7, rng.random() < 0.3, [b"zz", k]), (8, False, [k, b"q"]), (7, False, [k, b"zz", k, b"m9", k]),
               # one set_many with values of different kinds (each item carries its own serializer flags), then fetched together
               (1, [(b"m1", b"raw"), (b"m2", "text"), (b"m3", 7), (b"m4", b"tail")], 0, False, None), (7, False, [b"m1", b"m2", b"m3", b"m4"])]
        srv = Server()
        ch = [rng.choice([1, 2, 5, 4096]) for _ in range(rng.randrange(0, 50))]
        r = cs.run_impl(c, ops, [], ch, (), None, srv.feed)
        impl.append(r)
        cases.append((c, ops, ch))
        reqs.append(cs.model_req(c, ops, [], ch, [t[2] for t in r[6].tags], hk))
    model = ctx.driver.call_many(reqs)
    for (c, ops, ch), r, m in zip(cases, impl, model):
        mm = cs.decode_model(m)
        if tuple(r[:3]) != tuple(mm[:3]):
            dis.append({"what": "Client model vs Client", "cfg": repr(c), "ops": repr(ops)[:200], "impl": repr(r[0])[:300], "model": repr(mm[0] if len(mm) > 2 else mm)[:300]})
    return {"evaluations": nr_ + len(cases), "distinct_nontrivial": nr_ + len(cases),
            "rule": "the real fetch loop (get_many/gets_many) vs the extracted strict reply reader of Spec/Reply.v on %d retrieval replies (0-3 items, data "
                    "from a nasty corpus incl. CR LF/END/VALUE lines and sizes 4094..8192, random recv chunking; one-byte framing damage as near misses): "
                    "same items; extracted Client model vs the real Client on %d store-then-fetch sequences (get, gets, get_many incl. one-shot "
                    "iterators, gets_many) with the reference server's replies; serializer none / PickleSerde / CompressedSerde with the identity codec "
                    "and min_compress_len 0, 1, 10 (native values, so the pickle oracle is never reached)" % (nr_, len(cases)),
            "samples": [{"with_cas": a, "reply": repr(r)[:100]} for a, b, cc, r, d in rc[:2]],
            "distribution": {"reply_cases": nr_, "sequences": len(cases)}, "disagreements": dis}


def search(ctx):
    found = []
    cl = rt_cases(ctx)
    for case in cl:
        why = roundtrip(*case)
        if why:
            stack, c, serde_name, key, value, chunks, coll = case
            found.append({"clause": why, "input": {"class": stack, "cfg": repr(c), "serde": serde_name, "key": repr(key), "value": repr(value)[:80], "collection": coll,
                                                    "chunks": chunks[:10]}, "size": len(repr(value)) + len(chunks), "case": repr(case) if len(repr(case)) < 20000 else None})
    ctx.search_summary = {"round_trips": len(cl), "serdes": SERDES}
    found.sort(key=lambda v: v["size"])
    return found[:1]


def replay(ctx, obj):
    v = obj.get("violation")
    if not v or not v.get("case"):
        return None
    why = roundtrip(*eval(v["case"]))
    print(why or "round trip holds")
    return bool(why)
