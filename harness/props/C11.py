"""C11 — key placement is a pure, order-independent, minimally disruptive function."""
import itertools
import json
import os
import subprocess
import sys

from harness import core

PROP = "C11"
GEN = ["Murmur3", "Rendezvous"]
VO = ["Properties/C11.vo", "Extract/D_C11.vo", "Extract/O_C11.vo"]
MODULE = "Properties.C11"
THEOREMS = ["c11_spec_any_hash", "c11_owner_unique", "c11_spec", "c11_order", "c11_history", "c11_remove", "c11_add", "c11_spelling_host_port", "c11_spelling_default_port", "c11_spelling_unix", "c11_spelling_brackets"]
DRIVER = "D_C11"
ORACLE = "O_C11"
TECHNIQUE = ("Coq proof about the Gallina translation of RendezvousHash.get_node/add_node/remove_node (regenerated every "
             "run): equals the HRW argmax rule for every hash function, hence order/history independence and minimal "
             "disruption; instantiated with the translated murmur3_32; extracted-model/implementation differential run")
LEVEL_TEXT = ("Proved for all node lists, keys, seeds and all non-negative hash functions: get_node returns the unique node "
              "with the highest (score, name); placement depends only on the node set (permutations, add/remove histories); "
              "remove moves only the removed node's keys; add moves keys only onto the new node. 'Spread' is a vm_compute "
              "computation over a corpus, not a theorem. c11_spelling_*: in the hand model of normalize_server_spec + "
              "_make_client_key (compared with the real functions on ~500 well-formed and malformed spellings each run) the "
              "string 'host:port' and the tuple (host, port) give the node name 'host:port', a bare host means port 11211, "
              "'unix:/path' equals '/path', '[v6]:port' equals (v6, port) - for every host, path and port.")
LEVEL_NOTE = ("Trusted: Coq kernel; translator and PM.Lib.Py (str(), max, f-string, list append/remove/in); the constructor "
              "wiring `lambda x: hash_function(x, seed)` is checked structurally by the generator; nodes are str values. "
              "No axioms.")
TRUSTED = [
    "Coq 8.16.1 kernel; no axioms (Closed under the global context)",
    "translator tools/py2coq (dyn mode, named loop bodies, self-state threading for add_node/remove_node); gen.py checks the constructor's hash wiring syntactically",
    "PM.Lib.Py: str() of str/bytes/int, max on str, f-strings, list `in`/append/remove, == on dyn",
    "hand-written model coq/Model/ServerSpec.v tied to normalize_server_spec/_make_client_key by this check's correspondence run",
    "extraction: ExtrOcamlBasic only; coq/Extract/ocaml/driver.ml",
]
ASSUMPTIONS = ["nodes are str (HashClient's '%s:%s' % server or a socket path)",
               "a key is the Python value passed: 'abc' and b'abc' are different keys (str(b'abc') is \"b'abc'\")",
               "'spread' is a computation over a corpus; int() of a port string is modelled for ASCII digits, sign, underscores and surrounding whitespace (not for non-ASCII Unicode digits)"]

NAMES = ["10.0.0.1:11211", "10.0.0.2:11211", "cache-a:11211", "cache-b:11212", "/tmp/mc.sock", "::1:11211",
         "h:1", "h:2"]


def impl_get_node(nodes, key, seed=0, table=None, dflt=0):
    from pymemcache.client.rendezvous import RendezvousHash
    try:
        if table is None:
            rh = RendezvousHash(nodes=list(nodes), seed=seed)
        else:
            t = dict(table)
            rh = RendezvousHash(nodes=list(nodes), seed=seed, hash_function=lambda x, s: t.get(x, dflt))
        return ("ok", rh.get_node(key))
    except BaseException as e:   # noqa
        return ("ex", core.exn_name(e))


def gen_cases(ctx):
    rng = ctx.rng
    cases = []
    keys = ["k", "key:1", b"bytes-key", "", "\xe9", 17, "a b", "0", "1", "2"]
    for n in range(0, 6):
        for nodes in itertools.islice(itertools.permutations(NAMES[:max(n, 1)], n), 0, 130 if ctx.quick else 800):
            for key in keys[:5 if n > 3 else len(keys)]:
                cases.append(("murmur", list(nodes), key, rng.choice([0, 0, 1, 12345])))
    for _ in range(300 if ctx.quick else 6000):
        n = rng.randrange(1, 9)
        nodes = rng.sample(NAMES, n)
        key = rng.choice(["key%d" % rng.randrange(10000), b"k%d" % rng.randrange(100), rng.randrange(1000)])
        cases.append(("murmur", nodes, key, 0))
    # keys up to the 250-byte limit and long socket paths: the scored string '<node>-<key>' runs past 256, 512 characters
    long_nodes = ["/var/run/memcached/" + "shard-%d-" % i + "x" * (90 + 40 * i) + ".sock" for i in range(3)]
    for i in range(12 if ctx.quick else 60):
        ln = rng.choice([200, 230, 239, 240, 241, 243, 249, 250])
        key = "".join(rng.choice("abcdefghijklmnopqrstuvwxyz0123456789:_") for _ in range(ln))
        nodes = rng.sample(NAMES, rng.randrange(2, 6)) if i % 2 else rng.sample(NAMES[:4] + long_nodes, rng.randrange(2, 6))
        cases.append(("murmur", nodes, key if i % 4 else key.encode(), rng.choice([0, 0, 7])))
    # table-driven hash functions with forced ties
    for _ in range(300 if ctx.quick else 6000):
        n = rng.randrange(1, 7)
        nodes = rng.sample(["a", "b", "c", "d", "ab", "ba", "B", ""], n)
        key = rng.choice(["k", "q"])
        table = [("%s-%s" % (nd, key), rng.randrange(0, 3)) for nd in nodes]
        cases.append(("table", nodes, key, table, rng.randrange(0, 2)))
    # hash functions whose values do not fit 32 bits (a 64-bit hash is a legal hash_function): the score is compared as it is
    wide = [1, 2 ** 32, 2 ** 32 + 1, 2 ** 33 + 5, 2 ** 63, 2 ** 64 - 1, 2 ** 32 - 1, 5]
    for _ in range(120 if ctx.quick else 2000):
        n = rng.randrange(2, 6)
        nodes = rng.sample(["a", "b", "c", "d", "ab", "ba", "B"], n)
        key = rng.choice(["k", "q"])
        table = [("%s-%s" % (nd, key), rng.choice(wide)) for nd in nodes]
        cases.append(("table", nodes, key, table, 0))
    return cases


def spellings(ctx):
    """server specifications in every accepted spelling, plus malformed ones"""
    rng = ctx.rng
    hosts = ["h", "10.0.0.1", "cache-a.example.com", "::1", "fe80::1%eth0", "unix", "unixx", "a]", "[", "]", "x[y]", "", " h", "h ",
             "Cache-A.Internal", "FE80::1", "UNIX", "Unix", "H"]        # the host is taken as written: letter case included
    ports = ["11211", "1", "0", "65535", "011", " 12", "12 ", "+5", "1_0", "-1", "", "x", "0x10", "1.5"]      # (non-ASCII Unicode digits, which int() also accepts, are outside the model)
    out = [("h", 11211), ("10.0.0.1", 1), ("::1", 11311), ("h", "11211"), "/tmp/mc.sock", "unix:/tmp/mc.sock", "unix:", "unix:rel", "/", "unix:unix:/x", "UNIX:/tmp/mc.sock", "unix:/Tmp/MC.sock", "/Tmp/MC.sock"]
    for h in hosts:
        out.append(h)
        out.append("[" + h + "]")
        for pt in ports:
            out.append(h + ":" + pt)
            out.append("[" + h + "]:" + pt)
    for _ in range(100 if ctx.quick else 1500):
        n = rng.randrange(0, 9)
        out.append("".join(rng.choice("h1:[]/. unix-_%HU") for _ in range(n)))
    return out


def correspondence(ctx):
    from pymemcache.client.rendezvous import RendezvousHash
    cases = gen_cases(ctx)
    reqs = []
    for c in cases:
        if c[0] == "murmur":
            reqs.append((1, (list(c[1]), c[2], c[3])))
        else:
            reqs.append((2, (list(c[1]), c[2], [(k, v) for k, v in c[3]], c[4])))
    model = ctx.driver.call_many(reqs)
    dis = []
    for c, m in zip(cases, model):
        r = impl_get_node(c[1], c[2], c[3]) if c[0] == "murmur" else impl_get_node(c[1], c[2], 0, c[3], c[4])
        if r != m:
            dis.append({"case": repr(c), "impl": repr(r), "model": repr(m)})
    # add_node / remove_node histories: model list vs implementation list after every step
    nh = 200 if ctx.quick else 3000
    steps = 0
    for _ in range(nh):
        rh = RendezvousHash()
        rh.nodes = []
        ml = []
        for _ in range(ctx.rng.randrange(1, 9)):
            op = ctx.rng.choice(["add", "add", "remove"])
            n = ctx.rng.choice(NAMES[:5])
            steps += 1
            try:
                (rh.add_node if op == "add" else rh.remove_node)(n)
                r = ("ok", (list(rh.nodes), None))
            except BaseException as e:  # noqa
                r = ("ex", core.exn_name(e))
            m = ctx.driver.call(3 if op == "add" else 4, list(ml), n)
            if m[0] == "ok":
                ml = m[1][0]
            if (r[0], list(r[1]) if r[0] == "ok" else r[1]) != (m[0], list(m[1]) if m[0] == "ok" else m[1]):
                dis.append({"history_step": (op, n), "impl": repr(r), "model": repr(m)})
                break
    # node names: the ServerSpec model vs normalize_server_spec + HashClient._make_client_key on many spellings
    from pymemcache.client.base import normalize_server_spec
    from pymemcache.client.hash import HashClient
    specs = spellings(ctx)
    mk = HashClient.__new__(HashClient)._make_client_key
    mres = ctx.driver.call_many([(8, (sp,)) for sp in specs])
    for sp, m in zip(specs, mres):
        try:
            r = ("ok", mk(normalize_server_spec(sp)))
        except BaseException as e:  # noqa
            r = ("ex", core.exn_name(e))
        if r != m:
            dis.append({"server_spec": repr(sp), "impl": repr(r), "model": repr(m)})
    distinct = len({repr(c) for c in cases if len(c[1]) >= 2})
    return {"evaluations": len(cases) + steps + len(specs), "distinct_nontrivial": distinct,
            "rule": "generated get_node (extracted) vs RendezvousHash.get_node: permutations of up to 5 of 8 node names x "
                    "str/bytes/int/empty/non-ASCII keys x seeds; random subsets; table-driven hash functions with values in "
                    "0..2 (forced ties); add/remove histories of length <= 8 compared step by step; non-trivial = >= 2 nodes",
            "samples": [{"case": repr(c), "result": repr(m)} for c, m in list(zip(cases, model))[500:503]],
            "distribution": {"murmur_cases": sum(1 for c in cases if c[0] == "murmur"),
                             "table_cases": sum(1 for c in cases if c[0] == "table"),
                             "tie_cases": sum(1 for c in cases if c[0] == "table" and len({v for _, v in c[3]}) < len(c[3])),
                             "history_steps": steps},
            "disagreements": dis}


def hashseed_digest(seed):
    code = ("import sys; sys.path.insert(0, %r)\n"
            "from pymemcache.client.hash import HashClient\n"
            "hc = HashClient([('10.0.0.%%d' %% i, 11211) for i in range(1, 6)] + ['/tmp/s.sock'])\n"
            "print([hc.hasher.get_node(k) for k in ['k%%d' %% i for i in range(200)] + [b'b%%d' %% i for i in range(50)]])\n"
            % core.REPO)
    env = dict(os.environ, PYTHONHASHSEED=str(seed))
    return subprocess.run([sys.executable, "-c", code], env=env, capture_output=True, text=True, timeout=60).stdout


def search(ctx):
    """Implementation (RendezvousHash, HashClient routing) against the extracted HRW oracle and the property's clauses."""
    from pymemcache.client.rendezvous import RendezvousHash
    from pymemcache.client.hash import HashClient
    rng = ctx.rng
    found = []
    n_oracle = n_hist = n_route = 0

    def strkey(k):
        r = ctx.oracle.call(7, k)
        return r[1] if r[0] == "ok" else None
    # 1. get_node == oracle (reference murmur + argmax with ties to the greatest name)
    cases = [c for c in gen_cases(ctx) if all(isinstance(x, str) for x in c[1]) and all(ord(ch) < 256 for ch in str(c[2]))]
    reqs, kept = [], []
    for c in cases:
        ks = strkey(c[2])
        if ks is None:
            continue
        kept.append(c)
        if c[0] == "murmur":
            reqs.append((5, (list(c[1]), ks, c[3])))
        else:
            reqs.append((6, (list(c[1]), ks, [(k, v) for k, v in c[3]], c[4])))
    oracle = ctx.oracle.call_many(reqs)
    for c, o in zip(kept, oracle):
        n_oracle += 1
        r = impl_get_node(c[1], c[2], c[3]) if c[0] == "murmur" else impl_get_node(c[1], c[2], 0, c[3], c[4])
        if r != o:
            found.append({"clause": "published rendezvous rule", "input": repr(c), "observed": repr(r),
                          "expected": repr(o), "size": len(c[1])})
    # 2. history independence, minimal disruption on the implementation itself
    keys = ["key%d" % i for i in range(60)]
    for _ in range(60 if ctx.quick else 600):
        n_hist += 1
        final = rng.sample(NAMES, rng.randrange(1, 7))
        extra = [x for x in NAMES if x not in final]
        rh1 = RendezvousHash()
        rh1.nodes = []
        for x in final:
            rh1.add_node(x)
        rh2 = RendezvousHash()
        rh2.nodes = []
        order = final[:]
        rng.shuffle(order)
        for x in order:
            rh2.add_node(x)
            if extra and rng.random() < 0.5:
                y = rng.choice(extra)
                rh2.add_node(y)
                rh2.remove_node(y)
        p1 = [rh1.get_node(k) for k in keys]
        p2 = [rh2.get_node(k) for k in keys]
        if p1 != p2:
            found.append({"clause": "placement depends only on the node set", "input": {"final": final, "order": order},
                          "observed": "placements differ", "expected": "equal", "size": len(final)})
        if len(final) >= 2:
            r = rng.choice(final)
            rh1.remove_node(r)
            p3 = [rh1.get_node(k) for k in keys]
            moved = [k for k, a, b in zip(keys, p1, p3) if a != b and a != r]
            if moved:
                found.append({"clause": "removal moves only the removed node's keys", "input": {"nodes": final, "removed": r, "key": moved[0]},
                              "observed": "key moved", "expected": "unchanged", "size": len(final)})
            rh1.add_node(r)
            p4 = [rh1.get_node(k) for k in keys]
            bad = [k for k, a, b in zip(keys, p3, p4) if a != b and b != r]
            if bad:
                found.append({"clause": "addition moves keys only onto the new node", "input": {"nodes": final, "added": r, "key": bad[0]},
                              "observed": "key moved elsewhere", "expected": "old owner or new node", "size": len(final)})
    # 2b. one long-lived hasher: lookups interleaved with add/remove (incl. same-size swaps) must always follow the rule
    n_live = 0
    for _ in range(30 if ctx.quick else 400):
        rh = RendezvousHash()
        rh.nodes = []
        cur = []
        hist = []
        for x in rng.sample(NAMES, 3):
            rh.add_node(x)
            cur.append(x)
            hist.append(("add", x))
        for step in range(10):
            kind = rng.choice(["lookup", "swap", "add", "remove"])
            if kind == "swap" and len(cur) < len(NAMES) and cur:
                x = rng.choice(cur)
                y = rng.choice([z for z in NAMES if z not in cur])
                rh.remove_node(x)
                cur.remove(x)
                rh.add_node(y)
                cur.append(y)
                hist += [("remove", x), ("add", y)]
            elif kind == "add" and len(cur) < len(NAMES):
                y = rng.choice([z for z in NAMES if z not in cur])
                rh.add_node(y)
                cur.append(y)
                hist.append(("add", y))
            elif kind == "remove" and len(cur) > 1:
                x = rng.choice(cur)
                rh.remove_node(x)
                cur.remove(x)
                hist.append(("remove", x))
            ks = ["key%d" % i for i in range(6)]
            exp = ctx.oracle.call_many([(5, (list(cur), k, 0)) for k in ks])
            hist.append(("lookup", len(ks)))
            for k, e in zip(ks, exp):
                n_live += 1
                got = ("ok", rh.get_node(k))
                if got != e:
                    found.append({"clause": "placement depends only on the key and the set of servers in rotation (long-lived hasher)",
                                  "input": {"history": hist[:], "key": k, "nodes": list(cur)}, "observed": repr(got), "expected": repr(e), "size": len(hist)})
                    break
            if found and found[-1].get("size") == len(hist):
                break
    # 3. HashClient routes by the same rule; equivalent spellings give the same placement
    specs = [("10.0.0.1", 11211), ("10.0.0.2", 11211), ("cache-a", 11212), "/tmp/mc.sock"]
    hc = HashClient(specs)
    names = ["10.0.0.1:11211", "10.0.0.2:11211", "cache-a:11212", "/tmp/mc.sock"]
    if sorted(hc.hasher.nodes) != sorted(names):
        found.append({"clause": "node name derived from normalised (host, port)", "input": repr(specs),
                      "observed": repr(hc.hasher.nodes), "expected": repr(names), "size": 0})
    rk = ["rk%d" % i for i in range(100)] + [b"rb%d" % i for i in range(30)]
    o = ctx.oracle.call_many([(5, (names, strkey(k), 0)) for k in rk])
    for k, oo in zip(rk, o):
        n_route += 1
        cl, _ = hc._get_client(k)
        got = "%s:%s" % cl.server if isinstance(cl.server, tuple) else cl.server
        if ("ok", got) != oo:
            found.append({"clause": "HashClient contacts the rendezvous owner", "input": repr(k), "observed": got,
                          "expected": repr(oo), "size": 1})
    spell = [(["h:11211"], [("h", 11211)]), (["h"], [("h", 11211)]), (["[::1]:11311"], [("::1", 11311)]), (["[::1]"], [("::1", 11211)]),
             (["unix:/tmp/x.sock"], ["/tmp/x.sock"]), (["h:1", "g:2"], [("g", 2), ("h", 1)]),
             (["10.0.0.1", "10.0.0.2:11211", "[::1]", "cache.example.com:11212", "unix:/var/run/mc.sock"],
              [("10.0.0.1", 11211), ("10.0.0.2", 11211), ("::1", 11211), ("cache.example.com", 11212), "/var/run/mc.sock"]),
             (["10.0.0.1", "10.0.0.1:11211", ("10.0.0.1", 11211)], [("10.0.0.1", 11211)]),
             # letter case is part of the name, in the string spelling as in the tuple
             (["Cache-A.Internal:11211", "Cache-B.Internal"], [("Cache-A.Internal", 11211), ("Cache-B.Internal", 11211)]),
             (["[FE80::1]:11311", "[FE80::2]"], [("FE80::1", 11311), ("FE80::2", 11211)]), (["unix:/Tmp/MC.sock"], ["/Tmp/MC.sock"])]
    for a, b in spell:
        ha, hb = HashClient(a), HashClient(b)
        na, nb = sorted(ha.hasher.nodes), sorted(hb.hasher.nodes)
        why = None
        named = sorted(("%s:%s" % x) if isinstance(x, tuple) else x for x in b)        # the rule's own names: '<host>:<port>' or the socket path
        if na != nb:
            why = "node names differ: %r vs %r" % (na, nb)
        elif na != named:
            why = "the nodes are named %r; the placement rule scores '<host>:<port>-<key>' (or '<path>-<key>'), i.e. %r" % (na, named)
        else:
            for k in rk[:60]:
                sa, sb = ha._get_client(k)[0].server, hb._get_client(k)[0].server
                if sa != sb:
                    why = "key %r is placed on %r under one spelling and on %r under the other" % (k, sa, sb)
                    break
        if why:
            found.append({"clause": "equivalent spellings of a server address give the same placement: " + why,
                          "input": {"a": repr(a), "b": repr(b)}, "observed": repr((na, nb)), "expected": "equal node names and placement", "size": 0})
    # 3a. through HashClient too, placement is a function of the key and the servers IN ROTATION: a server that was removed gets
    # nothing, also when it was the only one (nobody is in rotation then: no client at all)
    for servers in ([("h", 1)], [("h", 1), ("g", 2)], ["/tmp/only.sock"]):
        for k in ("key1", b"key2", ("sk", "inner")):
            hc1 = HashClient(list(servers), ignore_exc=True, dead_timeout=3600, retry_attempts=0)
            gone = servers[0]
            hc1._mark_failed_server(gone)        # what a failed call does: with retry_attempts=0 the server leaves the rotation at once
            try:
                cl1 = hc1._get_client(k)[0]
                got = None if cl1 is None else cl1.server
            except Exception as e:  # noqa
                got = "%s: %s" % (type(e).__name__, e)
            left = [x for x in servers[1:]]
            if (not left and got is not None) or (left and got != left[0]):
                found.append({"clause": "placement depends only on the key and the servers in rotation: after %r failed and left the rotation the key %r is routed to %r "
                                        "(in rotation: %r)" % (gone, k, got, left),
                              "input": {"servers": repr(servers), "removed": repr(gone), "key": repr(k)}, "observed": repr(got), "expected": repr(left[0] if left else None), "size": 0})
    # 3b. 'unix:<path>' names the socket <path>, whatever <path> starts with (paths beginning with a letter of "unix:" included)
    for path in ("/tmp/x.sock", "nodes/mc.sock", "u", "xinu:/a", "i/n/u/x.sock", "unix:/y", ":", "/unix:z"):
        try:
            # the name placement uses (no client is built: a RELATIVE path handed on to Client is normalised a second time there and
            # read as a host name - a defect of the pinned code outside this property, see DESIGN section 6)
            from pymemcache.client.base import normalize_server_spec
            got = [HashClient([])._make_client_key(normalize_server_spec("unix:" + path))]
        except Exception as e:  # noqa
            got = "%s: %s" % (type(e).__name__, e)
        if got != [path]:
            found.append({"clause": "equivalent spellings of a server address give the same placement: the node of 'unix:%s' is named %r, not %r" % (path, got, path),
                          "input": {"a": repr(["unix:" + path])}, "observed": repr(got), "expected": repr([path]), "size": 0})
    # 4. process / hash-randomisation independence
    digs = {hashseed_digest(s) for s in (0, 1, 2, 4242)}
    if len(digs) != 1 or "" in digs:
        found.append({"clause": "placement does not depend on the process or hash randomisation", "input": "PYTHONHASHSEED in {0,1,2,4242}",
                      "observed": "%d distinct placements" % len(digs), "expected": "1", "size": 0})
    ctx.search_summary = {"oracle_comparisons": n_oracle, "history_trials": n_hist, "long_lived_lookups": n_live, "routing_checks": n_route,
                          "spelling_pairs": len(spell), "hashseed_processes": 4}
    found.sort(key=lambda v: v["size"])
    return found[:1]


def replay(ctx, obj):
    v = obj.get("violation")
    if not v or v.get("clause") != "published rendezvous rule":
        return None
    c = eval(v["input"])
    r = impl_get_node(c[1], c[2], c[3]) if c[0] == "murmur" else impl_get_node(c[1], c[2], 0, c[3], c[4])
    print("get_node", c, "->", r, "expected", v["expected"])
    return repr(r) != v["expected"]
