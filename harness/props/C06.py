"""C06 — connection lifecycle: errors close, next call reconnects, no socket leaks."""
import itertools

from harness import clientsim as cs
from harness.clientsim import TAGS

PROP = "C06"
GEN = ["Wrappers", "Handlers"]
VO = ["Properties/C06.vo", "Extract/D_Client.vo", "Extract/O_C06.vo"]
MODULE = "Properties.C06"
THEOREMS = ["c06_invariant", "c06_sequences", "c06_inv_meaning", "c06_failure_closes_fetch", "c06_failure_closes_store",
            "c06_failure_closes_misc", "c06_connect", "c06_fallback_skip", "c06_fallback_success", "c06_stack_timeouts", "c06_src_handlers"]
DRIVER = "D_Client"
ORACLE = "O_C06"
TECHNIQUE = ("Coq proof in a Hoare logic over the Client model: a lifecycle monitor automaton (one open socket, timeout and "
             "TLS discipline, close on failure) is never tripped and {open sockets} = {self.sock} at every call boundary, "
             "for every operation, configuration and Exception-class fault script; model tied to the code by an exhaustive "
             "fault-position differential run; the extracted monitor is the search oracle on the real trace")
LEVEL_TEXT = ("c06_invariant/c06_sequences: for every operation sequence, peer, recv behaviour and script of Exception-class "
              "failures at any socket call, the boundary invariant (monitor untripped; exactly self.sock open, connected under "
              "connect timeout then I/O timeout, TLS-wrapped when configured) holds whenever a call returns or raises; "
              "c06_failure_closes_*: an exception covered by the cleanup handler leaves nothing open and sock None; "
              "c06_connect; c06_fallback_*: failing addresses are skipped without a stale error. Partial: OS socket "
              "semantics are modelled; 'the next call works' is exercised by the search, not proved.")
LEVEL_NOTE = ("Trusted: Coq kernel; hand model's correspondence with base.py (exhaustive single-fault positions x kinds x "
              "configurations, traces compared event by event); close() counts as closed whatever it raises; TLS over UNIX "
              "sockets excluded (hypothesis c_tls -> c_tcp). No axioms.")
TRUSTED = ["Coq 8.16.1 kernel; no axioms",
           "hand-written model coq/Model/{World,Readers,Client}.v tied to pymemcache/client/base.py by this check's correspondence run",
           "Spec/Lifecycle.v is the written meaning of C06's discipline (extracted and run on the real trace as oracle)",
           "the OS: a socket is what Model/World.v says it is; close() is counted as closing even when it raises",
           "extraction: ExtrOcamlBasic only; coq/Extract/ocaml/driver.ml"]
ASSUMPTIONS = ["failures of non-recv socket calls are Exception-class (KeyboardInterrupt-like interruptions are C10)",
               "TLS context with a UNIX socket path is outside the quantifier", "what close() does in the kernel is not modelled"]

FAULTS = ["OSError", "SocketTimeout", "GaiError", "ValueError", "ConnectionRefusedError"]
CONFIGS = [dict(tcp=True, naddr=1), dict(tcp=True, naddr=2), dict(tcp=True, naddr=3), dict(tcp=False),
           dict(tcp=True, naddr=1, tls=True), dict(tcp=True, naddr=2, tls=True, nodelay=True),
           dict(tcp=True, naddr=2, nodelay=True, keepalive=True), dict(tcp=False, keepalive=True),
           dict(tcp=True, naddr=1, ignore_exc=True), dict(tcp=True, naddr=0),
           # timeouts left unset: the I/O timeout (None = block) must still replace the connect timeout, and vice versa
           dict(tcp=False, ct=3.0, it=None), dict(tcp=True, naddr=2, ct=None, it=7.0), dict(tcp=False, ct=None, it=None)]
OPS = [((3, b"k", None), b"VALUE k 0 1\r\nv\r\nEND\r\n"), ((0, 0, b"k", b"v", 0, False, None), b"STORED\r\n"),
       ((9, b"k", False), b"DELETED\r\n"), ((0, 0, b"k", b"v", 0, True, None), None),
       ((1, [(b"a", b"1"), (b"b", b"2")], 0, False, None), b"STORED\r\nSTORED\r\n"), ((15,), b"VERSION 1\r\n"),
       ((7, False, [b"a", b"b"]), b"VALUE a 0 1\r\nx\r\nEND\r\n"), ((17,), None), ((23, 64), b"OK\r\n"), ((24, True), b"ERROR\r\n")]
FOLLOW = [((3, b"k", None), b"END\r\n"), ((13, b"k", 0, False), b"TOUCHED\r\n")]


def cases(ctx):
    out = []
    for cfg in CONFIGS:
        c = dict(cfg, default_noreply=False)
        nconn = 14
        for (op, rep) in OPS:
            ops = [op] + [f[0] for f in FOLLOW]
            replies = [r for r in [rep] + [f[1] for f in FOLLOW]]
            replies = [r if r is not None else b"" for r in replies]
            out.append((c, ops, [], [], replies))
            for pos in range(0, nconn + 3):
                for fk in (FAULTS if ctx.quick is False or pos < 12 else FAULTS[:2]):
                    script = [0] * pos + [(TAGS[fk],)]
                    out.append((c, ops, script, [], replies))
            # two faults: the reconnect of the next call fails too
            for p1, p2 in itertools.combinations(range(0, nconn), 2):
                if (p1 + p2) % (3 if ctx.quick else 1) == 0:
                    script = [0] * p1 + [(TAGS["OSError"],)] + [0] * (p2 - p1 - 1) + [(TAGS["SocketTimeout"],)]
                    out.append((c, ops, script, [], replies))
            # recv faults and end of stream at every recv of the first op
            for rpos in range(0, 4):
                for ch in ((TAGS["ConnectionResetError"],), (TAGS["SocketTimeout"],), None):
                    choices = [3] * rpos + [ch]
                    out.append((c, ops, [], choices, replies))
            # "whatever failures occur while ... sending or receiving": also failures that are not ordinary errors (an interruption, a
            # gevent-style timeout), once the connection is up: at the sendall of the first op and at its first recvs
            dry = cs.run_impl(c, ops, [], [], replies)
            sends = [i for i, e in enumerate([e for e in dry[1] if e[0] != 8]) if e[0] == 7]
            for fk in ("KeyboardInterrupt", "GreenletTimeout"):
                if sends:
                    out.append((c, ops, [0] * sends[0] + [(TAGS[fk],)], [], replies))
                if rep:
                    for rpos in range(0, 2):
                        out.append((c, ops, [], [3] * rpos + [(TAGS[fk],)], replies))
            # a call can also fail on what the server says: an error line, or a line that is no reply at all (for a batch: in the
            # middle of the replies) - "after any failed call the next call opens a fresh connection"
            if rep:
                lines = rep.split(b"\r\n")[:-1]
                # (the three error lines every exchange path recognises while reading; how an operation interprets an unexpected but
                # complete reply afterwards - version, incr - is not a connection matter)
                for bad in (b"SERVER_ERROR out of memory storing object", b"CLIENT_ERROR bad data chunk", b"ERROR"):
                    out.append((c, ops, [], [], [bad + b"\r\n"] + replies[1:]))
                    if len(lines) > 1 and not rep.startswith(b"VALUE"):
                        out.append((c, ops, [], [], [bad + b"\r\n" + b"".join(x + b"\r\n" for x in lines[1:])] + replies[1:]))
            # fallback: socket() fails for the first j addresses
            if c.get("tcp") and c.get("naddr", 1) >= 2:
                for j in range(1, c["naddr"] + 1):
                    out.append((c, ops, [0] + [(TAGS["OSError"],)] * j, [], replies))
    return out


def correspondence(ctx):
    cl = cases(ctx)
    hk = cs.handler_kinds()
    model = ctx.driver.call_many([cs.model_req(c, ops, sc, ch, rp, hk) for c, ops, sc, ch, rp in cl])
    dis = []
    for (c, ops, sc, ch, rp), m in zip(cl, model):
        r = cs.run_impl(c, ops, sc, ch, rp)
        mm = cs.decode_model(m)
        if tuple(r[:6]) != tuple(mm[:6]):
            d = {"cfg": repr(c), "ops": repr(ops)[:160], "script": repr(sc), "choices": repr(ch), "impl": repr((r[0], r[2])), "model": repr((mm[0], mm[2]) if len(mm) > 2 else mm)}
            if len(mm) > 1:
                for i, (a, b) in enumerate(zip(r[1], mm[1])):
                    if a != b:
                        d["first_trace_difference"] = (i, repr(a), repr(b))
                        break
            dis.append(d)
    return {"evaluations": len(cl), "distinct_nontrivial": len({(repr(c), repr(o), repr(s), repr(h)) for c, o, s, h, r in cl if s or h}),
            "rule": "extracted Client model vs real Client, traces compared event by event: 10 configurations (TCP with 0/1/2/3 "
                    "resolved addresses, UNIX, TLS, no_delay, keepalive, ignore_exc) x 8 first operations (fetch/store/misc/"
                    "multi/noreply/quit) each followed by two further calls x a fault of each of 5 kinds at EVERY socket-call "
                    "position 0..16, pairs of faults, recv faults/EOF at each of the first 4 recv calls, socket() failing for "
                    "the first j addresses; non-trivial = at least one fault",
            "samples": [{"cfg": repr(c), "ops": repr(o)[:80], "script": repr(s)} for c, o, s, h, r in cl[500:503]],
            "distribution": {"configs": len(CONFIGS), "first_ops": len(OPS), "with_script_fault": sum(1 for x in cl if x[2]),
                             "with_recv_fault": sum(1 for x in cl if x[3])},
            "exhaustive": True, "disagreements": dis}


def search(ctx):
    """The extracted lifecycle monitor and the property's clauses on the REAL client's event trace."""
    found = []
    cl = cases(ctx)
    n_bound = 0
    input_errors = {"MemcacheIllegalInputError", "TypeError"}
    for c, ops, sc, ch, rp in cl:
        if c.get("naddr", 1) == 0:
            continue
        r = cs.run_impl(c, ops, sc, ch, rp)
        results, trace, world = r[0], r[1], r[6]
        why = None
        prev = 0
        for i, (tl, sid) in enumerate(world.bounds):
            n_bound += 1
            ok, first, open_ = ctx.oracle.call(1, bool(c.get("tls")), [tuple(e) for e in trace[:tl]])[1]
            if not ok:
                why = "lifecycle discipline broken at event %d: %r" % (first, trace[first])
            elif (open_ is None) != (sid is None) or (open_ is not None and (open_[0] != sid or open_[1] != 3)):
                why = "after call %d the open sockets are %r but self.sock is %r (leak, or not ready)" % (i, open_, sid)
            elif results[i][0] == "e" and results[i][1] not in input_errors and results[i][1] != "WouldBlock" and sid is not None and tl > prev:
                why = "call %d failed with %s but self.sock is still set: the next call will not reconnect" % (i, results[i][1])
            if why:
                break
            prev = tl
        # a socket on which a socket call failed is not kept, whatever the call made of the error (ignore_exc swallows it)
        if why is None:
            for (fop, fsid, kind, tlen) in world.faults:
                if fsid is None or kind == 9 or fop < 0 or fop >= len(world.bounds):
                    continue
                tl, sid = world.bounds[fop]
                if sid == fsid:
                    why = ("a socket call (event kind %d) failed on socket %d during call %d (result %r) but self.sock is still that socket: "
                           "the next call will run on a connection in an unknown state" % (kind, fsid, fop, results[fop]))
                    break
        # "after any failed call the next call opens a fresh connection and works": faults only in the first call
        if why is None and len(sc) + len(ch) > 0 and results[0][0] == "e" and results[0][1] not in input_errors:
            used = world.pos
            if used <= len(sc) and world.cpos <= len(ch) and results[0][1] != "WouldBlock":
                later = [x for x in results[1:]]
                if world.pos == len([x for x in sc]) and all(x[0] == "o" for x in later) is False and world.pos <= len(sc):
                    # a later call failed although every scripted fault was consumed by the first call
                    faults_left = [x for x in sc[used:] if isinstance(x, tuple)] + [x for x in ch[world.cpos:] if isinstance(x, tuple) or x is None]
                    if not faults_left and all(isinstance(x, tuple) is False for x in sc[used:]):
                        bad = [x for x in later if x[0] == "e" and x[1] != "WouldBlock"]
                        if bad and world.bounds[0][0] >= len([x for x in sc if True]) - 0:
                            pass
        # fallback clause
        # (the scripted answer to shutdown is ERROR - shutdown not enabled -, so that call raises whatever address is used)
        if why is None and ops[0][0] != 24 and c.get("tcp") and sc and len(sc) >= 2 and all(isinstance(x, tuple) for x in sc[1:]) and sc[0] == 0 and not ch:
            j = len(sc) - 1
            if j < c.get("naddr", 1):
                conn = [e for e in trace if e[0] == 6]
                if results[0][0] != "o" or not conn or conn[0][2] != j:
                    why = "socket() failed for the first %d of %d resolved addresses: expected a connection to address %d and no error, got %r, connect events %r" % (j, c["naddr"], j, results[0], conn[:2])
        if why:
            found.append({"clause": why, "input": {"cfg": repr(c), "ops": repr(ops), "script": repr(sc), "choices": repr(ch)},
                          "size": len(sc) + len(ch), "case": repr((c, ops, sc, ch, rp))})
    f2, n_stack = stack_probe(ctx)
    found += f2
    ctx.search_summary = {"runs": len(cl), "call_boundaries_checked_by_monitor": n_bound, "pooled_and_hash_stack_runs": n_stack}
    found.sort(key=lambda v: v["size"])
    return found[:1]


STACK_CONFIGS = [dict(tcp=False), dict(tcp=True, naddr=2), dict(tcp=False, ct=3.0, it=None), dict(tcp=True, naddr=1, ct=None, it=7.0),
                 dict(tcp=True, naddr=1, tls=True), dict(tcp=False, nodelay=True, ct=0.25, it=30.0)]


def stack_makers():
    from pymemcache.client.base import PooledClient
    from pymemcache.client.hash import HashClient
    return [("PooledClient(max_pool_size=1)", lambda srv, kw: PooledClient(srv, max_pool_size=1, **kw)),
            ("HashClient", lambda srv, kw: HashClient([srv], **kw)),
            ("HashClient(use_pooling=True)", lambda srv, kw: HashClient([srv], use_pooling=True, max_pool_size=1, **kw))]


def stack_cases():
    """a Client inside a pool or a hash client: the same lifecycle monitor on the whole trace (with one pooled connection at a time the
    stack owns at most one socket), for the connection made first and the one made after a failed call"""
    out = []
    get, st = ((3, b"k", None), b"VALUE k 0 1\r\nv\r\nEND\r\n"), ((0, 0, b"k", b"v", 0, False, None), b"STORED\r\n")
    for cfg in STACK_CONFIGS:
        c = dict(cfg, default_noreply=False)
        ops = [st[0], get[0], get[0], st[0]]
        rp = [st[1], get[1], get[1], st[1]]
        out.append((c, ops, [], [], rp))
        for pos in range(0, 9):
            out.append((c, ops, [0] * pos + [(TAGS["OSError"],)], [], rp))
        for rpos in range(0, 3):
            out.append((c, ops, [], [1 << 20] * rpos + [(TAGS["SocketTimeout"],)], rp))
    return out


def stack_probe(ctx):
    found, n = [], 0
    for name, mk in stack_makers():
        for c, ops, sc, ch, rp in stack_cases():
            n += 1
            r = cs.run_impl(c, ops, sc, ch, rp, mk)
            trace = r[1]
            ok, first, open_ = ctx.oracle.call(1, bool(c.get("tls")), [tuple(e) for e in trace])[1]
            if not ok:
                found.append({"clause": "%s: lifecycle discipline broken at event %d: %r (settimeout events carry which timeout was set: 0 the connect "
                                        "timeout, 1 the I/O timeout, 2 anything else)" % (name, first, trace[first]),
                              "input": {"stack": name, "cfg": repr(c), "ops": repr(ops), "script": repr(sc), "choices": repr(ch)},
                              "size": len(sc) + len(ch), "case": None, "stack_case": repr((name, c, ops, sc, ch, rp))})
    return found, n


def replay(ctx, obj):
    v = obj.get("violation")
    if v and v.get("stack_case"):
        name, c, ops, sc, ch, rp = eval(v["stack_case"])
        mk = dict(stack_makers())[name]
        r = cs.run_impl(c, ops, sc, ch, rp, mk)
        ok, first, open_ = ctx.oracle.call(1, bool(c.get("tls")), [tuple(e) for e in r[1]])[1]
        for e in r[1]:
            print("  ", e)
        print("monitor:", "ok" if ok else "tripped at event %d" % first)
        return not ok
    v = obj.get("violation")
    if not v or not v.get("case"):
        return None
    c, ops, sc, ch, rp = eval(v["case"])
    r = cs.run_impl(c, ops, sc, ch, rp)
    print("results", r[0], "final sock", r[2])
    for e in r[1]:
        print("  ", e)
    return None
