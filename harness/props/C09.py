"""C09 — a failed pooled connection is discarded and pool capacity is conserved."""
import itertools

from harness import clientsim as cs
from harness.clientsim import TAGS

PROP = "C09"
GEN = ["Handlers", "Wrappers"]
VO = ["Properties/C09.vo", "Extract/D_Client.vo"]
MODULE = "Properties.C09"
THEOREMS = ["c09_used_zero", "c09_used_zero_src", "c09_failed_discarded", "c09_checkout", "c09_never_exhausted", "c09_release", "c09_reuse", "c09_failed_retired",
            "c09_never_again", "c09_idle_chronological", "c09_initially_chronological", "c09_no_stale_idle"]
DRIVER = "D_Client"
TECHNIQUE = ("Coq proof about a hand-written Gallina model of ObjectPool (sequential) and the PooledClient wrappers over the "
             "Client model: pool invariant after every call, failed clients discarded and never handed out again along any history, "
             "reuse before reopening, idle expiry closes, capacity never exhausted; model tied to "
             "the code by a differential run over operation sequences x faults x idle gaps x pool sizes")
LEVEL_TEXT = ("c09_used_zero: for every operation, fault script, peer, clock and pool size, after a PooledClient call returns or "
              "raises a caught exception nothing is checked out and no client is listed twice; c09_failed_discarded: the client "
              "whose call escaped is closed and in neither list; c09_checkout/never_exhausted/release. c09_reuse: for every pool state and clock, checkout "
              "hands out the first idle connection still inside pool_idle_timeout with its socket untouched (neither closed nor "
              "reopened), the idle connections before it had expired and are closed and dropped, and a new connection is made only "
              "when every idle one had expired; c09_failed_retired + c09_never_again: a connection that failed (or expired, quit, "
              "cleared) is closed, is never returned by checkout again and stays out along every history of PooledClient calls.")
LEVEL_NOTE = ("Trusted: Coq kernel; the hand model's correspondence with pool.py and PooledClient (differential run incl. socket "
              "identity per command and pool.used/free after each call); sequential use only (interleavings are C08). No axioms.")
TRUSTED = ["Coq 8.16.1 kernel; no axioms",
           "hand-written models coq/Model/{Client,Pooled}.v tied to base.py/pool.py by this check's correspondence run",
           "extraction: ExtrOcamlBasic only; coq/Extract/ocaml/driver.ml"]
ASSUMPTIONS = ["sequential use of one PooledClient (threads: C08)", "the pool's clock is an arbitrary sequence of readings"]

OPS = [((3, b"k", None), b"END\r\n"), ((0, 0, b"k", b"v", 0, False, None), b"STORED\r\n"), ((9, b"k", False), b"DELETED\r\n"),
       ((7, False, [b"a"]), b"END\r\n"), ((15,), b"VERSION 1\r\n"), ((17,), None), ((0, 0, b"k", b"v", 0, True, None), None)]
FAULTS = ["OSError", "SocketTimeout", "ConnectionResetError"]


def cases(ctx):
    out = []
    rng = ctx.rng
    base = dict(tcp=False, default_noreply=False)
    # exhaustive short sequences: 3 ops, fault/no fault per op at send or recv, gaps below/at/above the idle timeout
    for seq in itertools.product(range(len(OPS)), repeat=3):
        if ctx.quick and (sum(seq) % 3):
            continue
        ops = [OPS[i][0] for i in seq]
        rbo = {i: (OPS[j][1] or b"") for i, j in enumerate(seq)}
        for fault_at in (None, 0, 1, 2):
            for where in ("send", "recv", "send_timeout", "recv_timeout"):
                if fault_at is None and where != "send":
                    continue
                if where.endswith("timeout") and (sum(seq) + (fault_at or 0)) % 2:
                    continue            # the timeout variants on every second sequence
                for size in (1, 2, 1 << 31):
                    # a gap is the idle time before the call; (gap, service) also gives the time the call itself takes
                    for idle, gaps in ((0, [0, 0, 0]), (5, [1, 5, 6]), (5, [6, 6, 0]), (5, [(0, 30), (0, 0), (5, 9)])):
                        for ign in (False, True):
                            out.append((dict(base, ignore_exc=ign), (size, idle), ops, rbo, fault_at, where, gaps))
    return out


def build(case):
    c, pc, ops, rbo, fault_at, where, gaps = case
    # clock readings: get() and release() each read the clock once when idle_timeout is set
    clock = []
    t = 0
    for g in gaps:
        gap, svc = g if isinstance(g, tuple) else (g, 0)
        t += gap
        clock += [t, t + svc]         # checkout reads the clock at t, release at t + service time
        t += svc
    return c, pc, ops, rbo, clock


def run_case(case):
    c, pc, ops, rbo, fault_at, where, gaps = case
    _, _, _, _, clock = build(case)
    # place the fault by running once fault-free and counting socket calls before op `fault_at`
    script, choices = [], []
    if fault_at is not None:
        dry = cs.run_pooled(c, pc, ops[:fault_at], [], [], (), clock, rbo)
        nsock = sum(1 for e in dry[1] if e[0] != 8)
        nrecv = sum(1 for e in dry[1] if e[0] == 8)
        if where.startswith("send"):
            # the first socket call of op fault_at that is a sendall: connect calls (if any) come first; fail the last call before recv
            dry2 = cs.run_pooled(c, pc, ops[:fault_at + 1], [], [], (), clock, rbo)
            sends = [i for i, e in enumerate([e for e in dry2[1] if e[0] != 8]) if e[0] == 7]
            script = [0] * (sends[-1] if sends else nsock) + [(TAGS["SocketTimeout" if where == "send_timeout" else "OSError"],)]
        else:
            choices = [1 << 20] * nrecv + [(TAGS["SocketTimeout" if where == "recv_timeout" else "ConnectionResetError"],)]
    return c, pc, ops, script, choices, rbo, clock


def correspondence(ctx):
    cl = [run_case(x) for x in cases(ctx)]
    hk, hp = cs.handler_kinds(), cs.pool_handler_kind()
    model = ctx.driver.call_many([cs.pooled_req(c, pc, ops, sc, ch, [rbo[i] for i in range(len(ops))], clock, hk, hp)
                                  for c, pc, ops, sc, ch, rbo, clock in cl])
    dis = []
    for (c, pc, ops, sc, ch, rbo, clock), m in zip(cl, model):
        r = cs.run_pooled(c, pc, ops, sc, ch, [rbo[i] for i in range(len(ops))], clock)
        mm = cs.decode_pooled(m)
        if tuple(r[:5]) != tuple(mm[:5]):
            dis.append({"cfg": repr(c), "pool": pc, "ops": repr(ops)[:140], "script": repr(sc), "choices": repr(ch), "clock": clock,
                        "impl": repr(r[0]), "model": repr(mm[0] if len(mm) > 1 else mm)})
    return {"evaluations": len(cl), "distinct_nontrivial": len({repr(x) for x in cl if x[3] or x[4]}),
            "rule": "extracted PooledClient model vs the real class (results, socket traces with socket identity per command, "
                    "pool.used/free after each call, clients created): sequences of 3 of 7 operations x {no fault, fault at the "
                    "send / at a recv of call 0,1,2} x max_pool_size {1,2,unbounded} x idle gaps {none; below,at,above the "
                    "timeout; above,above,none; slow calls with short gaps} x ignore_exc; non-trivial = a fault is injected",
            "samples": [{"cfg": repr(c), "pool": pc, "ops": repr(o)[:80], "script": repr(s), "choices": repr(h), "clock": k} for c, pc, o, s, h, r, k in cl[50:53]],
            "distribution": {"cases": len(cl), "with_fault": sum(1 for x in cl if x[3] or x[4])}, "disagreements": dis}


def _guard(probe, *args):
    """a probe whose healthy, fault-free history makes the implementation raise has found something: report it, do not crash"""
    try:
        return probe(*args)
    except Exception as e:  # noqa
        import traceback
        tb = [f for f in traceback.extract_tb(e.__traceback__) if "pymemcache" in f.filename]
        if not tb:
            raise
        return ("a fault-free history raised %s: %s (at %s:%d)" % (type(e).__name__, str(e)[:80], tb[-1].filename.split("/")[-1], tb[-1].lineno)), repr(args)[:200]


def search(ctx):
    """C09's clauses on the real PooledClient: socket identity per command, pool.used after each call."""
    found = []
    n = 0
    for case in cases(ctx):
        c, pc, ops, sc, ch, rbo, clock = run_case(case)
        _, _, _, _, fault_at, where, gaps = case
        n += 1
        r = cs.run_pooled(c, pc, ops, sc, ch, (), clock, rbo)
        results, trace, world = r[0], r[1], r[5]
        why = None
        if any(u != 0 for _, u, _ in results):
            why = "connections still checked out after a call: used = %r" % ([u for _, u, _ in results],)
        elif any(x[0] == ("e", "RuntimeError") for x in results):
            why = "max_pool_size exhausted by ordinary failures"
        else:
            # a connection on which a call failed is closed by the time that call returns and never used again
            by_op = world.sent_by_op
            for (fop, fsid, kind, tlen) in world.faults:
                if fsid is None or kind in (9,):
                    continue
                for i in range(fop + 1, len(ops)):
                    if any(sid == fsid for sid, _ in by_op.get(i, [])):
                        why = "call %d was sent on socket %d on which call %d had failed" % (i, fsid, fop)
                for sk in world.socks:
                    if sk.sid == fsid and not sk.closed and not any(getattr(o, "raw", None) is sk for o in world.socks):
                        why = why or "socket %d, on which call %d failed, was never closed" % (fsid, fop)
            # quit retires the connection: it is closed when quit returns and no later call is sent on it
            if why is None:
                for i, o in enumerate(ops):
                    if o[0] != 17 or results[i][0][0] != "o":
                        continue
                    for qsid, _ in by_op.get(i, []):
                        sk = [x for x in world.socks if x.sid == qsid]
                        if sk and not sk[0].closed:
                            why = "quit (call %d) returned and its connection (socket %d) is still open" % (i, qsid)
                        for j in range(i + 1, len(ops)):
                            if any(sid == qsid for sid, _ in by_op.get(j, [])):
                                why = "call %d was sent on socket %d, the connection that call %d had quit" % (j, qsid, i)
            if why is None and fault_at is None and pc[1] == 0:
                # healthy connection is reused, not reopened (quit closes on purpose)
                opened = sum(1 for e in trace if e[0] == 1)
                quits = sum(1 for o in ops[:-1] if o[0] == 17)
                if opened > 1 + quits:
                    why = "a healthy idle connection was not reused: %d sockets opened for %d calls (%d quits)" % (opened, len(ops), quits)
            if why is None and fault_at is None and pc[1] == 5 and gaps == [(0, 30), (0, 0), (5, 9)] and not any(o[0] == 17 for o in ops):
                # slow calls, but never idle for longer than the timeout: idle time counts from the release, so one connection serves all
                opened = sum(1 for e in trace if e[0] == 1)
                if opened > 1:
                    why = "a connection that had been idle for at most pool_idle_timeout was not reused after a slow call: %d sockets opened" % opened
            if why is None and fault_at is None and pc[1] == 5 and gaps == [6, 6, 0] and not any(o[0] == 17 for o in ops):
                # every gap exceeds the idle timeout: the idle client must be closed and a new socket used (calls 0 and 1)
                s0 = {sid for sid, _ in by_op.get(0, [])}
                s1 = {sid for sid, _ in by_op.get(1, [])}
                if s0 and s1 and s0 == s1:
                    why = "a connection idle for longer than pool_idle_timeout was reused"
        if why:
            found.append({"clause": why, "input": {"cfg": repr(c), "pool(max,idle)": pc, "ops": repr(ops), "script": repr(sc), "choices": repr(ch), "clock": clock},
                          "observed": repr(results), "size": len(sc) + len(ch), "case": repr(case)})
    # every PooledClient method x every way its call can fail: the connection it failed on is closed and never handed out again
    m = 0
    for op, rep in METHOD_OPS:
        for kind in ("send", "recv", "error_line", "bad_reply", "interrupt_send", "interrupt_recv"):
            if kind in ("error_line", "bad_reply", "recv", "interrupt_recv") and rep is None:
                continue
            m += 1
            why, detail = method_failure(op, rep, kind)
            if why:
                found.append({"clause": why, "input": {"op": repr(op), "failure": kind}, "observed": detail, "size": 1, "case": None,
                              "method_case": repr((op, rep, kind))})
    nh = 0
    for op, rep in HEALTHY_OPS:
        nh += 1
        why, detail = _guard(healthy_reuse, op, rep)
        if why:
            found.append({"clause": why, "input": {"op": repr(op), "reply": repr(rep)}, "observed": detail, "size": 1, "case": None,
                          "healthy_case": repr((op, rep))})
    for case in TWO_IDLE:
        nh += 1
        why, detail = _guard(two_idle_probe, *case)
        if why:
            found.append({"clause": why, "input": {"pool_idle_timeout": case[0], "inner released at": case[1], "outer released at": case[2], "next call at": case[3],
                                                    "max_pool_size": case[4]}, "observed": detail, "size": 1, "case": None, "two_idle_case": repr(case)})
    for t, gaps, size in FRACTIONAL:
        nh += 1
        why, detail = _guard(fractional_idle, t, gaps, size)
        if why:
            found.append({"clause": why, "input": {"pool_idle_timeout": t, "idle_gaps": gaps, "max_pool_size": size}, "observed": detail, "size": 1, "case": None,
                          "fractional_case": repr((t, gaps, size))})
    nc = 0
    for cfg in CONNECT_CFGS:
        for pos in range(0, 12):
            for kind in ("OSError", "SocketTimeout"):
                nc += 1
                why, detail = connect_failure(cfg, pos, kind)
                if why:
                    found.append({"clause": why, "input": {"cfg": repr(cfg), "failing_socket_call": pos, "error": kind}, "observed": detail, "size": 1, "case": None,
                                  "connect_case": repr((cfg, pos, kind))})
    ctx.search_summary = {"runs": n, "method_failure_runs": m, "connect_failure_runs": nc, "healthy_reuse_runs": nh}
    found.sort(key=lambda v: v["size"])
    return found[:1]


METHOD_OPS = [((0, 0, b"k", b"v", 0, False, None), b"STORED\r\n"), ((0, 1, b"k", b"v", 0, False, None), b"STORED\r\n"), ((0, 2, b"k", b"v", 0, False, None), b"STORED\r\n"),
              ((0, 3, b"k", b"v", 0, False, None), b"STORED\r\n"), ((0, 4, b"k", b"v", 0, False, None), b"STORED\r\n"),
              ((1, [(b"a", b"1"), (b"b", b"2")], 0, False, None), b"STORED\r\nSTORED\r\n"), ((2, b"k", b"v", b"1", 0, False, None), b"STORED\r\n"),
              ((3, b"k", None), b"END\r\n"), ((4, b"k", None, None), b"END\r\n"), ((5, b"k", 5, None), b"END\r\n"), ((6, b"k", 5, None, None), b"END\r\n"),
              ((7, False, [b"a", b"b"]), b"END\r\n"), ((8, False, [b"a", b"b"]), b"END\r\n"), ((9, b"k", False), b"DELETED\r\n"),
              ((10, False, [b"a", b"b"], False), b"DELETED\r\nDELETED\r\n"), ((11, b"k", 1, False), b"6\r\n"), ((12, b"k", 1, False), b"4\r\n"),
              ((13, b"k", 5, False), b"TOUCHED\r\n"), ((14, 0, False), b"OK\r\n"), ((15,), b"VERSION 1\r\n"), ((17,), None)]


def method_failure(op, rep, kind):
    c = dict(tcp=False, default_noreply=False)
    pre = (0, 0, b"z", b"0", 0, False, None)
    post = (3, b"z", None)
    ops = [pre, op, post]
    dry = cs.run_pooled(c, (2, 0), [pre], [], [], (), [], {0: b"STORED\r\n"})
    nsock = sum(1 for e in dry[1] if e[0] != 8)
    nrecv = sum(1 for e in dry[1] if e[0] == 8)
    sc, ch, reply = [], [], rep
    if kind == "send":
        sc = [0] * nsock + [(TAGS["ConnectionResetError"],)]
    elif kind == "recv":
        ch = [1 << 20] * nrecv + [(TAGS["SocketTimeout"],)]
    elif kind == "interrupt_send":      # "once each call has returned or raised": also when what is raised is not an ordinary error
        sc = [0] * nsock + [(TAGS["KeyboardInterrupt"],)]
    elif kind == "interrupt_recv":
        ch = [1 << 20] * nrecv + [(TAGS["GreenletTimeout"],)]
    elif kind == "error_line":
        reply = b"SERVER_ERROR out of memory\r\n"
    else:
        reply = b"not-a-reply\r\n"
    r = cs.run_pooled(c, (2, 0), ops, sc, ch, (), [], {0: b"STORED\r\n", 1: reply or b"", 2: b"VALUE z 0 1\r\n0\r\nEND\r\n"})
    results, world, pool = r[0], r[5], r[6]
    if results[1][0][0] != "e":
        return None, None            # this failure kind does not make this method fail (e.g. delete_many ignores unknown lines)
    if results[1][1] != 0:
        return "%r failed (%s) and %d connection(s) are still checked out after the call" % (op, results[1][0][1], results[1][1]), repr(results)
    used_by = {sid for sid, _ in world.sent_by_op.get(1, [])} or {sid for sid, _ in world.sent_by_op.get(0, [])}
    for sid in used_by:
        sk = [x for x in world.socks if x.sid == sid]
        if sk and not sk[0].closed:
            return "%r failed (%s) and its connection (socket %d) was left open" % (op, results[1][0][1], sid), repr(results)
        if any(s2 == sid for s2, _ in world.sent_by_op.get(2, [])):
            return "the call after the failed %r was sent on the connection it failed on (socket %d)" % (op, sid), repr(results)
    if results[1][2] != 0:
        return "%r failed (%s) and its client went back into the pool (free=%d)" % (op, results[1][0][1], results[1][2]), repr(results)
    if results[2][0] != ("o", ("bytes", b"0")):
        return "the call after the failed %r returned %r" % (op, results[2][0]), repr(results)
    return None, None


# every PooledClient method on a HEALTHY connection, with each well-formed answer the server can give (the negative ones too:
# a miss, NOT_STORED, EXISTS, NOT_FOUND - and the subscript forms, where a miss is a KeyError): the connection is reused
HEALTHY_OPS = METHOD_OPS[:-1] + [
    ((0, 1, b"k", b"v", 0, False, None), b"NOT_STORED\r\n"), ((0, 2, b"k", b"v", 0, False, None), b"NOT_STORED\r\n"),
    ((2, b"k", b"v", b"1", 0, False, None), b"EXISTS\r\n"), ((2, b"k", b"v", b"1", 0, False, None), b"NOT_FOUND\r\n"),
    ((1, [(b"a", b"1"), (b"b", b"2")], 0, False, None), b"STORED\r\nNOT_STORED\r\n"),
    ((3, b"k", None), b"VALUE k 0 1\r\nv\r\nEND\r\n"), ((4, b"k", None, None), b"VALUE k 0 1 7\r\nv\r\nEND\r\n"),
    ((7, False, [b"a", b"b"]), b"VALUE b 0 1\r\nv\r\nEND\r\n"), ((9, b"k", False), b"NOT_FOUND\r\n"),
    ((10, False, [b"a", b"b"], False), b"NOT_FOUND\r\nDELETED\r\n"), ((11, b"k", 1, False), b"NOT_FOUND\r\n"), ((12, b"k", 1, False), b"NOT_FOUND\r\n"),
    ((13, b"k", 5, False), b"NOT_FOUND\r\n"), ((0, 0, b"k", b"v", 0, True, None), b""), ((9, b"k", True), b""),
    ((20, b"k"), b"END\r\n"), ((20, b"k"), b"VALUE k 0 1\r\nv\r\nEND\r\n"), ((21, b"k", b"v"), b""), ((22, b"k"), b"")]


def healthy_reuse(op, rep):
    c = dict(tcp=False, default_noreply=False)
    pre = (0, 0, b"z", b"0", 0, False, None)
    post = (3, b"z", None)
    r = cs.run_pooled(c, (2, 0), [pre, op, post], [], [], (), [], {0: b"STORED\r\n", 1: rep, 2: b"VALUE z 0 1\r\n0\r\nEND\r\n"})
    results, trace, world = r[0], r[1], r[5]
    if results[1][0] in (("e", "WouldBlock"), ("e", "TypeError"), ("e", "AttributeError")):
        return "harness: %r could not be run: %r" % (op, results[1][0]), repr(results)
    if any(u != 0 for _, u, _ in results):
        return "connections still checked out after a call: used = %r" % ([u for _, u, _ in results],), repr(results)
    opened = sum(1 for e in trace if e[0] == 1)
    if opened != 1:
        return ("%r got a complete, well-formed answer %r on a healthy connection (result %r) and the connection was not reused: %d sockets "
                "opened for three calls" % (op, rep, results[1][0], opened)), repr(results)
    if results[2][0] != ("o", ("bytes", b"0")):
        return "the call after %r returned %r" % (op, results[2][0]), repr(results)
    return None, None


def fractional_idle(timeout, gaps, size):
    """pool_idle_timeout is a number of seconds, not necessarily whole: three healthy calls with the given idle gaps before the
    second and third; a gap <= timeout must reuse the connection, a longer one must close it and open another"""
    c = dict(tcp=False, default_noreply=False)
    ops = [(3, b"z", None)] * 3
    clock, t = [], 0
    for g in [0] + list(gaps):
        t += g
        clock += [t, t]
    r = cs.run_pooled(c, (size, timeout), ops, [], [], (), clock, {0: b"END\r\n", 1: b"END\r\n", 2: b"END\r\n"})
    results, world = r[0], r[5]
    sids = [sorted({sid for sid, _ in world.sent_by_op.get(i, [])}) for i in range(3)]
    for i, g in enumerate(gaps, 1):
        if g <= timeout and sids[i] != sids[i - 1]:
            return ("pool_idle_timeout=%r: a healthy connection idle for %r s (not longer than the timeout) was not reused: calls %d and %d went out "
                    "on sockets %r and %r" % (timeout, g, i - 1, i, sids[i - 1], sids[i])), repr(results)
        if g > timeout and sids[i] == sids[i - 1]:
            return "pool_idle_timeout=%r: a connection idle for %r s (longer than the timeout) was reused" % (timeout, g), repr(results)
        if g > timeout and not all(sk.closed for sk in world.socks if sk.sid in sids[i - 1]):
            return "pool_idle_timeout=%r: the connection idle for %r s was dropped and not closed" % (timeout, g), repr(results)
    return None, None


def two_idle_probe(timeout, t_inner, t_outer, t_next, size):
    """TWO connections idle in the pool, released at different times (a serializer that itself reads through the same PooledClient
    makes the second checkout while the first is held): at the next checkout every idle connection that has been idle for longer than
    the timeout is closed, and one that has not is reused rather than a new one opened"""
    import pymemcache.pool as pool_mod
    from pymemcache.client.base import PooledClient
    from harness.refserver import Server
    srv = Server()
    world = cs.World([], [], (), 1, srv.feed)
    server, kw = cs.client_kwargs(dict(tcp=False, default_noreply=False), world)
    holder = {}

    class Serde:
        def serialize(self, key, value):
            if value == b"outer":
                holder["p"].get(b"inner")
            return value, 0

        def deserialize(self, key, value, flags):
            return value
    kw["serde"] = Serde()
    clk = [1000, 1000, t_inner, t_outer] + [t_next] * 8

    class FakeTime:
        @staticmethod
        def time():
            return clk.pop(0)
    saved = pool_mod.time
    pool_mod.time = FakeTime
    try:
        p = PooledClient(server, max_pool_size=size, pool_idle_timeout=timeout, **kw)
    finally:
        pool_mod.time = saved
    holder["p"] = p
    world.current_op = 0
    p.set(b"k", b"outer")
    by0 = world.sent_by_op.get(0, [])
    inner_sid = [sid for sid, data in by0 if data.startswith(b"get ")][0]
    outer_sid = [sid for sid, data in by0 if data.startswith(b"set ")][0]
    world.current_op = 1
    p.get(b"k")
    used = sorted({sid for sid, _ in world.sent_by_op.get(1, [])})
    closed = {sk.sid: sk.closed for sk in world.socks}
    detail = "inner connection = socket %d (idle %r s), outer = socket %d (idle %r s), the call at %r went out on %r, closed: %r" % (
        inner_sid, t_next - t_inner, outer_sid, t_next - t_outer, t_next, used, closed)
    for name, sid, t in (("inner", inner_sid, t_inner), ("outer", outer_sid, t_outer)):
        if t_next - t > timeout and not closed[sid]:
            return "pool_idle_timeout=%r: the %s connection had been idle for %r s when the next call came and is still open afterwards" % (timeout, name, t_next - t), detail
        if t_next - t > timeout and sid in used:
            return "pool_idle_timeout=%r: the %s connection, idle for %r s, was reused" % (timeout, name, t_next - t), detail
        if t_next - t <= timeout and closed[sid]:
            return "pool_idle_timeout=%r: the %s connection, idle for only %r s, was closed" % (timeout, name, t_next - t), detail
    if (t_next - t_outer <= timeout or t_next - t_inner <= timeout) and not set(used) <= {inner_sid, outer_sid}:
        return "pool_idle_timeout=%r: a healthy idle connection was available and a new one was opened" % (timeout,), detail
    if len(p.client_pool.used) != 0:
        return "connections still checked out: %d" % len(p.client_pool.used), detail
    return None, None


TWO_IDLE = [(60, ti, to, tn, size) for (ti, to, tn) in ((1000, 1050, 1070), (1000, 1000, 1030), (1000, 1005, 1100), (1010, 1050, 1070), (1000, 1060, 1061))
            for size in (2, 1 << 31)]
FRACTIONAL = [(t, gaps, size) for t in (0.5, 2.5, 3, 0.001) for gaps in ([t / 2, t], [t, t * 1.5], [t * 1.5, t / 2], [t - t / 8, t + t / 8])
              for size in (1, 2, 1 << 31)]


CONNECT_CFGS = [dict(tcp=False, keepalive=True, default_noreply=False), dict(tcp=True, naddr=2, keepalive=True, nodelay=True, default_noreply=False),
                dict(tcp=True, naddr=1, tls=True, default_noreply=False)]


def connect_failure(cfg, pos, kind):
    """a failure at socket call number `pos` of a cold PooledClient's first call (socket(), the options, the timeouts, connect, ...):
    whatever was opened for it is closed by the time the pool has been closed, nothing stays checked out, the next call works"""
    ops = [(3, b"z", None), (0, 0, b"z", b"0", 0, False, None), (19,)]
    r = cs.run_pooled(cfg, (2, 0), ops, [0] * pos + [(TAGS[kind],)], [], (), [], {0: b"END\r\n", 1: b"STORED\r\n"})
    results, world = r[0], r[5]
    if results[0][0][0] != "e":
        return None, None           # the first call has fewer socket calls than `pos`: the fault fell elsewhere
    if any(u != 0 for _, u, _ in results):
        return "connections still checked out after a failed connection attempt: used = %r" % ([u for _, u, _ in results],), repr(results)
    if results[1][0] != ("o", ("bool", True)):
        return "the call after the failed connection attempt returned %r" % (results[1][0],), repr(results)
    open_ = [sk.sid for sk in world.socks if not sk.closed and not any(getattr(o, "raw", None) is sk for o in world.socks)]
    if open_:
        return "socket(s) %r opened during the failed connection attempt were never closed (the pool itself has been closed)" % (open_,), repr(results)
    return None, None


def replay(ctx, obj):
    v = obj.get("violation")
    if v and v.get("connect_case"):
        why, detail = connect_failure(*eval(v["connect_case"]))
        print(why or "everything opened was closed", detail or "")
        return bool(why)
    if v and v.get("two_idle_case"):
        why, detail = two_idle_probe(*eval(v["two_idle_case"]))
        print(why or "expired idle connections closed, fresh ones reused", detail or "")
        return bool(why)
    if v and v.get("fractional_case"):
        why, detail = fractional_idle(*eval(v["fractional_case"]))
        print(why or "idle connections reused / closed as the timeout says", detail or "")
        return bool(why)
    if v and v.get("healthy_case"):
        why, detail = healthy_reuse(*eval(v["healthy_case"]))
        print(why or "healthy connection reused", detail or "")
        return bool(why)
    if v and v.get("method_case"):
        why, detail = method_failure(*eval(v["method_case"]))
        print(why or "failed connection discarded", detail or "")
        return bool(why)
    if not v or not v.get("case"):
        return None
    case = eval(v["case"])
    c, pc, ops, sc, ch, rbo, clock = run_case(case)
    r = cs.run_pooled(c, pc, ops, sc, ch, (), clock, rbo)
    print("results (result, used, free):", r[0])
    return any(u != 0 for _, u, _ in r[0])
