"""C03 — reply parsing does not depend on how the byte stream is split."""
import itertools

from harness import clientsim as cs

PROP = "C03"
GEN = []
VO = ["Properties/C03.vo", "Extract/D_Client.vo"]
MODULE = "Properties.C03"
THEOREMS = ["c03_readline", "c03_readvalue", "c03_readsegment", "c03_segmentation", "c03_sequences"]
DRIVER = "D_Client"
TECHNIQUE = ("Coq proof: the three socket readers are functions of the byte stream (induction over the adversary's recv "
             "choices), lifted to every public operation by a relational program logic over the Client model; model tied "
             "to the code by an extracted-model/implementation differential run incl. exhaustive segmentations")
LEVEL_TEXT = ("c03_segmentation: for every operation, configuration, peer and world, any two fault-free divisions of the reply "
              "stream (chunks of any size >= 1, EINTR anywhere) give the same result and related final worlds; c03_readline/"
              "readvalue/readsegment characterise each reader by the stream (first CRLF, size bytes, first occurrence of any "
              "end token); c03_sequences chains calls. Unbounded in reply length and number of pieces.")
LEVEL_NOTE = ("Trusted: Coq kernel; the hand model's correspondence with base.py (differential run: every socket call, bytes "
              "sent, result, for all 2^(n-1) segmentations of short replies and 1-3 cut segmentations of long ones); the "
              "escape clause for VALUE headers with negative sizes (no server sends one). No axioms.")
TRUSTED = ["Coq 8.16.1 kernel; no axioms",
           "hand-written model coq/Model/{World,Readers,Client}.v tied to pymemcache/client/base.py by this check's correspondence run",
           "harness/clientsim.py: scripted socket module (recv delivers min(choice, available) bytes; replies appear after sendall)",
           "extraction: ExtrOcamlBasic only; coq/Extract/ocaml/driver.ml"]
ASSUMPTIONS = ["chunk sizes are unbounded in the theorem (a superset of recv(4096))",
               "a VALUE header with a negative size (which no memcached sends) is outside the claim (flag w_bad)"]

CFG = dict(tcp=False, default_noreply=False)
# (op, reply)
SHORT = [
    ((9, b"k", False), b"DELETED\r\n"), ((9, b"k", False), b"NOT_FOUND\r\n"), ((11, b"k", 1, False), b"12\r\n"),
    ((15,), b"VERSION 1.6\r\n"), ((0, 0, b"k", b"v", 0, False, None), b"STORED\r\n"), ((13, b"k", 0, False), b"TOUCHED\r\n"),
    ((14, 0, False), b"OK\r\n"), ((3, b"k", None), b"END\r\n"), ((16, b"x", b"\r\n"), b"ab\r\ncd\r\n"),
    ((16, b"x", b"XYXZ"), b"aXYXYXZb"), ((16, b"x", b"\n\r\nEND\r\n"), b"1\nh|i|p\n\r\nEND\r\n"),
    ((3, b"k", None), b"\r\n\r\nEND\r\n"), ((9, b"k", False), b"ERROR\r\n"), ((15,), b"\rVERSION\r\r\n"),
    ((10, False, [b"a", b"b"], False), b"DELETED\r\nX\r\n"),
    # a raw_command reply whose BODY has lines that begin with the protocol's error words (only the start of the reply means an error)
    ((16, b"x", b"\r\nEND\r\n"), b"a\r\nERROR b\r\nSERVER_ERROR c\r\nCLIENT_ERROR d\r\nEND\r\n"),
    # raw_command with an end token of ONE byte
    ((16, b"verbosity 1", b"\n"), b"OK\r\n"), ((16, b"x", b"D"), b"abcD"), ((16, b"x", b"\r"), b"one two\r"),
]
LONG = [
    ((3, b"k", None), b"VALUE k 0 1\r\nv\r\nEND\r\n"),
    ((3, b"k", None), b"VALUE k 0 4\r\n\r\n\r\n\r\nEND\r\n"),
    ((4, b"k", None, None), b"VALUE k 5 3 99\r\nEND\r\nEND\r\n"),
    ((7, False, [b"a", b"b"]), b"VALUE a 0 2\r\n\r\n\r\nVALUE b 0 0\r\n\r\nEND\r\n"),
    ((8, False, [b"a", b"b"]), b"VALUE b 0 5 7\r\nVALUE\r\nVALUE a 1 1 8\r\n\r\r\nEND\r\n"),
    ((1, [(b"a", b"1"), (b"b", b"2"), (b"c", b"3")], 0, False, None), b"STORED\r\nSTORED\r\nNOT_STORED\r\n"),
    ((18, []), b"STAT pid 1\r\nSTAT v 1.6\r\nSTAT e\r\nITEM a [1 b; 2 s]\r\nEND\r\n"),
    ((5, b"k", 10, None), b"VALUE k 0 3\r\nabc\r\nEND\r\n"),
    ((6, b"k", 10, None, None), b"VALUE k 0 3 12\r\nabc\r\nEND\r\n"),
    ((2, b"k", b"v", b"12", 0, False, None), b"EXISTS\r\n"),
    ((16, b"config get cluster", b"\n\r\nEND\r\n"), b"CONFIG cluster 0 25\r\n1\nh1|10.0.0.1|11211 h2|10.0.0.2|11211\n\r\nEND\r\n"),
    ((3, b"k", None), b"SERVER_ERROR out of memory storing object\r\n"),
]


def cut_sets(n, max_cuts=None):
    """all subsets of cut positions 1..n-1 (optionally with at most max_cuts cuts) -> chunk-size lists"""
    pos = range(1, n)
    if max_cuts is None:
        combos = itertools.chain.from_iterable(itertools.combinations(pos, r) for r in range(0, n))
    else:
        combos = itertools.chain.from_iterable(itertools.combinations(pos, r) for r in range(0, max_cuts + 1))
    for c in combos:
        edges = [0] + list(c) + [n]
        yield [edges[i + 1] - edges[i] for i in range(len(edges) - 1)]


def cases(ctx):
    limit = 12 if ctx.quick else 16
    out = []
    for op, rep in SHORT:
        n = len(rep)
        for sizes in (cut_sets(n) if n <= limit else cut_sets(n, 3)):
            out.append((op, rep, sizes))
        for sizes in cut_sets(n, 2):
            out.append((op, rep, [x for s in sizes for x in (0, s)]))          # EINTR before every piece
        for sizes in cut_sets(n, 1):                                          # ... and runs of interrupted calls in a row
            out.append((op, rep, [x for s in sizes for x in (0, 0, s)]))
            out.append((op, rep, [x for s in sizes for x in (0, 0, 0, 0, 0, s)]))
    for op, rep in LONG:
        n = len(rep)
        for sizes in cut_sets(n, 2 if ctx.quick else 3):
            out.append((op, rep, sizes))
        out.append((op, rep, [1] * n))
        out.append((op, rep, [x for _ in range(n) for x in (0, 1)]))
        out.append((op, rep, [x for _ in range(n) for x in (0, 0, 0, 1)]))
        out.append((op, rep, []))
    big = b"x" * 4090 + b"\r\n" + b"y" * 4100
    rep = b"VALUE k 0 %d\r\n" % len(big) + big + b"\r\nEND\r\n"
    for base in (4096, 8192):
        for d in (-2, -1, 0, 1, 2):
            for first in (1, 13, 15):
                out.append(((3, b"k", None), rep, [first, base + d - first, 4096, 4096, 4096]))
    out.append(((3, b"k", None), rep, [4096] * 4))
    # raw_command replies whose length is a multiple of the receive size (every recv() comes back full, the last one included), and
    # line replies (stats) of such lengths
    tok = b"\n\r\nEND\r\n"
    for total in (4096, 8192, 4196, 4095, 4097):
        head = b"CONFIG cluster 0 %d\r\n1\n" % total
        rep2 = head + b"h" * (total - len(head) - len(tok)) + tok
        for sizes in ([4096] * 4, [total], [4095, 1, 4096, 4096], [1, 4095, 4096, 4096], [4096, 1, 4095, 4096], [2048, 2048, 4096, 4096]):
            out.append(((16, b"config get cluster", tok), rep2, sizes))
        lines = b"".join(b"STAT k%04d v\r\n" % i for i in range(400))
        rep3 = lines[:total - 5 - ((total - 5) % 14)]
        rep3 = rep3 + b"STAT p " + b"x" * (total - len(rep3) - 7 - 2 - 5) + b"\r\nEND\r\n"
        for sizes in ([4096] * 4, [4095, 1, 4096, 4096]):
            out.append(((18, []), rep3, sizes))
    return out


def run_impl_case(op, rep, sizes):
    r = cs.run_impl(CFG, [op], [], sizes, [rep])
    return r[0], r[1], r[2], r[5]


FOLLOW = ((3, b"zz", b"dflt"), b"VALUE zz 0 1\r\nF\r\nEND\r\n")
# scenarios whose scripted reply holds MORE than the operation's reply (bytes after the end token: no server sends them; they are in
# the corpus to test where a single read stops).  What is left over there depends on the cut by design, so no following call.
OVERSUPPLIED = {((16, b"x", b"\r\n"), b"ab\r\ncd\r\n"), ((16, b"x", b"XYXZ"), b"aXYXYXZb")}


def run_follow_case(op, rep, sizes):
    """the call under test, then one more call on the same client whose own reply arrives in one piece: what THAT call returns must
    not depend on how the first reply was cut up either (nothing of the first reply may be left behind or over-read)"""
    r = cs.run_impl(CFG, [op, FOLLOW[0]], [], sizes, [rep, FOLLOW[1]])
    return r[0]


def correspondence(ctx):
    cl = cases(ctx)
    hk = cs.handler_kinds()
    model = ctx.driver.call_many([cs.model_req(CFG, [op], [], sizes, [rep], hk) for op, rep, sizes in cl])
    dis = []
    for (op, rep, sizes), m in zip(cl, model):
        r = cs.run_impl(CFG, [op], [], sizes, [rep])
        mm = cs.decode_model(m)
        if tuple(r[:6]) != tuple(mm[:6]):
            dis.append({"op": repr(op), "reply": repr(rep)[:80], "chunks": sizes[:40], "impl": repr((r[0], r[2], r[5])), "model": repr((mm[0], mm[2], mm[5]) if len(mm) > 5 else mm)})
    return {"evaluations": len(cl), "distinct_nontrivial": len({(repr(o), r, tuple(s)) for o, r, s in cl if len(s) >= 2}),
            "rule": "extracted Client model vs real Client (results, every socket call with bytes sent, final socket, unread "
                    "bytes): ALL 2^(n-1) segmentations of 15 replies of up to %d bytes (delete/incr/version/store/touch/flush/"
                    "get miss/raw_command with three end tokens/error/CR-laden lines), all <=%d-cut segmentations and single-byte "
                    "delivery of 12 longer replies (values with CR LF and keywords, cas, multi-key, set_many, stats, gat/gats, "
                    "config get cluster), EINTR before every piece and runs of 2, 3 and 5 EINTRs in a row, cuts at 4096k+{-2..2} of an 8 KiB value; non-trivial = >= 2 pieces"
                    % (12 if ctx.quick else 16, 2 if ctx.quick else 3),
            "samples": [{"op": repr(o), "reply": repr(r)[:60], "chunks": s} for o, r, s in cl[1000:1003]],
            "distribution": {"short_reply_cases": sum(1 for o, r, s in cl if len(r) <= 16), "long_reply_cases": sum(1 for o, r, s in cl if len(r) > 16),
                             "with_eintr": sum(1 for o, r, s in cl if 0 in s)},
            "exhaustive": True, "disagreements": dis}


def search(ctx):
    """The property itself on the implementation: every segmentation gives what one piece gives."""
    found = []
    ref = {}
    cl = cases(ctx)
    for op, rep, sizes in cl:
        key = (repr(op), rep)
        if key not in ref:
            ref[key] = run_impl_case(op, rep, [])
        got = run_impl_case(op, rep, sizes)
        exp = ref[key]
        if (got[0], got[2]) != (exp[0], exp[2]):
            found.append({"clause": "result differs from the one-piece delivery", "input": {"op": repr(op), "reply": repr(rep)[:200], "chunks": sizes[:60]},
                          "observed": repr((got[0], got[2], got[3]))[:300], "expected": repr((exp[0], exp[2], b""))[:300], "size": len(sizes) * 1000 + len(rep),
                          "case": repr((op, rep, sizes)) if len(rep) < 200 else None})
    # ... and the same with a further call on the same connection
    ref2, nf = {}, 0
    for op, rep, sizes in cl[::3]:
        key = (repr(op), rep)
        if (repr(op), rep) in {(repr(o), r) for o, r in OVERSUPPLIED}:
            continue
        if key not in ref2:
            ref2[key] = run_follow_case(op, rep, [])
        nf += 1
        got = run_follow_case(op, rep, sizes)
        if got != ref2[key]:
            found.append({"clause": "the NEXT call on the connection returns something else than after the one-piece delivery", "input": {"op": repr(op), "reply": repr(rep)[:200], "chunks": sizes[:60],
                          "next_call": repr(FOLLOW[0])}, "observed": repr(got)[:300], "expected": repr(ref2[key])[:300], "size": len(sizes) * 1000 + len(rep),
                          "follow_case": repr((op, rep, sizes)) if len(rep) < 200 else None, "case": None})
    ctx.search_summary = {"segmentations_checked": len(cl), "scenarios": len(ref), "with_a_following_call": nf}
    found.sort(key=lambda v: v["size"])
    return found[:1]


def replay(ctx, obj):
    v = obj.get("violation")
    if v and v.get("follow_case"):
        op, rep, sizes = eval(v["follow_case"])
        got, exp = run_follow_case(op, rep, sizes), run_follow_case(op, rep, [])
        print("chunks", sizes, "->", got, "| one piece ->", exp)
        return got != exp
    if not v or not v.get("case"):
        return None
    op, rep, sizes = eval(v["case"])
    got = run_impl_case(op, rep, sizes)
    exp = run_impl_case(op, rep, [])
    print("chunks", sizes, "->", got[0], "| one piece ->", exp[0])
    return (got[0], got[2]) != (exp[0], exp[2])
