"""C19 — ElastiCache auto-discovery: rotation equals the advertised node list."""
import logging
import random

from harness import clientsim as cs
from harness import core
from harness.hashsim import VClock
from harness.refserver import Server

logging.getLogger("pymemcache.client.ext.aws_ec_client").disabled = True      # the client logs every failed read of the configuration
PROP = "C19"
GEN = []
VO = ["Properties/C19.vo", "Extract/D_Aws.vo", "Properties/C03.vo"]
MODULE = "Properties.C19"
THEOREMS = ["c19_rotation", "c19_rotation_nodup", "c19_clients", "c19_tables", "c19_old_closed", "c19_routing", "c19_histories",
            "c19_parse", "c19_error"]
DRIVER = "D_Aws"
TECHNIQUE = ("Coq proof over a model of reconfigure_nodes and of the parse of the `config get cluster` reply: after any history "
             "of reconfigurations rotation = clients = the advertised list, routing never leaves it, old clients are closed; "
             "parse/render round trip for any node list; model tied to the code by a differential run")
LEVEL_TEXT = ("c19_rotation/clients/tables/old_closed: for every previous state and every advertised list, after reconfigure_nodes "
              "the hasher's nodes and the clients are exactly the advertised nodes, the failover tables mention no other node and "
              "every previous client object has been closed; c19_routing: every key is then routed to an advertised node that has a "
              "client; c19_histories: the same after any sequence of successful and failed reconfigurations; c19_parse: for any "
              "non-empty list of node entries (printable-ASCII fields) the parse returns exactly (ip or host per use_vpc, port) per "
              "entry, whatever precedes the node line; independence of wire segmentation is C03's readsegment theorem; c19_error: "
              "a raw_command failure reaches the caller unchanged.")
LEVEL_NOTE = ("Trusted: Coq kernel; the hand model's correspondence with aws_ec_client.py (parse on generated replies incl. malformed "
              "ones; reconfiguration histories: hasher nodes, clients, closed clients); HashClient's hasher as a function that "
              "returns one of its nodes (C11). Host names/addresses outside printable ASCII are outside c19_parse. No axioms.")
TRUSTED = ["Coq 8.16.1 kernel; no axioms",
           "hand-written model coq/Model/Aws.v tied to pymemcache/client/ext/aws_ec_client.py by this check's correspondence run",
           "harness/clientsim.py scripted socket module with one reference server per node address (harness/refserver.py)",
           "extraction: ExtrOcamlBasic only; coq/Extract/ocaml/driver.ml"]
ASSUMPTIONS = ["the hasher returns a node that is in its rotation (C11)",
               "node entry fields are printable ASCII without space and '|' (c19_parse)"]

CFG_HOST = "cfg.example.com"
UNIVERSE = [("n%d.example.com" % i, "10.0.0.%d" % i, str(11211 + (i % 3))) for i in range(1, 9)]
TOKEN = b"\n\r\nEND\r\n"


def render(entries, version):
    line = " ".join("|".join(e) for e in entries).encode()
    body = str(version).encode() + b"\n" + line
    return b"CONFIG cluster 0 " + str(len(body)).encode() + b"\r\n" + body + TOKEN


class Cluster:
    def __init__(self):
        self.nodes = {}
        self.advertised = []
        self.version = 0
        self.mode = "ok"
        self.raw_reply = None
        self.contacts = []      # (remote, first line of each command)

    def peer(self, remote, data):
        host = remote[0] if isinstance(remote, tuple) else remote
        if host == CFG_HOST:
            if self.raw_reply is not None:
                return self.raw_reply
            if self.mode == "error":
                return b"ERROR\r\n"
            if self.mode == "error-end":          # an error answer that is followed by the end token: the call fails at once
                return b"ERROR\r\n\r\nEND\r\n"
            return render(self.advertised, self.version)
        srv = self.nodes.setdefault(remote, Server())
        self.contacts.append((remote, data.split(b"\r\n", 1)[0]))
        return srv.feed(data)


def make_client(world, use_vpc, **kw):
    from pymemcache.client.ext.aws_ec_client import AWSElastiCacheHashClient
    if use_vpc != "omit":        # "omit": the constructor is not told; the documented default (True: IP addresses) applies
        kw = dict(kw, use_vpc=use_vpc)
    return AWSElastiCacheHashClient(CFG_HOST + ":11211", socket_module=cs.FakeSocketModule(world),
                                    default_noreply=False, connect_timeout=cs.CONNECT_TIMEOUT, timeout=cs.IO_TIMEOUT, **kw)


KEYS = [("key%d" % i).encode() for i in range(24)]


def scenario(rng, quick):
    """(use_vpc, chunk choices, steps): a step is ('adv', entries) | ('version', n) | ('error',) | ('error2',) | ('refuse', entry) | ('accept', entry) | ('tick', seconds) | ('traffic',)"""
    steps = []
    cur = rng.sample(UNIVERSE, rng.randrange(1, 7))
    steps.append(("adv", list(cur)))
    for _ in range(rng.randrange(1, 9)):
        r = rng.random()
        if r < 0.1:
            steps.append(("error",))
        elif r < 0.2:
            steps.append(("error2",))
        elif r < 0.3 and cur:
            steps.append(("refuse", rng.choice(cur)))
        elif r < 0.4:
            steps.append(("tick", rng.choice([1, 61, 200])))
        elif r < 0.5:
            steps.append(("traffic",))
        elif r < 0.55:
            steps.append(("accept", rng.choice(UNIVERSE)))
        else:
            if rng.random() < 0.5 and len(cur) > 1:
                cur = rng.sample(cur, rng.randrange(1, len(cur)))                      # scale down
            else:
                extra = [u for u in UNIVERSE if u not in cur]
                cur = cur + rng.sample(extra, rng.randrange(0, min(3, len(extra)) + 1))   # scale up
                if rng.random() < 0.3:
                    cur = rng.sample(cur, len(cur))
            steps.append(("adv", list(cur)))
    return rng.random() < 0.5, [rng.choice([1, 2, 3, 7, 64, 4096]) for _ in range(rng.randrange(0, 400))], steps


def run_scenario(sc):
    """-> None or (why, detail)"""
    import pymemcache.client.hash as H
    import pymemcache.client.ext.aws_ec_client as A
    from pymemcache.exceptions import MemcacheError
    use_vpc, choices, steps = sc
    world = cs.World([], choices, (), 1)
    world.on_block = "SocketTimeout"        # a read that waits for bytes the peer never sends ends in the configured timeout
    cl = Cluster()
    world.addr_peer = cl.peer
    clock = VClock([], 1000)
    saved = (H.time, A.time)
    H.time = A.time = clock
    client = None
    advertised = []

    def observe(i):
        # every key goes to exactly one advertised node; nothing reaches a withdrawn node
        cl.contacts = []
        for k in KEYS:
            try:
                client.set(k, b"v", noreply=False)
            except (OSError, MemcacheError):
                pass                       # a refusing node: failover is C13's business
            except Exception as e:
                return "step %d: set(%r) failed with the internal error %s: %r" % (i, k, type(e).__name__, e), None
        for remote, line in cl.contacts:
            if remote not in advertised:
                return "step %d: %r was sent to %r, which is not advertised (advertised: %r)" % (i, line, remote, advertised), None
        for s in world.socks:
            rem = getattr(s, "remote", None)
            if rem and rem[0] != CFG_HOST and rem not in advertised and not s.closed:
                return "step %d: the connection to the withdrawn node %r is still open" % (i, rem), None
        nodes = sorted(client.hasher.nodes)
        want = sorted("%s:%s" % a for a in set(advertised))
        alive = [n for n in want if n not in ["%s:%s" % k for k in client._dead_clients]]
        if not set(alive) <= set(nodes) or not set(nodes) <= set(want):
            return "step %d: rotation %r, advertised %r" % (i, nodes, want), None
        return None
    try:
        for i, st in enumerate(steps):
            if st[0] == "tick":
                clock.last += st[1]
                continue
            if st[0] == "version":          # the configuration version the endpoint will report next (it counts up from there)
                cl.version = st[1]
                continue
            if st[0] == "refuse":
                e = st[1]
                world.refuse.add(((e[1] if use_vpc else e[0]), e[2]))
                continue
            if st[0] == "accept":
                e = st[1]
                world.refuse.discard(((e[1] if use_vpc else e[0]), e[2]))
                continue
            if st[0] == "traffic":
                # calls between two reconfigurations (the timer thread is not the only thing that happens): the same observations
                if client is not None:
                    r = observe(i)
                    if r:
                        return r
                continue
            cl.mode = "error" if st[0] == "error" else "error-end" if st[0] == "error2" else "ok"
            if st[0] == "adv":
                cl.advertised = st[1]
                cl.version += 1
            try:
                if client is None:
                    client = make_client(world, use_vpc, retry_attempts=0, dead_timeout=60)
                else:
                    client.reconfigure_nodes()
                if st[0] in ("error", "error2"):
                    return "step %d: the endpoint answered ERROR and the call did not fail" % i, None
            except OSError as e:
                if st[0] == "error" and isinstance(e, __import__("socket").timeout):
                    return ("step %d: the endpoint answered ERROR; the call waited for the end token until the socket timeout "
                            "instead of failing with the memcached error" % i), "C19-error-answer-waits-for-end-token"
                return "step %d (%s): failed with %s: %s" % (i, st[0], type(e).__name__, e), None
            except MemcacheError as e:
                if st[0] not in ("error", "error2"):
                    return "step %d: reconfiguration raised %s: %s" % (i, type(e).__name__, e), None
                if client is None:
                    return None        # construction failed with the memcached error: nothing more to observe
                # a reconfiguration that failed changes nothing: the calls that follow still go to the last advertised nodes
                r = observe(i)
                if r:
                    return r
                continue
            except Exception as e:
                return "step %d (%s): failed with the internal error %s: %s" % (i, st[0], type(e).__name__, e), None
            advertised[:] = [((e[1] if use_vpc else e[0]), e[2]) for e in st[1]]
            # straight after construction / a successful reconfiguration the rotation IS the advertised list: a node that had been
            # evicted before (and is still advertised) is back in it (the calls of observe() may evict refusing nodes again)
            nodes, want = sorted(client.hasher.nodes), sorted("%s:%s" % a for a in set(advertised))
            if nodes != want:
                return "step %d: straight after the reconfiguration the rotation is %r, advertised %r" % (i, nodes, want), None
            r = observe(i)
            if r:
                return r
        return None
    finally:
        H.time, A.time = saved


def parse_cases(ctx):
    rng = random.Random(ctx.seed * 101 + 19)
    out = []
    for n in range(1, 7):
        for _ in range(6):
            ent = rng.sample(UNIVERSE, n)
            out.append(render(ent, rng.randrange(1, 99)))
    bad = [b"CONFIG cluster 0 5\r\n1\n\n\r\nEND\r\n", b"CONFIG cluster 0 9\r\n1\nh|i\n\r\nEND\r\n", b"CONFIG cluster 0 9\r\n1\nh|i|p  h2|i2|p2\n\r\nEND\r\n",
           b"\n\r\nEND\r\n", b"x\n\r\nEND\r\n", b"CONFIG cluster 0 9\r\n1\nh|i|p|q|r\n\r\nEND\r\n", b"CONFIG cluster 0 9\r\n1\n\xff|i|p\n\r\nEND\r\n",
           b"CONFIG cluster 0 9\r\n1\nh\xc3\xa9|i|p h2|i2|p2\n\r\nEND\r\n", b"CONFIG cluster 0 9\r\n1\rh|i|p\n\r\nEND\r\n", b"ERROR\r\n",
           b"CONFIG cluster 0 9\r\n1\nh|i|p\n\n\r\nEND\r\n", b"CONFIG cluster 0 9\r\n1\nh|i|p \n\r\nEND\r\n", b"CONFIG cluster 0 9\r\n1\n|||\n\r\nEND\r\n",
           b"SERVER_ERROR busy\r\n", b"ERROR\r\n\r\nEND\r\n", b"SERVER_ERROR busy\r\n\n\r\nEND\r\n"]
    return [(vpc, r) for r in out + bad for vpc in (True, False)]


def real_parse(vpc, reply):
    from pymemcache.client.ext.aws_ec_client import AWSElastiCacheHashClient
    world = cs.World([], [], [reply], 1)
    world.on_block = "SocketTimeout"
    obj = AWSElastiCacheHashClient.__new__(AWSElastiCacheHashClient)
    obj._cfg_node = CFG_HOST + ":11211"
    obj.default_kwargs = {"socket_module": cs.FakeSocketModule(world)}
    obj._use_vpc = int(vpc)
    try:
        return ("o", [tuple(x) for x in obj._get_nodes_list()])
    except BaseException as e:  # noqa
        return ("e", core.exn_name(e))


def history_cases(ctx):
    rng = random.Random(ctx.seed * 313 + 19)
    out = []
    for _ in range(60 if ctx.quick else 600):
        vpc = rng.random() < 0.5
        reps = []
        for _ in range(rng.randrange(1, 6)):
            r = rng.random()
            if r < 0.15:
                reps.append(rng.choice([b"ERROR\r\n", b"ERROR\r\n\r\nEND\r\n"]))
            elif r < 0.2:
                reps.append(b"CONFIG cluster 0 3\r\n1\nh|i\n\r\nEND\r\n")
            else:
                ent = rng.sample(UNIVERSE, rng.randrange(1, 7))
                if rng.random() < 0.2:
                    ent = ent + [ent[0]]
                reps.append(render(ent, len(reps) + 1))
        out.append((vpc, reps))
    return out


def real_history(vpc, reps):
    from pymemcache.client.ext.aws_ec_client import AWSElastiCacheHashClient
    from pymemcache.client.base import Client
    world = cs.World([], [], (), 1)
    world.on_block = "SocketTimeout"
    it = iter(reps)
    cur = [None]

    def peer(remote, data):
        return cur[0]
    world.addr_peer = peer
    closed = []

    class C(Client):
        def close(self):
            if self.server[0] != CFG_HOST:
                closed.append("%s:%s" % self.server)
            Client.close(self)

    class A(AWSElastiCacheHashClient):
        client_class = C
    results = []
    client = None
    for r in it:
        cur[0] = r
        try:
            if client is None:
                obj = A(CFG_HOST + ":11211", socket_module=cs.FakeSocketModule(world), use_vpc=vpc)
                client = obj
            else:
                client.reconfigure_nodes()
            results.append(("o", None))
        except BaseException as e:  # noqa
            results.append(("e", core.exn_name(e)))
            if client is None:
                # the constructor failed: no object exists; the model's state is the initial one as well
                continue
    if client is None:
        return results, [], [], []
    return results, list(client.hasher.nodes), list(client.clients), closed


def failover_history_cases(ctx):
    """reads of the configuration with failover bookkeeping in between: ('reply', bytes) | ('fail', entry) | ('evict', entry)"""
    rng = random.Random(ctx.seed * 331 + 19)
    out = []
    for _ in range(80 if ctx.quick else 800):
        vpc = rng.random() < 0.5
        adv = rng.sample(UNIVERSE, rng.randrange(2, 6))
        steps = [("reply", render(adv, 1))]
        rot = list(adv)
        for j in range(rng.randrange(2, 9)):
            r = rng.random()
            if r < 0.3 and rot:
                steps.append(("fail", rng.choice(rot)))
            elif r < 0.6 and rot:
                e = rng.choice(rot)
                rot.remove(e)
                steps.append(("evict", e))
            elif r < 0.7:
                steps.append(("reply", b"ERROR\r\n\r\nEND\r\n"))
            else:
                if rng.random() < 0.6 and len(adv) > 1:
                    adv = rng.sample(adv, rng.randrange(1, len(adv)))
                else:
                    extra = [u for u in UNIVERSE if u not in adv]
                    adv = adv + rng.sample(extra, rng.randrange(0, min(3, len(extra)) + 1))
                rot = list(adv)
                steps.append(("reply", render(adv, j + 2)))
        out.append((vpc, steps))
    return out


def real_failover_history(vpc, steps):
    """-> (results of the reads, nodes, clients, failed keys, dead keys)"""
    from pymemcache.client.ext.aws_ec_client import AWSElastiCacheHashClient
    world = cs.World([], [], (), 1)
    world.on_block = "SocketTimeout"
    cur = [None]
    world.addr_peer = lambda remote, data: cur[0]
    client, results = None, []
    for st in steps:
        if st[0] == "reply":
            cur[0] = st[1]
            try:
                if client is None:
                    client = AWSElastiCacheHashClient(CFG_HOST + ":11211", socket_module=cs.FakeSocketModule(world), use_vpc=vpc, retry_attempts=5)
                else:
                    client.reconfigure_nodes()
                results.append(("o", None))
            except BaseException as e:  # noqa
                results.append(("e", core.exn_name(e)))
            continue
        e = st[1]
        server = ((e[1] if vpc else e[0]), e[2])
        server = [k for k in (c.server for c in client.clients.values()) if (k[0], str(k[1])) == server][0]
        if st[0] == "fail" or server not in client._failed_clients:
            client._mark_failed_server(server)          # HashClient's own bookkeeping (retries left: a failure record only)
        if st[0] == "evict":
            client.remove_server(server)
    key = client._make_client_key
    return (results, sorted(client.hasher.nodes), list(client.clients), sorted(key(k) for k in client._failed_clients), sorted(key(k) for k in client._dead_clients))


def raw_of(reply):
    """what raw_command does (C03, C06): the stream up to the first end token, checked for protocol error words;
    without the end token the read waits until the socket timeout"""
    i = reply.find(TOKEN)
    if i < 0:
        return (cs.TAGS["SocketTimeout"],)
    seg = reply[:i]
    if seg.startswith(b"ERROR"):
        return (cs.TAGS["MemcacheUnknownCommandError"],)
    if seg.startswith(b"CLIENT_ERROR"):
        return (cs.TAGS["MemcacheClientError"],)
    if seg.startswith(b"SERVER_ERROR"):
        return (cs.TAGS["MemcacheServerError"],)
    return seg


def correspondence(ctx):
    dis = []
    pc = [(v, r) for v, r in parse_cases(ctx)]
    usable = [(v, r, raw_of(r)) for v, r in pc if raw_of(r) is not None]
    model = ctx.driver.call_many([(1, (v, raw)) if isinstance(raw, bytes) else (2, (v, [raw])) for v, r, raw in usable])
    for (v, r, raw), m in zip(usable, model):
        got = real_parse(v, r)
        if isinstance(raw, bytes):
            exp = ("o", [tuple(x) for x in m[1]]) if m[0] == "ok" else ("e", m[1] if m[0] == "ex" else repr(m))
        else:
            res = m[1][0][0]
            exp = ("e", core.EXN_NAMES[res[1]]) if res[0] == "e" else ("o", None)
        if got != exp:
            dis.append({"what": "_get_nodes_list", "use_vpc": v, "reply": repr(r), "impl": repr(got), "model": repr(exp)})
    hc = history_cases(ctx)
    hm = ctx.driver.call_many([(2, (v, [raw_of(r) for r in reps])) for v, reps in hc])
    nh = 0
    for (v, reps), m in zip(hc, hm):
        nh += 1
        got = real_history(v, reps)
        if m[0] != "ok":
            dis.append({"what": "history", "model-error": repr(m)})
            continue
        rs, nodes, clients, closed = m[1]
        exp_res = [("o", None) if x[0] == "o" else ("e", core.EXN_NAMES[x[1]]) for x in rs]
        # a failed constructor leaves no object: compare from the first success on
        if got[0] != exp_res or (any(x[0] == "o" for x in exp_res) and (sorted(got[1]) != sorted(nodes) or list(got[2]) != list(clients) or got[3] != list(closed))):
            if got[0] == exp_res and not any(x[0] == "o" for x in exp_res):
                continue
            dis.append({"what": "reconfiguration history", "use_vpc": v, "replies": [repr(r)[:80] for r in reps], "impl": repr(got)[:500],
                        "model": repr((exp_res, nodes, clients, closed))[:500]})
    # histories with failure records and evictions between the reads: the failover tables after each history
    fh = failover_history_cases(ctx)
    name = lambda vpc, e: "%s:%s" % ((e[1] if vpc else e[0]), e[2])
    fm = ctx.driver.call_many([(3, (v, [raw_of(st[1]) if st[0] == "reply" else (1 if st[0] == "fail" else 2, name(v, st[1])) for st in steps])) for v, steps in fh])
    for (v, steps), m in zip(fh, fm):
        try:
            got = real_failover_history(v, steps)
        except Exception as e:  # noqa  (e.g. the client lost the server a step refers to)
            dis.append({"what": "reconfiguration history with failover bookkeeping", "use_vpc": v, "steps": [repr(x)[:70] for x in steps],
                        "impl": "the history could not be carried out on the real client: %s: %s" % (type(e).__name__, str(e)[:100])})
            continue
        if m[0] != "ok":
            dis.append({"what": "failover history", "model-error": repr(m)})
            continue
        rs, nodes, clients, closed, failed, dead = m[1]
        exp = ([("o", None) if x[0] == "o" else ("e", core.EXN_NAMES[x[1]]) for x in rs], sorted(nodes), list(clients), sorted(failed), sorted(dead))
        if got != exp:
            dis.append({"what": "reconfiguration history with failover bookkeeping", "use_vpc": v, "steps": [repr(x)[:70] for x in steps],
                        "impl (results, nodes, clients, failed, dead)": repr(got)[:600], "model": repr(exp)[:600]})
    nh += len(fh)
    return {"evaluations": len(usable) + nh, "distinct_nontrivial": len(usable) + nh,
            "rule": "extracted model vs the real AWSElastiCacheHashClient: _get_nodes_list on 72 well-formed replies (1..6 nodes, both use_vpc "
                    "settings) and 28 malformed/erroneous ones (missing or extra fields, double spaces, empty node line, non-UTF-8, CR inside, "
                    "ERROR, SERVER_ERROR): same node list or same exception class; %d reconfiguration histories (1-5 reads of the configuration, "
                    "15%% ERROR, 5%% malformed, repeated entries): per-call outcome, hasher nodes, clients (in order), closed client objects (in order); of these, %d histories with failure "
                    "records and evictions (HashClient's own _mark_failed_server / remove_server) between the reads: also the key sets of the two failover tables" % (nh, len(fh)),
            "samples": [{"use_vpc": v, "reply": repr(r)[:100]} for v, r, raw in usable[:3]],
            "distribution": {"parse_cases": len(usable), "history_cases": nh}, "disagreements": dis}


def search(ctx):
    rng = random.Random(ctx.seed * 977 + 19)
    found = []
    n = 0
    fixed = [(True, [], [("adv", UNIVERSE[:3]), ("adv", UNIVERSE[1:2])]), (False, [1] * 300, [("adv", UNIVERSE[:2]), ("adv", UNIVERSE[2:5])]),
             (True, [], [("error",)]), (True, [], [("adv", UNIVERSE[:2]), ("error",), ("adv", UNIVERSE[:1])]),
             (True, [], [("adv", UNIVERSE[:3]), ("refuse", UNIVERSE[0]), ("adv", UNIVERSE[:3]), ("adv", UNIVERSE[1:3]), ("tick", 200), ("adv", UNIVERSE[1:3])])]
    # a reconfiguration that fails (ERROR answer) must leave the client as it was: the calls after it still reach the last advertised nodes
    for vpc in (True, False):
        fixed.append((vpc, [], [("adv", UNIVERSE[:3]), ("error2",), ("traffic",), ("adv", [UNIVERSE[0], UNIVERSE[3]]), ("error2",), ("error2",), ("traffic",)]))
    # a node that was evicted by the failover (it refuses connections) is then withdrawn by the endpoint; after dead_timeout, calls
    # BETWEEN two reconfigurations must not bring it back
    for vpc in (True, False):
        for n_nodes in (2, 3, 5):
            for victim in range(n_nodes):
                nodes = UNIVERSE[:n_nodes]
                rest = [x for j, x in enumerate(nodes) if j != victim]
                fixed.append((vpc, [], [("adv", nodes), ("refuse", nodes[victim]), ("traffic",), ("adv", rest), ("accept", nodes[victim]), ("tick", 61), ("traffic",),
                                        ("tick", 200), ("traffic",), ("adv", rest)]))
    # entries without an IP address (a cluster outside a VPC, a node still being provisioned): with use_vpc off the nodes go by host
    # name and the empty field does not matter
    noip = [(h, "", pt) for h, ip, pt in UNIVERSE[:3]]
    fixed.append((False, [], [("adv", noip), ("traffic",), ("adv", [noip[0], UNIVERSE[3], noip[2]]), ("traffic",), ("adv", UNIVERSE[:2])]))
    # two nodes at ONE address (same host name and IP), on different ports: both are advertised, both are in the rotation
    twin = (UNIVERSE[0][0], UNIVERSE[0][1], "11299")
    for vpc in (True, False):
        fixed.append((vpc, [], [("adv", [UNIVERSE[0], twin, UNIVERSE[1]]), ("traffic",), ("adv", [twin, UNIVERSE[1]]), ("adv", [UNIVERSE[0], twin]), ("traffic",)]))
    # use_vpc is documented as a bool; 1 and 0 are the same values to Python (other objects are outside its domain: the code indexes with int(use_vpc))
    for vpc in (1, 0, "omit"):
        fixed.append((vpc, [], [("adv", UNIVERSE[:3]), ("adv", UNIVERSE[1:4]), ("traffic",)]))
    # the version number in the reply is the endpoint's business: whatever it is (more digits than last time, lower than last time),
    # the advertised list is what counts
    for vpc in (True, False):
        for v0 in (8, 98, 0):
            fixed.append((vpc, [], [("version", v0), ("adv", UNIVERSE[:3]), ("adv", UNIVERSE[:2]), ("adv", UNIVERSE[:2] + UNIVERSE[3:4]), ("adv", UNIVERSE[:1]), ("traffic",)]))
        fixed.append((vpc, [], [("version", 50), ("adv", UNIVERSE[:3]), ("version", 3), ("adv", UNIVERSE[1:2]), ("traffic",), ("version", 3), ("adv", UNIVERSE[4:6])]))
    # a node evicted by the failover and STILL advertised: the next reconfiguration (same list, or a superset) puts it back
    for vpc in (True, False):
        for n_nodes in (2, 3):
            for victim in range(n_nodes):
                nodes = UNIVERSE[:n_nodes]
                fixed.append((vpc, [], [("adv", nodes), ("refuse", nodes[victim]), ("traffic",), ("accept", nodes[victim]), ("adv", nodes), ("traffic",),
                                        ("refuse", nodes[victim]), ("traffic",), ("adv", nodes + UNIVERSE[5:6])]))
    for i in range(len(fixed) + (150 if ctx.quick else 2000)):
        sc = fixed[i] if i < len(fixed) else scenario(rng, ctx.quick)
        n += 1
        r = run_scenario(sc)
        if r:
            found.append({"clause": r[0], "finding": r[1], "input": {"use_vpc": sc[0], "recv_chunks": sc[1][:20], "steps": repr(sc[2])}, "size": len(sc[2]) * 100 + len(sc[1]),
                          "case": repr(sc)})
    ctx.search_summary = {"scenarios": n, "keys_per_step": len(KEYS)}
    found.sort(key=lambda v: v["size"])
    out, seen = [], set()
    for v in found:                 # the smallest violation of each kind: unlisted ones and each listed finding
        k = v.get("finding")
        if k not in seen:
            seen.add(k)
            out.append(v)
    return out


def replay(ctx, obj):
    v = obj.get("violation")
    if not v or not v.get("case"):
        return None
    r = run_scenario(eval(v["case"]))
    print(r[0] if r else "scenario passes")
    return bool(r)
