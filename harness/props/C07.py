"""C07 — ignore_exc turns every read failure into a cache miss."""
from harness import clientsim as cs
from harness import hashsim as hs
from harness.clientsim import TAGS

PROP = "C07"
GEN = ["Handlers", "Wrappers"]
VO = ["Properties/C07.vo", "Extract/D_Client.vo", "Extract/D_Hash.vo"]
MODULE = "Properties.C07"
THEOREMS = ["c07_client_never_raises", "c07_client_failure_is_miss", "c07_client_success", "c07_miss_value", "c07_end_is_empty",
            "c07_pooled_never_raises", "c07_pooled_failure_is_miss", "c07_hash_initial", "c07_hash_single", "c07_hash_many",
            "c07_hash_safely_run", "c07_wrapper_miss_shapes"]
DRIVER = "D_Client"
TECHNIQUE = ("Coq proof (Hoare logic and case analysis over the Client, pool and HashClient models): with ignore_exc no "
             "Exception-class error escapes a read and every failing socket phase / inner call yields exactly the miss value; "
             "wrapper miss expressions regenerated from source each run; models tied to the code by a differential run over "
             "a fault grid")
LEVEL_TEXT = ("c07_client_*: for every configuration, peer, reply, recv behaviour and script of Exception-class socket failures, "
              "a read of Client under ignore_exc raises nothing Exception-class after validation, returns exactly its miss value "
              "whenever its socket phase fails anywhere (connect, send, any recv, reply interpretation, deserialisation) and is "
              "left closed and reusable; c07_pooled_*: the same through PooledClient for every pool state satisfying the pool "
              "invariant; c07_hash_*: the same through _run_cmd/_safely_run_func/get_many for every failover state, clock and "
              "inner-call outcome script; c07_wrapper_miss_shapes: each wrapper's swallow expression (from the source, this "
              "run) is the method's miss expression over same-named parameters.")
LEVEL_NOTE = ("Trusted: Coq kernel; hand models' correspondence with base.py/pool.py/hash.py (this check's differential run); "
              "the structural extractors gen_handlers/gen_wrappers; HashClient's hasher treated as a function that returns a "
              "node in rotation (C11). BaseException-class interruptions are outside the claim (C10). No axioms.")
TRUSTED = ["Coq 8.16.1 kernel; no axioms",
           "hand-written models coq/Model/{World,Readers,Client,Pooled,Hash}.v tied to base.py/pool.py/hash.py by this check's correspondence run",
           "tools/py2coq/gen_more.py:gen_handlers, gen_wrappers (structural extraction; fail-closed)",
           "extraction: ExtrOcamlBasic only; coq/Extract/ocaml/driver.ml"]
ASSUMPTIONS = ["scripted failures of non-recv socket calls are Exception-class (script_exc); recv may raise anything",
               "the hasher returns a node that is in rotation (route_in), proved for RendezvousHash in C11",
               "a HashClient key rejected by the key check, or a hasher error, is an input error, not a server failure"]

K, D, CD = b"k", 7, 9
READS = [(3, K, D), (4, K, D, CD), (5, K, 30, D), (6, K, 30, D, CD), (7, False, [b"a", K]), (8, False, [b"a", K])]
HIT = {3: b"VALUE k 0 1\r\nv\r\nEND\r\n", 4: b"VALUE k 0 1 5\r\nv\r\nEND\r\n", 5: b"VALUE k 0 1\r\nv\r\nEND\r\n",
       6: b"VALUE k 0 1 5\r\nv\r\nEND\r\n", 7: b"VALUE k 0 1\r\nv\r\nEND\r\n", 8: b"VALUE k 0 1 5\r\nv\r\nEND\r\n"}
FOLLOW = ((3, b"j", None), b"VALUE j 0 1\r\nw\r\nEND\r\n")
NET = ["ConnectionRefusedError", "SocketTimeout", "OSError", "ConnectionResetError", "GaiError"]
BAD_REPLIES = [b"ERROR\r\n", b"SERVER_ERROR out of memory\r\n", b"CLIENT_ERROR bad\r\n", b"FOO\r\n", b"VALUE k x y\r\n", b"VALUE k 0\r\n",
               b"VALUE other 0 1\r\nv\r\nEND\r\n", b"\r\n", b"VALUE k 0 1\r\nvvvvEND\r\n",
               b"VALUE k 0 1 \r\nv\r\nEND\r\n", b"VALUE k 2 3 1\r\nabc\r\nEND\r\n", b"VALUE k 16 2 1\r\n\xff\xfe\r\nEND\r\n",
               b"VALUE k 2 3\r\nabc\r\nEND\r\n", b"VALUE k 16 2\r\n\xff\xfe\r\nEND\r\n"]
TRUNCATED = [b"VALUE k 0 5\r\nab", b"VALUE k 0 1\r\nv\r\nEN", b"VALUE k 0 1\r\nv\r\n", b"VALUE k 0 1 5\r\nv\r\n", b"VALUE k", b"VALUE k 0 1\r\nv",
             b"VALUE k 0 1 5\r\nv\r", b"EN"]
CONFIGS = [dict(tcp=False), dict(tcp=True, naddr=2), dict(tcp=True, naddr=1, tls=True), dict(tcp=False, serde=1, prefix=b"p:")]


def plans(ctx):
    """(script, choices, reply) fault plans for one read"""
    out = []
    for kind in NET:
        for pos in range(0, 7):
            out.append(([0] * pos + [(TAGS[kind],)], [], None))
        for rpos in range(0, 2):
            out.append(([], [3] * rpos + [(TAGS[kind],)], None))
    for rpos in range(0, 3):
        out.append(([], [4] * rpos + [None], None))           # end of stream
    for rep in BAD_REPLIES:
        out.append(([], [], rep))
        out.append(([], [1] * 6, rep))
    for rep in TRUNCATED:
        # the peer stops mid-reply: then the connection ends, or the read times out
        out.append(([], [1 << 20, None], rep))
        out.append(([], [1 << 20, (TAGS["SocketTimeout"],)], rep))
        out.append(([], [1] * len(rep) + [None], rep))
    return out


def cases(ctx):
    out = []
    for cfg in CONFIGS:
        c = dict(cfg, ignore_exc=True, default_noreply=False)
        for op in READS:
            out.append((c, op, [], [], b"END\r\n"))          # the miss itself
            for sc, ch, rep in plans(ctx):
                out.append((c, op, sc, ch, HIT[op[0]] if rep is None else rep))
    return out


def pfx(c, rep):
    """replies name the key as sent: with the configured prefix"""
    p = c.get("prefix", b"")
    return rep.replace(b" k ", b" " + p + b"k ").replace(b" j ", b" " + p + b"j ") if p else rep


def _ops(op, rep, c=None):
    return [op, FOLLOW[0]], {0: pfx(c or {}, rep), 1: pfx(c or {}, FOLLOW[1])}


def make_hash(pooling, spelled=False):
    def mk(server, kw):
        from pymemcache.client.hash import HashClient
        kw = dict(kw)
        if spelled:
            # the same server written as a string ("host", "unix:/path"); a failing server is dropped at the first failure
            server = server[0] if isinstance(server, tuple) else "unix:" + server
            return HashClient([server], use_pooling=pooling, retry_attempts=0, retry_timeout=1, dead_timeout=60, **kw)
        return HashClient([server], use_pooling=pooling, retry_attempts=2, retry_timeout=1, dead_timeout=60, **kw)
    return mk


STACKS = ["Client", "PooledClient", "HashClient", "HashClient(use_pooling)", "HashClient(str spec, retry_attempts=0)",
          "HashClient(use_pooling, str spec, retry_attempts=0)"]


def run_stack(stack, c, op, sc, ch, rep):
    ops, rbo = _ops(op, rep, c)
    if stack == "Client":
        return cs.run_impl(c, ops, sc, ch, (), None, None, rbo, apply=cs.apply_op_kw)[0]
    if stack == "PooledClient":
        return [x[0] for x in cs.run_pooled(c, (2, 0), ops, sc, ch, (), (), rbo, apply=cs.apply_op_kw)[0]]
    return cs.run_impl(c, ops, sc, ch, (), make_hash("use_pooling" in stack, "str spec" in stack), None, rbo, apply=cs.apply_op_kw)[0]


# ---- HashClient over scripted inner clients: every failure class at the seam, every failover state
H_OPS = [("get", {"default": D}, ("int", D)), ("gets", {"default": D, "cas_default": CD}, None), ("gat", {"expire": 30, "default": D}, None),
         ("gats", {"expire": 30, "default": D, "cas_default": CD}, None)]
H_FAILS = ["ConnectionRefusedError", "SocketTimeout", "OSError", "MemcacheUnknownError", "MemcacheServerError", "MemcacheClientError",
           "MemcacheUnexpectedCloseError", "ValueError", "KeyError", "IndexError", "TypeError", "Exception"]


def hash_cases(ctx):
    out = []
    servers2 = [("h1", 1), ("h2", 2)]
    for ra, rt in ((0, 0), (1, 5), (2, 1)):
        cfg = (ra, rt, 60, True, b"", False)
        for name, kw, _ in H_OPS:
            miss = D if name in ("get", "gat") else (D, CD)
            for fail in H_FAILS:
                f = (TAGS[fail],)
                for servers in ([("h1", 1)], servers2, ["/tmp/mc-a.sock"], [("h1", 1), "/tmp/mc-b.sock"]):
                    # fail, fail again, (evicted / in window), then the clock moves on
                    ops = [(5, name, b"k", kw, miss)] * 4 + [(4,), (5, name, b"k", kw, miss), (5, name, b"k2", kw, miss)]
                    out.append((cfg, servers, 100, [100, 100, 101, 101, 102, 103, 110, 111, 200, 201, 202, 203], [f, f, f, f, f, f, f], ops))
                    out.append((cfg, servers, 100, [100, 101, 102, 200, 300, 400], [f, "v", f, ("v", 1)], ops))
            for servers in ([("h1", 1)], servers2):
                out.append((cfg, servers, 100, [100, 101], [], [(5, name, b"k", kw, miss), (2, name in ("gets", "gats"), [b"a", b"b", b"k"])]))
        f = (TAGS["ConnectionRefusedError"],)
        g = (TAGS["MemcacheUnknownError"],)
        for gets in (False, True):
            ops = [(2, gets, [b"a", b"b", b"c", b"d", b"e"])] * 3
            out.append((cfg, servers2, 100, [100, 101, 102, 103, 104, 105, 200, 201, 300], [f, g, f, f, g, f], ops))
            out.append((cfg, servers2, 100, [100, 101, 102, 103, 104, 105, 200, 201, 300], [{b"a": 1}, f, f, f, {b"c": 2}], ops))
    return out


def correspondence(ctx):
    cl = cases(ctx)
    hk = cs.handler_kinds()
    hp = cs.pool_handler_kind()
    dis = []
    # Client
    reqs, metas = [], []
    for c, op, sc, ch, rep in cl:
        ops, rbo = _ops(op, rep, c)
        reqs.append(cs.model_req(c, ops, sc, ch, [rbo[0], rbo[1]], hk))
    model = ctx.driver.call_many(reqs)
    for (c, op, sc, ch, rep), m in zip(cl, model):
        ops, rbo = _ops(op, rep, c)
        r = cs.run_impl(c, ops, sc, ch, [rbo[0], rbo[1]], apply=cs.apply_op_kw)
        mm = cs.decode_model(m)
        if tuple(r[:6]) != tuple(mm[:6]):
            dis.append({"class": "Client", "cfg": repr(c), "op": repr(op), "script": repr(sc), "choices": repr(ch), "reply": repr(rep),
                        "impl": repr((r[0], r[2])), "model": repr((mm[0], mm[2]) if len(mm) > 2 else mm)})
    # PooledClient
    pooled = [x for x in cl if not x[0].get("tls")]
    pm = ctx.driver.call_many([cs.pooled_req(c, (2, 0), _ops(op, rep, c)[0], sc, ch, [_ops(op, rep, c)[1][0], _ops(op, rep, c)[1][1]], [], hk, hp) for c, op, sc, ch, rep in pooled])
    for (c, op, sc, ch, rep), m in zip(pooled, pm):
        ops, rbo = _ops(op, rep, c)
        r = cs.run_pooled(c, (2, 0), ops, sc, ch, [rbo[0], rbo[1]], apply=cs.apply_op_kw)
        mm = cs.decode_pooled(m)
        if tuple(r[:5]) != tuple(mm[:5]):
            dis.append({"class": "PooledClient", "cfg": repr(c), "op": repr(op), "script": repr(sc), "choices": repr(ch), "reply": repr(rep),
                        "impl": repr(r[0]), "model": repr(mm[0] if len(mm) > 1 else mm)})
    # HashClient over scripted inner clients
    hcl = hash_cases(ctx)
    from harness import core
    hdrv, herr = core.get_driver("D_Hash")
    nh = 0
    if hdrv is None:
        dis.append({"class": "HashClient", "error": "HashClient model does not build: %s" % (herr or "")[-300:]})
    else:
        try:
            hm = hdrv.call_many([hs.model_req(*x) for x in hcl])
            for x, m in zip(hcl, hm):
                r = hs.run_impl(*x)
                mm = hs.decode_model(m)
                nh += 1
                if tuple(r) != tuple(mm):
                    k = next((i for i in range(len(r)) if i >= len(mm) or r[i] != mm[i]), 0)
                    dis.append({"class": "HashClient", "cfg": repr(x[0]), "servers": repr(x[1]), "outs": repr(x[4])[:200], "ops": repr(x[5])[:300],
                                "first_difference_in": ["results", "nodes", "failed", "dead", "last_check", "log"][k],
                                "impl": repr(r[k])[:400], "model": repr(mm[k] if len(mm) > k else mm)[:400]})
        finally:
            hdrv.close()
    return {"evaluations": len(cl) + len(pooled) + nh, "distinct_nontrivial": len(cl) + len(pooled) + nh - 2 * len(CONFIGS) * len(READS),
            "rule": "extracted Client, PooledClient and HashClient models vs the real classes with ignore_exc=True: 6 read operations "
                    "(defaults by keyword) x 4 configurations (UNIX, TCP with 2 addresses, TLS, PickleSerde+prefix) x fault plans "
                    "(5 network error kinds at every non-recv socket call 0..6 and at the first two recv calls; end of stream at "
                    "recv 0..2; 14 erroneous/unparseable/undeserialisable replies whole and in 1-byte pieces; 8 truncated replies followed by end of stream or a read timeout), each followed "
                    "by a healthy get; HashClient public get/gets/gat/gats/get_many over scripted inner clients: 12 failure classes x "
                    "3 retry configurations x 1-2 servers x eviction/retry-window/revival histories. Compared: results, socket traces, "
                    "pool counts, failover tables, contact logs",
            "samples": [{"cfg": repr(c), "op": repr(o), "script": repr(s), "choices": repr(h), "reply": repr(r)} for c, o, s, h, r in cl[40:43]],
            "distribution": {"client_cases": len(cl), "pooled_cases": len(pooled), "hash_cases": nh},
            "exhaustive": True, "disagreements": dis}


def fails_without_ignore(c, op, sc, ch, rep, memo={}):
    """is this plan a failure for this call?  -- the identical call on a plain Client that does not ignore errors raises"""
    key = (repr(c), repr(op), repr(sc), repr(ch), rep)
    if key not in memo:
        ops, rbo = _ops(op, rep, c)
        rr = cs.run_impl(dict(c, ignore_exc=False), ops[:1], sc, ch, (), None, None, rbo, apply=cs.apply_op_kw)
        r = rr[0]
        # WouldBlock: the harness's marker for a recv that would wait for ever (no timeout scripted): not a failure plan;
        # second component: the whole plan was used up by this call (so the next call runs fault-free)
        memo[key] = (r[0][0] == "e" and r[0][1] != "WouldBlock", rr[3] == 0 and rr[4] == 0)
    return memo[key]


def fresh_result_probe():
    """What a failed read returns belongs to the caller: filling the dict a failed get_many / gets_many returned (the cache-aside
    pattern) must not change what later failed reads return - on this client or on a new one - from the miss value."""
    from pymemcache.client.base import Client, PooledClient
    from pymemcache.client.hash import HashClient
    found, n = [], 0
    reads = [(3, b"k", b"dflt"), (4, b"k", b"dflt", b"cd"), (5, b"k", 9, b"dflt"), (6, b"k", 9, b"dflt", b"cd"), (7, False, [b"k", b"a"]), (8, False, [b"k", b"a"])]

    def build(stack):
        def mk(server, kw):
            kw["socket_module"].w.refuse.add(server if isinstance(server, str) else (server[0], str(server[1])))      # every connection is refused
            if stack == "Client":
                return Client(server, **kw)
            if stack == "PooledClient":
                return PooledClient(server, max_pool_size=2, **kw)
            return HashClient([server], use_pooling="pooling" in stack, retry_attempts=5, retry_timeout=0, **kw)
        return mk

    def apply(cl, op):
        if op[0] == "fill":
            for name in ("get_many", "gets_many"):
                r = getattr(cl, name)([b"k", b"a"])
                for k in (b"k", "k", b"a"):
                    r[k] = (b"poison", b"1") if name == "gets_many" else b"poison"
            return None
        return cs.apply_op_kw(cl, op)
    for stack in ("Client", "PooledClient", "HashClient", "HashClient(use_pooling)"):
        for tcp in (False, True):
            c = dict(tcp=tcp, ignore_exc=True, default_noreply=False)
            n += 1
            ref = cs.run_impl(c, reads, [], [], (), build(stack), None, None, apply)[0]
            got = cs.run_impl(c, [("fill",)] + reads, [], [], (), build(stack), None, None, apply)[0]
            other = cs.run_impl(c, reads, [], [], (), build(stack), None, None, apply)[0]     # a NEW client, after the fill above
            for label, res in (("the same client", got[1:]), ("a new client", other)):
                bad = [(op, r, e) for op, r, e in zip(reads, res, ref) if r != e]
                if bad:
                    found.append({"clause": "after the caller filled the dict a failed get_many had returned, %r on %s returns %r under the same failure; before, it "
                                            "returned the miss value %r" % (bad[0][0], label, bad[0][1], bad[0][2]),
                                  "input": {"class": stack, "cfg": repr(c), "history": "every connection refused; get_many / gets_many, fill the returned dicts, read again"},
                                  "observed": repr(res), "expected": repr(ref), "size": 2, "fresh_case": repr((stack, tcp))})
                    break
    return found, n


def search(ctx):
    """The property on the real classes: the result under each failing plan equals the result of the same call on a
    healthy empty server, nothing is raised, and the next call works."""
    found = []
    n = 0
    cl = cases(ctx)
    miss = {}
    skipped = 0
    # "is this plan a failure?" is asked of the implementation (the identical call without ignore_exc raises) AND of the proved model:
    # a change that makes the client accept a damaged reply would otherwise hide its own failures from this search
    model_fails = {}
    if ctx.driver is not None:
        try:
            hk = cs.handler_kinds()
            reqs = []
            for c, op, sc, ch, rep in cl:
                ops, rbo = _ops(op, rep, c)
                reqs.append(cs.model_req(dict(c, ignore_exc=False), ops[:1], sc, ch, [rbo[0]], hk))
            for case, m in zip(cl, ctx.driver.call_many(reqs)):
                mm = cs.decode_model(m)
                model_fails[repr(case)] = bool(mm and mm[0] and mm[0][0][0] == "e" and mm[0][0][1] != "WouldBlock")
        except Exception:  # noqa
            model_fails = {}
    for stack in STACKS:
        for c, op, sc, ch, rep in cl:
            if sc == [] and ch == [] and rep == b"END\r\n":
                continue
            fails, used_up = fails_without_ignore(c, op, sc, ch, rep)
            if not fails and model_fails.get(repr((c, op, sc, ch, rep))):
                fails, used_up = True, False
            if not fails:
                skipped += 1
                continue
            key = (stack, repr(c), repr(op))
            if key not in miss:
                miss[key] = run_stack(stack, c, op, [], [], b"END\r\n")
            exp = miss[key]
            n += 1
            got = run_stack(stack, c, op, sc, ch, rep)
            why = None
            if got[0][0] == "e" and exp[0][0] != "e":
                why = "raised %s under ignore_exc" % (got[0][1],)
            elif got[0] != exp[0]:
                why = "failure result %r differs from the miss result %r" % (got[0], exp[0])
            elif not used_up:
                pass                      # the rest of the plan hits the next call: nothing to say about it here
            elif got[1][0] == "e":
                why = "the call after the failure raised %s" % (got[1][1],)
            elif stack in ("Client", "PooledClient") and got[1] != ("o", ("bytes", b"w")):
                why = "the call after the failure returned %r instead of its own hit" % (got[1],)
            if why:
                found.append({"clause": why, "input": {"class": stack, "cfg": repr(c), "op": repr(op), "script": repr(sc), "choices": repr(ch), "reply": repr(rep)},
                              "observed": repr(got), "expected": repr(exp[0]), "size": len(sc) + len(ch) + (0 if stack == "Client" else 1),
                              "case": repr((stack, c, op, sc, ch, rep))})
    # HashClient's own failover histories (scripted inner clients): under ignore_exc no read may raise, and a read whose server
    # call failed (or was skipped inside the retry window) returns the miss value the property names
    nhist = 0
    for x in hash_cases(ctx):
        cfg, servers, t0, times, outs, ops = x
        r = hs.run_impl(*x)
        nhist += 1
        hits = {repr(hs.canon_value(o)) for o in outs if not (isinstance(o, tuple) and len(o) == 1 and isinstance(o[0], int))}
        hits.add(repr(hs.canon_value(None)))      # the scripted inner client answers None once its outcomes are used up
        for i, (op, res) in enumerate(zip(ops, r[0])):
            if op[0] not in (2, 5):
                continue
            why = None
            if res[0] == "e":
                why = "HashClient.%s raised %s under ignore_exc (call %d of the history)" % (op[1] if op[0] == 5 else "get_many", res[1], i)
            elif op[0] == 5 and res[1] != hs.canon_value(op[4]) and repr(res[1]) not in hits:
                why = "HashClient.%s returned %r, neither a hit nor the miss value %r (call %d of the history)" % (op[1], res[1], op[4], i)
            if why:
                found.append({"clause": why, "input": {"class": "HashClient", "cfg": repr(cfg), "servers": repr(servers), "clock": repr(times),
                                                        "inner_outcomes": repr(outs), "ops": repr(ops)},
                              "observed": repr(r[0]), "size": 100 + len(ops), "hash_case": repr(x)})
                break
    # "afterwards the client is still usable": the one server fails once and is healthy from then on; reads keep coming (the clock
    # moves a second at every reading, so calls are a few seconds apart, far closer than dead_timeout): within a few dead_timeout
    # periods the reads must be HITS again, not the miss value for ever
    for ra in (0, 1, 2):
        for name, kw, _ in H_OPS:
            miss = D if name in ("get", "gat") else (D, CD)
            hit = b"v" if name in ("get", "gat") else (b"v", b"7")
            f = (TAGS["ConnectionRefusedError"],)
            x = ((ra, 1, 10, True, b"", False), [("h1", 1)], 100, [100 + i for i in range(400)], [f] * (ra + 1) + [hit] * 80, [(5, name, b"k", kw, miss)] * 60)
            r = hs.run_impl(*x)
            nhist += 1
            tail = [res for res in r[0][-5:]]
            if any(res[0] == "e" for res in r[0]):
                found.append({"clause": "HashClient.%s raised %s under ignore_exc" % (name, [res for res in r[0] if res[0] == "e"][0][1]),
                              "input": {"class": "HashClient", "cfg": repr(x[0]), "history": "one failing contact, then a healthy server; a read every few seconds"},
                              "observed": repr(r[0][:8]), "size": 160, "hash_case": repr(x)})
            elif all(res[1] != hs.canon_value(hit) for res in tail):
                found.append({"clause": "after ONE failure (retry_attempts=%d) the healthy server was never used again: %d reads over %d s (dead_timeout 10 s) all returned "
                                        "the miss value - the client did not become usable again" % (ra, len(r[0]), r[5][-1][-1] - 100 if r[5] else 0),
                              "input": {"class": "HashClient", "cfg": repr(x[0]), "history": "one failing contact, then a healthy server; a read every few seconds",
                                        "operation": name}, "observed": repr(tail), "size": 160, "usable_case": repr(x)})
    f3, nfresh = fresh_result_probe()
    found += f3
    ctx.search_summary = {"fresh_result_probes": nfresh, "hash_failover_histories": nhist, "failing_plans_compared_with_the_miss_result": n, "plans_that_do_not_fail_the_call": skipped, "stacks": STACKS}
    found.sort(key=lambda v: v["size"])
    return found[:1]


def replay(ctx, obj):
    v = obj.get("violation")
    if v and v.get("hash_case"):
        r = hs.run_impl(*eval(v["hash_case"]))
        print("HashClient history ->", r[0])
        return any(x[0] == "e" for x in r[0])
    if v and v.get("usable_case"):
        x = eval(v["usable_case"])
        r = hs.run_impl(*x)
        hitv = hs.canon_value(x[4][-1])
        print("last reads ->", r[0][-5:])
        return all(res[1] != hitv for res in r[0][-5:])
    if v and v.get("fresh_case"):
        f, _ = fresh_result_probe()
        hit = [x for x in f if x["fresh_case"] == v["fresh_case"]]
        print(hit[0]["clause"] if hit else "failed reads return fresh miss values")
        return bool(hit)
    if not v or not v.get("case"):
        return None
    stack, c, op, sc, ch, rep = eval(v["case"])
    got = run_stack(stack, c, op, sc, ch, rep)
    exp = run_stack(stack, c, op, [], [], b"END\r\n")
    print(stack, "under the fault plan ->", got[0], "| on a healthy empty server ->", exp[0], "| next call ->", got[1])
    return got[0] != exp[0] or got[1][0] == "e"
