"""C20 — key validation accepts exactly the documented legal keys."""
import itertools

PROP = "C20"
GEN = ["KeyCheck", "CallSites"]
VO = ["Properties/C20.vo", "Extract/D_C20.vo", "Extract/O_C20.vo"]
MODULE = "Properties.C20"
THEOREMS = ["c20_exact", "c20_legal_meaning", "c20_accept_iff", "c20_unencodable_rejected", "c20_same_rule", "c20_prefix_everywhere"]
DRIVER = "D_C20"
ORACLE = "O_C20"
TECHNIQUE = ("Coq proof that the Gallina translation of check_key_helper (regenerated every run) equals the documented "
             "legal-key predicate for every str/bytes key, prefix and flag; call-site table extracted from source; "
             "extracted-model/implementation differential run over byte classes")
LEVEL_TEXT = ("c20_exact: for all keys (any list of code points or bytes), prefixes and both allow_unicode_keys settings the "
              "translated check_key_helper returns prefix+encoded key iff 1..250 bytes without whitespace/NUL, else "
              "MemcacheIllegalInputError; c20_legal_meaning ties the predicate to the documented byte list; c20_same_rule "
              "checks the generated call-site table; c20_prefix_everywhere: every key-taking command of Client hands self.key_prefix to the "
              "check (table of prefix arguments read from base.py each run). Universal over keys, which sampling cannot give.")
LEVEL_NOTE = ("Trusted: Coq kernel; translator (dyn mode) and PM.Lib.Py's bytes.split/encode/len/in; extraction + driver. "
              "Exception message expressions are not evaluated by the translator. No axioms.")
TRUSTED = [
    "Coq 8.16.1 kernel; no axioms (Print Assumptions: Closed under the global context)",
    "translator tools/py2coq (dyn mode: isinstance, try/except, early raise, bool operators) and gen_more.gen_callsites (structural)",
    "PM.Lib.Py: bytes.split(), str.encode('ascii'|'utf8'), len, `in`, indexing, == as rendered in Gallina (run against CPython here)",
    "extraction: ExtrOcamlBasic only; coq/Extract/ocaml/driver.ml",
]
ASSUMPTIONS = ["keys are str or bytes (other types are outside C20's quantifier)",
               "the empty prefixed form is outside the quantifier; the helper passes it through (pinned by test_check_key_helper)"]

REPS = [0, 9, 10, 11, 12, 13, 32, 1, 0x1F, 0x61, 0x7F, 0x80, 0xFF]
SCH = ["a", " ", "\x00", "\x85", "\xe9", "\u20ac", "\U0001F600", "\ud800", "\t"]
PREFIXES = [b"", b"p:", b" ", b"\x00"]


def cases(ctx):
    out = []
    for n in range(0, 4):
        for t in itertools.product(REPS, repeat=n):
            k = bytes(t)
            for p in (PREFIXES if n <= 2 else PREFIXES[:2]):
                for allow in (False, True):
                    out.append((k, allow, p))
    base = b"abcde"
    for pos in range(5):
        for v in range(256):
            k = base[:pos] + bytes([v]) + base[pos + 1:]
            out.append((k, False, b""))
    for n in range(246, 254):
        for pl in (0, 1, 2):
            for allow in (False, True):
                out.append((b"k" * n, allow, b"p" * pl))
                out.append(("k" * n, allow, b"p" * pl))
    out.append((b"", False, b"p" * 250))
    out.append((b"k", False, b"p" * 250))
    out.append((b"", True, b"p" * 251))
    for ch, per in (("\xe9", 2), ("\u20ac", 3), ("\U0001F600", 4)):
        for total in range(244, 256):
            cnt, rem = divmod(total, per)
            for allow in (False, True):
                out.append((ch * cnt + "a" * rem, allow, b""))
                out.append((ch * cnt, allow, b"a" * rem))
    for n in range(0, 4):
        for t in itertools.product(SCH, repeat=n):
            for allow in (False, True):
                out.append(("".join(t), allow, b""))
                if n <= 2:
                    out.append(("".join(t), allow, b"p:"))
    nrand = 500 if ctx.quick else 20000
    for _ in range(nrand):
        n = ctx.rng.choice([1, 2, 5, 20, 249, 250, 251])
        if ctx.rng.random() < 0.5:
            k = bytes(ctx.rng.choice([0x61, 0x62, ctx.rng.randrange(256)]) for _ in range(n))
        else:
            k = "".join(ctx.rng.choice(["a", "b", ctx.rng.choice(SCH)]) for _ in range(n))
        out.append((k, ctx.rng.random() < 0.5, ctx.rng.choice(PREFIXES + [b"x" * ctx.rng.randrange(0, 252)])))
    return out


def impl_helper(k, allow, p):
    from pymemcache.client.base import check_key_helper
    from harness.core import exn_name
    try:
        return ("ok", check_key_helper(k, allow, p))
    except BaseException as e:  # noqa
        return ("ex", exn_name(e))


def correspondence(ctx):
    cs = cases(ctx)
    model = ctx.driver.call_many([(1, c) for c in cs]) if ctx.driver else []
    dis = []
    for c, m in zip(cs, model):
        r = impl_helper(*c)
        if r != m:
            dis.append({"key": repr(c[0]), "allow_unicode_keys": c[1], "prefix": repr(c[2]), "impl": r, "model": m})
    nontriv = {(repr(k), a, p) for k, a, p in cs if len(k) > 0}
    return {"evaluations": len(cs), "distinct_nontrivial": len(nontriv),
            "rule": "generated Gallina check_key_helper (extracted) vs Python: all keys of length 0..3 over 13 byte-class "
                    "representatives x 4 prefixes x both flags; every byte value at every position of a 5-byte key; byte "
                    "lengths 244..255 for ASCII and 2/3/4-byte UTF-8 with prefixes; str keys over 9 characters incl. a lone "
                    "surrogate and U+0085; random; non-trivial = non-empty key",
            "samples": [{"key": repr(c[0]), "allow": c[1], "prefix": repr(c[2]), "result": repr(m)}
                        for c, m in list(zip(cs, model))[2000:2004]],
            "distribution": {"bytes_keys": sum(1 for c in cs if isinstance(c[0], bytes)),
                             "str_keys": sum(1 for c in cs if isinstance(c[0], str)),
                             "accepted_by_model": sum(1 for m in model if m[0] == "ok"),
                             "rejected_by_model": sum(1 for m in model if m[0] == "ex")},
            "disagreements": dis}


class _RecSock:
    def __init__(self, log):
        self.log = log

    def connect(self, a):
        pass

    def settimeout(self, t):
        pass

    def setsockopt(self, *a):
        pass

    def sendall(self, d):
        self.log.append(bytes(d))

    def recv(self, n):
        return b"END\r\n"

    def close(self):
        pass


class _RecMod:
    """socket module stand-in: records what is written, answers every read with END"""
    import socket as _s
    AF_UNIX, AF_UNSPEC, AF_INET, SOCK_STREAM, IPPROTO_TCP, TCP_NODELAY = _s.AF_UNIX, _s.AF_UNSPEC, _s.AF_INET, _s.SOCK_STREAM, _s.IPPROTO_TCP, _s.TCP_NODELAY
    error, timeout = OSError, _s.timeout

    def __init__(self):
        self.log = []

    def getaddrinfo(self, host, port, *a, **k):
        return [(self.AF_INET, self.SOCK_STREAM, self.IPPROTO_TCP, "", (host, port))]

    def socket(self, *a, **k):
        return _RecSock(self.log)


# every key-taking public command: name -> call on a client with key k (replies are not awaited, or END is enough)
COMMANDS = [
    ("get", lambda c, k: c.get(k)), ("gets", lambda c, k: c.gets(k)), ("get_many", lambda c, k: c.get_many([k])),
    ("gets_many", lambda c, k: c.gets_many([k])), ("get_multi", lambda c, k: c.get_multi([k])),
    ("gat", lambda c, k: c.gat(k, 1)), ("gats", lambda c, k: c.gats(k, 1)),
    ("set", lambda c, k: c.set(k, b"v", noreply=True)), ("add", lambda c, k: c.add(k, b"v", noreply=True)),
    ("replace", lambda c, k: c.replace(k, b"v", noreply=True)), ("append", lambda c, k: c.append(k, b"v", noreply=True)),
    ("prepend", lambda c, k: c.prepend(k, b"v", noreply=True)), ("cas", lambda c, k: c.cas(k, b"v", b"1", noreply=True)),
    ("set_many", lambda c, k: c.set_many({k: b"v"}, noreply=True)), ("set_multi", lambda c, k: c.set_multi({k: b"v"}, noreply=True)),
    ("delete", lambda c, k: c.delete(k, noreply=True)), ("delete_many", lambda c, k: c.delete_many([k], noreply=True)),
    ("delete_multi", lambda c, k: c.delete_multi([k], noreply=True)),
    ("incr", lambda c, k: c.incr(k, 1, noreply=True)), ("decr", lambda c, k: c.decr(k, 1, noreply=True)),
    ("touch", lambda c, k: c.touch(k, 1, noreply=True)),
]


def command_probe(cs, spec):
    """Every key-taking command of Client, PooledClient and HashClient over a recording socket: the key is accepted exactly when the
    specification accepts it, and the key token on the wire is exactly the specification's prefix + encoded key."""
    from pymemcache.client.base import Client, PooledClient
    from pymemcache.client.hash import HashClient
    from harness.core import exn_name
    found, n = [], 0
    objs = {}
    picked = [(c, s) for i, (c, s) in enumerate(zip(cs, spec))
              if s != ("ok", b"") and (len(c[0]) >= 200 or len(c[2]) >= 200 or (c[2] and i % 5 == 0) or i % 40 == 0)]
    def ascii_text(b):
        try:
            return b.decode("ascii") if b else None
        except UnicodeDecodeError:
            return None
    work = []
    for (k, allow, p), s in picked:
        work.append((k, allow, p, p, s))
        if ascii_text(p) is not None and len(k) % 3 == 0:
            work.append((k, allow, p, ascii_text(p), s))       # the same prefix given as str: the three classes encode it (ASCII)
    for k, allow, p, pgiven, s in work:
        if (allow, pgiven) not in objs:
            mods = [_RecMod(), _RecMod(), _RecMod()]
            objs[(allow, pgiven)] = (mods, (Client(("h", 1), key_prefix=pgiven, allow_unicode_keys=allow, socket_module=mods[0]),
                                            PooledClient(("h", 1), key_prefix=pgiven, allow_unicode_keys=allow, socket_module=mods[1]),
                                            HashClient([("h", 1)], key_prefix=pgiven, allow_unicode_keys=allow, socket_module=mods[2])))
        mods, clients = objs[(allow, pgiven)]
        for mod, cl in zip(mods, clients):
            for name, f in COMMANDS:
                if not hasattr(cl, name):
                    continue
                n += 1
                del mod.log[:]
                try:
                    f(cl, k)
                    sent = b"".join(mod.log)
                    toks = sent.split(b"\r\n")[0].split(b" ")
                    at = 2 if name in ("gat", "gats") else 1          # gat <exptime> <key>
                    got = ("ok", toks[at] if len(toks) > at else None)
                except BaseException as e:  # noqa
                    got = ("ex", exn_name(e))
                    if mod.log:
                        got = ("ex+sent", exn_name(e))
                if got != s:
                    found.append({"input": {"key": repr(k), "allow_unicode_keys": allow, "prefix": repr(pgiven), "command": name},
                                  "site": "%s.%s" % (type(cl).__name__, name), "observed": repr(got), "expected": repr(s),
                                  "oracle": "Spec.LegalKey.key_spec (extracted)", "size": len(k) + len(p)})
    return found, n


READ_COMMANDS = ("get", "gets", "get_many", "gets_many", "get_multi", "gat", "gats")
KF_POOLED_IGNORE = "C20-pooled-ignore-exc-swallows-illegal-key"


def ignore_exc_probe(cs_, spec):
    """The same rule with ignore_exc=True: ignore_exc is about server and network failures; a key the rule rejects is still an input
    error (Client and HashClient check the key before anything that ignore_exc guards).  Only rejected keys are interesting here."""
    from pymemcache.client.base import Client, PooledClient
    from pymemcache.client.hash import HashClient
    from harness.core import exn_name
    found, n, objs = [], 0, {}
    picked = [(c, s) for i, (c, s) in enumerate(zip(cs_, spec)) if s[0] == "ex" and len(c[0]) > 0 and (i % 7 == 0 or len(c[0]) >= 200)]
    for (k, allow, p), s in picked:
        if (allow, p) not in objs:
            mods = [_RecMod(), _RecMod(), _RecMod()]
            objs[(allow, p)] = (mods, (Client(("h", 1), key_prefix=p, allow_unicode_keys=allow, socket_module=mods[0], ignore_exc=True),
                                       PooledClient(("h", 1), key_prefix=p, allow_unicode_keys=allow, socket_module=mods[1], ignore_exc=True),
                                       HashClient([("h", 1)], key_prefix=p, allow_unicode_keys=allow, socket_module=mods[2], ignore_exc=True)))
        mods, clients = objs[(allow, p)]
        for mod, cl in zip(mods, clients):
            for name, f in COMMANDS:
                if name not in READ_COMMANDS or not hasattr(cl, name):
                    continue
                n += 1
                del mod.log[:]
                try:
                    r = f(cl, k)
                    got = ("ok", "returned %r, sent %r" % (r, b"".join(mod.log)[:40]))
                except BaseException as e:  # noqa
                    got = ("ex", exn_name(e))
                if got != s:
                    pooled_swallow = isinstance(cl, PooledClient) and got[0] == "ok" and not mod.log
                    found.append({"input": {"key": repr(k), "allow_unicode_keys": allow, "prefix": repr(p), "command": name, "ignore_exc": True},
                                  "site": "%s(ignore_exc=True).%s" % (type(cl).__name__, name), "observed": repr(got), "expected": repr(s),
                                  "oracle": "Spec.LegalKey.key_spec (extracted)", "size": len(k) + len(p),
                                  "finding": KF_POOLED_IGNORE if pooled_swallow else None})
    return found, n


def history_probe():
    """The rule is applied afresh on every call: the same word used as a `stats` argument (checked like a key, never prefixed) and as
    a key (prefixed), in either order, on one client - and the same key under two clients with different prefixes sharing nothing."""
    from pymemcache.client.base import Client, PooledClient
    from pymemcache.client.hash import HashClient
    found, n = [], 0
    first = lambda log: b"".join(log).split(b"\r\n")[0]
    for pfx in (b"app:", "s:", b"y" * 246):
        pb = pfx.encode() if isinstance(pfx, str) else pfx
        for word in ("items", b"slabs", "k" * 5):
            wb = word.encode() if isinstance(word, str) else word
            for order in ("stats-first", "key-first"):
                for cname, build in (("Client", lambda m: Client(("h", 1), key_prefix=pfx, socket_module=m)),
                                     ("PooledClient", lambda m: PooledClient(("h", 1), key_prefix=pfx, socket_module=m, max_pool_size=1)),
                                     ("HashClient", lambda m: HashClient([("h", 1)], key_prefix=pfx, socket_module=m))):
                    n += 1
                    mod = _RecMod()
                    cl = build(mod)
                    seen = {}
                    steps = [("stats", lambda: cl.stats(word)), ("get", lambda: cl.get(word)), ("delete", lambda: cl.delete(word, noreply=True))]
                    if order == "key-first":
                        steps = [steps[1], steps[0], steps[2]]
                    for name, call in steps:
                        del mod.log[:]
                        try:
                            call()
                            seen[name] = first(mod.log)
                        except Exception as e:  # noqa
                            seen[name] = "%s: %s" % (type(e).__name__, str(e)[:40])
                    too_long = len(pb + wb) > 250
                    want = {"stats": b"stats " + wb, "get": "MemcacheIllegalInputError" if too_long else b"get " + pb + wb,
                            "delete": "MemcacheIllegalInputError" if too_long else b"delete " + pb + wb + b" noreply"}
                    for name in ("stats", "get", "delete"):
                        got, exp = seen[name], want[name]
                        ok = got.startswith(exp) if isinstance(exp, str) and isinstance(got, str) else got == exp
                        if not ok:
                            found.append({"input": {"key": repr(word), "allow_unicode_keys": False, "prefix": repr(pfx), "history": order},
                                          "site": "%s history (%s): %s" % (cname, order, name), "observed": repr(got), "expected": repr(exp),
                                          "oracle": "prefix + key on every call, whatever was called before", "size": 3 + len(wb),
                                          "history_case": repr((cname, pfx, word, order))})
                            break
    return found, n


def search(ctx):
    """Implementation (helper and the three classes) vs the extracted specification key_spec."""
    from pymemcache.client.base import Client, PooledClient
    from pymemcache.client.hash import HashClient
    from harness.core import exn_name
    cs = cases(ctx)
    spec = ctx.oracle.call_many([(2, c) for c in cs])
    found = []
    objs = {}
    n_cls = 0
    for c, s in zip(cs, spec):
        k, allow, p = c
        r = impl_helper(k, allow, p)
        if r != s:
            fid = None
            found.append({"input": {"key": repr(k), "allow_unicode_keys": allow, "prefix": repr(p)}, "site": "check_key_helper",
                          "observed": repr(r), "expected": repr(s), "oracle": "Spec.LegalKey.key_spec (extracted)",
                          "size": len(k) + len(p)})
            continue
        if s == ("ok", b""):
            continue        # an empty prefixed form is outside C20's quantifier (the classes reject it: C02); the helper passes it through
        # the prefix as the classes are given it: bytes, and (when it is ASCII) the same prefix as a str - every class encodes it
        spellings = [p]
        try:
            spellings.append(p.decode("ascii"))
        except UnicodeDecodeError:
            pass
        for pg in spellings:
            if (allow, pg) not in objs:
                objs[(allow, pg)] = (Client(("h", 1), key_prefix=pg, allow_unicode_keys=allow),
                                     PooledClient(("h", 1), key_prefix=pg, allow_unicode_keys=allow),
                                     HashClient([], key_prefix=pg, allow_unicode_keys=allow, ignore_exc=True),
                                     # `encoding` is the encoding of VALUES: the key rule does not depend on it
                                     Client(("h", 1), key_prefix=pg, allow_unicode_keys=allow, encoding="utf8"),
                                     PooledClient(("h", 1), key_prefix=pg, allow_unicode_keys=allow, encoding="latin-1"))
            cl, pc, hc, cl8, pcl1 = objs[(allow, pg)]
            for site, f in (("Client.check_key", lambda: cl.check_key(k, cl.key_prefix)),
                            ("PooledClient.check_key", lambda: pc.check_key(k)),
                            ("HashClient._get_client", lambda: hc._get_client(k)),
                            ("Client(encoding='utf8').check_key", lambda: cl8.check_key(k, cl8.key_prefix)),
                            ("PooledClient(encoding='latin-1').check_key", lambda: pcl1.check_key(k))):
                n_cls += 1
                try:
                    v = f()
                    got = ("ok", v if site != "HashClient._get_client" else s[1])
                except BaseException as e:  # noqa
                    got = ("ex", exn_name(e))
                if got != s:
                    found.append({"input": {"key": repr(k), "allow_unicode_keys": allow, "prefix": repr(pg)}, "site": site,
                                  "observed": repr(got), "expected": repr(s), "oracle": "Spec.LegalKey.key_spec (extracted)",
                                  "size": len(k) + len(p) + (0 if pg is p else 0.5)})
    f2, n_cmd = command_probe(cs, spec)
    found += f2
    f3, n_ign = ignore_exc_probe(cs, spec)
    found += f3
    f4, n_hist = history_probe()
    found += f4
    ctx.search_summary = {"helper_vs_spec": len(cs), "class_sites_vs_spec": n_cls, "commands_vs_spec": n_cmd, "read_commands_with_ignore_exc": n_ign, "stats_then_key_histories": n_hist}
    found.sort(key=lambda v: v["size"])
    out, seen = [], set()
    for v in found:                 # the smallest violation of each kind: unlisted ones and each listed finding
        kf = v.get("finding")
        if kf not in seen:
            seen.add(kf)
            out.append(v)
    return out


def replay(ctx, obj):
    v = obj.get("violation")
    if not v:
        return None
    i = v["input"]
    if v.get("history_case"):
        f, _ = history_probe()
        hit = [x for x in f if x["history_case"] == v["history_case"]]
        print(hit[0]["site"] + " -> " + hit[0]["observed"] if hit else "every call applies prefix + key afresh")
        return bool(hit)
    k, p = eval(i["key"]), eval(i["prefix"])
    if i.get("command"):
        spec = ctx.oracle.call_many([(2, (k, i["allow_unicode_keys"], p))])
        f, _ = command_probe([(k, i["allow_unicode_keys"], b"x" * 200 if False else p)], spec)
        f = [x for x in f if x["site"] == v["site"]]
        print(v["site"], "key", repr(k)[:60], "prefix", repr(p)[:40], "->", f[0]["observed"] if f else "as the specification says", " expected", v["expected"])
        return bool(f)
    if v.get("site") in ("Client.check_key", "PooledClient.check_key", "HashClient._get_client", "Client(encoding='utf8').check_key",
                         "PooledClient(encoding='latin-1').check_key"):
        from pymemcache.client.base import Client, PooledClient
        from pymemcache.client.hash import HashClient
        from harness.core import exn_name
        allow = i["allow_unicode_keys"]
        try:
            if v["site"].startswith("Client"):
                cl = Client(("h", 1), key_prefix=p, allow_unicode_keys=allow, **({"encoding": "utf8"} if "utf8" in v["site"] else {}))
                got = ("ok", cl.check_key(k, cl.key_prefix))
            elif v["site"].startswith("PooledClient"):
                got = ("ok", PooledClient(("h", 1), key_prefix=p, allow_unicode_keys=allow, **({"encoding": "latin-1"} if "latin" in v["site"] else {})).check_key(k))
            else:
                HashClient([], key_prefix=p, allow_unicode_keys=allow, ignore_exc=True)._get_client(k)
                got = ("ok", eval(v["expected"])[1])
        except BaseException as e:  # noqa
            got = ("ex", exn_name(e))
        print(v["site"], "key", repr(k)[:60], "prefix", repr(p)[:40], "->", got, " expected", v["expected"])
        return repr(got) != v["expected"]
    r = impl_helper(k, i["allow_unicode_keys"], p)
    print("check_key_helper(%r, %r, %r) ->" % (k, i["allow_unicode_keys"], p), r, " expected", v["expected"])
    return repr(r) != v["expected"]
