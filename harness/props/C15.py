"""C15 — serializers round-trip every value with its exact type."""
import bz2
import lzma
import pickle
import zlib

from harness import core
from harness.core import Opaque

PROP = "C15"
GEN = []
VO = ["Properties/C15.vo", "Extract/D_C15.vo"]
MODULE = "Properties.C15"
THEOREMS = ["c15_pickle_serde", "c15_compressed", "c15_int_text", "c15_utf8", "c15_legacy"]
DRIVER = "D_C15"
TECHNIQUE = ("Coq proofs about a hand-written Gallina model of serde.py: round trip and exact type for every value, flag "
             "algebra and the compression side conditions for every threshold/codec; UTF-8 and decimal text round trips "
             "proved; pickle/codec are oracles; model tied to the code by an extracted-model/implementation differential run")
LEVEL_TEXT = ("c15_pickle_serde / c15_compressed: for every value, protocol, threshold and every pickle/codec satisfying the "
              "round-trip hypothesis, deserialize(serialize v) = v with the same constructor, flags < 2^16, COMPRESSED set "
              "exactly when the codec output is stored and never a longer stored form; c15_int_text and c15_utf8 prove the "
              "text codecs for all integers and all encodable strings. Partial: pickle, zlib/bz2/lzma are oracles.")
LEVEL_NOTE = ("Trusted: Coq kernel; the hand model's correspondence with serde.py (checked by differential execution with "
              "pickle/codec results supplied by Python); Section hypotheses loads(dumps v) = v and decompress(compress b) = b; "
              "PM.Lib.Py's utf8/decimal/int() rendering. No axioms.")
TRUSTED = ["Coq 8.16.1 kernel; no axioms",
           "hand-written model coq/Model/Serde.v tied to pymemcache/serde.py by this check's correspondence run",
           "Section hypotheses (oracles): pickle loads(dumps(v)) = v; codec decompress(compress(b)) = b",
           "PM.Lib.Py: str.encode/bytes.decode('utf8'), '%d' % int, int(bytes)",
           "extraction: ExtrOcamlBasic only; coq/Extract/ocaml/driver.ml"]
ASSUMPTIONS = ["pickle and the compression codecs are oracles satisfying the round-trip hypotheses",
               "str means a UTF-8-encodable string (lone surrogates raise in serialize; excluded)",
               "ints beyond CPython's 4300-digit int<->str limit are excluded"]


class MyStr(str):
    pass


class MyInt(int):
    pass


class MyBytes(bytes):
    pass


class MyBytearray(bytearray):
    pass


class Node:
    """a tree whose children point back at their parent: an object graph with cycles"""

    def __init__(self, name, parent=None):
        self.name, self.parent, self.children = name, parent, []
        if parent is not None:
            parent.children.append(self)


def cyclic_values():
    a = [1, "two", b"three"]
    a.append(a)
    d = {"k": [1, 2]}
    d["self"] = d
    root = Node("root")
    Node("leaf", Node("mid", root))
    Node("leaf2", root)
    shared = [0] * 3
    return [a, d, root, [shared, shared, {"again": shared}], (a, d)]


def shape(v, memo=None):
    """the value as a nested tuple with back-references by visit number: equal shapes = equal graphs (== recurses for ever on cycles)"""
    memo = {} if memo is None else memo
    if isinstance(v, (list, dict, Node)):
        if id(v) in memo:
            return ("ref", memo[id(v)])
        memo[id(v)] = len(memo)
    if isinstance(v, list):
        return ("list", tuple(shape(x, memo) for x in v))
    if isinstance(v, tuple):
        return ("tuple", tuple(shape(x, memo) for x in v))
    if isinstance(v, dict):
        return ("dict", tuple((shape(k, memo), shape(x, memo)) for k, x in v.items()))
    if isinstance(v, Node):
        return ("Node", v.name, shape(v.parent, memo), shape(v.children, memo))
    return (type(v).__name__, repr(v))


def values(ctx):
    rng = ctx.rng
    vals = [b"", b"x", b"\r\nEND\r\n", bytes(range(256)), "", "a", "\xe9€\U0001F600", "\x00", 0, 1, -1, 10 ** 50,
            -10 ** 50, 2 ** 63, 255, True, False, None, 1.5, float("inf"), [1, "a", b"b", None], {"k": [1, 2, (3,)]},
            (1, 2), {1, 2}, MyStr("sub"), MyInt(7), MyBytes(b"sub"), b"a" * 400, b"a" * 401, "b" * 401, 10 ** 399, 10 ** 400,
            10 ** 401, [0] * 300, bytes(rng.randrange(256) for _ in range(500)), "x" * 9, "x" * 10, "x" * 11, b"y" * 10,
            b"y" * 11, 12345678901, 123456789012]
    vals += cyclic_values()
    # text and bytes with characters that codecs treat specially at the edges: byte-order marks, line and paragraph separators,
    # whitespace, NUL, the last code points of the planes
    vals += ["\ufeff", "\ufeffhello", "\ufeff\ufeff twice", "a\ufeff", "\ufffe", "\u2028", "\u2029x", "\x85", " lead", "trail ", "\n", "\r\n", "\t", "\x00", "\x00\x00x",
             "\ud7ff", "\ue000", "\uffff", "\U0010ffff", "\x7f\x80", b"\xef\xbb\xbf", b"\xef\xbb\xbfabc", b"\xff\xfe", b"\xfe\xff\x00", b" ", b"\n", b"\x00"]
    # other built-in and library types at top level (each is an ordinary picklable object: it must come back as itself)
    import collections
    import datetime
    import decimal
    import fractions
    vals += [bytearray(b"abc"), bytearray(b""), bytearray(b"z" * 500), MyBytearray(b"sub"), frozenset({1, 2}), complex(1, -2), range(3, 9), decimal.Decimal("1.50"),
             fractions.Fraction(1, 3), datetime.date(2020, 1, 2), datetime.timedelta(seconds=5), collections.OrderedDict(a=1), collections.deque([1, 2]),
             Ellipsis, NotImplemented, int, b"".join, 1e308 * 10, -0.0]
    for _ in range(60 if ctx.quick else 300):
        k = rng.randrange(6)
        n = rng.choice([0, 1, 5, 9, 10, 11, 50, 399, 400, 401, 1000])
        if k == 0:
            vals.append(bytes(rng.choice([0x61, rng.randrange(256)]) for _ in range(n)))
        elif k == 1:
            vals.append("".join(chr(rng.choice([0x61, 0xe9, 0x20ac, 0x1F600, rng.randrange(0x20, 0x7f)])) for _ in range(n)))
        elif k == 2:
            vals.append(rng.choice([-1, 1]) * rng.randrange(10 ** min(n, 2000)))
        elif k == 3:
            vals.append([rng.randrange(100) for _ in range(n % 60)])
        elif k == 4:
            vals.append({"k%d" % i: rng.choice([None, True, 1.25, b"v", "s"]) for i in range(n % 20)})
        else:
            vals.append(rng.choice([True, False, None, 2.5, MyInt(n), MyStr("s" * (n % 30))]))
    return vals


def to_model(v, table):
    """native exact types stay; everything else is an opaque id"""
    if type(v) in (bytes, str, int):
        return v
    table.append(v)
    return Opaque(len(table) - 1)


def same(a, b):
    if type(a) is not type(b):
        return False
    if isinstance(a, (list, dict, tuple, Node)):
        if isinstance(a, Node):
            return shape(a) == shape(b)
        try:
            return bool(a == b)          # sharing between sub-objects is not part of "an equal value"
        except RecursionError:
            return shape(a) == shape(b)  # cyclic: == cannot decide; the graphs must match
    return bool(a == b or (a != a and b != b))


CODECS = [("zlib", zlib.compress, zlib.decompress), ("bz2", bz2.compress, bz2.decompress),
          ("lzma", lzma.compress, lzma.decompress), ("identity", lambda b: b, lambda b: b)]


def correspondence(ctx):
    from pymemcache import serde
    vals = values(ctx)
    dis = []
    n = 0
    samples = []
    kinds = {}
    for v in vals:
        kinds[type(v).__name__] = kinds.get(type(v).__name__, 0) + 1
        for pv in ([0, 2, 5] if ctx.quick else [0, 1, 2, 3, 4, 5]):
            table = []
            mv = to_model(v, table)
            ps = serde.PickleSerde(pickle_version=pv)
            try:
                pk = pickle.dumps(v, pv)
            except Exception:
                continue
            try:
                got = ("ok", tuple(ps.serialize(b"k", v)))
            except BaseException as e:  # noqa
                got = ("ex", core.exn_name(e))
            m = ctx.driver.call(1, pv, mv, pk)
            n += 1
            if got != m:
                dis.append({"op": "PickleSerde.serialize", "value": repr(v)[:80], "protocol": pv, "impl": repr(got)[:200], "model": repr(m)[:200]})
                continue
            if got[0] != "ok":
                continue
            data, flags = got[1]
            wire = data if isinstance(data, bytes) else str(data).encode("ascii")
            back = ps.deserialize(b"k", wire, flags)
            lr = mv if same(back, v) else ("e",)
            m2 = ctx.driver.call(2, wire, flags, lr)
            n += 1
            exp = ("ok", mv) if same(back, v) else None
            if exp is None or m2 != exp:
                dis.append({"op": "PickleSerde.deserialize", "value": repr(v)[:80], "impl": repr(back)[:100], "model": repr(m2)[:100]})
            if len(samples) < 4 and isinstance(v, (int, str)) and not isinstance(v, bool):
                samples.append({"value": repr(v)[:40], "protocol": pv, "model_serialize": repr(m)[:80]})
            # compressed serde
            for ml in ([0, 10, 400] if ctx.quick else [0, 1, 10, 400]):
                for cname, comp, decomp in (CODECS[:1] + CODECS[3:] if ctx.quick else CODECS):
                    cs = serde.CompressedSerde(compress=comp, decompress=decomp, serde=ps, min_compress_len=ml)
                    try:
                        cg = ("ok", tuple(cs.serialize(b"k", v)))
                    except BaseException as e:  # noqa
                        cg = ("ex", core.exn_name(e))
                    cm = ctx.driver.call(3, ml, pv, mv, pk, comp(wire))
                    n += 1
                    if cg != cm:
                        dis.append({"op": "CompressedSerde.serialize", "codec": cname, "min_compress_len": ml, "value": repr(v)[:80],
                                    "impl": repr(cg)[:160], "model": repr(cm)[:160]})
                        continue
                    if cg[0] != "ok":
                        continue
                    cdata, cflags = cg[1]
                    cback = cs.deserialize(b"k", cdata, cflags)
                    cm2 = ctx.driver.call(4, cdata, cflags, mv if same(cback, v) else ("e",), wire)
                    n += 1
                    if not same(cback, v) or cm2 != ("ok", mv):
                        dis.append({"op": "CompressedSerde.deserialize", "codec": cname, "value": repr(v)[:80],
                                    "impl": repr(cback)[:100], "model": repr(cm2)[:100]})
    return {"evaluations": n, "distinct_nontrivial": len({repr(v) for v in vals if v not in (b"", "", 0)}),
            "rule": "extracted model vs PickleSerde/CompressedSerde: bytes/str/int at sizes straddling thresholds 10 and 400, "
                    "ints with more digits than the threshold, bool/None/float/containers/subclasses of str,int,bytes; pickle "
                    "protocols 0..5; thresholds {0,1,10,400}; codecs zlib/bz2/lzma/identity (pickle and codec outputs computed "
                    "by Python and handed to the model); serialize and deserialize compared; non-trivial = non-empty value",
            "samples": samples, "distribution": kinds, "disagreements": dis}


def search(ctx):
    """Round trip, exact type and the side conditions on the real classes."""
    from pymemcache import serde
    found = []
    vals = values(ctx)
    n = 0
    for v in vals:
        for pv in (0, 2, 5):
            try:
                pickle.dumps(v, pv)
            except Exception:
                continue
            ps = serde.PickleSerde(pickle_version=pv)
            sers = [("PickleSerde(%d)" % pv, ps, None)]
            for ml in (0, 10, 400):
                for cname, comp, decomp in CODECS:
                    sers.append(("CompressedSerde(%s,min=%d,pickle=%d)" % (cname, ml, pv),
                                 serde.CompressedSerde(compress=comp, decompress=decomp, serde=ps, min_compress_len=ml), (comp, ml)))
            for name, s, cinfo in sers:
                n += 1
                why = None
                try:
                    data, flags = s.serialize(b"k", v)
                    if not isinstance(data, bytes):
                        try:
                            data.encode("ascii")
                        except Exception:
                            why = "serialized form is neither bytes nor ASCII text"
                    if why is None and not (isinstance(flags, int) and 0 <= flags < 65536):
                        why = "flags outside 16 bits"
                    # what a server hands back is always a plain bytes object, whatever subclass was handed in
                    wire = bytes(data) if isinstance(data, bytes) else str(data).encode("ascii")
                    if why is None:
                        back = s.deserialize(b"k", wire, flags)
                        if not same(back, v):
                            why = "deserialize(serialize(v)) is %r of type %s" % (repr(back)[:40], type(back).__name__)
                    if why is None and cinfo:
                        comp, ml = cinfo
                        idata, iflags = ps.serialize(b"k", v)
                        iwire = bytes(idata) if isinstance(idata, bytes) else str(idata).encode("ascii")
                        flagged = bool(flags & serde.FLAG_COMPRESSED)
                        if len(wire) > len(iwire):
                            why = "stored form is larger than the uncompressed one"
                        elif flagged and wire != comp(iwire):
                            why = "flagged COMPRESSED but the stored form is not the codec output"
                        elif not flagged and wire != iwire:
                            why = "not flagged COMPRESSED but the stored form differs from the uncompressed one"
                except BaseException as e:  # noqa
                    why = "raises %s: %s" % (type(e).__name__, str(e)[:80])
                if why:
                    found.append({"clause": why, "input": {"serde": name, "value": repr(v)[:120]}, "size": len(repr(v))})
    s = serde.LegacyWrappingSerde(None, None)
    for v in (b"x", "y", 3):
        if s.serialize(b"k", v) != (v, 0) or s.deserialize(b"k", v, 0) is not v:
            found.append({"clause": "LegacyWrappingSerde defaults are not the identity with flags 0", "input": repr(v), "size": 0})
    ctx.search_summary = {"round_trips_checked": n}
    found.sort(key=lambda f: f["size"])
    return found[:1]


def replay(ctx, obj):
    return None
