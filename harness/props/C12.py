"""C12 — HashClient single-key and multi-key operations agree on where a key lives."""
from harness import hashsim as hs
from harness.clientsim import TAGS

PROP = "C12"
GEN = []
VO = ["Properties/C12.vo", "Extract/D_Hash.vo", "Extract/O_C11.vo"]
MODULE = "Properties.C12"
THEOREMS = ["c12_single", "c12_partition", "c12_one_batch_per_server", "c12_get_many", "c12_set_then_op", "c12_set_many_partition", "c12_set_many", "c12_set_many_then_op"]
DRIVER = "D_Hash"
ORACLE = "O_C11"
TECHNIQUE = ("Coq proof about a hand-written Gallina model of HashClient routing and batching (any number of servers and keys, "
             "any placement function): batches are the partition of the keys by the single-key routing function, one inner "
             "call per batch; model tied to the code by a differential run through the client_class seam")
LEVEL_TEXT = ("c12_single: a single-key operation contacts exactly the routed server with the bare key; c12_partition/"
              "c12_one_batch_per_server: for every key list the multi-key batches are exactly the keys routed to each server, "
              "in order, each key once; c12_get_many / c12_set_many: one inner call per batch with exactly its keys / items. "
              "c12_set_then_op, c12_set_many_then_op: a set or set_many followed by ANY single-key operation (get, gets, delete, "
              "incr, touch, ...) on one of the written keys reaches the same server with the same bare key, and that server's "
              "set_many batch (a dict, as in the code) has an entry for the key - so what the server stored under the key (C05) is what the later operation "
              "finds. Stated for clients with no failover bookkeeping pending (with failures: C13); dict-backed inner servers are "
              "exercised by the search.")
LEVEL_NOTE = ("Trusted: Coq kernel; hand model's correspondence with hash.py (differential run: results, per-server call log, "
              "failover tables, for random histories incl. failures and clock advances); placement function abstract in the "
              "theorems (C11 covers the shipped one). No axioms.")
TRUSTED = ["Coq 8.16.1 kernel; no axioms",
           "hand-written model coq/Model/Hash.v tied to pymemcache/client/hash.py by this check's correspondence run",
           "extraction: ExtrOcamlBasic only; coq/Extract/ocaml/driver.ml"]
ASSUMPTIONS = ["inner clients are abstract (client_class seam): what a server stores is C05's concern",
               "keys are compared as Python values ('a' and b'a' are different keys)"]

SERVERS = [("10.0.0.1", 11211), ("10.0.0.2", 11211), ("cache-a", 11212), "/tmp/mc.sock", ("10.0.0.5", 11211)]
# pairs (server_key, key): also several pairs that share the inner key under different server keys, and next to the plain key
KEYS = ["k1", "k2", b"k3", "key:4", ("k1", "routed"), "k5", b"k6", "k7", ("k7", b"inner"), ("k2", "routed"), ("k5", "routed"), "routed", ("key:4", b"inner")]


def rand_case(rng, failures=True):
    cfg = (rng.choice([0, 1, 2]), rng.choice([1, 5]), rng.choice([10, 60]), rng.random() < 0.4, rng.choice([b"", b"p:"]), False)
    servers = rng.sample(SERVERS, rng.randrange(1, 6))
    t, times = 0, []
    for _ in range(80):
        t += rng.choice([0, 0, 1, 2, 6, 11, 61])
        times.append(t)
    ops = []
    for _ in range(rng.randrange(1, 10)):
        k = rng.choice(KEYS)
        kind = rng.random()
        if kind < 0.4:
            ops.append((0, rng.choice([0, 4, 5, 6, 7, 8]), k, rng.choice([None, False]), [b"v"] if rng.random() < 0.5 else []))
        elif kind < 0.6:
            ops.append((1, [(kk, b"v") for kk in rng.sample(KEYS, rng.randrange(0, 6))], []))
        elif kind < 0.85:
            ops.append((2, rng.random() < 0.3, rng.sample(KEYS, rng.randrange(0, 7))))
        elif kind < 0.95:
            ops.append((3, rng.sample(KEYS[:6], rng.randrange(0, 4)), []))
        else:
            ops.append((4,))
    outs = []
    for _ in range(60):
        r = rng.random()
        if failures and r < 0.2:
            outs.append((TAGS[rng.choice(["OSError", "ConnectionRefusedError", "SocketTimeout"])],))
        elif failures and r < 0.24:
            outs.append((TAGS[rng.choice(["MemcacheUnknownError", "ValueError"])],))
        elif r < 0.6:
            outs.append({"k1": b"v", "k2": b"w"} if rng.random() < 0.5 else {})
        elif r < 0.75:
            outs.append(["k1"] if rng.random() < 0.3 else [])
        else:
            outs.append(rng.choice([True, None, b"v", 5]))
    return cfg, servers, 0, times, outs, ops


def correspondence(ctx):
    n = 1500 if ctx.quick else 20000
    cases = [rand_case(ctx.rng, failures=(i % 3 != 0)) for i in range(n)]
    model = ctx.driver.call_many([hs.model_req(*c) for c in cases])
    dis = []
    for c, m in zip(cases, model):
        r = hs.run_impl(*c)
        mm = hs.decode_model(m)
        if tuple(r) != tuple(mm):
            d = {"case": repr(c)[:600]}
            for i, (a, b) in enumerate(zip(r, mm)):
                if a != b:
                    d["field %d" % i] = {"impl": repr(a)[:300], "model": repr(b)[:300]}
            dis.append(d)
    return {"evaluations": n, "distinct_nontrivial": len({repr(c) for c in cases if len(c[1]) >= 2}),
            "rule": "extracted HashClient model vs the real class through the client_class seam (scripted stub inner clients, "
                    "virtual clock): 1..5 servers (TCP and UNIX), 1..9 operations among single-key commands, set_many, "
                    "get_many/gets_many, delete_many over str/bytes keys and (server_key, key) pairs, with and without prefix, "
                    "one third fault-free and two thirds with connection errors; results, per-server call log, hasher nodes, "
                    "_failed_clients, _dead_clients compared; non-trivial = at least 2 servers",
            "samples": [{"servers": repr(c[1]), "ops": repr(c[5])[:200]} for c in cases[10:13]],
            "distribution": {"fault_free": sum(1 for i in range(n) if i % 3 == 0), "with_faults": sum(1 for i in range(n) if i % 3 != 0)},
            "disagreements": dis}


class MemServer:
    """dict-backed inner client: enough of memcached for the 'written is found' clause"""
    stores = None
    calls = None

    def __init__(self, server, **kw):
        self.server = server
        self.d = MemServer.stores.setdefault(hs.server_name(server), {})
        self.down = False

    def _log(self, name, key):
        MemServer.calls.append((hs.server_name(self.server), name, key))
        if MemServer.down.get(hs.server_name(self.server)):
            raise ConnectionRefusedError("down")

    def set(self, key, value, *a, **k):
        self._log("set", key)
        self.d[key] = value
        return True

    refuse = ()            # keys this server answers NOT_STORED for (set_many reports them as failed)

    def set_many(self, values, *a, **k):
        failed = []
        for key, v in values.items():
            self._log("set_many", key)
            if key in MemServer.refuse:
                failed.append(key)
            else:
                self.d[key] = v
        return failed

    def get(self, key, default=None, **k):
        self._log("get", key)
        return self.d.get(key, default)

    def gets(self, key, default=None, cas_default=None, **k):
        self._log("gets", key)
        return (self.d[key], b"1") if key in self.d else (default, cas_default)

    def get_many(self, keys, *a, **k):
        for key in keys:
            self._log("get_many", key)
        return {key: self.d[key] for key in keys if key in self.d}

    def gets_many(self, keys, *a, **k):
        for key in keys:
            self._log("gets_many", key)
        return {key: (self.d[key], b"1") for key in keys if key in self.d}

    def delete(self, key, *a, **k):
        self._log("delete", key)
        return self.d.pop(key, None) is not None

    def delete_many(self, keys, *a, **k):
        for key in keys:
            self._log("delete", key)
            self.d.pop(key, None)
        return True

    def incr(self, key, value, *a, **k):
        self._log("incr", key)
        if key not in self.d:
            return None
        self.d[key] = str(int(self.d[key]) + value).encode()
        return int(self.d[key])

    def touch(self, key, *a, **k):
        self._log("touch", key)
        return key in self.d

    def close(self):
        pass


SPELLED = [["unix:/tmp/mc.1.sock", "unix:/tmp/mc.2.sock", "/tmp/mc.3.sock"], ["cache-a", "cache-b:11212", ("10.0.0.1", 11211)],
           ["[::1]:11311", "[::2]", ("10.0.0.2", 11211), "10.0.0.3"], [("10.0.0.4", 11211)],
           # TCP and UNIX servers in one client (their normalised forms are a tuple and a str)
           [("10.0.0.5", 11211), "/tmp/mc.5.sock", "unix:/tmp/mc.6.sock", "cache-c:11213"]]


def spelling_probe(ctx):
    """HashClient over REAL Client objects (scripted sockets, one reference server per address), the servers given in every accepted
    spelling: multi-key operations must work and agree with the per-key ones (the per-server batches are looked up by the inner
    client's own, normalised, server)"""
    from pymemcache.client.hash import HashClient
    from harness import clientsim as cs
    from harness.refserver import Server
    found, n = [], 0
    keys = ["key-%d" % i for i in range(16)] + [b"bkey-%d" % i for i in range(6)] + [("sk-%d" % i, "inner-%d" % i) for i in range(3)] + ["aa", "ba", b"ab", b"zz"]
    keys += ["big-%03d" % i for i in range(90)]        # batches of dozens of keys per server (any size is one batch)
    bare = lambda k: k[1] if isinstance(k, tuple) else k
    for servers in SPELLED:
        for pooling in (False, True):
            for prefix in (b"", b"p:"):
                n += 1
                world = cs.World([], [], (), 1)
                nodes = {}
                world.addr_peer = lambda remote, data: nodes.setdefault(remote, Server()).feed(data)
                why = None
                try:
                    hc = HashClient(servers, use_pooling=pooling, key_prefix=prefix, socket_module=cs.FakeSocketModule(world), default_noreply=False,
                                    connect_timeout=cs.CONNECT_TIMEOUT, timeout=cs.IO_TIMEOUT)
                    failed = hc.set_many({k: ("v-%r" % (bare(k),)).encode() for k in keys})
                    single = {bare(k): hc.get(k) for k in keys}
                    many = hc.get_many(keys)
                    gmany = hc.gets_many(iter(keys))
                    if failed:
                        why = "set_many reported failed keys %r with every server up" % (failed,)
                    elif any(v is None for v in single.values()):
                        why = "written by set_many, not found by get: %r" % ([k for k, v in single.items() if v is None][:4],)
                    elif many != single:
                        why = "get_many differs from the per-key gets: %r vs %r" % (sorted(map(repr, many.items()))[:3], sorted(map(repr, single.items()))[:3])
                    elif {k: v[0] for k, v in gmany.items()} != single:
                        why = "gets_many differs from the per-key gets"
                    elif hc.delete_many(iter(keys)) is not True or any(hc.get(k) is not None for k in keys):
                        why = "delete_many did not remove what set_many wrote"
                except BaseException as e:  # noqa
                    why = "raised %s: %s" % (type(e).__name__, str(e)[:100])
                if why:
                    found.append({"clause": why, "input": {"servers": repr(servers), "use_pooling": pooling, "prefix": repr(prefix), "keys": repr(keys)[:200]},
                                  "size": 0, "spelling_case": repr((servers, pooling, prefix))})
    return found, n


def search(ctx):
    import pymemcache.client.hash as H
    rng = ctx.rng
    found = []
    n_probe = 0

    class HC(H.HashClient):
        client_class = MemServer
    clock = hs.VClock([], 0)
    saved = H.time
    H.time = clock
    try:
        for trial in range(40 if ctx.quick else 400):
            MemServer.stores, MemServer.calls, MemServer.down = {}, [], {}
            servers = rng.sample(SERVERS, rng.randrange(2, 6))
            prefix = rng.choice([b"", b"p:"])
            hc = HC(servers, key_prefix=prefix, retry_attempts=rng.choice([0, 1, 2]), retry_timeout=1, dead_timeout=30,
                    ignore_exc=True)
            keys = ["key-%d" % i for i in range(12)] + [b"bkey-%d" % i for i in range(4)] + [("sk-%d" % i, "inner-%d" % i) for i in range(3)] + [("sk-%d" % i, "shared") for i in range(4)] + ["shared"] + ["aa", "ba", "xa", b"ab", "k"]      # (keys of length 2 are keys, not pairs)
            hist = []
            for step in range(rng.randrange(1, 12)):
                ev = rng.random()
                if ev < 0.25:
                    sv = hs.server_name(rng.choice(servers))
                    MemServer.down[sv] = not MemServer.down.get(sv, False)
                    hist.append(("toggle", sv))
                elif ev < 0.45:
                    clock.last += rng.choice([1, 2, 31, 61])
                    hist.append(("advance", clock.last))
                elif ev < 0.7:
                    ks = rng.sample(keys, rng.randrange(1, 6))
                    hc.set_many({k: b"1" for k in ks})
                    hist.append(("set_many", ks))
                elif ev < 0.85:
                    ks = rng.sample(keys, rng.randrange(1, 6))
                    hc.get_many(ks)
                    hist.append(("get_many", ks))
                else:
                    k = rng.choice(keys)
                    hc.get(k)
                    hist.append(("get", k))
                # probe with every server up again: same state, both paths must agree
                downs = dict(MemServer.down)
                MemServer.down = {}
                nodes_before = list(hc.hasher.nodes)
                for k in rng.sample(keys, 5):
                    n_probe += 1
                    bare = k[1] if isinstance(k, tuple) else k
                    rk = k[0] if isinstance(k, tuple) else k
                    MemServer.calls = []
                    hc.set_many({k: b"7"})
                    sm = [c[0] for c in MemServer.calls if c[1] == "set_many" and c[2] == bare]
                    MemServer.calls = []
                    got = hc.get(k)
                    g = [c[0] for c in MemServer.calls if c[1] == "get" and c[2] == bare]
                    MemServer.calls = []
                    gm = hc.get_many([k])
                    gms = [c[0] for c in MemServer.calls if c[1] == "get_many" and c[2] == bare]
                    MemServer.calls = []
                    hc.set(k, b"9")
                    s1 = [c[0] for c in MemServer.calls if c[1] == "set"]
                    via = {}
                    for name, call in (("gets", lambda: hc.gets(k)), ("touch", lambda: hc.touch(k)), ("incr", lambda: hc.incr(k, 1)), ("delete", lambda: hc.delete(k))):
                        MemServer.calls = []
                        via[name] = (call(), [c[0] for c in MemServer.calls if c[1] == name])
                    if list(hc.hasher.nodes) != nodes_before or not hc.hasher.nodes:
                        continue        # a probe itself changed the rotation (dead server revived): not a same-state comparison
                    ks = ctx.oracle.call(7, rk)
                    exp = ctx.oracle.call(5, list(hc.hasher.nodes), ks[1], 0)[1] if ks[0] == "ok" else None
                    why = None
                    groups = {"set_many": sm, "get": g, "get_many": gms, "set": s1}
                    groups.update({n: v[1] for n, v in via.items()})
                    contacted = {sv for l in groups.values() for sv in l}
                    if any(len(l) > 1 for l in groups.values()):
                        why = "a key-addressed call contacted more than one server (or one server twice): %r" % (groups,)
                    elif len(contacted) > 1:
                        why = "operations disagree on the server of key %r: %r" % (k, groups)
                    elif contacted and exp is not None and contacted != {exp}:
                        why = "key %r went to %s but placement over the nodes in rotation assigns %s" % (k, sorted(contacted), exp)
                    elif all(len(l) == 1 for l in groups.values()):
                        if got != b"7" or gm != {bare: b"7"}:
                            why = "value written by set_many not found: get -> %r, get_many -> %r" % (got, gm)
                        elif via["gets"][0] != (b"9", b"1") or via["touch"][0] is not True or via["incr"][0] != 10 or via["delete"][0] is not True:
                            why = "value written by set not found by gets/touch/incr/delete: %r" % ({n: v[0] for n, v in via.items()},)
                    if why:
                        found.append({"clause": why, "input": {"servers": repr(servers), "prefix": repr(prefix), "history": repr(hist), "key": repr(k)},
                                      "size": len(hist)})
                        break
                # multi-key batches, every server up: each server must receive exactly the keys placed on it, each key once
                if not (found and found[-1]["size"] == len(hist)) and list(hc.hasher.nodes) == nodes_before and hc.hasher.nodes:
                    ks = rng.sample(keys, rng.randrange(2, 9))
                    # key collections as lists and as one-shot iterators (each key must still be sent exactly once)
                    coll = (lambda x: iter(list(x))) if trial % 2 else (lambda x: list(x))
                    for fam, call in (("set_many", lambda: hc.set_many({k: b"3" for k in ks})), ("get_many", lambda: hc.get_many(coll(ks))),
                                      ("gets_many", lambda: hc.gets_many(coll(ks))), ("delete", lambda: hc.delete_many(coll(ks)))):
                        MemServer.calls = []
                        # a server with a failure record may be inside its retry window: it is then legitimately not contacted at all
                        pending = {hs.server_name(sv) for sv in hc._failed_clients}
                        call()
                        if list(hc.hasher.nodes) != nodes_before:
                            break
                        got_pairs = sorted((c[0], repr(c[2])) for c in MemServer.calls if c[1] == fam)
                        exp_pairs = []
                        for k in ks:
                            rk = k[0] if isinstance(k, tuple) else k
                            bare = k[1] if isinstance(k, tuple) else k
                            kk = ctx.oracle.call(7, rk)
                            sv = ctx.oracle.call(5, list(hc.hasher.nodes), kk[1], 0)[1] if kk[0] == "ok" else None
                            exp_pairs.append((sv, repr(bare)))
                        if fam == "set_many":
                            exp_pairs = sorted(set(exp_pairs))      # the per-server batch of set_many is a dict: equal bare keys are one entry
                        n_probe += 1
                        skipped = {sv for sv in pending if not any(g[0] == sv for g in got_pairs)}
                        exp_pairs = [e for e in exp_pairs if e[0] not in skipped]
                        if got_pairs != sorted(exp_pairs):
                            found.append({"clause": "%s(%r): servers received %r, placement assigns %r" % ("delete_many" if fam == "delete" else fam, ks, got_pairs[:8], sorted(exp_pairs)[:8]),
                                          "input": {"servers": repr(servers), "prefix": repr(prefix), "history": repr(hist), "keys": repr(ks)}, "size": len(hist)})
                            break
                MemServer.down = downs
                if found and found[-1]["size"] == len(hist):
                    break
    except Exception as e:  # noqa  -- raised by a HashClient call (ignore_exc=True, scripted inner clients): an internal error
        import traceback
        tb = traceback.extract_tb(e.__traceback__)
        inside = [f for f in tb if "pymemcache" in f.filename]
        if not inside:
            raise
        found.append({"clause": "a HashClient call raised %s: %s (at %s:%d)" % (type(e).__name__, str(e)[:100], inside[-1].filename.split("/")[-1], inside[-1].lineno),
                      "input": {"servers": repr(servers), "prefix": repr(prefix), "history": repr(hist)}, "size": len(hist)})
    finally:
        H.time = saved
    # "merge the answers": a key one server does not store (NOT_STORED) is among set_many's failed keys, whichever server it lives on
    n_merge = 0
    saved2 = H.time
    H.time = hs.VClock([], 0)
    try:
        for servers in (SERVERS[:2], SERVERS[:3], SERVERS[:5]):
            keys = ["key-%d" % i for i in range(12)] + [b"bkey-%d" % i for i in range(4)]
            for bad in keys:
                n_merge += 1
                MemServer.stores, MemServer.calls, MemServer.down = {}, [], {}
                MemServer.refuse = (bad,)
                try:
                    hc = HC(servers, retry_attempts=0, ignore_exc=False)
                    failed = hc.set_many({k: b"1" for k in keys}, noreply=False)
                finally:
                    MemServer.refuse = ()
                if list(failed) != [bad]:
                    found.append({"clause": "set_many over %d servers: the server of key %r did not store it, yet set_many returned the failed keys %r" % (len(servers), bad, failed),
                                  "input": {"servers": repr(servers), "keys": repr(keys), "not stored": repr(bad)}, "size": 1})
                    break
    finally:
        H.time = saved2
    f2, n_sp = spelling_probe(ctx)
    found += f2
    ctx.search_summary = {"same_state_probes": n_probe, "server_spelling_probes": n_sp, "set_many_failed_key_merges": n_merge}
    found.sort(key=lambda v: v["size"])
    return found[:1]


def replay(ctx, obj):
    v = obj.get("violation")
    if v and v.get("spelling_case"):
        global SPELLED
        servers, pooling, prefix = eval(v["spelling_case"])
        saved, SPELLED = SPELLED, [servers]
        try:
            found, _ = spelling_probe(ctx)
        finally:
            SPELLED = saved
        hit = [f for f in found if eval(f["spelling_case"]) == (servers, pooling, prefix)]
        print(hit[0]["clause"] if hit else "multi-key operations agree with the per-key ones for %r" % (servers,))
        return bool(hit)
    return None
