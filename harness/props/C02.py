"""C02 — requests are well-formed memcached commands; arguments cannot inject."""
import random

from harness import clientsim as cs
from harness import core
from harness.refserver import Server

PROP = "C02"
GEN = ["Handlers"]
VO = ["Properties/C02.vo", "Extract/D_Client.vo", "Extract/D_Proto.vo"]
MODULE = "Properties.C02"
THEOREMS = ["c02_parse_render", "c02_store", "c02_store_before_send", "c02_fetch_before_send", "c02_cas_token", "c02_fetch", "c02_delete",
            "c02_arith", "c02_touch", "c02_flush", "c02_key", "c02_integer"]
DRIVER = "D_Client"
TECHNIQUE = ("Coq proof: a strict request parser written from the protocol text reads back every well-formed command sequence "
             "(parse o render = id, unbounded in keys, data and numbers); for the Client model every operation's bytes are the "
             "rendering of the intended commands and every failing check raises before the first send; model and parser tied "
             "to the code by differential runs over an adversarial argument grid")
LEVEL_TEXT = ("c02_parse_render: for every sequence of commands within the protocol's ranges (any legal key, any data bytes, flags "
              "< 2^32, signed 64-bit expiry, 64-bit delta, digit-string cas) the strict parser returns exactly that sequence; "
              "c02_store/fetch/delete/arith/touch/flush: the byte string each operation of the Client model hands to sendall is "
              "render(intended commands), hence parses back to them whatever the arguments contain; c02_store_before_send / "
              "c02_fetch_before_send: a failing key, value or integer check leaves the world untouched (nothing sent, also in "
              "multi-key calls); c02_key/c02_integer/c02_cas_token: accepted keys are legal wire keys, integers are rendered by "
              "value, cas tokens are digit strings.")
LEVEL_NOTE = ("Trusted: Coq kernel; the hand model's correspondence with base.py (differential run incl. the bytes of every sendall); "
              "Spec/Proto.v as the reading of protocol.txt (cross-checked against harness/refserver.py on generated and mutated "
              "streams). raw_command's argument is the caller's own protocol text: outside C02; stats / cache_memlimit words are compared verbatim on the implementation. No axioms.")
TRUSTED = ["Coq 8.16.1 kernel; no axioms",
           "coq/Spec/Proto.v (strict grammar, written from protocol.txt) and its Python twin harness/refserver.py",
           "hand-written model coq/Model/Client.v tied to pymemcache/client/base.py by this check's correspondence run",
           "extraction: ExtrOcamlBasic only; coq/Extract/ocaml/driver.ml"]
ASSUMPTIONS = ["integer arguments within the protocol's ranges (the property's quantifier); out-of-range integers are sent as given",
               "raw_command passes caller-supplied protocol text through by design; the words of stats / cache_memlimit must reach the server as given (checked like keys, never prefixed)"]

WS = b" \t\n\r\x0b\x0c\x00"


def wire_key(cfg, k):
    if isinstance(k, str):
        try:
            k = k.encode("utf8" if cfg.get("unicode") else "ascii")
        except UnicodeError:
            return None
    w = cfg.get("prefix", b"") + k
    if not (0 < len(w) <= 250) or any(c in WS for c in w):
        return None
    return w


def as_int(v, lo, hi):
    if isinstance(v, int) and lo <= int(v) <= hi:
        return int(v)
    return None


def data_of(cfg, v):
    enc = "ascii" if cfg.get("enc", 0) == 0 else "utf8"
    if cfg.get("serde") == 1:
        if type(v) is bytes:
            return v, 0
        if type(v) is str:
            return v.encode("utf8"), 16
        if type(v) is int:
            return str(v).encode(), 2
        return None
    if isinstance(v, bytes):
        return v, 0
    try:
        return str(v).encode(enc), 0
    except UnicodeError:
        return None


I64 = (-2 ** 63, 2 ** 63 - 1)


def intent(cfg, op):
    """the commands a strict server must see for this call, or None when no well-formed command expresses the arguments"""
    code = op[0]
    nr = lambda n: cfg.get("default_noreply", True) if n is None else bool(n)
    if code in (0, 1, 2):
        if code == 0:
            _, verb, k, v, e, n, f = op
            items, name, noreply, cas = [(k, v)], cs.VERBS[verb], nr(n), None
        elif code == 1:
            _, pairs, e, n, f = op
            items, name, noreply, cas = list(dict(pairs).items()), "set", nr(n), None
        else:
            _, k, v, c, e, n, f = op
            items, name, noreply = [(k, v)], "cas", bool(n)
            if isinstance(c, bool):
                return None
            c = c if isinstance(c, bytes) else str(c).encode("ascii", "replace") if isinstance(c, (int, str)) else None
            if c is None or not c.isdigit():
                return None
            cas = int(c)
        ex = as_int(e, *I64)
        if ex is None:
            return None
        out = []
        for k, v in items:
            w, d = wire_key(cfg, k), data_of(cfg, v)
            if w is None or d is None:
                return None
            fl = d[1] if f is None else as_int(f, 0, 2 ** 32 - 1)
            if fl is None:
                return None
            out.append((name, w, fl, ex, d[0], cas, noreply))
        return out
    if code in (3, 4, 5, 6, 7, 8):
        keys = [op[1]] if code in (3, 4, 5, 6) else list(op[2])
        if code in (7, 8) and not keys:
            return []
        ws = [wire_key(cfg, k) for k in keys]
        if None in ws:
            return None
        if code in (5, 6):
            ex = as_int(op[2], *I64)
            return None if ex is None else [("gats" if code == 6 else "gat", ex, tuple(ws))]
        return [("gets" if code in (4, 8) else "get", tuple(ws))]
    if code == 9:
        w = wire_key(cfg, op[1])
        return None if w is None else [("delete", w, nr(op[2]))]
    if code == 10:
        ws = [wire_key(cfg, k) for k in op[2]]
        return None if None in ws else [("delete", w, nr(op[3])) for w in ws]
    if code in (11, 12):
        w, d = wire_key(cfg, op[1]), as_int(op[2], 0, 2 ** 64 - 1)
        return None if w is None or d is None else [("incr" if code == 11 else "decr", w, d, bool(op[3]))]
    if code == 13:
        w, e = wire_key(cfg, op[1]), as_int(op[2], *I64)
        return None if w is None or e is None else [("touch", w, e, nr(op[3]))]
    if code == 14:
        d = as_int(op[1], 0, float('inf'))
        return None if d is None else [("flush_all", d, nr(op[2]))]
    if code in (18, 23):
        # stats <args> / cache_memlimit <n>: the caller's own words, checked like keys but NEVER prefixed.  The strict reference
        # server does not implement them: it records the line it read, verbatim
        if code == 23:
            n = as_int(op[1], *I64)
            return None if n is None else [("bad", b"cache_memlimit " + str(n).encode())]
        ws = [wire_key(dict(cfg, prefix=b""), a) for a in op[1]]
        return None if None in ws else [("bad", b" ".join([b"stats"] + ws))]
    if code == 15:
        return [("version",)]
    raise ValueError(op)


KEYS = [b"k", "k", b"p:k", b"y", "p:", b"", "", b" ", b"a b", b"a\r\nb", b"a\nget x", b"a\r\nset inj 0 0 1\r\nx", b"a\x00b", b"\x01", b"\x7f", "\xe9", "€", "\udcff",
        b"x" * 249, b"x" * 250, b"x" * 251, b"\tk", b"k\x0b", "k\x0c", b"noreply", b"get", b"0"]
VALUES = [b"v", b"", b"\r\n", b"END\r\n", b"x\r\nset inj 0 0 1\r\ny\r\n", "str", "\xe9", 5, -5, True, b"VALUE k 0 1\r\nz\r\nEND\r\n", b"x" * 5000]
EXPIRES = [0, 1, -1, 2 ** 63 - 1, -2 ** 63, True, False, "5", 5.0, None, b"5"]
FLAGS = [None, 0, 7, 2 ** 32 - 1, True, "7", "0 0 1\r\nx\r\nset inj 0 0 1", b"7", 1.5, False, "", b"", 0.0, [], ()]
CASES = [b"123", 123, "123", b"12 3", b"1\r\n", b"123\n", "0\n", b"1\r", "1\x0b", "1\x00", " 1", "\n1", b"1\n noreply", "١٢", "１２３", "²", "1٢3", -1, True, b"", b"007", None, "1 noreply"]
DELTAS = [1, 0, 2 ** 64 - 1, True, "1", 1.0, None, b"1"]
PREFIXES = [b"", b"p:", b"p ", b"y" * 248, b"\r\n"]


def grid(ctx):
    """(cfg, op) pairs: one argument at a time over its adversarial values, the others benign; plus random mixes"""
    rng = random.Random(ctx.seed * 17 + 2)
    out, must = [], []          # `must`: the token grids (cas, delta) x configurations are never thinned out
    cfgs = [dict(tcp=False, prefix=p, default_noreply=dn, unicode=u, enc=e, serde=s, ignore_exc=False)
            for p in PREFIXES for dn in (False, True) for u in (False, True) for e in (0, 1) for s in (0, 1)]
    base = cfgs[0]
    for c in cfgs:
        if c["prefix"] in (b"", b"p:") or (c["default_noreply"] is False and c["enc"] == 0 and c["serde"] == 0):
            for k in KEYS:
                out += [(c, (0, 0, k, b"v", 0, None, None)), (c, (3, k, None)), (c, (9, k, None)), (c, (11, k, 1, False)), (c, (13, k, 0, None)),
                        (c, (6, k, 5, None, None)), (c, (7, False, [b"ok", k, b"ok2"])), (c, (10, False, [b"ok", k], None)),
                        (c, (1, [(b"ok", b"1"), (k, b"2"), (b"ok3", b"3")], 0, None, None)), (c, (2, k, b"v", b"1", 0, False, None))]
    for c in cfgs[:8] + [x for x in cfgs if x["prefix"] == b"p:"][:8]:
        for v in VALUES:
            out += [(c, (0, vb, b"k", v, 0, n, None)) for vb in range(5) for n in (None, True, False)]
            out.append((c, (1, [(b"a", v), (b"b", b"w")], 60, None, 3)))
            out.append((c, (2, b"k", v, b"9", 0, False, None)))
            out.append((c, (2, b"k", v, b"9", 5, True, 1)))
        for e in EXPIRES:
            out += [(c, (0, 0, b"k", b"v", e, None, None)), (c, (13, b"k", e, None)), (c, (5, b"k", e, None)), (c, (6, b"k", e, None, None)),
                    (c, (1, [(b"a", b"1")], e, None, None)), (c, (2, b"k", b"v", b"1", e, False, None))]
        for f in FLAGS:
            must += [(c, (0, 0, b"k", b"v", 0, False, f)), (c, (1, [(b"a", b"1"), (b"b", b"2")], 0, False, f)), (c, (2, b"k", b"v", b"1", 0, False, f)),
                     # values for which a serializer produces non-zero flags of its own: an explicit flags argument, 0 included, replaces them
                     (c, (0, 0, b"k", "text", 0, False, f)), (c, (0, 1, b"k", 5, 0, None, f)), (c, (1, [(b"a", "t"), (b"b", 7)], 0, False, f))]
        for x in CASES:
            must.append((c, (2, b"k", b"v", x, 0, False, None)))
        for d in DELTAS:
            must += [(c, (11, b"k", d, False)), (c, (12, b"k", d, True)), (c, (14, d, None))]
    # the noreply marker of every command that has one, asked for explicitly (False and True) under both client defaults
    for c in cfgs:
        if c["prefix"] in (b"", b"p:") and c["enc"] == 0 and c["serde"] == 0 and c["unicode"] is False:
            for n in (False, True, None):
                must += [(c, (9, b"k", n)), (c, (10, False, [b"k", b"j"], n)), (c, (13, b"k", 5, n)), (c, (14, 0, n)), (c, (14, 7, n)), (c, (0, 3, b"k", b"v", 0, n, None)),
                         (c, (0, 4, b"k", b"v", 0, n, None)), (c, (1, [(b"a", b"1")], 0, n, None)), (c, (11, b"k", 1, bool(n))), (c, (12, b"k", 1, bool(n))),
                         (c, (2, b"k", b"v", b"1", 0, bool(n), None))]
    # key collections given as one-shot iterators, the empty one included (nothing to fetch or delete: nothing is written)
    for c in cfgs[:4]:
        must += [(c, (7, True, [])), (c, (8, True, [])), (c, (7, True, [b"k", b"j"])), (c, (8, True, [b"k"])), (c, (10, True, [], None)), (c, (10, True, [b"k"], None)),
                 (c, (7, False, [])), (c, (10, False, [], None)), (c, (1, [], 0, None, None))]
    # batches of hundreds of keys, one illegal key late in the batch (nothing at all may be written), and the same batches all legal
    big = [(b"k%d" % i, b"v") for i in range(150)]
    for c in cfgs[:2] + [x for x in cfgs if x["prefix"] == b"p:"][:2]:
        for at in (100, 120, 149):
            bad = big[:at] + [(b"bad key", b"v")] + big[at:]
            must += [(c, (1, bad, 0, None, None)), (c, (1, bad, 0, True, None)), (c, (7, False, [k for k, _ in bad])), (c, (10, False, [k for k, _ in bad], None))]
        must += [(c, (1, big + [(b"j%d" % i, b"w") for i in range(101)], 0, None, None)), (c, (7, False, [k for k, _ in big])), (c, (10, False, [k for k, _ in big], True))]
    # commands that take no key: whatever the key prefix, their words go out as given
    for c in cfgs:
        if c["enc"] == 0 and c["serde"] == 0 and c["unicode"] is False:
            must += [(c, (18, ())), (c, (18, ("slabs",))), (c, (18, ("cachedump", "1", "1"))), (c, (18, (b"items",))), (c, (18, ("a b",))), (c, (23, 64)),
                     (c, (23, "64")), (c, (15,))]
    for _ in range(300 if ctx.quick else 3000):
        c = rng.choice(cfgs)
        k = rng.choice(KEYS) if rng.random() < 0.5 else bytes(rng.randrange(256) for _ in range(rng.randrange(0, 6)))
        code = rng.choice([0, 1, 2, 3, 4, 5, 6, 7, 8, 9, 10, 11, 12, 13])
        v, e, f, n = rng.choice(VALUES), rng.choice(EXPIRES[:5]), rng.choice(FLAGS[:4]), rng.choice([None, True, False])
        op = {0: (0, rng.randrange(5), k, v, e, n, f), 1: (1, [(b"a", v), (k, b"2")], e, n, f), 2: (2, k, v, rng.choice(CASES[:3]), e, rng.choice([False, True]), f),
              3: (3, k, None), 4: (4, k, None, None), 5: (5, k, e, None), 6: (6, k, e, None, None), 7: (7, False, [k, b"b"]), 8: (8, False, [b"a", k]),
              9: (9, k, n), 10: (10, False, [k, b"z"], n), 11: (11, k, rng.choice(DELTAS[:3]), False), 12: (12, k, rng.choice(DELTAS[:3]), False),
              13: (13, k, e, n)}[code]
        out.append((c, op))
    out = must + out
    # with the pickle serde only bytes/str/int values are inside the model's (and this oracle's) domain
    from harness import gens
    out = [(c, gens.native_only([op])[0] if c.get("serde") == 1 else op) for c, op in out]
    return out


def norm_log(log):
    out = []
    for e in log:
        if e[0] in ("set", "add", "replace", "append", "prepend", "cas"):
            out.append((e[0], e[1], e[2], e[3], e[4], None if e[5] is None else int(e[5]), e[6]))
        else:
            out.append(tuple(e))
    return out


def run_one(stack, c, op):
    """-> (result, sent bytes, parsed log, server has unconsumed bytes)"""
    srv = Server()
    ops = [op]
    if stack == "Client":
        r = cs.run_impl(c, ops, [], [], (), None, srv.feed, apply=(lambda cl, o: cl.stats(*o[1])) if op[0] == 18 else None)
        res, world = r[0][0], r[6]
    elif stack == "HashClient":
        from pymemcache.client.hash import HashClient
        r = cs.run_impl(c, ops, [], [], (), lambda server, kw: HashClient([server], **kw), srv.feed)
        res, world = r[0][0], r[6]
    else:
        from harness.props.C16 import run_pooled_peer
        rr, world = run_pooled_peer(c, ops, srv)
        res = rr[0]
    sent = b"".join(t[1] for t in world.tags)
    return res, sent, norm_log(srv.log), srv.pending


def judge(stack, c, op):
    want = intent(c, op)
    res, sent, log, pending = run_one(stack, c, op)
    if res[0] == "e" and res[1] in ("WouldBlock",):
        return "the call blocks waiting for a reply (sent %r, server read %r)" % (sent[:80], log[:3])
    if want is None:
        if sent:
            return "no well-formed command expresses these arguments, yet %r was written (server read %r)" % (sent[:120], log[:4])
        if res[0] != "e":
            return "illegal arguments were accepted silently (returned %r)" % (res[1],)
        return None
    if res[0] == "e" and not sent:
        return None                     # rejected before writing: allowed
    if pending or log != want:
        return "server read %r (unparsed tail %r), intended %r; bytes written %r" % (log[:4], pending[:40], want[:4], sent[:160])
    return None


def coq_cmds(v):
    """D_Proto's answer -> the refserver log format"""
    if v is None:
        return None
    out = []
    for t in v:
        name = t[0].decode()
        if name in ("set", "add", "replace", "append", "prepend", "cas"):
            out.append((name, t[1], t[2], t[3], t[4], None if t[5] is None else int(t[5]), bool(t[6])))
        elif name in ("get", "gets"):
            out.append((name, tuple(t[1])))
        elif name in ("gat", "gats"):
            out.append((name, t[1], tuple(t[2])))
        else:
            out.append((name,) + tuple(bool(x) if isinstance(x, bool) else x for x in t[1:]))
    return out


def render_py(cmd):
    name = cmd[0]
    if name in ("set", "add", "replace", "append", "prepend", "cas"):
        _, k, fl, ex, d, cas, nr = cmd
        return (name.encode() + b" " + k + b" %d %d %d" % (fl, ex, len(d)) + (b" %d" % cas if name == "cas" else b"") + (b" noreply" if nr else b"")
                + b"\r\n" + d + b"\r\n")
    if name in ("get", "gets"):
        return name.encode() + b" " + b" ".join(cmd[1]) + b"\r\n"
    if name in ("gat", "gats"):
        return name.encode() + b" %d " % cmd[1] + b" ".join(cmd[2]) + b"\r\n"
    if name == "delete":
        return b"delete " + cmd[1] + (b" noreply" if cmd[2] else b"") + b"\r\n"
    if name in ("incr", "decr"):
        return name.encode() + b" " + cmd[1] + b" %d" % cmd[2] + (b" noreply" if cmd[3] else b"") + b"\r\n"
    if name == "touch":
        return b"touch " + cmd[1] + b" %d" % cmd[2] + (b" noreply" if cmd[3] else b"") + b"\r\n"
    if name == "flush_all":
        return b"flush_all %d" % cmd[1] + (b" noreply" if cmd[2] else b"") + b"\r\n"
    return b"version\r\n"


def streams(ctx):
    rng = random.Random(ctx.seed * 29 + 2)
    keys = [b"k", b"key:2", b"\xc3\xa9", b"x" * 250, b"\x01\x7f", b"noreply", b"0"]
    datas = [b"", b"v", b"\r\n", b"a\r\nget b\r\n", b"x" * 300, b"END"]

    def rc():
        t = rng.randrange(9)
        k = rng.choice(keys)
        nr = rng.random() < 0.4
        ex = rng.choice([0, 1, -1, 2 ** 63 - 1, -2 ** 63, 99])
        if t < 3:
            name = rng.choice(["set", "add", "replace", "append", "prepend", "cas"])
            return (name, k, rng.choice([0, 1, 2 ** 32 - 1]), ex, rng.choice(datas), rng.choice([0, 7, 2 ** 64 - 1]) if name == "cas" else None, nr)
        if t == 3:
            return (rng.choice(["get", "gets"]), tuple(rng.choice(keys) for _ in range(rng.randrange(1, 4))))
        if t == 4:
            return (rng.choice(["gat", "gats"]), ex, tuple(rng.choice(keys) for _ in range(rng.randrange(1, 4))))
        if t == 5:
            return ("delete", k, nr)
        if t == 6:
            return (rng.choice(["incr", "decr"]), k, rng.choice([0, 1, 2 ** 64 - 1]), nr)
        if t == 7:
            return ("touch", k, ex, nr)
        return rng.choice([("flush_all", rng.choice([0, 9]), nr), ("version",)])
    out = []
    for _ in range(400 if ctx.quick else 4000):
        cmds = [rc() for _ in range(rng.randrange(1, 4))]
        s = b"".join(render_py(c) for c in cmds)
        out.append(s)
        for _ in range(3):
            m = bytearray(s)
            r = rng.random()
            if not m:
                continue
            i = rng.randrange(len(m))
            if r < 0.25:
                del m[i]
            elif r < 0.5:
                m.insert(i, rng.choice(b" \r\n0-x\x00\t"))
            elif r < 0.75:
                m[i] = rng.choice(b" \r\n0-9xA\x00")
            else:
                j = rng.randrange(len(m))
                m[i], m[j] = m[j], m[i]
            out.append(bytes(m))
    out += [b"get  a\r\n", b"get a \r\n", b" get a\r\n", b"GET a\r\n", b"get a\n", b"get a\r", b"set k 00 0 1\r\nv\r\n", b"set k -0 0 1\r\nv\r\n", b"set k 0 -0 1\r\nv\r\n",
            b"set k 0 0 01\r\nv\r\n", b"set k 0 0 2\r\nv\r\n", b"set k 0 0 1\r\nvv\r\n", b"set k 4294967296 0 1\r\nv\r\n", b"incr k 18446744073709551616\r\n",
            b"incr k -1\r\n", b"touch k 9223372036854775808\r\n", b"delete k 0\r\n", b"cas k 0 0 1\r\nv\r\n", b"cas k 0 0 1 x\r\nv\r\n", b"flush_all\r\n",
            b"flush_all noreply\r\n", b"version x\r\n", b"gat 5\r\n", b"get\r\n", b"", b"\r\n", b"set k 0 0 1 noreply noreply\r\nv\r\n"]
    return out


def correspondence(ctx):
    dis = []
    # 1. the strict parser of Spec/Proto.v vs its Python twin on generated and mutated streams
    pdrv, perr = core.get_driver("D_Proto")
    st = streams(ctx)
    np_ = 0
    accepted = 0
    if pdrv is None:
        dis.append({"what": "parser", "error": "Spec/Proto.v driver does not build: %s" % (perr or "")[-300:]})
    else:
        try:
            res = pdrv.call_many([(1, (s,)) for s in st])
            for s, m in zip(st, res):
                np_ += 1
                got = coq_cmds(m[1]) if m[0] == "ok" else ("model-error", m)
                srv = Server()
                srv.feed(s)
                log = norm_log(srv.log)
                ok = not srv.pending and not any(e[0] in ("bad", "quit") for e in log)
                exp = log if ok else None
                accepted += 1 if exp is not None else 0
                if got != exp:
                    dis.append({"what": "strict parser vs reference server", "stream": repr(s)[:200], "coq": repr(got)[:300], "python": repr(exp)[:300]})
        finally:
            pdrv.close()
    # 2. the Client model vs the real Client: same argument grid, same server replies, every sendall's bytes compared
    def has_float(x):
        return isinstance(x, float) or (isinstance(x, (list, tuple)) and any(has_float(y) for y in x))
    g = [(c, op) for c, op in grid(ctx) if not has_float(op)]      # the model's value domain has no floats (they are non-integers: rejected)
    hk = cs.handler_kinds()
    reqs, impl = [], []
    for c, op in g:
        srv = Server()
        r = cs.run_impl(c, [op], [], [], (), None, srv.feed)
        replies = [t[2] for t in r[6].tags]
        impl.append(r)
        reqs.append(cs.model_req(c, [op], [], [], replies, hk))
    model = ctx.driver.call_many(reqs)
    for (c, op), r, m in zip(g, impl, model):
        mm = cs.decode_model(m)
        if tuple(r[:3]) != tuple(mm[:3]):
            dis.append({"what": "Client model vs Client", "cfg": repr(c), "op": repr(op)[:200], "impl": repr((r[0], [e for e in r[1] if e[0] == 7]))[:400],
                        "model": repr((mm[0], [e for e in mm[1] if e[0] == 7]) if len(mm) > 2 else mm)[:400]})
    return {"evaluations": np_ + len(g), "distinct_nontrivial": np_ + len(g),
            "rule": "Spec/Proto.v's extracted strict parser vs harness/refserver.py on %d streams (rendered well-formed command sequences, three "
                    "single-byte mutations of each, 27 hand-written near misses): identical accept/reject and identical parsed commands; "
                    "extracted Client model vs the real Client on %d (configuration, call) pairs of the adversarial argument grid with the "
                    "reference server's replies: result and full socket trace including the bytes of every sendall" % (np_, len(g)),
            "samples": [{"cfg": repr(c), "op": repr(o)[:120]} for c, o in g[5:8]],
            "distribution": {"streams": np_, "streams_accepted": accepted, "grid_calls": len(g)}, "disagreements": dis}


def search(ctx):
    found = []
    n = 0
    for c, op in grid(ctx):
        for stack in ("Client", "PooledClient", "HashClient"):
            if stack == "PooledClient" and op[0] not in (1, 7, 8, 10, 18, 15):
                continue            # the pooled wrapper matters for the multi-key clause (and hands on the words of stats)
            if stack == "HashClient" and op[0] != 14:
                continue            # HashClient's key-addressed forwarding is C16's; flush_all (no key: every server) is judged here
            n += 1
            why = judge(stack, c, op)
            if why:
                found.append({"clause": why, "input": {"class": stack, "cfg": repr(c), "op": repr(op)}, "size": len(repr(op)) + len(repr(c)) / 100.0,
                              "case": repr((stack, c, op))})
    ctx.search_summary = {"calls_judged": n}
    found.sort(key=lambda v: v["size"])
    # one representative (the smallest) per kind of failure: operation x what the server made of the bytes
    out, seen = [], set()
    for v in found:
        kind = (eval(v["case"])[2][0], v["clause"][:28])
        if kind not in seen:
            seen.add(kind)
            out.append(v)
    return out[:6]


def replay(ctx, obj):
    v = obj.get("violation")
    if not v or not v.get("case"):
        return None
    stack, c, op = eval(v["case"])
    why = judge(stack, c, op)
    print(why or "well-formed or rejected before sending")
    return bool(why)
