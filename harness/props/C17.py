"""C17 — RetryingClient retries exactly as configured."""
import itertools

from harness import core

PROP = "C17"
GEN = ["Subscripts"]
VO = ["Properties/C17.vo", "Extract/D_C17.vo"]
MODULE = "Properties.C17"
THEOREMS = ["c17_retry", "c17_log_shape", "c17_config", "c17_subscripts"]
DRIVER = "D_C17"
TECHNIQUE = ("Coq proof by induction over the attempt loop of a hand-written Gallina model of retrying.py, for every "
             "outcome sequence and configuration; model tied to the code by an exhaustive extracted-model/implementation "
             "differential run (attempts x outcome sequences x class lists)")
LEVEL_TEXT = ("c17_retry: for every attempts >= 1 (unbounded, by induction), delay, class lists and outcome oracle the model "
              "invokes the call k times (first success / first non-retryable error, capped at attempts), sleeps exactly "
              "between invocations, returns the k-th outcome unchanged; c17_config characterises accepted configurations. "
              "The model is run against the real RetryingClient on every check over an exhaustive grid.")
LEVEL_NOTE = ("Trusted: Coq kernel; the hand model's correspondence with retrying.py is checked by differential execution, "
              "not proved (exhaustive for attempts <= 3, sampled beyond); exception classes are the enum of PM.Lib.Py with its "
              "subclass relation; extraction + driver. No axioms.")
TRUSTED = [
    "Coq 8.16.1 kernel; no axioms (Closed under the global context)",
    "hand-written model coq/Model/Retrying.v tied to pymemcache/client/retrying.py by the correspondence run of this check",
    "exception hierarchy of PM.Lib.Py (exn_parent) mirrors the Python classes used in the run",
    "extraction: ExtrOcamlBasic only; coq/Extract/ocaml/driver.ml",
]
ASSUMPTIONS = ["the wrapped call is an arbitrary outcome sequence (return value or exception class per invocation)",
               "isinstance against a tuple of classes is the subclass relation of the exception enum"]

TAGS = {20: "MemcacheError", 21: "MemcacheClientError", 22: "MemcacheUnknownCommandError", 15: "OSError",
        1: "KeyboardInterrupt", 5: "ValueError"}


def classes():
    import pymemcache.exceptions as ex
    return {20: ex.MemcacheError, 21: ex.MemcacheClientError, 22: ex.MemcacheUnknownCommandError, 15: OSError,
            1: KeyboardInterrupt, 5: ValueError}


def run_impl(att, delay, rf, dnr, script, spelling=list, dynamic_name=False, entry="m"):
    """-> (result, log) with result ('o', v) | ('e', tag); log = ['c', delay, 'c', ...]"""
    import pymemcache.client.retrying as R
    cl = classes()
    rev = {v: k for k, v in cl.items()}
    log = []
    it = iter(script)

    def method(*a, **k):
        log.append("c")
        try:
            o = next(it)
        except StopIteration:
            return None
        if isinstance(o, tuple):
            raise cl[o[0]]("boom")
        return o

    class Inner:
        pass
    inner = Inner()
    if not dynamic_name:
        inner.m = inner.set = inner.get = inner.delete = method
    saved = R.sleep
    R.sleep = lambda d: log.append(d)
    try:
        try:
            rc = R.RetryingClient(inner, attempts=att, retry_delay=delay,
                                  retry_for=None if rf is None else spelling(cl[t] for t in rf),
                                  do_not_retry_for=None if dnr is None else spelling(cl[t] for t in dnr))
        except Exception as e:  # noqa -- every configuration this harness builds is legal: a refusal is reported, not a crash
            return ("e", "construction refused: %s: %s" % (type(e).__name__, str(e)[:80])), log
        if dynamic_name:
            inner.m = method        # appears after dir(client) was recorded: callable, but not in _client_dir
        try:
            if entry == "m":
                res = ("o", rc.m())
            elif entry == "setitem":            # the subscript forms go through the same retry loop
                rc[b"k"] = b"v"
                res = ("o", None)
            elif entry == "getitem":
                res = ("o", rc[b"k"])
            else:
                del rc[b"k"]
                res = ("o", None)
        except BaseException as e:   # noqa
            t = [k for k, c in cl.items() if type(e) is c]
            res = ("e", t[0] if t else -1)
    finally:
        R.sleep = saved
    return res, log


def grid(ctx):
    outs = ["v", (20,), (21,), (22,), (15,), (1,)]
    sets = []
    base = [20, 21, 22, 15]
    for r in range(0, 3):
        for c in itertools.combinations(base, r):
            sets.append(list(c))
    cfgs = [(rf, dnr) for rf in sets for dnr in sets if not set(rf) & set(dnr)]
    cases = []
    for att in (1, 2, 3):
        for script in itertools.product(outs, repeat=att):
            for rf, dnr in cfgs:
                cases.append((att, 5 if att == 2 else 0, rf, dnr, list(script), False))
    rng = ctx.rng
    for _ in range(2000 if ctx.quick else 40000):
        att = rng.choice([4, 5, 6, 9])
        script = [rng.choice(outs + [(21,), (21,)]) for _ in range(rng.randrange(0, att + 1))]
        rf, dnr = rng.choice(cfgs)
        cases.append((att, rng.choice([0, 1, 7]), rf, dnr, script, rng.random() < 0.05))
    return cases


def model_call(ctx, case):
    att, delay, rf, dnr, script, dyn = case
    return (1, (att, delay, list(rf), list(dnr), not dyn, [x if not isinstance(x, tuple) else (x[0],) for x in script]))


def canon_model(m):
    (kind, v), tr = m[1]
    res = ("o", v) if kind == "o" else ("e", v)
    return res, ["c" if e == "c" else e for e in tr]


# every content (valid and invalid) in each of the three accepted spellings: list, tuple, set
CFG_ARGS = [None, "abc", 7] + [sp(x) for x in ([], [20], [21], [15], [int], [99], [20, int], [1], [20, 21]) for sp in (list, tuple, set)]


def cfg_impl(att, rf, dnr):
    import pymemcache.client.retrying as R
    cl = classes()

    def conv(a):
        if isinstance(a, (list, tuple, set)):
            return type(a)(cl[x] if isinstance(x, int) and x in cl else x for x in a)
        return a
    try:
        R.RetryingClient(object(), attempts=att, retry_for=conv(rf), do_not_retry_for=conv(dnr))
        return ("ok", None)
    except BaseException as e:  # noqa
        return ("ex", core.exn_name(e))


def cfg_model_arg(a):
    if a is None or isinstance(a, (str, int)) and not isinstance(a, bool):
        return a
    out = []
    for x in a:
        if x is int:
            out.append("cls")
        elif x == 99:
            out.append(None)       # not a class
        else:
            out.append(x)
    return out


def correspondence(ctx):
    cases = grid(ctx)
    model = ctx.driver.call_many([model_call(ctx, c) for c in cases])
    dis = []
    spell = [list, tuple, set]
    for i, (c, m) in enumerate(zip(cases, model)):
        att, delay, rf, dnr, script, dyn = c
        r = run_impl(att, delay, rf, dnr, script, spell[i % 3], dyn)
        if m[0] != "ok" or (r[0], r[1]) != canon_model(m):
            dis.append({"case": repr(c), "impl": repr(r), "model": repr(m)})
    ncfg = 0
    for att in (-1, 0, 1, 2):
        for rf in CFG_ARGS:
            for dnr in CFG_ARGS:
                ncfg += 1
                r = cfg_impl(att, rf, dnr)
                m = ctx.driver.call(2, att, cfg_model_arg(rf), cfg_model_arg(dnr))
                if r != m:
                    dis.append({"config": repr((att, rf, dnr)), "impl": repr(r), "model": repr(m)})
    nontriv = len({repr(c) for c in cases if any(isinstance(x, tuple) for x in c[4])})
    return {"evaluations": len(cases) + ncfg, "distinct_nontrivial": nontriv,
            "rule": "extracted model vs RetryingClient: attempts 1..3 x ALL outcome sequences over {ok, MemcacheError, "
                    "MemcacheClientError, MemcacheUnknownCommandError, OSError, KeyboardInterrupt} x all disjoint pairs of "
                    "subsets (size <= 2) of the four Exception classes for retry_for/do_not_retry_for (tuple/list/set "
                    "spellings rotated); random attempts 4..9; %d constructor configurations (each valid and invalid content as list, tuple and set); call log and patched sleep log "
                    "compared; non-trivial = at least one failing invocation" % ncfg,
            "samples": [{"case": repr(c), "model": repr(canon_model(m))} for c, m in list(zip(cases, model))[5000:5003]],
            "distribution": {"exhaustive_cases": sum(1 for c in cases if c[0] <= 3), "random_cases": sum(1 for c in cases if c[0] > 3),
                             "constructor_cases": ncfg},
            "exhaustive": True, "disagreements": dis}


def search(ctx):
    """The property's clauses evaluated on the implementation's own call/sleep log."""
    cl = classes()
    # retry_delay is a number of seconds, not necessarily whole (search only: the model logs the delay it is given, as an integer)
    frac = [(att, d, [21], [], [(21,)] * nf + ["v"], False) for att in (2, 3, 4) for d in (0.5, 0.25, 1.5, 2.75, 1e-3) for nf in range(0, att + 1)]
    cases = grid(ctx) + frac
    found = []
    for ci, c in enumerate(cases):
        att, delay, rf, dnr, script, dyn = c
        spelling = (list, tuple, set)[ci % 3]          # the three accepted spellings of the two class lists
        res, log = run_impl(att, delay, rf, dnr, script, spelling, dyn)
        outs = script + [None] * (att + 1)

        def retryable(o):
            if not isinstance(o, tuple):
                return False
            k = cl[o[0]]
            return (issubclass(k, Exception) and (not rf or issubclass(k, tuple(cl[t] for t in rf)))
                    and not (dnr and issubclass(k, tuple(cl[t] for t in dnr))) and not dyn)
        k = log.count("c")
        why = None
        if not (1 <= k <= att):
            why = "invocations %d outside 1..attempts" % k
        elif log != (["c", delay] * (k - 1) + ["c"]):
            why = "sleep log is not retry_delay exactly between consecutive invocations"
        else:
            last = outs[k - 1]
            exp = ("e", last[0]) if isinstance(last, tuple) else ("o", last)
            if res != exp:
                why = "result is not the outcome of the last invocation"
            elif any(not retryable(outs[j]) for j in range(k - 1)):
                why = "retried after a success or a non-retryable error"
            elif k < att and retryable(outs[k - 1]):
                why = "gave up before `attempts` on a retryable error"
        if why:
            found.append({"clause": why, "input": {"attempts": att, "retry_delay": delay, "retry_for": [TAGS[t] for t in rf],
                          "do_not_retry_for": [TAGS[t] for t in dnr], "outcomes": repr(script), "lists_given_as": spelling.__name__},
                          "observed": {"result": repr(res), "log": log}, "size": att * 10 + len(script), "case": repr(c), "spelling": spelling.__name__})
    # rc[k] = v, rc[k] and del rc[k] are set / get / delete through the same loop: same invocations, same sleeps, same error
    n_sub = 0
    for c in cases[::7]:
        att, delay, rf, dnr, script, dyn = c
        if dyn:
            continue
        ref = run_impl(att, delay, rf, dnr, script, list, False, "m")
        for entry in ("setitem", "getitem", "delitem"):
            n_sub += 1
            res, log = run_impl(att, delay, rf, dnr, script, list, False, entry)
            same_res = (res == ref[0]) if ref[0][0] == "e" else (res[0] == "o" and (entry != "getitem" or res == ref[0]))
            if ref[0] == ("o", None) and entry == "getitem":
                same_res = res[0] == "e"            # a miss is KeyError, raised after the loop has returned None
            if log != ref[1] or not same_res:
                found.append({"clause": "the subscript form %s does not follow the retry discipline of the method it stands for" % entry,
                              "input": {"attempts": att, "retry_delay": delay, "retry_for": [TAGS[t] for t in rf],
                                        "do_not_retry_for": [TAGS[t] for t in dnr], "outcomes": repr(script), "entry": entry},
                              "observed": {"result": repr(res), "log": log, "method_result": repr(ref[0]), "method_log": ref[1]},
                              "size": att * 10 + len(script), "case": None})
    # "returns the first successful result unchanged" through rc[k]: every stored value that is not None is a hit, the falsy ones too
    for value in (b"", "", 0, 0.0, False, [], {}, b"0", b"v"):      # (tuples stand for exceptions in this harness)
        for script in ([value], [(21,), value], [(21,), (21,), value]):
            n_sub += 1
            res, log = run_impl(3, 1, [21], [], list(script), list, False, "getitem")
            k = len(script)
            if res != ("o", value) or type(res[1]) is not type(value) or log != ["c", 1] * (k - 1) + ["c"]:
                found.append({"clause": "rc[key] with the stored value %r (after %d retried failure(s)) gave %r with log %r; get returns the value itself" % (value, k - 1, res, log),
                              "input": {"attempts": 3, "retry_delay": 1, "retry_for": [TAGS[21]], "outcomes": repr(script), "entry": "getitem"},
                              "observed": {"result": repr(res), "log": log}, "size": k, "case": None, "falsy_case": repr(script)})
    for att in (-1, 0, 1):
        for rf in CFG_ARGS:
            for dnr in CFG_ARGS:
                r = cfg_impl(att, rf, dnr)

                def valid(a):
                    if a is None:
                        return True
                    if not isinstance(a, (list, tuple, set)):
                        return False
                    return all(isinstance(x, int) and x in cl and issubclass(cl[x], Exception) for x in a)
                should = att >= 1 and valid(rf) and valid(dnr) and not (set(rf or []) & set(dnr or []))
                if (r[0] == "ok") != should:
                    found.append({"clause": "invalid configurations are rejected at construction (and valid ones accepted)",
                                  "input": {"attempts": att, "retry_for": repr(rf), "do_not_retry_for": repr(dnr)},
                                  "observed": repr(r), "size": 0, "case": None})
    ctx.search_summary = {"runs_checked_against_clauses": len(cases), "subscript_form_runs": n_sub, "constructor_configs": 3 * len(CFG_ARGS) ** 2}
    found.sort(key=lambda v: v["size"])
    return found[:1]


def replay(ctx, obj):
    v = obj.get("violation")
    if v and v.get("falsy_case"):
        script = eval(v["falsy_case"])
        res, log = run_impl(3, 1, [21], [], list(script), list, False, "getitem")
        print("rc[key] ->", res, log)
        return res != ("o", script[-1])
    if not v or not v.get("case"):
        return None
    c = eval(v["case"])
    res, log = run_impl(*c[:5], {"list": list, "tuple": tuple, "set": set}[v.get("spelling", "list")], c[5])
    print("case", c, "->", res, log, "| recorded:", v["observed"])
    return {"result": repr(res), "log": log} == v["observed"]
