"""C01 — a call only ever consumes the server's reply to its own request."""
import random

from harness import clientsim as cs
from harness import core
from harness.clientsim import TAGS
from harness.refserver import Server

PROP = "C01"
GEN = ["Handlers"]
VO = ["Properties/C01.vo", "Properties/C03.vo", "Extract/D_Client.vo"]
MODULE = "Properties.C01"
THEOREMS = ["c01_failure_closes_fetch", "c01_failure_closes_store", "c01_failure_closes_misc", "c01_src_handlers", "c01_fresh_connection",
            "c01_only_own_connection", "c01_noreply_never_reads", "c01_server_silent_iff", "c01_exact_store", "c01_exact_misc", "c01_exact_noreply", "c01_exact_fetch",
            "c01_ready_store", "c01_ready_misc", "c01_ready_noreply", "c01_ready_fetch", "c01_ready_after_failure"]
DRIVER = "D_Client"
TECHNIQUE = ("Coq proof: on the Client model every failing call leaves self.sock None for any exception class, fault, peer "
             "and recv behaviour; fresh connections start empty; noreply calls perform no recv; the specification server is silent "
             "exactly for noreply commands; exact consumption of the reply proved for the line-per-command exchanges and for retrievals (VALUE blocks), from a "
             "connected or a closed (reconnecting) client, and checked "
             "on the implementation with per-byte ownership tags over operations x fault plans x segmentations")
LEVEL_TEXT = ("c01_failure_closes_*: for every configuration, peer, script and recv behaviour, an exception of ANY class escaping the "
              "socket phase of a call leaves self.sock = None (handler classes read from base.py on this run: c01_src_handlers); "
              "c01_fresh_connection + c01_only_own_connection: a new connection has nothing pending and bytes appear only as the "
              "answer to a sendall on the current socket, so nothing a failed call left behind is ever read; "
              "c01_noreply_never_reads: every operation called with (effective) noreply performs no recv on any path; "
              "c01_server_silent_iff: the specification server replies exactly when the command does not say noreply. "
              "c01_exact_store/misc/noreply: on a connected client with nothing pending and a fault-free transport, an exchange with any "
              "peer that answers one CRLF-terminated line per command consumes exactly those lines (nothing unread, nothing over-read). "
              "c01_exact_fetch: the same for a reply of VALUE blocks closed by END, any number of items and any data bytes: each block is "
              "read by its announced length, nothing is left unread or over-read. "
              "c01_ready_*: the same from any ready client - connected with nothing pending on the socket whatever its local buffer "
              "holds, or closed (c01_ready_after_failure: what a failed call leaves behind), in which case the call connects first "
              "(any getaddrinfo list with at least one address, TLS or not) and the fresh socket has nothing pending. "
              "Left to the ownership-tag search on the implementation: stats / raw_command / version replies and transports with "
              "faults in mid-reply (there the theorem is c01_failure_closes_*: the connection is dropped).")
LEVEL_NOTE = ("Trusted: Coq kernel; the hand model's correspondence with base.py; tools/py2coq gen_handlers; the ownership ghost of "
              "harness/clientsim.py (each reply byte is tagged with the call whose command elicited it). No axioms.")
TRUSTED = ["Coq 8.16.1 kernel; no axioms",
           "hand-written model coq/Model/Client.v tied to base.py by this check's correspondence run",
           "harness/clientsim.py ownership tags; harness/refserver.py as the faithful server",
           "extraction: ExtrOcamlBasic only; coq/Extract/ocaml/driver.ml"]
ASSUMPTIONS = ["a faithful server answers each command once, in order, and nothing for noreply (Spec/Server.v: c01_server_silent_iff)",
               "exact consumption on success is checked on the implementation, not proved"]

OPS = [(0, 0, b"k", b"v", 0, False, None), (0, 0, b"k", b"v", 0, True, None), (0, 1, b"k", b"w", 0, None, None), (0, 3, b"k", b"+", 0, False, None),
       (1, [(b"a", b"1"), (b"b", b"2"), (b"c", b"3")], 0, False, None), (1, [(b"a", b"1"), (b"b", b"2")], 0, True, None),
       (2, b"k", b"x", b"1", 0, False, None), (2, b"k", b"x", b"1", 0, True, None), (3, b"k", None), (4, b"k", None, None), (5, b"k", 9, None),
       (6, b"k", 9, None, None), (7, False, [b"a", b"k", b"zz"]), (8, False, [b"a", b"b"]), (9, b"k", False), (9, b"k", True), (10, False, [b"a", b"b"], False),
       (10, False, [b"a", b"b"], True), (11, b"n", 2, False), (11, b"n", 2, True), (12, b"k", 1, False), (12, b"n", 1, True), (12, b"n", 3, False), (13, b"k", 5, False), (13, b"k", 5, True),
       (14, 0, False), (14, 0, True), (15,),
       # noreply left to the client's default_noreply (both settings occur in the configurations below)
       (0, 0, b"k", b"v", 0, None, None), (1, [(b"a", b"1"), (b"b", b"2")], 0, None, None), (9, b"k", None), (10, False, [b"a", b"b"], None),
       (13, b"k", 5, None), (14, 0, None),
       # raw_command reads up to a caller-chosen end token, however the reply is cut into recv() results
       (16, b"version", b"\r\n"), (16, b"version", b".21\r\n"), (16, b"get k", b"END\r\n"),
       # two dict keys with ONE wire spelling (str and bytes): two commands go out, two replies come back
       (1, [("k", b"1"), (b"k", b"2"), (b"c", b"3")], 0, False, None), (10, False, ["a", b"a", b"b"], False), (7, False, ["a", b"a", b"k"])]
FOLLOW = [(3, b"k", b"dflt"), (9, b"j", False), (0, 0, b"j", b"z", 0, False, None), (11, b"n", 1, False)]
PRE = [(0, 0, b"k", b"5", 0, False, None), (0, 0, b"n", b"10", 0, False, None), (0, 0, b"a", b"A", 0, False, None)]
REPLY_FAULTS = ["error", "garbage", "truncate", "client_error", "line0_server_error", "line1_client_error"]


class FaultyServer:
    """the faithful server, with the reply to the k-th sendall replaced / damaged"""

    def __init__(self, k=None, kind=None):
        self.srv = Server()
        self.k, self.kind, self.n = k, kind, 0

    def feed(self, data):
        r = self.srv.feed(data)
        i = self.n
        self.n += 1
        if i != self.k or not r:
            return r
        if self.kind == "error":
            return b"ERROR\r\n"
        if self.kind == "client_error":
            return b"CLIENT_ERROR bad data chunk\r\n"
        if self.kind in ("line0_server_error", "line1_client_error"):
            # one command of a batch fails on the server (object too large, bad chunk): its line is an error line, the others stand
            lines = r.split(b"\r\n")[:-1]
            j = 0 if self.kind == "line0_server_error" else 1
            if len(lines) > j and not r.startswith(b"VALUE"):
                lines[j] = b"SERVER_ERROR object too large for cache" if j == 0 else b"CLIENT_ERROR bad data chunk"
            return b"".join(x + b"\r\n" for x in lines)
        if self.kind == "garbage":
            return b"\x00\xffGARBAGE " + r[:5].replace(b"\r", b"").replace(b"\n", b"") + b"\r\n"      # ONE unparseable line
        return r[:max(0, len(r) - 3)]


def plans(ctx, rng):
    out = [("none", [], [], None, None)]
    for kind in ("SocketTimeout", "ConnectionResetError"):
        for pos in range(0, 8):
            out.append(("script", [0] * pos + [(TAGS[kind],)], [], None, None))
        for rpos in range(0, 3):
            out.append(("recv", [], [5] * rpos + [(TAGS[kind],)], None, None))
        # a send that fails AFTER the kernel has taken the bytes (a send timeout on the last part of a large request, a reset that
        # crosses the request on the wire): the server answers a command whose call has already failed
        for pos in range(0, 8):
            out.append(("script", [0] * pos + [(TAGS[kind], "after")], [], None, None))
    # an interruption that is not an ordinary error (C10 has the full grid; here: the same ownership judgement on a few of them)
    for rpos in range(0, 2):
        out.append(("recv", [], [5] * rpos + [(TAGS["KeyboardInterrupt"],)], None, None))
    for pos in (3, 5):
        out.append(("script", [0] * pos + [(TAGS["GreenletTimeout"], "after")], [], None, None))
    for rpos in range(0, 3):
        out.append(("eof", [], [3] * rpos + [None], None, None))
    for kind in REPLY_FAULTS:
        out.append(("reply", [], [], 3, kind))        # the reply to the 4th sendall = the operation under test (after 3 preparing sets)
    return out


def cases(ctx):
    rng = random.Random(ctx.seed * 71 + 1)
    out = []
    cfgs = [dict(tcp=False, default_noreply=False, ignore_exc=False), dict(tcp=True, naddr=2, default_noreply=True, ignore_exc=False),
            dict(tcp=False, default_noreply=False, ignore_exc=True, prefix=b"p:")]
    for ci, c in enumerate(cfgs):
        for oi, op in enumerate(OPS):
            for pi, (kind, sc, ch, k, rk) in enumerate(plans(ctx, rng)):
                if ctx.quick and pi and (ci + oi + pi) % 3:        # the fault-free plan (pi = 0) runs for every configuration and operation
                    continue
                ops = PRE + [op] + [rng.choice(FOLLOW), rng.choice(FOLLOW)]
                # segmentation of whatever is read: a few chunkings per case
                segs = ([], [1] * 200, [rng.choice([1, 2, 3, 7, 4096]) for _ in range(60)])
                for seg in (segs if (not ctx.quick or not pi) else segs[:2] if kind == "reply" else segs[:1]):
                    if kind in ("recv", "eof"):
                        out.append((c, ops, sc, ch, k, rk))
                        break
                    out.append((c, ops, sc, list(seg) + ch, k, rk))
    return out


def place(c, ops, sc, ch):
    """faults are meant for the operation under test (index 3): skip the socket calls / recvs of the preparing calls"""
    dry = cs.run_impl(c, ops[:3], [], [], (), None, Server().feed)
    nsock = sum(1 for e in dry[1] if e[0] != 8)
    nrecv = sum(1 for e in dry[1] if e[0] == 8)
    return ([0] * nsock + sc if sc else []), ([1 << 20] * nrecv + ch if ch else [])


def run_case(stack, case):
    c, ops, sc, ch, k, rk = case
    sc2, ch2 = place(c, ops, sc, ch) if stack == "Client" else (sc, ch)
    fs = FaultyServer(k, rk)
    ob = "SocketTimeout" if rk else None      # a damaged reply may be shorter than what the call reads: that read ends in the configured timeout
    if stack == "Client":
        r = cs.run_impl(c, ops, sc2, ch2, (), None, fs.feed, on_block=ob)
        return r[0], r[6]
    from pymemcache.client.hash import HashClient
    from pymemcache.client.base import PooledClient

    def mk(server, kw):
        if stack == "PooledClient":
            return PooledClient(server, max_pool_size=2, **kw)
        return HashClient([server], retry_attempts=0, **kw)
    r = cs.run_impl(c, ops, sc2, ch2, (), mk, fs.feed, on_block=ob)
    return r[0], r[6]


def noreply_of(c, op):
    code = op[0]
    dn = c.get("default_noreply", True)
    if code in (0, 1):
        n = op[5] if code == 0 else op[3]
        return dn if n is None else bool(n)
    if code == 2:
        return bool(op[5])
    if code in (9,):
        return dn if op[2] is None else bool(op[2])
    if code in (10, 13):
        return dn if op[3] is None else bool(op[3])
    if code in (11, 12):
        return bool(op[3])
    if code == 14:
        return dn if op[2] is None else bool(op[2])
    return False


def judge(stack, case):
    c, ops, sc, ch, k, rk = case
    results, world = run_case(stack, case)
    if world.foreign:
        rd, owner, sid = world.foreign[0]
        return "call %d %r consumed reply bytes that answer call %d %r (socket %d)" % (rd, ops[rd], owner, ops[owner], sid)
    for i, res in enumerate(results):
        if res == ("e", "WouldBlock"):
            return "call %d %r waited for a reply that never comes" % (i, ops[i])
    if stack == "Client":
        prev = 0
        for i, (end, sid) in enumerate(world.bounds):
            seg = world.trace[prev:end]
            prev = end
            if noreply_of(c, ops[i]) and any(e[0] == 8 for e in seg) and ops[i][0] not in (3, 4, 5, 6, 7, 8, 15):
                return "call %d %r asked for noreply and still read from the socket" % (i, ops[i])
        for i, left in world.unread:
            if left and results[i][0] == "o":
                return "call %d %r returned and left %d reply bytes unread on a connection that stays in use" % (i, ops[i], left)
    return None


def correspondence(ctx):
    cl = [x for x in cases(ctx) if x[4] is None][::2]
    hk = cs.handler_kinds()
    reqs, impl = [], []
    for c, ops, sc, ch, k, rk in cl:
        sc2, ch2 = place(c, ops, sc, ch)
        r = cs.run_impl(c, ops, sc2, ch2, (), None, Server().feed)
        impl.append(r)
        reqs.append(cs.model_req(c, ops, sc2, ch2, [t[2] for t in r[6].tags], hk))
    model = ctx.driver.call_many(reqs)
    dis = []
    for (c, ops, sc, ch, k, rk), r, m in zip(cl, impl, model):
        mm = cs.decode_model(m)
        if tuple(r[:6]) != tuple(mm[:6]):
            dis.append({"cfg": repr(c), "ops": repr(ops)[:300], "script": repr(sc), "choices": repr(ch)[:80], "impl": repr((r[0], r[2], r[5]))[:300],
                        "model": repr((mm[0], mm[2], mm[5]) if len(mm) > 5 else mm)[:300]})
    # random sequences over EVERY operation of the model (incl. stats, raw_command, quit, close, cache_memlimit, shutdown), random
    # configurations and argument values (noreply None/True/False, bad integers), naive-server replies with injected error lines,
    # faults and segmentations
    from harness import gens
    rng = random.Random(ctx.seed * 131 + 1)
    rcl = []
    for i in range(300 if ctx.quick else 4000):
        c = gens.random_cfg(rng)
        ops = [gens.random_op(rng) for _ in range(rng.randrange(2, 7))]
        if c["serde"] == 1:
            ops = gens.native_only(ops)
        sc, ch, rep = gens.build_case(rng, c, ops, fault_rate=0.0 if i % 3 else 0.08)
        rcl.append((c, ops, sc, ch, rep))
    rm = ctx.driver.call_many([cs.model_req(c, ops, sc, ch, rep, hk) for c, ops, sc, ch, rep in rcl])
    for (c, ops, sc, ch, rep), m in zip(rcl, rm):
        r = cs.run_impl(c, ops, sc, ch, rep)
        mm = cs.decode_model(m)
        if tuple(r[:6]) != tuple(mm[:6]):
            dis.append({"random": True, "cfg": repr(c), "ops": repr(ops)[:300], "script": repr(sc)[:100], "choices": repr(ch)[:80], "impl": repr((r[0], r[2], r[5]))[:300],
                        "model": repr((mm[0], mm[2], mm[5]) if len(mm) > 5 else mm)[:300]})
    return {"evaluations": len(cl) + len(rcl), "distinct_nontrivial": sum(1 for x in cl if x[2] or x[3]) + len(rcl),
            "rule": "extracted Client model vs the real Client on %d histories: 3 preparing sets, one of 26 operations (single/multi-key, noreply "
                    "on/off), two follow-up calls; timeout/reset at every non-recv socket call 0..7 and at the first three recvs of the operation, "
                    "end of stream at recv 0..2, three segmentations; replies from the reference server. Compared: results, full socket traces, final "
                    "socket, unread bytes; plus %d random sequences of 2-6 operations over all 22 operations of the model with random "
                    "configurations, argument values, error lines, faults and segmentations" % (len(cl), len(rcl)),
            "samples": [{"cfg": repr(c), "ops": repr(o[3:])[:120], "script": repr(s), "choices": repr(h)[:40]} for c, o, s, h, k, r in cl[10:13]],
            "distribution": {"cases": len(cl), "with_fault": sum(1 for x in cl if x[2] or x[3])}, "disagreements": dis}


def search(ctx):
    found = []
    n = 0
    nw = 0
    for ci, case in enumerate(cases(ctx)):
        for stack in ("Client", "PooledClient", "HashClient"):
            # script positions are placed for Client; the wrappers get the reply faults and segmentations (every third case; every
            # raw_command case, whose end token is one more argument a wrapper has to hand on)
            if stack != "Client" and (case[2] or (ci % 3 and case[1][3][0] != 16)):
                continue
            n += 1
            nw += stack != "Client"
            why = judge(stack, case)
            if why:
                found.append({"clause": why, "input": {"class": stack, "cfg": repr(case[0]), "ops": repr(case[1]), "script": repr(case[2]), "choices": repr(case[3])[:100],
                                                        "reply_fault": (case[4], case[5])}, "size": len(case[2]) + len(case[3]), "case": repr((stack, case))})
    ctx.search_summary = {"runs_with_ownership_tags": n, "of_which_on_PooledClient_or_HashClient": nw}
    found.sort(key=lambda v: v["size"])
    return found[:1]


def replay(ctx, obj):
    v = obj.get("violation")
    if not v or not v.get("case"):
        return None
    stack, case = eval(v["case"])
    why = judge(stack, case)
    print(why or "every call consumed only its own reply")
    return bool(why)
