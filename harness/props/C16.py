"""C16 — PooledClient, single-server HashClient and RetryingClient behave like Client."""
import random

from harness import clientsim as cs
from harness import hashsim as hs
from harness import gens
from harness.refserver import Server

PROP = "C16"
GEN = ["Handlers", "Wrappers", "Subscripts"]
VO = ["Properties/C16.vo", "Extract/D_Client.vo", "Extract/D_Hash.vo"]
MODULE = "Properties.C16"
THEOREMS = ["c16_pooled_refines", "c16_pooled_options", "c16_hash_single", "c16_retrying", "c16_pooled_forwarding",
            "c16_pooled_construction", "c16_hash_forwarding", "c16_subscripts", "c16_same_defaults"]
DRIVER = "D_Client"
TECHNIQUE = ("Coq proof: refinement of the PooledClient, single-server HashClient and RetryingClient models to the Client "
             "model / inner call; forwarding of every argument and constructor option proved over tables regenerated from "
             "the source each run; models tied to the code by differential runs")
LEVEL_TEXT = ("c16_pooled_refines: for every operation other than close/quit, every configuration without ignore_exc, pool state "
              "satisfying the pool invariant, peer and world, a PooledClient call returns the inner Client call's result on the "
              "same world, or raises its exception having sent the same bytes; c16_pooled_options: that inner client has the "
              "wrapper's configuration; c16_hash_single: with its server in rotation a HashClient call is the inner client's "
              "call with the bare key; c16_retrying: RetryingClient returns the first attempt's result when it succeeds or when "
              "attempts = 1; c16_*_forwarding/_construction: every method parameter and constructor option reaches its namesake "
              "(tables from base.py/hash.py of this run).")
LEVEL_NOTE = ("Trusted: Coq kernel; hand models' correspondence (differential runs here and in C07/C09/C10/C12/C13/C17); the "
              "structural extractor gen_wrappers (Python argument binding of the forwarding calls is resolved there). "
              "Interpretation: a RetryingClient with attempts > 1 repeats a failing command by design (C17), so its command "
              "behaviour is compared with Client's on histories in which no call raises (attempts=1 on all). ignore_exc is not among C16's shared options. No axioms.")
TRUSTED = ["Coq 8.16.1 kernel; no axioms",
           "hand-written models coq/Model/{Client,Pooled,Hash,Retrying}.v tied to the code by correspondence runs",
           "tools/py2coq/gen_more.py:gen_wrappers (structural extraction; fail-closed)",
           "harness/refserver.py (the byte-level reference server both sides of each comparison talk to)",
           "extraction: ExtrOcamlBasic only; coq/Extract/ocaml/driver.ml"]
ASSUMPTIONS = ["ignore_exc=False (C07 covers the wrappers' own ignore_exc handling)",
               "RetryingClient(attempts>1) resends a failing command (C17): compared with Client on histories where no call raises"]

KEYS = [b"k", "k2", b"n", b"bad key", "\xe9", b"x" * 249]
VALS = [b"v", "text", 5, b"line\r\nEND\r\n", "\xe9t\xe9", b"", b"12"]


def grid_ops():
    """server states: hit, miss, cas match/mismatch, numeric/non-numeric, with every argument position exercised"""
    seqs = []
    for nr in (None, False, True):
        for e in (0, 100):
            for f in (None, 7):
                seqs.append([(0, 0, b"k", b"v", e, nr, f), (3, b"k", b"d"), (4, b"k", b"d", b"c"), (2, b"k", b"w", b"1", e, nr is True, f),
                             (2, b"k", b"w", b"999", e, False, f), (4, b"k", None, None), (11, b"k", 3, nr is True), (0, 0, b"n", 5, e, nr, f),
                             (11, b"n", 3, nr is True), (12, b"n", 100, False), (13, b"n", e, nr), (5, b"n", e, b"d"), (6, b"n", e, b"d", b"c"),
                             (9, b"k", nr), (9, b"k", nr), (3, b"k", b"d"), (4, b"zz", b"d", b"c"), (6, b"zz", e, b"d", b"c"), (5, b"zz", e, b"d")])
                seqs.append([(0, 1, b"k", b"v", e, nr, f), (0, 1, b"k", b"w", e, nr, f), (0, 2, b"k", b"x", e, nr, f), (0, 2, b"q", b"x", e, nr, f),
                             (0, 3, b"k", b"+", e, nr, f), (0, 4, b"k", b"-", e, nr, f), (0, 3, b"q", b"+", e, nr, f), (3, b"k", None),
                             (1, [(b"a", b"1"), (b"b", "two"), ("c", 3)], e, nr, f), (7, False, [b"a", b"b", "c", b"zz"]), (8, False, [b"a", "c"]),
                             (10, False, [b"a", b"zz", b"b"], nr), (7, True, [b"a", b"b", "c"]), (7, False, []), (10, False, [], nr),
                             (13, b"zz", e, nr), (11, b"zz", 1, False), (2, b"zz", b"v", b"5", e, False, f),
                             # a key named more than once: whatever a plain Client sends for it, the wrappers send too
                             (1, [(b"a", b"1"), (b"b", b"2")], e, False, f), (7, False, [b"b", b"a", b"b"]), (8, True, [b"a", b"a"]),
                             (7, True, [b"a", b"zz", b"a", b"b"]), (10, False, [b"a", b"a"], False)])
    # noreply LEFT OUT of the call (not passed as None): each method's own default decides, and it is the same in every class
    from harness.props.C05 import OMIT
    seqs.append([(0, 0, b"k", b"v", 0, OMIT, None), (9, b"k", OMIT), (9, b"zz", OMIT), (13, b"k", 5, OMIT), (10, False, [b"a", b"k"], OMIT), (0, 1, b"k", b"w", 0, OMIT, None),
                 (0, 3, b"k", b"+", 0, OMIT, None), (1, [(b"a", b"1"), (b"b", b"2")], 0, OMIT, None), (11, b"n", 1, OMIT), (12, b"n", 1, OMIT),
                 (2, b"k", b"v", b"1", 0, OMIT, None), (3, b"k", None)])
    # text values: what `encoding` (and only `encoding`) does to them, under every combination of the other options
    seqs.append([(0, 0, b"k", "\xe9t\xe9", 0, False, None), (3, b"k", None), (0, 0, b"k", "text", 0, False, None), (3, b"k", None),
                 (1, [(b"a", "\xe9"), (b"b", "plain")], 0, False, None), (7, False, [b"a", b"b"]), (0, 3, b"k", "\u20ac", 0, False, None), (2, b"k", "\xe9", b"1", 0, False, None)])
    return seqs


def cfgs():
    out = []
    for prefix in (b"", b"p:", "s:"):            # the last one given as str: every class encodes it
        for dn in (False, True):
            for enc in (0, 1):
                for uni in (False, True):
                    for serde in (0, 1):
                        out.append(dict(tcp=False, prefix=prefix, default_noreply=dn, enc=enc, unicode=uni, serde=serde, ignore_exc=False))
    # options left out altogether: every class then falls back on its own constructor defaults, which must be Client's
    out.append(dict(tcp=False, prefix=b"", default_noreply=True, enc=0, unicode=False, serde=0, ignore_exc=False,
                    omit=("default_noreply", "key_prefix", "allow_unicode_keys", "encoding", "no_delay", "ignore_exc")))
    return out


def legacy_cfgs():
    """the older serializer spelling - a serializer function, a deserializer function, or both (search only: the models know `serde`)"""
    return [dict(tcp=False, prefix=b"", default_noreply=False, enc=0, unicode=False, serde=0, ignore_exc=False, legacy=how) for how in ("de", "ser", "ser+de")]


def sequences(ctx):
    rng = random.Random(ctx.seed * 7919 + 16)
    seqs = grid_ops()
    n = 60 if ctx.quick else 600
    for _ in range(n):
        ops = []
        for _ in range(rng.randrange(3, 9)):
            o = gens.random_op(rng, KEYS, VALS)
            while o[0] > 13:
                o = gens.random_op(rng, KEYS, VALS)
            ops.append(o)
        seqs.append(ops)
    return seqs


STACKS = ["PooledClient", "HashClient", "HashClient(use_pooling)", "RetryingClient(attempts=1)", "RetryingClient(attempts=3)",
          "HashClient(str spec)"]      # the one server written as a string ('unix:/path', 'host:port'): the same server


def _mk(stack):
    def mk(server, kw):
        from pymemcache.client.base import Client
        from pymemcache.client.hash import HashClient
        from pymemcache.client.retrying import RetryingClient
        if stack == "HashClient(str spec)":
            return HashClient(["unix:" + server if isinstance(server, str) else "%s:%d" % server], **kw)
        if stack.startswith("HashClient"):
            return HashClient([server], use_pooling=stack != "HashClient", **kw)
        return RetryingClient(Client(server, **kw), attempts=1 if "=1" in stack else 3)
    return mk


def run_stack(stack, c, ops):
    """-> (results, bytes sent (concatenated), settimeout/setsockopt/connect events without socket ids)"""
    srv = Server()
    ops = gens.native_only(ops) if c.get("serde") == 1 else ops
    from harness.props.C05 import OMIT, apply_maybe_omitted
    ap = apply_maybe_omitted if any(isinstance(x, str) and x == OMIT for o in ops for x in o) else None
    if stack == "Client":
        r = cs.run_impl(c, ops, [], [], (), None, srv.feed, None, ap)
        results, world = r[0], r[6]
    elif stack == "PooledClient":
        results, world = run_pooled_peer(c, ops, srv, ap)
    else:
        r = cs.run_impl(c, ops, [], [], (), _mk(stack), srv.feed, None, ap)
        results, world = r[0], r[6]
    sent = b"".join(t[1] for t in world.tags)
    # how each connection was set up (socket options, timeouts, connect), per socket: a wrapper may reconnect more often
    per = {}
    for e in world.trace:
        if e[0] in (3, 5, 6):
            per.setdefault(e[1], []).append((e[0],) + tuple(e[2:]))
    setup = sorted(set(tuple(v) for v in per.values()))
    return results, sent, setup, srv.log


def run_pooled_peer(c, ops, srv, apply=None):
    from pymemcache.client.base import PooledClient
    cc = dict(cs.DEFAULT_CFG)
    cc.update(c)
    world = cs.World([], [], (), cc["naddr"], srv.feed)
    server, kw = cs.client_kwargs(c, world)
    p = PooledClient(server, max_pool_size=4, **kw)
    results = []
    for i, op in enumerate(ops):
        world.current_op = i
        try:
            results.append(("o", cs.canon_value((apply or cs.apply_pooled_op)(p, op))))
        except BaseException as e:  # noqa
            from harness import core
            results.append(("e", core.exn_name(e)))
    return results, world


def compare(stack, c, ops):
    ref = run_stack("Client", c, ops)
    if "attempts=3" in stack and any(r[0] == "e" for r in ref[0]):
        return None         # a failing call is retried by design (C17): histories diverge legitimately
    if any(e[0] == "bad" and e[1].endswith(b" noreply") for e in ref[3]):
        # the strict reference server answered ERROR to a command that asked for no reply (an out-of-range delta): the
        # plain Client's own stream is out of step from there on, which is not one of C16's server states
        return None
    got = run_stack(stack, c, ops)
    if got[0] != ref[0]:
        i = next(i for i in range(len(ops)) if i >= len(got[0]) or got[0][i] != ref[0][i])
        return "call %d %r: %s returned %r, Client returned %r" % (i, ops[i], stack, got[0][i], ref[0][i])
    if got[1] != ref[1]:
        k = next((i for i in range(min(len(got[1]), len(ref[1]))) if got[1][i] != ref[1][i]), min(len(got[1]), len(ref[1])))
        return "%s sent ...%r where Client sent ...%r" % (stack, got[1][max(0, k - 20):k + 30], ref[1][max(0, k - 20):k + 30])
    if got[2] != ref[2]:
        return "%s set up its connection with %r, Client with %r" % (stack, got[2][:8], ref[2][:8])
    return None


# ---- HashClient over scripted inner clients: argument pass-through of every public method
H_PASS = [("set", [b"v", 5, True, 3], {}, False), ("set", [b"v"], {"expire": 5, "noreply": False, "flags": 1}, False),
          ("add", [b"v"], {"noreply": None}, False), ("replace", [b"v", 0], {"flags": 2}, False), ("append", [b"v"], {}, False),
          ("prepend", [b"v"], {"expire": 1}, False), ("cas", [b"v", b"77"], {"noreply": True}, False), ("cas", [b"v", b"77", 9, False, 4], {}, False),
          ("incr", [3], {}, None), ("incr", [3], {"noreply": True}, None), ("decr", [3, False], {}, None), ("delete", [], {"noreply": False}, False),
          ("delete", [True], {}, False), ("touch", [30], {"noreply": None}, False), ("touch", [], {"expire": 30}, False)]
H_READ = [("get", {"default": 7}, 7), ("gets", {"default": 7, "cas_default": 9}, (7, 9)), ("gat", {"expire": 30, "default": 7}, 7),
          ("gats", {"expire": 30, "default": 7, "cas_default": 9}, (7, 9))]


def hash_cases(ctx):
    out = []
    for ign in (False,):
        cfg = (2, 1, 60, ign, b"", False)
        for servers in ([("h1", 1)], [("h1", 1), ("h2", 2)]):
            ops = [(6, name, b"k", args, kw, dv) for name, args, kw, dv in H_PASS]
            out.append((cfg, servers, 100, [100], ["r%d" % i for i in range(len(ops))], ops))
            ops = [(5, name, b"k", kw, miss) for name, kw, miss in H_READ]
            out.append((cfg, servers, 100, [100], ["r%d" % i for i in range(len(ops))], ops))
            f = (cs.TAGS["MemcacheClientError"],)
            out.append((cfg, servers, 100, [100], [f, "x", f], ops))
    return out


def correspondence(ctx):
    from harness import core
    dis = []
    hk, hp = cs.handler_kinds(), cs.pool_handler_kind()
    # PooledClient and Client models on naive-server histories, every shared option varied
    rng = random.Random(ctx.seed * 31 + 5)
    cl = []
    allc = cfgs()
    n = 400 if ctx.quick else 3000
    for i in range(n):
        c = allc[i % len(allc)]
        ops = [o for o in (gens.random_op(rng) for _ in range(rng.randrange(2, 7))) if o[0] not in (17, 18, 19, 23, 24)]
        if c["serde"] == 1:
            ops = gens.native_only(ops)
        sc, ch, rep = gens.build_case(rng, c, ops, fault_rate=0.0 if i % 3 else 0.08)
        cl.append((c, ops, sc, ch, rep))
    pm = ctx.driver.call_many([cs.pooled_req(c, (2, 0), ops, sc, ch, rep, [], hk, hp) for c, ops, sc, ch, rep in cl])
    cm = ctx.driver.call_many([cs.model_req(c, ops, sc, ch, rep, hk) for c, ops, sc, ch, rep in cl])
    for (c, ops, sc, ch, rep), m, m2 in zip(cl, pm, cm):
        r = cs.run_pooled(c, (2, 0), ops, sc, ch, rep)
        mm = cs.decode_pooled(m)
        if tuple(r[:5]) != tuple(mm[:5]):
            dis.append({"class": "PooledClient", "cfg": repr(c), "ops": repr(ops)[:300], "script": repr(sc)[:100], "choices": repr(ch)[:100],
                        "impl": repr(r[0])[:300], "model": repr(mm[0] if len(mm) > 1 else mm)[:300]})
        r = cs.run_impl(c, ops, sc, ch, rep)
        mm = cs.decode_model(m2)
        if tuple(r[:6]) != tuple(mm[:6]):
            dis.append({"class": "Client", "cfg": repr(c), "ops": repr(ops)[:300], "impl": repr((r[0], r[2]))[:300], "model": repr((mm[0], mm[2]) if len(mm) > 2 else mm)[:300]})
    # HashClient model over scripted inner clients: every public method, positional and keyword arguments
    hcl = hash_cases(ctx)
    hdrv, herr = core.get_driver("D_Hash")
    nh = 0
    if hdrv is None:
        dis.append({"class": "HashClient", "error": "HashClient model does not build: %s" % (herr or "")[-300:]})
    else:
        try:
            hm = hdrv.call_many([hs.model_req(*x) for x in hcl])
            for x, m in zip(hcl, hm):
                r = hs.run_impl(*x)
                mm = hs.decode_model(m)
                nh += 1
                if tuple(r) != tuple(mm):
                    k = next((i for i in range(len(r)) if i >= len(mm) or r[i] != mm[i]), 0)
                    dis.append({"class": "HashClient", "servers": repr(x[1]), "ops": repr(x[5])[:300],
                                "first_difference_in": ["results", "nodes", "failed", "dead", "last_check", "log"][k],
                                "impl": repr(r[k])[:500], "model": repr(mm[k] if len(mm) > k else mm)[:500]})
        finally:
            hdrv.close()
    return {"evaluations": 2 * len(cl) + nh, "distinct_nontrivial": 2 * len(cl) + nh,
            "rule": "extracted PooledClient and Client models vs the real classes on %d random histories (2-6 operations of all "
                    "kinds, replies from a naive server, a third with injected faults) cycling through all 32 combinations of "
                    "prefix x default_noreply x encoding x allow_unicode_keys x serde; extracted HashClient model vs the real class "
                    "over scripted inner clients: every pass-through method with positional and keyword arguments, the four read "
                    "methods, 1 and 2 servers, success and failure. Compared: results, socket traces, pool counts, inner-call "
                    "arguments" % len(cl),
            "samples": [{"cfg": repr(c), "ops": repr(o)[:120]} for c, o, s, h, r in cl[7:10]],
            "distribution": {"pooled_and_client_histories": len(cl), "hash_cases": nh, "with_faults": sum(1 for x in cl if x[2])},
            "disagreements": dis}


KF_EMPTY = "C16-hash-set-many-empty-skips-expire-check"


def finding_of(stack, c, ops, why):
    """the listed finding this difference is an instance of, or None"""
    import re
    m = re.match(r"call (\d+) ", why or "")
    if not (stack.startswith("HashClient") and m):
        return None
    op = ops[int(m.group(1))]
    if op[0] == 1 and len(op[1]) == 0 and not isinstance(op[2], int):
        # HashClient.set_many with no items never reaches a Client, so Client's check of `expire` is skipped: confirm on the one-call history
        w = compare(stack, c, [op])
        if w and "MemcacheIllegalInputError" in w and "('o', ('list', []))" in w:
            return KF_EMPTY
    return None


SUBSCRIPT = [[(0, 0, b"k", b"", 0, False, None), (20, b"k")], [(0, 0, b"k", b"0", 0, False, None), (20, b"k")], [(20, b"zz")],
             [(0, 0, b"k", 0, 0, False, None), (20, b"k")], [(0, 0, b"k", "", 0, False, None), (20, b"k")],
             [(21, b"k", b"v"), (3, b"k", None), (20, b"k")], [(0, 0, b"k", b"v", 0, False, None), (22, b"k"), (3, b"k", b"gone")], [(22, b"zz")],
             [(21, "k\xe9", b"v"), (20, "k\xe9")], [(21, b"bad key", b"v")], [(20, b"bad key")]]


def search(ctx):
    """The property on the real classes: every stack against a plain Client, same configuration, same byte-level server."""
    found = []
    n = 0
    seqs = sequences(ctx)
    allc = cfgs() + legacy_cfgs()

    def record(stack, c, ops, why):
        found.append({"clause": why, "finding": finding_of(stack, c, ops, why), "input": {"stack": stack, "cfg": repr(c), "ops": repr(ops)},
                      "size": len(ops) + len(repr(c)) / 1000.0, "case": repr((stack, c, ops))})
    # the listed finding's own probe (both tiers): an empty set_many with an expire that is not an integer
    for stack in STACKS:
        if stack.startswith("HashClient"):
            n += 1
            ops = [(1, [], "x", False, None)]
            why = compare(stack, allc[0], ops)
            if why:
                record(stack, allc[0], ops, why)
    # client[key], client[key] = value, del client[key] (HashClient does not offer them): hits with falsy values, misses, illegal keys
    for ops in SUBSCRIPT:
        for ci, c in enumerate(allc):
            for stack in STACKS:
                if stack.startswith("HashClient"):
                    continue
                n += 1
                why = compare(stack, c, ops)
                if why:
                    record(stack, c, ops, why)
    for si, ops in enumerate(seqs):
        for ci, c in enumerate(allc):
            if si >= len(grid_ops()) and (si + ci) % (8 if ctx.quick else 2):
                continue            # random sequences: a rotating subset of configurations each
            if si < len(grid_ops()) and ctx.quick and (si + ci) % 3 and "omit" not in c and "legacy" not in c:
                continue
            for stack in STACKS:
                n += 1
                why = compare(stack, c, ops)
                if why:
                    record(stack, c, ops, why)
        if len([v for v in found if not v["finding"]]) > 40:
            break
    # shrink the smallest unlisted one: drop operations while the difference persists
    found.sort(key=lambda v: v["size"])
    unlisted = [v for v in found if not v["finding"]]
    if unlisted:
        stack, c, ops = eval(unlisted[0]["case"])
        changed = True
        while changed and len(ops) > 1:
            changed = False
            for i in range(len(ops)):
                trial = ops[:i] + ops[i + 1:]
                why = compare(stack, c, trial)
                if why and not finding_of(stack, c, trial, why):
                    ops, changed = trial, True
                    unlisted[0] = {"clause": why, "finding": None, "input": {"stack": stack, "cfg": repr(c), "ops": repr(ops)}, "size": len(ops), "case": repr((stack, c, ops))}
                    break
    ctx.search_summary = {"stack_vs_client_comparisons": n, "sequences": len(seqs), "configurations": len(allc), "stacks": STACKS}
    out, seen = unlisted[:1], set()
    for v in found:
        if v["finding"] and v["finding"] not in seen:
            seen.add(v["finding"])
            out.append(v)
    return out


def replay(ctx, obj):
    v = obj.get("violation")
    if not v or not v.get("case"):
        return None
    stack, c, ops = eval(v["case"])
    why = compare(stack, c, ops)
    print(why or "stack and Client agree")
    return bool(why)
