"""Generators of (config, operations, script) cases for the Client model correspondence.
Replies come from a deliberately naive in-memory server (NOT an oracle: it only has to make the
byte streams plausible so that the fetch/store/misc loops are exercised beyond error handling)."""
from harness.clientsim import TAGS

KEYS = [b"k", "k2", b"key:3", "\xe9", b"bad key", b"", b"x" * 251, "k"]
VALUES = [b"v", b"", b"line\r\nEND\r\n", "text", 5, b"x" * 30, "\xe9", b"VALUE k 0 1\r\nz\r\n", None]
FAULTS = ["OSError", "ConnectionResetError", "SocketTimeout", "ValueError", "KeyboardInterrupt", "SystemExit",
          "GreenletTimeout", "GaiError", "ConnectionRefusedError", "MemcacheUnexpectedCloseError"]
ERR_LINES = [b"ERROR\r\n", b"CLIENT_ERROR bad data chunk\r\n", b"SERVER_ERROR out of memory\r\n", b"GARBAGE\r\n",
             b"VALUE k 0\r\n", b"VALUE k x 1\r\nv\r\n", b"VALUE other 0 1\r\nv\r\nEND\r\n", b"STAT pid 1\r\nEND\r\n", b"\r\n"]


class NaiveServer:
    def __init__(self):
        self.d = {}
        self.cas = 100

    def wire(self, cfg, k):
        if isinstance(k, str):
            try:
                k = k.encode("utf8" if cfg.get("unicode") else "ascii")
            except Exception:
                return None
        pfx = cfg.get("prefix", b"")
        k = (pfx.encode("ascii") if isinstance(pfx, str) else pfx) + k
        if not k or len(k) > 250 or any(c in b" \t\r\n\x0b\x0c\x00" for c in k):
            return None
        return k

    def data(self, cfg, v):
        if cfg.get("serde") == 1:
            if isinstance(v, bytes):
                return v, 0
            if isinstance(v, str):
                return v.encode("utf8"), 16
            if isinstance(v, int) and not isinstance(v, bool):
                return b"%d" % v, 2
            return None, 0
        if isinstance(v, bytes):
            return v, 0
        try:
            return str(v).encode("ascii" if cfg.get("enc", 0) == 0 else "utf8"), 0
        except Exception:
            return None, 0

    def value_block(self, k, cas):
        v, f, c = self.d[k]
        head = b"VALUE " + k + b" " + str(f).encode() + b" " + str(len(v)).encode()
        if cas:
            head += b" " + str(c).encode()
        return head + b"\r\n" + v + b"\r\n"

    def reply(self, cfg, op):
        """False: the client sends nothing (input error / empty key list); None: it sends but expects no reply; bytes: the reply"""
        code = op[0]
        nr = lambda n: cfg.get("default_noreply", True) if n is None else bool(n)
        if code in (0, 2):
            if code == 0:
                _, verb, k, v, e, n, f = op
                noreply = nr(n)
            else:
                _, k, v, cs, e, n, f = op
                verb, noreply = 5, bool(n)
            w = self.wire(cfg, k)
            d, fl = self.data(cfg, v)
            if w is None or d is None or not isinstance(e, int):
                return False
            stored = True
            if verb == 1 and w in self.d:
                stored = False
            if verb in (2, 3, 4) and w not in self.d:
                stored = False
            line = b"STORED\r\n" if stored else b"NOT_STORED\r\n"
            if verb == 5:
                if w not in self.d:
                    line, stored = b"NOT_FOUND\r\n", False
                elif str(self.d[w][2]).encode() != (cs if isinstance(cs, bytes) else str(cs).encode()):
                    line, stored = b"EXISTS\r\n", False
            if stored:
                self.cas += 1
                if verb == 3:
                    d = self.d[w][0] + d
                    fl = self.d[w][1]
                if verb == 4:
                    d = d + self.d[w][0]
                    fl = self.d[w][1]
                self.d[w] = (d, fl if f is None else f, self.cas)
            return None if noreply else line
        if code == 1:
            _, pairs, e, n, f = op
            out = b""
            for k, v in pairs:
                w = self.wire(cfg, k)
                d, fl = self.data(cfg, v)
                if w is None or d is None:
                    return False
                self.cas += 1
                self.d[w] = (d, fl, self.cas)
                out += b"STORED\r\n"
            return None if nr(n) else out
        if code in (3, 4, 5, 6, 7, 8):
            keys = [op[1]] if code in (3, 4, 5, 6) else list(op[2])
            if code in (7, 8) and not keys:
                return False
            ws = [self.wire(cfg, k) for k in keys]
            if None in ws:
                return False
            cas = code in (4, 6, 8)
            return b"".join(self.value_block(w, cas) for w in ws if w in self.d) + b"END\r\n"
        if code == 9:
            w = self.wire(cfg, op[1])
            if w is None:
                return False
            r = b"DELETED\r\n" if self.d.pop(w, None) else b"NOT_FOUND\r\n"
            return None if nr(op[2]) else r
        if code == 10:
            keys = list(op[2])
            if not keys:
                return False
            ws = [self.wire(cfg, k) for k in keys]
            if None in ws:
                return False
            r = b"".join(b"DELETED\r\n" if self.d.pop(w, None) else b"NOT_FOUND\r\n" for w in ws)
            return None if nr(op[3]) else r
        if code in (11, 12):
            w = self.wire(cfg, op[1])
            if w is None or not isinstance(op[2], int):
                return False
            if w not in self.d:
                r = b"NOT_FOUND\r\n"
            else:
                try:
                    cur = int(self.d[w][0])
                    cur = cur + op[2] if code == 11 else max(0, cur - op[2])
                    self.d[w] = (str(cur).encode(), self.d[w][1], self.cas)
                    r = str(cur).encode() + b"\r\n"
                except Exception:
                    r = b"CLIENT_ERROR cannot increment or decrement non-numeric value\r\n"
            return None if op[3] else r
        if code == 13:
            w = self.wire(cfg, op[1])
            if w is None or not isinstance(op[2], int):
                return False
            return None if nr(op[3]) else (b"TOUCHED\r\n" if w in self.d else b"NOT_FOUND\r\n")
        if code == 14:
            if not isinstance(op[1], int):
                return False
            self.d.clear()
            return None if nr(op[2]) else b"OK\r\n"
        if code == 15:
            return b"VERSION 1.6.21\r\n"
        if code == 16:
            tok = op[2] if isinstance(op[2], bytes) else op[2].encode()
            return b"some data" + tok + b"more" + tok
        if code == 18:
            return b"STAT pid 123\r\nSTAT version 1.6\r\nSTAT empty\r\nITEM a [1 b; 2 s]\r\nEND\r\n"
        if code == 23:
            return b"OK\r\n"
        if code == 24:
            return b"ERROR: shutdown not enabled\r\n"       # or nothing at all: a server that shuts down just closes
        return None


def chunk_choices(n, rng, mode=None):
    """recv choices delivering n bytes"""
    if n <= 0:
        return []
    mode = mode if mode is not None else rng.randrange(4)
    if mode == 0:
        return [n]
    if mode == 1:
        return [1] * n
    out, i = [], 0
    while i < n:
        k = rng.choice([1, 1, 2, 3, 5, 8, 4096])
        out.append(k)
        i += k
    return out


def random_op(rng, keys=KEYS, values=VALUES):
    code = rng.choice([0, 0, 0, 1, 2, 3, 3, 4, 5, 6, 7, 7, 8, 9, 10, 11, 12, 13, 14, 15, 16, 17, 18, 19, 23, 24])
    k = rng.choice(keys[:3] if rng.random() < 0.93 else keys)
    v = rng.choice(values[:6] if rng.random() < 0.9 else values)
    n = rng.choice([None, None, True, False])
    e = rng.choice([0, 0, 60, -1, "x"]) if rng.random() < 0.1 else rng.choice([0, 60])
    f = rng.choice([None, None, None, 5])
    if code == 0:
        return (0, rng.randrange(5), k, v, e, n, f)
    if code == 1:
        ks = rng.sample(keys[:3] + [b"m1", "m2"], rng.randrange(0, 4))
        return (1, [(kk, rng.choice(values)) for kk in ks], e, n, f)
    if code == 2:
        return (2, k, v, rng.choice([b"101", 102, "103", b"x", None]), e, rng.choice([False, False, True]), f)
    if code == 3:
        return (3, k, rng.choice([None, b"dflt"]))
    if code == 4:
        return (4, k, rng.choice([None, b"d"]), rng.choice([None, b"c"]))
    if code == 5:
        return (5, k, e, None)
    if code == 6:
        return (6, k, e, None, None)
    if code in (7, 8):
        return (code, rng.random() < 0.2, rng.sample(keys[:3] + [b"m1", "m2"], rng.randrange(0, 4)) + ([rng.choice(keys)] if rng.random() < 0.1 else []))
    if code == 9:
        return (9, k, n)
    if code == 10:
        return (10, rng.random() < 0.2, rng.sample(keys[:3] + [b"m1"], rng.randrange(0, 3)), n)
    if code in (11, 12):
        return (code, k, rng.choice([1, 5, 10 ** 20, "x", True]) if rng.random() < 0.2 else rng.choice([1, 5]), rng.choice([False, False, True]))
    if code == 13:
        return (13, k, e, n)
    if code == 14:
        return (14, rng.choice([0, 5]), n)
    if code == 15:
        return (15,)
    if code == 16:
        return (16, rng.choice([b"verbosity 1", "lru tune", b"config get cluster"]), rng.choice([b"\r\n", b"\n\r\nEND\r\n", "\r\n", b"OK", b"abab"]))
    if code == 17:
        return (17,)
    if code == 18:
        return (18, rng.choice([[], [b"items"], [b"bad arg"]]))
    if code == 23:
        return (23, rng.choice([64, 1024, 0, True, "64", None, 2 ** 70]))
    if code == 24:
        return (24, rng.choice([False, True, 0, 1]))
    return (19,)


def random_cfg(rng):
    return dict(tcp=rng.random() < 0.8, naddr=rng.choice([1, 1, 2, 3]), nodelay=rng.random() < 0.3, tls=rng.random() < 0.25,
                keepalive=rng.random() < 0.2, ignore_exc=rng.random() < 0.3, prefix=rng.choice([b"", b"", b"p:"]),
                default_noreply=rng.random() < 0.5, unicode=rng.random() < 0.3, enc=rng.choice([0, 0, 1]),
                serde=rng.choice([0, 0, 1]))


def native_only(ops):
    """with serde=1 the model covers bytes/str/int values only (anything else goes through pickle)"""
    fix = lambda v: b"n" if not isinstance(v, (bytes, str, int)) or isinstance(v, bool) else v
    out = []
    for o in ops:
        if o[0] == 0:
            o = (0, o[1], o[2], fix(o[3])) + tuple(o[4:])
        elif o[0] == 1:
            o = (1, [(k, fix(v)) for k, v in o[1]]) + tuple(o[2:])
        elif o[0] == 2:
            o = (2, o[1], fix(o[2])) + tuple(o[3:])
        out.append(o)
    return out


def build_case(rng, cfg, ops, fault_rate=0.0, server=None):
    """-> (script, choices, replies): replies from the naive server, one per sendall; choices chunk each reply;
    script/choices/replies then mutated with faults at rate fault_rate"""
    srv = server or NaiveServer()
    replies, choices = [], []
    nsend = 0
    for op in ops:
        if op[0] == 19:
            continue
        rep = srv.reply(cfg, op)
        if rep is False:
            continue
        if rep is not None and rng.random() < 0.12:
            rep = rng.choice(ERR_LINES)
        replies.append(rep or b"")
        nsend += 1
        if rep:
            choices += chunk_choices(len(rep), rng)
            if rng.random() < 0.3:
                choices.insert(rng.randrange(len(choices) + 1), 0)          # EINTR somewhere
    script = []
    if fault_rate > 0:
        for _ in range(40):
            script.append((TAGS[rng.choice(FAULTS)],) if rng.random() < fault_rate else 0)
        c2 = []
        for c in choices:
            r = rng.random()
            if r < fault_rate / 2:
                c2.append((TAGS[rng.choice(FAULTS)],))
            elif r < fault_rate:
                c2.append(None)
            c2.append(c)
        choices = c2
        if rng.random() < fault_rate:
            replies = [r[:rng.randrange(0, len(r) + 1)] if rng.random() < 0.3 else r for r in replies]
    if rng.random() < 0.3:
        choices = choices[:rng.randrange(0, len(choices) + 1)]        # run out of choices: everything is delivered at once
    return script, choices, replies
