"""Scripted socket module and the runner that drives the REAL Client / PooledClient / HashClient with
the same (config, operations, script) triples the extracted Coq model (Model/Client.v) is run on."""
import ast
import errno
import os
import socket as real_socket

from harness import core

# ---------------------------------------------------------------- exceptions by model tag
TAGS = {n: i for i, n in enumerate(core.EXN_NAMES)}


class GreenletTimeout(BaseException):
    pass


class WouldBlock(BaseException):
    """a recv() that would wait for bytes the peer will never send"""


def make_exc(tag):
    import pymemcache.exceptions as X
    name = core.EXN_NAMES[tag]
    table = {
        "BaseException": BaseException, "KeyboardInterrupt": KeyboardInterrupt, "SystemExit": SystemExit,
        "GreenletTimeout": GreenletTimeout, "WouldBlock": WouldBlock, "Exception": Exception, "ValueError": ValueError, "TypeError": TypeError,
        "IndexError": IndexError, "KeyError": KeyError, "AttributeError": AttributeError, "RuntimeError": RuntimeError,
        "AssertionError": AssertionError, "OSError": OSError, "ConnectionRefusedError": ConnectionRefusedError,
        "ConnectionResetError": ConnectionResetError, "SocketTimeout": real_socket.timeout, "GaiError": real_socket.gaierror,
        "MemcacheError": X.MemcacheError, "MemcacheClientError": X.MemcacheClientError,
        "MemcacheUnknownCommandError": X.MemcacheUnknownCommandError, "MemcacheIllegalInputError": X.MemcacheIllegalInputError,
        "MemcacheServerError": X.MemcacheServerError, "MemcacheUnknownError": X.MemcacheUnknownError,
        "MemcacheUnexpectedCloseError": X.MemcacheUnexpectedCloseError,
    }
    cls = table[name]
    if cls is OSError:
        return OSError(errno.EIO, "scripted")
    return cls("scripted")


# ---------------------------------------------------------------- the scripted world
CONNECT_TIMEOUT = 3.0
IO_TIMEOUT = 7.0


class World:
    """script: outcomes of non-recv calls (0 normal | (tag,) raise)
    choices: one per recv (n > 0: deliver at most n bytes | 0: EINTR | (tag,): raise | None: end of stream);
             exhausted: deliver everything available
    replies: the reply the peer makes available after the k-th successful sendall (any socket)
    peer:    optional callable(sent_bytes) -> reply bytes, used instead of `replies`"""

    def __init__(self, script, choices=(), replies=(), naddr=1, peer=None):
        self.script = list(script)
        self.pos = 0
        self.choices = list(choices)
        self.cpos = 0
        self.replies = list(replies)
        self.rpos = 0
        self.peer = peer
        self.trace = []
        self.next_sid = 0
        self.naddr = naddr
        self.socks = []
        self.tags = []          # ghost: per sendall, (sid, bytes sent, reply)
        self.current_op = -1    # index of the public call in progress (set by the runners)
        self.reply_by_op = None # optional: op index -> reply to its (single) sendall
        self.foreign = []       # ghost: (reading op, owner op, sid) for every delivered byte answering another call
        self.blocked = []       # ghost: ops whose recv found nothing owed
        self.sent_by_op = {}    # ghost: op index -> list of (sid, bytes)
        self.faults = []        # ghost: (op, sid, event kind, trace length) for every scripted failure raised
        self.addr_peer = None   # optional: callable((host, port), sent bytes) -> reply, for worlds with several servers
        self.refuse = set()     # remotes (host, port) that are down: connect() is refused, open connections are reset
        self.on_block = None    # exception name raised by a recv that finds nothing owed (default: the WouldBlock marker)
        self.ct, self.it = CONNECT_TIMEOUT, IO_TIMEOUT     # the configured connect / I/O timeouts (None allowed)
        self.timeouts_set = {}  # sid -> number of settimeout calls so far

    def pop(self):
        if self.pos < len(self.script):
            o = self.script[self.pos]
            self.pos += 1
            return o
        return 0

    def call(self, ev):
        """-> None, or (for a script entry (tag, "after")) the exception the caller must raise once the call has done its work:
        an interruption that surfaces inside a socket call after the kernel has taken the bytes (search only; not in the model)"""
        self.trace.append(ev)
        o = self.pop()
        if isinstance(o, tuple):
            if len(o) == 2 and o[1] == "after":
                if ev[0] != 7:
                    return None                      # only sendall can be interrupted after it took effect
                self.faults.append((self.current_op, ev[1], ev[0], len(self.trace)))
                return make_exc(o[0])
            self.faults.append((self.current_op, ev[1] if len(ev) > 1 else None, ev[0], len(self.trace)))
            raise make_exc(o[0])
        return None

    def reply_to(self, data):
        if self.reply_by_op is not None:
            return self.reply_by_op.get(self.current_op, b"")
        if self.peer is not None:
            return self.peer(data)
        if self.rpos < len(self.replies):
            r = self.replies[self.rpos]
            self.rpos += 1
            return r
        return b""


class FakeSocket:
    def __init__(self, world, sid, addr, avail=None):
        self.w, self.sid, self.addr = world, sid, addr
        self.closed = False
        self.avail = avail if avail is not None else bytearray()
        self.owners = []        # ghost: for each byte of avail, the op whose command elicited it
        world.socks.append(self)

    def setsockopt(self, level, opt, val):
        code = {real_socket.TCP_NODELAY: 1, real_socket.SO_KEEPALIVE: 2, real_socket.TCP_KEEPIDLE: 3,
                real_socket.TCP_KEEPINTVL: 4, real_socket.TCP_KEEPCNT: 5}
        if level == real_socket.SOL_SOCKET and opt == real_socket.SO_KEEPALIVE:
            c = 2
        elif opt == real_socket.TCP_NODELAY:
            c = 1
        else:
            c = code.get(opt, 99)
        self.w.call((3, self.sid, c))

    def settimeout(self, v):
        w = self.w
        k = w.timeouts_set.get(self.sid, 0)
        w.timeouts_set[self.sid] = k + 1
        if w.ct == w.it:
            which = (0 if k == 0 else 1) if v == w.ct else 2      # equal values: told apart by order
        else:
            which = 0 if v == w.ct else 1 if v == w.it else 2
        self.timeout_in_force = v
        w.call((5, self.sid, which))

    def connect(self, sockaddr):
        a = sockaddr[2] if isinstance(sockaddr, tuple) else -1
        self.remote = (sockaddr[0], str(sockaddr[1])) if isinstance(sockaddr, tuple) else sockaddr
        self.w.call((6, self.sid, a))
        if self.remote in self.w.refuse:
            raise ConnectionRefusedError(111, "refused by the scripted world")

    def sendall(self, data):
        if getattr(self, "remote", None) in self.w.refuse:      # a node that is down also resets the connections it had
            self.w.trace.append((7, self.sid, bytes(data)))
            raise ConnectionResetError(104, "reset by the scripted world: the node is down")
        late = self.w.call((7, self.sid, bytes(data)))
        r = self.w.addr_peer(getattr(self, "remote", None), bytes(data)) if self.w.addr_peer else self.w.reply_to(bytes(data))
        self.w.tags.append((self.sid, bytes(data), bytes(r)))
        self.w.sent_by_op.setdefault(self.w.current_op, []).append((self.sid, bytes(data)))
        self.avail += r
        self.owners += [self.w.current_op] * len(r)
        if late is not None:
            raise late

    def recv(self, size):
        self.w.trace.append((8, self.sid))
        w = self.w
        if w.cpos < len(w.choices):
            c = w.choices[w.cpos]
            w.cpos += 1
        else:
            c = 1 << 62
        if isinstance(c, tuple):
            w.faults.append((w.current_op, self.sid, 8, len(w.trace)))
            raise make_exc(c[0])
        if c is None:
            w.faults.append((w.current_op, self.sid, 8, len(w.trace)))
            return b""
        if c == 0:
            raise OSError(errno.EINTR, "interrupted")
        if not self.avail:
            self.w.blocked.append(self.w.current_op)
            if self.w.on_block:
                raise make_exc(TAGS[self.w.on_block])
            raise WouldBlock("recv would block: nothing owed by the peer")
        n = max(int(c), 1)
        out = bytes(self.avail[:n])
        for o in self.owners[:n]:
            if o != self.w.current_op:
                self.w.foreign.append((self.w.current_op, o, self.sid))
                break
        del self.avail[:n]
        del self.owners[:n]
        return out

    def close(self):
        self.closed = True
        self.w.call((9, self.sid))


class FakeSocketModule:
    AF_UNIX = real_socket.AF_UNIX
    AF_UNSPEC = real_socket.AF_UNSPEC
    SOCK_STREAM = real_socket.SOCK_STREAM
    IPPROTO_TCP = real_socket.IPPROTO_TCP
    TCP_NODELAY = real_socket.TCP_NODELAY
    error = OSError
    timeout = real_socket.timeout

    def __init__(self, world):
        self.w = world

    def getaddrinfo(self, host, port, *a):
        self.w.call((0,))
        return [(1000 + j, self.SOCK_STREAM, self.IPPROTO_TCP, "", (host, port, j)) for j in range(self.w.naddr)]

    def socket(self, family, type=None, proto=0):
        addr = -1 if family == self.AF_UNIX else family - 1000
        o = self.w.pop()
        if isinstance(o, tuple) and len(o) == 1:          # a late interruption means something only inside sendall
            self.w.trace.append((2, addr))
            raise make_exc(o[0])
        sid = self.w.next_sid
        self.w.next_sid += 1
        self.w.trace.append((1, sid, addr))
        return FakeSocket(self.w, sid, addr)


class FakeTLS:
    def __init__(self, world):
        self.w = world

    def wrap_socket(self, sock, server_hostname=None):
        o = self.w.pop()
        if isinstance(o, tuple) and len(o) == 1:
            self.w.trace.append((4, sock.sid, -1))
            raise make_exc(o[0])
        sid = self.w.next_sid
        self.w.next_sid += 1
        self.w.trace.append((4, sock.sid, sid))
        ws = FakeSocket(self.w, sid, sock.addr, avail=sock.avail)
        ws.owners = sock.owners
        sock.avail = bytearray()
        sock.owners = []
        ws.raw = sock
        return ws


# ---------------------------------------------------------------- configuration
def handler_kinds(repo=None):
    """Widest exception class caught by the outer cleanup handler of _fetch_cmd/_store_cmd/_misc_cmd (from source)."""
    repo = repo or core.REPO
    tree = ast.parse(open(os.path.join(repo, "pymemcache/client/base.py")).read())
    out = {}
    for n in ast.walk(tree):
        if isinstance(n, ast.FunctionDef) and n.name in ("_fetch_cmd", "_store_cmd", "_misc_cmd"):
            widest = None
            for s in n.body:
                if isinstance(s, ast.Try):
                    names = []
                    for h in s.handlers:
                        if h.type is None:
                            names.append("BaseException")
                        elif isinstance(h.type, ast.Name):
                            names.append(h.type.id)
                        elif isinstance(h.type, ast.Tuple):
                            names += [e.id for e in h.type.elts if isinstance(e, ast.Name)]
                    widest = "BaseException" if "BaseException" in names else ("Exception" if "Exception" in names else (names or [None])[0])
            out[n.name] = widest
    return out


DEFAULT_CFG = dict(tcp=True, naddr=1, nodelay=False, tls=False, keepalive=False, ignore_exc=False, prefix=b"",
                   default_noreply=True, unicode=False, enc=0, serde=0, ct=CONNECT_TIMEOUT, it=IO_TIMEOUT)


def cfg_list(cfg, hk=None):
    hk = hk or handler_kinds()
    c = dict(DEFAULT_CFG)
    c.update(cfg)
    t = lambda n: TAGS.get({"Exception": "Exception"}.get(n, n), 4)
    prefix = c["prefix"].encode("ascii") if isinstance(c["prefix"], str) else c["prefix"]      # a str prefix is encoded by the constructors
    return [c["tcp"], c["naddr"], c["nodelay"], c["tls"], c["keepalive"], c["ignore_exc"], prefix, c["default_noreply"],
            c["unicode"], c["enc"], c["serde"], t(hk["_fetch_cmd"]), t(hk["_store_cmd"]), t(hk["_misc_cmd"])]


def client_kwargs(cfg, world):
    from pymemcache.client.base import KeepaliveOpts
    from pymemcache import serde
    c = dict(DEFAULT_CFG)
    c.update(cfg)
    world.ct, world.it = c["ct"], c["it"]
    kw = dict(connect_timeout=c["ct"], timeout=c["it"], no_delay=c["nodelay"], ignore_exc=c["ignore_exc"],
              socket_module=FakeSocketModule(world), key_prefix=c["prefix"], default_noreply=c["default_noreply"],
              allow_unicode_keys=c["unicode"], encoding="ascii" if c["enc"] == 0 else "utf8")
    if c["keepalive"]:
        kw["socket_keepalive"] = KeepaliveOpts()
    if c["tls"]:
        kw["tls_context"] = FakeTLS(world)
    if c["serde"] == 1:
        kw["serde"] = serde.PickleSerde()
    elif c["serde"] >= 2:       # CompressedSerde around PickleSerde with the identity codec, min_compress_len = code - 2
        kw["serde"] = serde.CompressedSerde(compress=lambda b: b, decompress=lambda b: b, min_compress_len=c["serde"] - 2)
    server = ("mc.example", 11211) if c["tcp"] else "/tmp/mc.sock"
    if c.get("legacy"):                 # the older spelling of a serializer: one or both of two plain functions
        if "ser" in c["legacy"]:
            kw["serializer"] = lambda key, value: (value[::-1], 9) if isinstance(value, bytes) else (repr(value).encode(), 11)
        if "de" in c["legacy"]:
            kw["deserializer"] = lambda key, value, flags: ("decoded", value, flags)
    for name in c.get("omit", ()):      # options the constructor is NOT told: the class's own default applies (the cfg holds the documented one)
        kw.pop(name, None)
    return server, kw


# ---------------------------------------------------------------- operations
VERBS = ["set", "add", "replace", "append", "prepend"]


class OneShot:
    def __init__(self, keys):
        self.keys = keys

    def make(self):
        return iter(list(self.keys))


def seq(oneshot, keys):
    return iter(list(keys)) if oneshot else list(keys)


def apply_op(cl, op):
    code = op[0]
    if code == 0:
        _, verb, k, v, e, n, f = op
        return getattr(cl, VERBS[verb])(k, v, e, n, f)
    if code == 1:
        _, pairs, e, n, f = op
        return cl.set_many(dict(pairs), e, n, f)
    if code == 2:
        _, k, v, cs, e, n, f = op
        return cl.cas(k, v, cs, e, n, f)
    if code == 3:
        return cl.get(op[1], op[2])
    if code == 4:
        return cl.gets(op[1], op[2], op[3])
    if code == 5:
        return cl.gat(op[1], op[2], op[3])
    if code == 6:
        return cl.gats(op[1], op[2], op[3], op[4])
    if code == 7:
        return cl.get_many(seq(op[1], op[2]))
    if code == 8:
        return cl.gets_many(seq(op[1], op[2]))
    if code == 9:
        return cl.delete(op[1], op[2])
    if code == 10:
        return cl.delete_many(seq(op[1], op[2]), op[3])
    if code == 11:
        return cl.incr(op[1], op[2], op[3])
    if code == 12:
        return cl.decr(op[1], op[2], op[3])
    if code == 13:
        return cl.touch(op[1], op[2], op[3])
    if code == 14:
        return cl.flush_all(op[1], op[2])
    if code == 15:
        return cl.version()
    if code == 16:
        return cl.raw_command(op[1], op[2])
    if code == 17:
        return cl.quit()
    if code == 18:
        return cl._fetch_cmd(b"stats", list(op[1]), False)
    if code == 19:
        return cl.close()
    if code == 20:                          # the subscript forms
        return cl[op[1]]
    if code == 21:
        cl[op[1]] = op[2]
        return None
    if code == 22:
        del cl[op[1]]
        return None
    if code == 23:
        return cl.cache_memlimit(op[1])
    if code == 24:
        return cl.shutdown(op[1])
    raise ValueError(op)


def canon_value(v):
    """results -> comparable form shared with the model's decoding"""
    if isinstance(v, dict) or isinstance(v, core.PyDict):
        items = list(v.items()) if isinstance(v, dict) else list(v)
        return ("dict", sorted(((repr(k), canon_value(x)) for k, x in items)))
    if isinstance(v, tuple):
        return ("tuple", [canon_value(x) for x in v])
    if isinstance(v, list):
        return ("list", [canon_value(x) for x in v])
    if isinstance(v, bool) or v is None or isinstance(v, (int, bytes, str)):
        return (type(v).__name__, v)
    return ("other", repr(v))


def apply_op_kw(cl, op):
    """read operations with their defaults passed by keyword (the calling convention common to the client classes)"""
    code = op[0]
    if code == 3:
        return cl.get(op[1], default=op[2])
    if code == 4:
        return cl.gets(op[1], default=op[2], cas_default=op[3])
    if code == 5:
        return cl.gat(op[1], expire=op[2], default=op[3])
    if code == 6:
        return cl.gats(op[1], expire=op[2], default=op[3], cas_default=op[4])
    return apply_op(cl, op)


def run_impl(cfg, ops, script, choices=(), replies=(), make_client=None, peer=None, reply_by_op=None, apply=None, on_block=None):
    """Run the real Client; returns (results, trace, final sid, unused script items, unused choices, world)."""
    from pymemcache.client.base import Client
    c = dict(DEFAULT_CFG)
    c.update(cfg)
    world = World(script, choices, replies, c["naddr"], peer)
    world.on_block = on_block
    server, kw = client_kwargs(cfg, world)
    cl = make_client(server, kw) if make_client else Client(server, **kw)
    results = []
    world.bounds = []
    world.unread = []
    world.reply_by_op = reply_by_op
    for i, op in enumerate(ops):
        world.current_op = i
        try:
            results.append(("o", canon_value((apply or apply_op)(cl, op))))
        except BaseException as e:  # noqa
            results.append(("e", core.exn_name(e)))
        sk = getattr(cl, "sock", None)
        world.bounds.append((len(world.trace), getattr(sk, "sid", None)))
        world.unread.append((i, len(sk.avail) if hasattr(sk, "avail") else 0))
    sock = getattr(cl, "sock", None)
    if not hasattr(sock, "sid"):
        sock = None
    return (results, [tuple(e) for e in world.trace], (sock.sid if sock is not None else None),
            len(world.script) - world.pos, max(0, len(world.choices) - world.cpos),
            bytes(sock.avail) if sock is not None else b"", world)


def enc_script(script):
    """(tag,) = the call raises; (tag, "after") = it takes effect, then raises (OLate in the model)"""
    return [((o[0], 1) if isinstance(o, tuple) and len(o) == 2 else o) for o in script]


def model_req(cfg, ops, script, choices=(), replies=(), hk=None):
    return (1, (cfg_list(cfg, hk), [enc_op(o) for o in ops], enc_script(script), list(choices), list(replies)))


def enc_op(o):
    o = tuple(o)
    if o[0] == 1:
        return (1, [tuple(p) for p in o[1]], o[2], o[3], o[4])
    if o[0] in (7, 8):
        return (o[0], o[1], list(o[2]))
    if o[0] == 10:
        return (10, o[1], list(o[2]), o[3])
    if o[0] == 18:
        return (18, list(o[1]))
    return o


def decode_model(r):
    """-> (results, trace, sock, unused script, unused choices, avail on current socket, discarded bytes)"""
    if r[0] != "ok":
        return ("model-error", r)
    results, trace, sock, left, cleft, discarded, avail = r[1]
    res = []
    for kind, v in results:
        if kind == "o":
            res.append(("o", canon_value(v)))
        else:
            res.append(("e", core.EXN_NAMES[v]))
    return res, [tuple(e) for e in trace], sock, left, cleft, avail, discarded


# ---------------------------------------------------------------- PooledClient
def pool_handler_kind(repo=None):
    repo = repo or core.REPO
    tree = ast.parse(open(os.path.join(repo, "pymemcache/pool.py")).read())
    for n in ast.walk(tree):
        if isinstance(n, ast.FunctionDef) and n.name == "get_and_release":
            for s in n.body:
                if isinstance(s, ast.Try):
                    names = [("BaseException" if h.type is None else getattr(h.type, "id", "?")) for h in s.handlers]
                    return "BaseException" if "BaseException" in names else "Exception"
    return "Exception"


def apply_pooled_op(pc, op):
    """PooledClient has its own signatures; call it the way a user of Client would"""
    code = op[0]
    if code == 19:
        return pc.close()
    if code == 18:
        return pc.stats(*op[1])
    return apply_op(pc, op)


def run_pooled(cfg, pcfg, ops, script, choices=(), replies=(), clock=(), reply_by_op=None, apply=None):
    """Run the real PooledClient; -> (per-op (result, used, free), trace, unused script, unused choices, created, world)"""
    from pymemcache.client.base import PooledClient, Client
    c = dict(DEFAULT_CFG)
    c.update(cfg)
    world = World(script, choices, replies, c["naddr"])
    server, kw = client_kwargs(cfg, world)
    created = [0]

    class CountingClient(Client):
        def __init__(self, *a, **k):
            created[0] += 1
            Client.__init__(self, *a, **k)
    pmax, pidle = pcfg
    clk = list(clock)
    wall = [0]

    class FakeTime:
        """stands in for the `time` module inside pymemcache.pool while the pool is built: the pool picks its own idle clock
        (time.time, or float when pool_idle_timeout is 0 = never expire).  With a timeout the readings are the scripted ones;
        without one the wall clock still advances - a pool that looked at it would show."""
        @staticmethod
        def time():
            if pidle:
                return clk.pop(0) if clk else 0
            wall[0] += 1000
            return wall[0]
    import pymemcache.pool as pool_mod
    saved_time = pool_mod.time
    pool_mod.time = FakeTime
    try:
        p = PooledClient(server, max_pool_size=(pmax if pmax < 1 << 30 else None), pool_idle_timeout=pidle, **kw)
    finally:
        pool_mod.time = saved_time
    p.client_class = CountingClient
    results = []
    world.reply_by_op = reply_by_op
    for i, op in enumerate(ops):
        world.current_op = i
        try:
            r = ("o", canon_value((apply or apply_pooled_op)(p, op)))
        except BaseException as e:  # noqa
            r = ("e", core.exn_name(e))
        results.append((r, len(p.client_pool.used), len(p.client_pool.free)))
    return (results, [tuple(e) for e in world.trace], len(world.script) - world.pos, max(0, len(world.choices) - world.cpos),
            created[0], world, p)


def pooled_req(cfg, pcfg, ops, script, choices=(), replies=(), clock=(), hk=None, hp=None):
    hp = hp or pool_handler_kind()
    return (2, (cfg_list(cfg, hk), [pcfg[0], pcfg[1], TAGS.get(hp, 4)], [enc_op(o) for o in ops], enc_script(script), list(choices),
                list(replies), list(clock)))


def decode_pooled(r):
    if r[0] != "ok":
        return ("model-error", r)
    results, trace, left, cleft, created = r[1]
    res = []
    for (kind, v), u, f in results:
        res.append((("o", canon_value(v)) if kind == "o" else ("e", core.EXN_NAMES[v]), u, f))
    return res, [tuple(e) for e in trace], left, cleft, created
