"""Drive the REAL HashClient through the client_class seam (scripted stub inner clients) and a virtual clock,
on the same (config, servers, clock readings, inner-call outcomes, operations) the Coq model Model/Hash.v runs on."""
from harness import core
from harness.clientsim import TAGS, make_exc, canon_value

METHS = {0: "set", 1: "set_many", 2: "get_many", 3: "gets_many", 4: "delete", 5: "get", 6: "incr", 7: "touch", 8: "gets",
         9: "add", 10: "replace", 11: "cas", 12: "append", 13: "prepend", 14: "decr", 15: "gat", 16: "gats"}
CODE = {v: k for k, v in METHS.items()}


class VClock:
    def __init__(self, readings, last):
        self.r = list(readings)
        self.last = last
        self.n = 0

    def time(self):
        self.n += 1
        if self.r:
            self.last = self.r.pop(0)
        return self.last


def server_name(server):
    return "%s:%s" % server if isinstance(server, tuple) else server


def run_impl(cfg, servers, t0, times, outs, ops):
    """cfg = (retry_attempts, retry_timeout, dead_timeout, ignore_exc, prefix, unicode); servers: list of (host, port)/path
    -> (results, nodes, failed, dead, last_check, log)"""
    import pymemcache.client.hash as H
    ra, rt, dt, ign, prefix, uni = cfg
    clock = VClock(times, t0)
    outcomes = list(outs)
    log = []

    class Stub:
        def __init__(self, server, **kw):
            self.server = server

        def __getattr__(self, name):
            if name.startswith("__"):
                raise AttributeError(name)

            def method(*args, **kw):
                o = outcomes.pop(0) if outcomes else None
                ok = not (isinstance(o, tuple) and len(o) == 1 and isinstance(o[0], int))
                log.append((0, server_name(self.server), CODE.get(name, -1), [canon_value(a) for a in args] + ([canon_value(("KW", sorted(kw.items())))] if kw else []), ok, clock.last))
                if not ok:
                    raise make_exc(o[0])
                if name in ("get_many", "gets_many") and not isinstance(o, dict):
                    return {}
                if name == "set_many" and not isinstance(o, list):
                    return []
                return o
            return method

    class HC(H.HashClient):
        client_class = Stub
    saved = H.time
    H.time = clock
    try:
        clock.r.insert(0, t0)           # the constructor reads the clock once
        hc = HC(servers, retry_attempts=ra, retry_timeout=rt, dead_timeout=dt, ignore_exc=ign, key_prefix=prefix,
                allow_unicode_keys=uni)
        orig_remove, orig_add = hc.remove_server, hc.add_server

        def remove_server(server, port=None):
            orig_remove(server, port)
            log.append((1, server_name(server), clock.last))

        revive = [False]

        def add_server(server, port=None):
            orig_add(server, port)
            if revive[0]:
                log.append((2, server_name(server), clock.last))
        hc.remove_server, hc.add_server = remove_server, add_server
        revive[0] = True
        results = []
        for op in ops:
            try:
                if op[0] == 0:
                    r = hc._run_cmd(METHS[op[1]], op[2], op[3], *op[4])
                elif op[0] == 1:
                    r = hc.set_many(dict(op[1]), *op[2])
                    r = sorted(r, key=repr)
                elif op[0] == 2:
                    r = hc.get_many(list(op[2]), gets=bool(op[1]))
                elif op[0] == 3:
                    r = hc.delete_many(list(op[1]), *op[2])
                elif op[0] == 6:
                    # a PUBLIC pass-through method: (6, name, key, positional args, keyword args, default_val of the method)
                    r = getattr(hc, op[1])(op[2], *op[3], **dict(op[4]))
                elif op[0] == 5:
                    # a PUBLIC read method with keyword arguments: (5, name, key, kwargs, miss value per the property)
                    r = getattr(hc, op[1])(op[2], **dict(op[3]))
                else:
                    r = (clock.time(), None)[1]
                results.append(("o", canon_value(r)))
            except BaseException as e:  # noqa
                results.append(("e", core.exn_name(e)))
        nodes = list(hc.hasher.nodes)
        failed = sorted((server_name(k), v["attempts"], v["failed_time"]) for k, v in hc._failed_clients.items())
        dead = [(server_name(k), v) for k, v in hc._dead_clients.items()]
        return results, nodes, failed, dead, hc._last_dead_check_time, log
    finally:
        H.time = saved


def model_req(cfg, servers, t0, times, outs, ops):
    ra, rt, dt, ign, prefix, uni = cfg
    enc_ops = []
    for op in ops:
        if op[0] == 0:
            enc_ops.append((0, op[1], op[2], op[3], list(op[4])))
        elif op[0] == 1:
            enc_ops.append((1, core.PyDict(list(op[1])), list(op[2])))
        elif op[0] == 2:
            enc_ops.append((2, bool(op[1]), list(op[2])))
        elif op[0] == 3:
            enc_ops.append((3, list(op[1]), list(op[2])))
        elif op[0] == 6:
            enc_ops.append((0, CODE[op[1]], op[2], op[5], list(op[3]) + ([("KW", sorted(dict(op[4]).items()))] if op[4] else [])))
        elif op[0] == 5:
            # a faithful wrapper hands the inner client the caller's keyword arguments and falls back to the miss value
            enc_ops.append((0, CODE[op[1]], op[2], op[4], [("KW", sorted(dict(op[3]).items()))] if op[3] else []))
        else:
            enc_ops.append((4,))
    return (1, ([ra, rt, dt, ign, prefix, uni], [server_name(s) for s in servers], t0, list(times),
                [o if not (isinstance(o, tuple) and len(o) == 1 and isinstance(o[0], int)) else (o[0],) for o in outs], enc_ops))


def decode_model(r):
    if r[0] != "ok":
        return ("model-error", r)
    results, nodes, failed, dead, lc, log = r[1]
    res = []
    for kind, v in results:
        if kind == "o":
            if isinstance(v, list) and not isinstance(v, core.PyDict):
                v = sorted(v, key=repr) if all(not isinstance(x, tuple) for x in v) else v
            res.append(("o", canon_value(v)))
        else:
            res.append(("e", core.EXN_NAMES[v]))
    lg = []
    for e in log:
        if e[0] == 0:
            lg.append((0, e[1], e[2], [canon_value(a) for a in e[3]], e[4], e[5]))
        else:
            lg.append(tuple(e))
    return res, list(nodes), sorted(tuple(f) for f in failed), [tuple(d) for d in dead], lc, lg
