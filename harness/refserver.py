"""A small, strict, byte-level memcached (text protocol) used as the peer of the scripted socket world.
It is the Python twin of coq/Spec/Server.v (the two are compared on random command streams by the checks
that rely on it).  Strict: anything that is not exactly a well-formed command gets `ERROR`.

State: key -> (flags, exptime_abs or 0, data, cas_unique); a cas counter; a clock (seconds) advanced by the harness.
"""

MAX_KEY = 250
REL_LIMIT = 60 * 60 * 24 * 30


def is_key(k):
    """the documented key rule: 1..250 bytes, no whitespace, no NUL (as Spec/LegalKey.v)"""
    return 0 < len(k) <= MAX_KEY and not any(c in b" \t\n\r\x0b\x0c\x00" for c in k)


def udec(b, hi):
    """strict unsigned decimal: digits only"""
    return int(b) if b.isdigit() and int(b) <= hi else None


def dec(b, lo, hi):
    """strict unsigned/signed decimal"""
    if not b:
        return None
    neg = b[:1] == b"-"
    body = b[1:] if neg else b
    if not body or not body.isdigit():
        return None
    v = int(body)
    v = -v if neg else v
    return v if lo <= v <= hi else None


class Server:
    def __init__(self, now=1000):
        self.d = {}
        self.cas = 0
        self.now = now
        self.log = []           # parsed commands, in order: tuples
        self.pending = b""      # bytes of an incomplete command (a sendall need not end on a command boundary)

    # ---- item helpers
    def live(self, k):
        it = self.d.get(k)
        if it is None:
            return None
        if it[1] != 0 and it[1] <= self.now:
            del self.d[k]
            return None
        return it

    def abs_exp(self, e):
        if e == 0:
            return 0
        if e < 0:
            return -1               # already expired
        return e if e > REL_LIMIT else self.now + e

    def put(self, k, flags, exp, data):
        self.cas += 1
        e = self.abs_exp(exp)
        if e == -1:
            self.d.pop(k, None)
        else:
            self.d[k] = (flags, e, data, self.cas)

    # ---- one sendall
    def feed(self, data):
        """bytes in -> reply bytes out"""
        buf = self.pending + data
        out = b""
        while True:
            i = buf.find(b"\r\n")
            if i < 0:
                break
            line, rest = buf[:i], buf[i + 2:]
            parts = line.split(b" ")
            verb = parts[0]
            if verb in (b"set", b"add", b"replace", b"append", b"prepend", b"cas"):
                n = 6 if verb == b"cas" else 5
                noreply = len(parts) == n + 1 and parts[n] == b"noreply"
                ok = (len(parts) == n or noreply) and is_key(parts[1])
                fl = udec(parts[2], 2 ** 32 - 1) if ok else None
                ex = dec(parts[3], -2 ** 63, 2 ** 63 - 1) if ok else None
                ln = udec(parts[4], 2 ** 62) if ok else None
                cu = (parts[5] if parts[5].isdigit() else None) if ok and verb == b"cas" else 0
                if not ok or None in (fl, ex, ln, cu):
                    out += b"ERROR\r\n"
                    self.log.append(("bad", line))
                    buf = rest
                    continue
                if len(rest) < ln + 2:
                    break                   # wait for the data block
                block, tail = rest[:ln], rest[ln:ln + 2]
                buf = rest[ln + 2:]
                if tail != b"\r\n":
                    out += b"CLIENT_ERROR bad data chunk\r\n"
                    self.log.append(("bad", line))
                    continue
                self.log.append((verb.decode(), parts[1], fl, ex, block, cu if verb == b"cas" else None, noreply))
                r = self.store(verb, parts[1], fl, ex, block, int(cu))
                if not noreply:
                    out += r
                continue
            buf = rest
            if verb in (b"get", b"gets") and len(parts) >= 2 and all(is_key(k) for k in parts[1:]):
                self.log.append((verb.decode(), tuple(parts[1:])))
                out += self.fetch(parts[1:], verb == b"gets", None)
            elif verb in (b"gat", b"gats") and len(parts) >= 3 and dec(parts[1], -2 ** 63, 2 ** 63 - 1) is not None \
                    and all(is_key(k) for k in parts[2:]):
                self.log.append((verb.decode(), dec(parts[1], -2 ** 63, 2 ** 63 - 1), tuple(parts[2:])))
                out += self.fetch(parts[2:], verb == b"gats", dec(parts[1], -2 ** 63, 2 ** 63 - 1))
            elif verb == b"delete" and len(parts) in (2, 3) and is_key(parts[1]) and (len(parts) == 2 or parts[2] == b"noreply"):
                self.log.append(("delete", parts[1], len(parts) == 3))
                r = b"DELETED\r\n" if self.live(parts[1]) else b"NOT_FOUND\r\n"
                self.d.pop(parts[1], None)
                out += b"" if len(parts) == 3 else r
            elif verb in (b"incr", b"decr") and len(parts) in (3, 4) and is_key(parts[1]) and udec(parts[2], 2 ** 64 - 1) is not None \
                    and (len(parts) == 3 or parts[3] == b"noreply"):
                delta = udec(parts[2], 2 ** 64 - 1)
                self.log.append((verb.decode(), parts[1], delta, len(parts) == 4))
                it = self.live(parts[1])
                if it is None:
                    r = b"NOT_FOUND\r\n"
                elif not it[2].isdigit() or int(it[2]) >= 2 ** 64:
                    r = b"CLIENT_ERROR cannot increment or decrement non-numeric value\r\n"
                else:
                    cur = int(it[2])
                    cur = (cur + delta) % 2 ** 64 if verb == b"incr" else max(0, cur - delta)
                    self.cas += 1
                    self.d[parts[1]] = (it[0], it[1], str(cur).encode(), self.cas)
                    r = str(cur).encode() + b"\r\n"
                out += b"" if len(parts) == 4 else r
            elif verb == b"touch" and len(parts) in (3, 4) and is_key(parts[1]) and dec(parts[2], -2 ** 63, 2 ** 63 - 1) is not None \
                    and (len(parts) == 3 or parts[3] == b"noreply"):
                ex = dec(parts[2], -2 ** 63, 2 ** 63 - 1)
                self.log.append(("touch", parts[1], ex, len(parts) == 4))
                it = self.live(parts[1])
                if it is None:
                    r = b"NOT_FOUND\r\n"
                else:
                    self.retime(parts[1], it, ex)
                    r = b"TOUCHED\r\n"
                out += b"" if len(parts) == 4 else r
            elif verb == b"flush_all" and len(parts) in (2, 3) and udec(parts[1], float('inf')) is not None \
                    and (len(parts) == 2 or parts[2] == b"noreply"):
                # strict: the delay is required (the client always sends it)
                nr = len(parts) == 3
                delay = udec(parts[1], float('inf'))      # protocol.txt gives the delay no upper bound
                self.log.append(("flush_all", delay, nr))
                if delay == 0:
                    self.d.clear()
                out += b"" if nr else b"OK\r\n"
            elif line == b"version":
                self.log.append(("version",))
                out += b"VERSION 1.6.21\r\n"
            elif line == b"quit":
                self.log.append(("quit",))
            else:
                self.log.append(("bad", line))
                out += b"ERROR\r\n"
        self.pending = buf
        return out

    def retime(self, k, it, ex):
        e = self.abs_exp(ex)
        if e == -1:
            self.d.pop(k, None)
        else:
            self.d[k] = (it[0], e, it[2], it[3])

    def store(self, verb, k, fl, ex, data, cu):
        it = self.live(k)
        if verb == b"set":
            self.put(k, fl, ex, data)
            return b"STORED\r\n"
        if verb == b"add":
            if it is not None:
                return b"NOT_STORED\r\n"
            self.put(k, fl, ex, data)
            return b"STORED\r\n"
        if verb == b"replace":
            if it is None:
                return b"NOT_STORED\r\n"
            self.put(k, fl, ex, data)
            return b"STORED\r\n"
        if verb in (b"append", b"prepend"):
            if it is None:
                return b"NOT_STORED\r\n"
            self.cas += 1
            self.d[k] = (it[0], it[1], it[2] + data if verb == b"append" else data + it[2], self.cas)
            return b"STORED\r\n"
        if it is None:
            return b"NOT_FOUND\r\n"
        if it[3] != cu:
            return b"EXISTS\r\n"
        self.put(k, fl, ex, data)
        return b"STORED\r\n"

    def fetch(self, keys, cas, touch):
        out = b""
        for k in keys:
            it = self.live(k)
            if it is None:
                continue
            out += b"VALUE " + k + b" " + str(it[0]).encode() + b" " + str(len(it[2])).encode()
            if cas:
                out += b" " + str(it[3]).encode()
            out += b"\r\n" + it[2] + b"\r\n"
            if touch is not None:
                self.retime(k, it, touch)       # the item is returned, then carries the new expiry
        return out + b"END\r\n"
