"""Shared machinery of ./check: regenerate, build, audit, extraction driver, evidence, verdicts."""
import fcntl
import glob
import hashlib
import json
import os
import re
import subprocess
import sys
import time

ROOT = os.path.dirname(os.path.dirname(os.path.abspath(__file__)))
REPO = os.environ.get("VERIF_REPO", "/repo")
COQ = os.path.join(ROOT, "coq")
BUILD = os.path.join(ROOT, "build")
GEN = os.path.join(COQ, "Gen")
PY = sys.executable
GUARD = "PYMEMCACHE_VERIF"
FORBIDDEN = re.compile(
    r"\b(Admitted|admit|Axiom|Axioms|Parameter|Parameters|Conjecture|Conjectures|Admit Obligations|"
    r"Unset Guard Checking|Unset Positivity Checking|Unset Universe Checking|bypass_check|"
    r"native_compute|type-in-type|impredicative-set)\b")
# axioms of the standard library that a theorem may depend on (none are expected; see DESIGN.md 4)
STDLIB_AXIOMS = {"functional_extensionality_dep", "proof_irrelevance", "classic", "JMeq_eq",
                 "Eqdep.Eq_rect_eq.eq_rect_eq", "eq_rect_eq", "propositional_extensionality"}

os.makedirs(BUILD, exist_ok=True)


class Lock:
    def __init__(self, name="build"):
        self.path = os.path.join(BUILD, "." + name + ".lock")

    def __enter__(self):
        self.fh = open(self.path, "w")
        fcntl.flock(self.fh, fcntl.LOCK_EX)
        return self

    def __exit__(self, *a):
        fcntl.flock(self.fh, fcntl.LOCK_UN)
        self.fh.close()


def run(cmd, timeout, cwd=None, env=None, input=None):
    e = dict(os.environ)
    if env:
        e.update(env)
    try:
        p = subprocess.run(cmd, cwd=cwd, env=e, input=input, stdout=subprocess.PIPE, stderr=subprocess.STDOUT,
                           timeout=timeout, text=True)
        return p.returncode, p.stdout
    except subprocess.TimeoutExpired as ex:
        out = ex.stdout if isinstance(ex.stdout, str) else (ex.stdout or b"").decode("utf8", "replace")
        return 124, (out or "") + "\nTIMEOUT after %ss: %s" % (timeout, cmd)


# --------------------------------------------------------------------------- regenerate
def regen(targets):
    """Run the translator for the given Gen targets against REPO. Returns (ok, log)."""
    if not targets:
        return True, ""
    rc, out = run([PY, os.path.join(ROOT, "tools/py2coq/gen.py"), REPO, GEN] + list(targets), 120)
    return rc == 0, out


# --------------------------------------------------------------------------- build
def coq_files():
    lines = open(os.path.join(COQ, "_CoqProject")).read().split("\n")
    return [l.strip() for l in lines if l.strip().endswith(".v")]


def ensure_makefile():
    mk = os.path.join(COQ, "Makefile")
    cp = os.path.join(COQ, "_CoqProject")
    if not os.path.exists(mk) or os.path.getmtime(mk) < os.path.getmtime(cp):
        run(["coq_makefile", "-f", "_CoqProject", "-o", "Makefile"], 60, cwd=COQ)


def build(vo_targets, timeout=900):
    """Full .vo build (never -vos) of the given targets and their cones. Returns (ok, log)."""
    ensure_makefile()
    # missing generated files would make coqdep fail for every target: give make only what exists
    missing = [f for f in coq_files() if not os.path.exists(os.path.join(COQ, f))]
    if missing:
        # a refused translation removed a Gen file: any target depending on it cannot be built
        pass
    for f in glob.glob(os.path.join(COQ, ".Makefile.d")):
        os.remove(f)
    rc, out = run(["make", "-j16", "-k"] + list(vo_targets), timeout, cwd=COQ)
    return rc == 0, out


def failing_units(log):
    bad = []
    for m in re.finditer(r'File "\./([^"]+)", line (\d+), characters [\d-]+:\nError:?\s*(.*)', log):
        bad.append({"file": m.group(1), "line": int(m.group(2)), "error": m.group(3)[:300]})
    for m in re.finditer(r"No rule to make target '([^']+)'", log):
        bad.append({"file": m.group(1), "line": 0, "error": "missing (translation refused?)"})
    return bad


def lemma_at(vfile, line):
    """Name of the Lemma/Theorem enclosing a line of a .v file."""
    try:
        src = open(os.path.join(COQ, vfile)).read().split("\n")
    except OSError:
        return None
    for i in range(min(line, len(src)) - 1, -1, -1):
        m = re.match(r"\s*(Lemma|Theorem|Corollary|Example|Definition|Fixpoint|Fact|Remark)\s+([A-Za-z0-9_']+)", src[i])
        if m:
            return m.group(2)
    return None


def count_obligations(vfiles):
    n = 0
    for f in vfiles:
        try:
            n += len(re.findall(r"\bQed\.", open(os.path.join(COQ, f)).read()))
        except OSError:
            pass
    return n


def cone(vfile, seen=None):
    """Transitive PM.* dependencies of a .v file (by scanning Require lines)."""
    seen = seen if seen is not None else []
    if vfile in seen:
        return seen
    seen.append(vfile)
    try:
        src = open(os.path.join(COQ, vfile)).read()
    except OSError:
        return seen
    src = re.sub(r"\(\*.*?\*\)", "", src, flags=re.S)
    for m in re.finditer(r"From PM Require(?: Import| Export)?\s+(.+?)\.\s*\n", src, re.S):
        for mod in m.group(1).split():
            path = mod.replace(".", "/") + ".v"
            cone(path, seen)
    return seen


# --------------------------------------------------------------------------- audit
def strip_comments(s):
    out = []
    depth = 0
    i = 0
    while i < len(s):
        if s.startswith("(*", i):
            depth += 1
            i += 2
        elif s.startswith("*)", i) and depth:
            depth -= 1
            i += 2
        else:
            if not depth:
                out.append(s[i])
            i += 1
    return "".join(out)


def forbidden_scan(vfiles):
    hits = []
    for f in vfiles:
        try:
            src = strip_comments(open(os.path.join(COQ, f)).read())
        except OSError:
            continue
        for m in FORBIDDEN.finditer(src):
            hits.append("%s: %s" % (f, m.group(0)))
        if re.search(r"^\s*(Variable|Hypothesis|Variables|Hypotheses|Context)\b", src, re.M):
            # allowed only inside a Section
            depth = 0
            for line in src.split("\n"):
                if re.match(r"\s*Section\b", line):
                    depth += 1
                elif re.match(r"\s*End\b", line) and depth:
                    depth -= 1
                elif re.match(r"\s*(Variable|Hypothesis|Variables|Hypotheses|Context)\b", line) and depth == 0:
                    hits.append("%s: top-level %s" % (f, line.strip()[:60]))
    return hits


def print_assumptions(prop, module, theorems):
    """Returns {theorem: 'closed' | [axioms...] | 'ERROR ...'} using a fresh coqc run on the compiled cone."""
    path = os.path.join(BUILD, "audit_%s.v" % prop)
    with open(path, "w") as fh:
        fh.write("From PM Require Import %s.\n" % module)
        for t in theorems:
            fh.write('Goal True. idtac "@@ %s". exact I. Qed.\nPrint Assumptions %s.\n' % (t, t))
    rc, out = run(["coqc", "-Q", COQ, "PM", path], 300, cwd=BUILD)
    res = {}
    if rc != 0:
        return {t: "ERROR " + out[-300:] for t in theorems}
    parts = re.split(r"@@ (\S+)\n", out)
    for i in range(1, len(parts), 2):
        name, body = parts[i], parts[i + 1]
        if "Closed under the global context" in body:
            res[name] = "closed"
        else:
            axs = re.findall(r"^([A-Za-z0-9_.']+)\s*:", body, re.M)
            res[name] = axs or ("ERROR " + body[:200])
    for t in theorems:
        res.setdefault(t, "ERROR no output")
    return res


def coqchk(modules, timeout=1500):
    rc, out = run(["coqchk", "-silent", "-o", "-Q", COQ, "PM"] + modules, timeout, cwd=COQ)
    return rc == 0, out


# --------------------------------------------------------------------------- extraction driver
def file_hash(paths):
    h = hashlib.sha256()
    for p in paths:
        try:
            h.update(open(p, "rb").read())
        except OSError:
            h.update(b"<missing>")
    return h.hexdigest()


def build_driver(name):
    """Extract coq/Extract/D_<name>.v to OCaml and link it with the generic driver. Returns (ok, exe|log)."""
    d = os.path.join(BUILD, "ocaml", name)
    os.makedirs(d, exist_ok=True)
    vfile = "Extract/%s.v" % name
    ok, log = build([vfile + "o"])
    if not ok:
        return False, log
    ml = os.path.join(d, "model.ml")
    # extraction happens while compiling D_<name>.v (writes into build/ocaml/<name>/model.ml via cwd trick below)
    ext = os.path.join(d, "extract.v")
    with open(ext, "w") as fh:
        fh.write("From Coq Require Extraction ExtrOcamlBasic.\n"
                 "From PM Require Import Lib.Py Extract.%s.\n" % name)
        fh.write("Extraction Language OCaml.\n"
                 "Extraction \"model.ml\" dispatch zadd zmul str_of_Z exn_tag.\n")
    stamp = os.path.join(d, "stamp")
    dep = [os.path.join(COQ, vfile + "o"), os.path.join(ROOT, "coq/Extract/ocaml/driver.ml")]
    hsh = file_hash(dep)
    exe = os.path.join(d, "driver")
    if os.path.exists(stamp) and open(stamp).read() == hsh and os.path.exists(exe):
        return True, exe
    rc, out = run(["coqc", "-Q", COQ, "PM", "extract.v"], 300, cwd=d)
    if rc != 0 or not os.path.exists(ml):
        return False, out
    rc, out2 = run(["ocamlfind", "ocamlopt", "-O3" if False else "-unsafe", "-package", "str", "-linkpkg",
                    "model.mli", "model.ml", os.path.join(ROOT, "coq/Extract/ocaml/driver.ml"), "-o", "driver"],
                   300, cwd=d)
    if rc != 0:
        return False, out + out2
    open(stamp, "w").write(hsh)
    return True, exe


# ---- value <-> token encoding (see coq/Extract/ocaml/driver.ml)
class Opaque:
    def __init__(self, id):
        self.id = id

    def __eq__(self, o):
        return isinstance(o, Opaque) and o.id == self.id

    def __hash__(self):
        return hash(("Opaque", self.id))

    def __repr__(self):
        return "Opaque(%d)" % self.id


class PyDict(list):
    """insertion-ordered dict rendered as a list of (k, v) pairs"""


def enc(v, out):
    if v is None:
        out.append("N")
    elif v is True:
        out.append("T")
    elif v is False:
        out.append("F")
    elif isinstance(v, int):
        out.append("I")
        out.append(str(v))
    elif isinstance(v, str):
        out.append("S")
        out.append(str(len(v)))
        out.extend(str(ord(c)) for c in v)
    elif isinstance(v, (bytes, bytearray)):
        out.append("B")
        out.append(str(len(v)))
        out.extend(str(c) for c in v)
    elif isinstance(v, PyDict) or isinstance(v, dict):
        items = list(v.items()) if isinstance(v, dict) else list(v)
        out.append("D")
        out.append(str(len(items)))
        for k, x in items:
            enc((k, x), out)
    elif isinstance(v, list):
        out.append("L")
        out.append(str(len(v)))
        for x in v:
            enc(x, out)
    elif isinstance(v, tuple):
        out.append("U")
        out.append(str(len(v)))
        for x in v:
            enc(x, out)
    elif isinstance(v, Opaque):
        out.append("O")
        out.append(str(v.id))
    else:
        raise TypeError("cannot encode %r" % (v,))


def dec(toks, i):
    t = toks[i]
    if t == "N":
        return None, i + 1
    if t == "T":
        return True, i + 1
    if t == "F":
        return False, i + 1
    if t == "I":
        return int(toks[i + 1]), i + 2
    if t == "O":
        return Opaque(int(toks[i + 1])), i + 2
    n = int(toks[i + 1])
    i += 2
    if t == "S":
        return "".join(chr(int(x)) if 0 <= int(x) < 0x110000 else "�" for x in toks[i:i + n]), i + n
    if t == "B":
        return bytes(int(x) & 255 for x in toks[i:i + n]), i + n
    items = []
    for _ in range(n):
        x, i = dec(toks, i)
        items.append(x)
    if t == "L":
        return items, i
    if t == "U":
        return tuple(items), i
    if t == "D":
        return PyDict(items), i
    raise ValueError("bad token %r" % t)


class Driver:
    """Persistent extracted-model process. call(fid, args) -> ("ok", value) | ("ex", name)."""

    def __init__(self, exe, exn_names):
        self.p = subprocess.Popen([exe], stdin=subprocess.PIPE, stdout=subprocess.PIPE, text=True, bufsize=1 << 16)
        self.exn_names = exn_names
        self.calls = 0

    def send(self, fid, args):
        out = [str(fid), str(len(args))]
        for a in args:
            enc(a, out)
        self.p.stdin.write(" ".join(out) + "\n")

    def recv(self):
        line = self.p.stdout.readline()
        if not line:
            raise RuntimeError("driver died")
        toks = line.split()
        self.calls += 1
        if toks[0] == "OK":
            v, _ = dec(toks, 1)
            return ("ok", v)
        if toks[0] == "EX":
            return ("ex", self.exn_names[int(toks[1])])
        raise RuntimeError("driver: " + line)

    def call(self, fid, *args):
        self.send(fid, args)
        self.p.stdin.flush()
        return self.recv()

    def call_many(self, reqs):
        """Pipelined batch: a reader thread drains replies while requests are written (no pipe deadlock)."""
        import threading
        res = []
        err = []

        def reader():
            try:
                for _ in reqs:
                    res.append(self.recv())
            except Exception as e:   # noqa
                err.append(e)
        th = threading.Thread(target=reader, daemon=True)
        th.start()
        for fid, args in reqs:
            self.send(fid, args)
        self.p.stdin.flush()
        th.join()
        if err:
            raise err[0]
        return res

    def close(self):
        try:
            self.p.stdin.close()
            self.p.wait(timeout=5)
        except Exception:
            self.p.kill()


EXN_NAMES = ["BaseException", "KeyboardInterrupt", "SystemExit", "GreenletTimeout", "Exception", "ValueError",
             "TypeError", "IndexError", "KeyError", "AttributeError", "RuntimeError", "AssertionError",
             "UnicodeError", "UnicodeEncodeError", "UnicodeDecodeError", "OSError", "ConnectionRefusedError",
             "ConnectionResetError", "SocketTimeout", "GaiError", "MemcacheError", "MemcacheClientError",
             "MemcacheUnknownCommandError", "MemcacheIllegalInputError", "MemcacheServerError",
             "MemcacheUnknownError", "MemcacheUnexpectedCloseError", "WouldBlock"]


def exn_name(e):
    """Map a Python exception instance to the model's exception enum (nearest modelled class in the MRO)."""
    import socket
    for c in type(e).__mro__:
        n = c.__name__
        if c is socket.timeout or n == "timeout" or n == "TimeoutError":
            return "SocketTimeout"
        if c is socket.gaierror:
            return "GaiError"
        if n in EXN_NAMES:
            return n
    return "BaseException"


def get_driver(name):
    ok, exe = build_driver(name)
    if not ok:
        return None, exe
    return Driver(exe, EXN_NAMES), ""


# --------------------------------------------------------------------------- known findings / verdicts
def known_findings():
    p = os.path.join(ROOT, "known_findings.json")
    if not os.path.exists(p):
        return {"findings": [], "fixed": []}
    return json.load(open(p))


def write_replay(prop, obj):
    d = os.path.join(ROOT, "replays")
    os.makedirs(d, exist_ok=True)
    n = 0
    while os.path.exists(os.path.join(d, "%s-%d.json" % (prop, n))):
        n += 1
    path = os.path.join(d, "%s-%d.json" % (prop, n))
    obj = dict(obj)
    obj["property"] = prop
    obj["repo"] = REPO
    with open(path, "w") as fh:
        json.dump(obj, fh, indent=1, default=repr)
    return path


def write_evidence(prop, tier, seed, level, coverage, assumptions, wall, violations):
    # evidence under /verif/evidence always describes /repo itself; runs against another tree (VERIF_REPO) keep theirs apart
    d = os.path.join(ROOT, "evidence") if (os.path.realpath(REPO) == "/repo" and not os.environ.get("VERIF_SCRATCH_EVIDENCE")) \
        else os.path.join(BUILD, "evidence-other-tree")
    os.makedirs(d, exist_ok=True)
    ev = {"property_id": prop, "tier": tier, "seed": seed, "level": level, "coverage": coverage,
          "assumptions": assumptions, "wall_s": round(wall, 2), "violations": violations}
    with open(os.path.join(d, prop + ".json"), "w") as fh:
        json.dump(ev, fh, indent=1, default=repr)
    return ev
