#!/bin/sh
# MANIFEST.setup_cmd: build the framework from files on disk only (offline).
set -e
cd "$(dirname "$0")"
REPO="${VERIF_REPO:-/repo}"
mkdir -p build coq/Gen
/venv/bin/python tools/py2coq/gen.py "$REPO" coq/Gen $(/venv/bin/python -c "import sys; sys.path.insert(0,'tools/py2coq'); import gen; 
try:
    import gen_more
except ImportError: pass
print(' '.join(gen.TARGETS))") || true
cd coq
coq_makefile -f _CoqProject -o Makefile >/dev/null
timeout 3000 make -j16 -k >/dev/null 2>../build/setup.make.log || { tail -30 ../build/setup.make.log; echo "setup: some Coq files did not build (checks will report them)"; }
echo setup done
