#!/bin/sh
# usage: coqgoal.sh <file.v relative to coq/> <line>  -- prints the proof state just before that line
cd /verif/coq
head -n $(($2 - 1)) "$1" > /tmp/_goal.v
echo "Show." >> /tmp/_goal.v
coqtop -Q . PM -batch -l /tmp/_goal.v 2>&1 | tail -${3:-40}
