#!/bin/sh
# every thorough check, sequentially; evidence of the thorough tier replaces the quick one, so run tools/runall.sh afterwards
cd /verif
for p in C01 C02 C03 C04 C05 C06 C07 C08 C09 C10 C11 C12 C13 C14 C15 C16 C17 C18 C19 C20; do
  /usr/bin/time -f "$p %es" ./check $p --tier thorough 2>&1 | grep -v "^KNOWN" | tail -3
done
