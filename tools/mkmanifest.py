#!/usr/bin/env python3
"""Writes MANIFEST.json from harness/props/*.py metadata (single source of truth)."""
import importlib, json, os, sys
ROOT = os.path.dirname(os.path.dirname(os.path.abspath(__file__)))
sys.path.insert(0, ROOT)
ALL = ["C%02d" % i for i in range(1, 21)]
checks, na = [], []
for p in ALL:
    path = os.path.join(ROOT, "harness/props/%s.py" % p)
    if not os.path.exists(path):
        na.append({"property_id": p, "reason": "not yet built in this revision (Coq model and check under construction; see DESIGN.md section 5); not claimed"})
        continue
    m = importlib.import_module("harness.props." + p)
    checks.append({
        "property_id": p,
        "quick_cmd": "./check %s --tier quick" % p,
        "thorough_cmd": "./check %s --tier thorough" % p,
        "evidence_file": "/verif/evidence/%s.json" % p,
        "replay_cmd_template": "./check %s --replay {path}" % p,
        "engine": "coq",
        "level_claimed": {"category": "proof", "text": m.LEVEL_TEXT, "design_ref": "DESIGN.md section 5, " + p},
        "level_note": m.LEVEL_NOTE,
        "technique": m.TECHNIQUE,
    })
man = {
    "version": 1,
    "setup_cmd": "./setup.sh",
    "hooks": {"guard": "PYMEMCACHE_VERIF", "enable": "export PYMEMCACHE_VERIF=1 (no hook exists in /repo: the seams socket_module, client_class, lock_generator, hasher and module-level time/sleep suffice)",
              "baseline_off_cmd": "cd /repo && env -u PYMEMCACHE_VERIF /venv/bin/python -m pytest -ra -q -p no:cacheprovider --timeout=900 --continue-on-collection-errors",
              "source_commits": [], "add_only": True},
    "engines": [{"name": "coq", "path": "/verif/coq", "serves_properties": [c["property_id"] for c in checks],
                 "kind_free_text": "Coq 8.16.1 development: models regenerated from source by tools/py2coq (T) or hand-written and run against the implementation through extraction to OCaml (C); theorems in coq/Properties"}],
    "checks": checks,
    "not_applicable": na,
    "notes": "One entry point ./check <id>. Every run regenerates coq/Gen from /repo (or $VERIF_REPO), rebuilds the proof cone with a full .vo make, audits Print Assumptions, runs the model/implementation correspondence and the implementation-level search. See DESIGN.md.",
}
json.dump(man, open(os.path.join(ROOT, "MANIFEST.json"), "w"), indent=1)
print("checks:", [c["property_id"] for c in checks], "n/a:", len(na))
