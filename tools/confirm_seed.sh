#!/bin/sh
# confirm a sub-agent's mutant in its scratch worktree: tests pass with it, demo fails with it and passes without it
id=$1; d=/tmp/wt/$id
cd $d || exit 2
t=$(/venv/bin/python -m pytest -q -p no:cacheprovider --timeout=900 -q 2>&1 | tail -1)
PYTHONPATH=$d /venv/bin/python demo_$id.py >/tmp/wt/$id.demo_with.log 2>&1; with=$?
git stash -q -- pymemcache
PYTHONPATH=$d /venv/bin/python demo_$id.py >/tmp/wt/$id.demo_without.log 2>&1; without=$?
git stash pop -q
echo "$id tests: $t | demo with change: exit $with | without: exit $without"
