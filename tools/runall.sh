#!/bin/sh
# run every registered check (quick tier by default) on /repo and validate MANIFEST + evidence
cd "$(dirname "$0")/.."
TIER="${1:-quick}"
rc=0
for p in $(python3 -c "import json; print(' '.join(c['property_id'] for c in json.load(open('MANIFEST.json'))['checks']))"); do
  ./check $p --tier $TIER | grep -E "^(VIOLATION|KNOWN-FINDING|C[0-9]+ (ok|FAIL))" || rc=1
done
python3-vt - <<'PY'
import json, jsonschema, sys
man = json.load(open('/verif/MANIFEST.json'))
jsonschema.validate(man, json.load(open('/root/.vp/MANIFEST.schema.json')))
sch = json.load(open('/root/.vp/EVIDENCE.schema.json'))
bad = 0
for c in man['checks']:
    try:
        ev = json.load(open(c['evidence_file']))
        jsonschema.validate(ev, sch)
        cov = ev['coverage']
        assert cov['discharged'] == cov['obligations'] >= 1, "discharged != obligations"
        assert ev.get('violations', 0) == 0, "violations recorded"
    except Exception as e:
        bad += 1
        print("EVIDENCE PROBLEM", c['property_id'], str(e)[:200])
print("manifest+evidence:", "ok" if not bad else "%d problems" % bad)
sys.exit(1 if bad else 0)
PY
