#!/bin/sh
# like seed_regress.sh with N workers: each works in its own copy of /verif and its own scratch worktree of /repo (both under /tmp,
# removed at the end); /repo and /verif themselves are not touched.  Result: build/seed_regress.txt
N=${1:-6}
cd /verif
ls -d seeded/*/ | sed 's#seeded/##; s#/##' > /tmp/sr_all.txt
i=0
while [ $i -lt $N ]; do
  rm -rf /tmp/sr_verif_$i /tmp/sr_repo_$i
  cp -a /verif /tmp/sr_verif_$i
  git -C /repo worktree add -q --detach /tmp/sr_repo_$i HEAD
  awk -v n=$N -v i=$i 'NR % n == i' /tmp/sr_all.txt > /tmp/sr_list_$i.txt
  ( cd /tmp/sr_verif_$i
    while read id; do
      p=${id%-*}
      if ! git -C /tmp/sr_repo_$i apply --check /verif/seeded/$id/patch.diff 2>/dev/null; then echo "$id: PATCH DOES NOT APPLY"; continue; fi
      git -C /tmp/sr_repo_$i apply /verif/seeded/$id/patch.diff
      out=$(VERIF_REPO=/tmp/sr_repo_$i VERIF_SCRATCH_EVIDENCE=1 ./check $p 2>&1 | grep "^VIOLATION" | head -1)
      git -C /tmp/sr_repo_$i checkout -- .
      echo "$id: ${out:-NOT DETECTED}"
    done < /tmp/sr_list_$i.txt > /tmp/sr_out_$i.txt 2>&1 ) &
  i=$((i+1))
done
wait
mkdir -p /verif/build
cat /tmp/sr_out_*.txt | sort > /verif/build/seed_regress.txt
i=0
while [ $i -lt $N ]; do
  git -C /repo worktree remove --force /tmp/sr_repo_$i
  rm -rf /tmp/sr_verif_$i /tmp/sr_list_$i.txt /tmp/sr_out_$i.txt
  i=$((i+1))
done
git -C /repo worktree prune
rm -f /tmp/sr_all.txt
grep -c . /verif/build/seed_regress.txt
grep -v "replay=[^ ]*$" /verif/build/seed_regress.txt
