#!/bin/sh
# usage: take_seed2.sh <prop> <suffix> <worktree>   like take_seed.sh, but runs the check against the worktree itself
# (VERIF_REPO) instead of applying the patch to /repo; /repo is only used to check that the stored patch applies
p=$1; sfx=$2; d=$3; id=$p-$sfx
cd $d || exit 2
t=$(/venv/bin/python -m pytest -q -p no:cacheprovider --timeout=900 -q 2>&1 | tail -1)
PYTHONPATH=$d /venv/bin/python demo_$p.py >/tmp/$id.with.log 2>&1; with=$?
git diff -- pymemcache > /tmp/$id.patch
# (no `git stash`: the stash is shared by every worktree of the repository)
git apply -R /tmp/$id.patch
PYTHONPATH=$d /venv/bin/python demo_$p.py >/tmp/$id.without.log 2>&1; without=$?
git apply /tmp/$id.patch
echo "$id tests: $t | demo with change: exit $with | without: exit $without"
case "$t" in *" passed"*) ;; *) echo "NOT CONFIRMED: tests"; exit 1;; esac
[ $with -ne 0 ] && [ $without -eq 0 ] || { echo "NOT CONFIRMED: demo"; exit 1; }
mkdir -p /verif/seeded/$id
cp /tmp/$id.patch /verif/seeded/$id/patch.diff
cp $d/demo_$p.py /verif/seeded/$id/
git -C /repo apply --check /verif/seeded/$id/patch.diff || { echo "patch does not apply to /repo"; exit 1; }
(cd /verif && VERIF_REPO=$d ./check $p 2>&1 | tail -4) | tee /tmp/$id.check.log
python3 /verif/tools/py2coq/gen.py /repo /verif/coq/Gen Murmur3 KeyCheck Rendezvous CallSites Handlers Wrappers PoolLocks Subscripts Aliases Fallback >/dev/null
