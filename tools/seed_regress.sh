#!/bin/sh
# apply every seeded change to /repo in turn, run its property's quick check, expect a VIOLATION with a replay; undo
cd /verif
for d in seeded/*/; do
  id=$(basename $d); p=${id%-*}
  if ! git -C /repo apply --check /verif/$d/patch.diff 2>/dev/null; then echo "$id: PATCH DOES NOT APPLY"; continue; fi
  git -C /repo apply /verif/$d/patch.diff
  out=$(VERIF_SCRATCH_EVIDENCE=1 ./check $p 2>&1 | grep "^VIOLATION" | head -1)
  git -C /repo checkout -- .
  echo "$id: ${out:-NOT DETECTED}"
done
git -C /repo status --short
# leave coq/Gen as generated from /repo itself (a run against a changed tree may have left a refusal stub behind)
python3 tools/py2coq/gen.py /repo coq/Gen Murmur3 KeyCheck Rendezvous CallSites Handlers Wrappers PoolLocks Subscripts Aliases Fallback >/dev/null
