#!/bin/sh
# usage: seed_run.sh <seed dir name> <property ...>: apply seeded/<name>/patch.diff to /repo, run the quick checks, undo
name=$1; shift
cd /verif
git -C /repo apply /verif/seeded/$name/patch.diff || { echo "patch does not apply"; exit 2; }
for p in "$@"; do ./check $p 2>&1 | grep -E "^(VIOLATION|KNOWN|C[0-9]+ (ok|FAIL)|  broken)" | head -4; done
git -C /repo checkout -- .
rm -f /verif/replays/*.json
