#!/usr/bin/env python3
"""py2coq.sem — fail-closed translator: Python `ast` -> Gallina in the exception monad of PM.Lib.Py.

Every construct outside the whitelisted subset raises Refuse (the caller reports a broken
obligation).  Two value modes: variables declared "int"/"bool"/"str" are Z / bool / list Z with
native operators; everything else is a dynamic value `dyn` whose operations are the PyLib
functions (as partial as Python's).  Loop bodies are emitted as separate named Definitions so
that proofs cite them by name.
"""
import ast

class Refuse(Exception):
    pass

EXN_NAMES = {"UnicodeEncodeError", "UnicodeDecodeError", "MemcacheIllegalInputError", "ValueError",
             "TypeError", "IndexError", "KeyError", "RuntimeError", "MemcacheError", "OSError"}
EXN_COQ = {"Exception": "Exception_"}
BINOP_INT = {ast.BitOr: "Z.lor", ast.BitAnd: "Z.land", ast.BitXor: "Z.lxor", ast.LShift: "Z.shiftl",
             ast.RShift: "Z.shiftr", ast.Add: "Z.add", ast.Mult: "Z.mul", ast.Sub: "Z.sub"}
CMP_INT = {ast.Eq: "Z.eqb", ast.Lt: "Z.ltb", ast.Gt: "Z.gtb", ast.LtE: "Z.leb", ast.GtE: "Z.geb"}
COQ_TY = {"dyn": "dyn", "bool": "bool", "int": "Z", "list": "list dyn", "str": "list Z"}


def zlist(seq):
    return "[%s]" % "; ".join(str(x) for x in seq)


class Fn:
    """Translate one FunctionDef.
    kinds:    name -> kind for parameters / locals with a declared static kind
    selfmap:  attribute name of `self` -> (coq term, kind) or (coq term, "fun", result kind)
    state:    list of self attributes (kind "list") that the method may mutate with
              .append/.remove; they are threaded as variables self_<attr> and returned
    """

    def __init__(self, f, kinds=None, selfmap=None, state=None, coq_name=None, ret_kind="dyn"):
        self.f = f
        self.kinds = dict(kinds or {})
        self.selfmap = dict(selfmap or {})
        self.state = list(state or [])
        self.n = 0
        self.name = coq_name or f.name
        self.aux = []          # auxiliary named definitions (loop bodies), emitted first
        self.nloop = 0
        self.ret_kind = ret_kind
        for a in self.state:
            self.kinds["self_" + a] = "list"

    def fresh(self, p="t"):
        self.n += 1
        return "%s%d_" % (p, self.n)

    def kind(self, name):
        return self.kinds.get(name, "dyn")

    # ------------------------------------------------------------ expressions -> (binds, term, kind)
    def expr(self, e, defd):
        if isinstance(e, ast.Constant):
            v = e.value
            if v is None:
                return [], "DNone", "dyn"
            if isinstance(v, bool):
                return [], ("true" if v else "false"), "bool"
            if isinstance(v, int):
                return [], "(%d)" % v, "int"
            if isinstance(v, bytes):
                return [], "(DBytes %s)" % zlist(v), "dyn"
            if isinstance(v, str):
                return [], "(DStr %s)" % zlist(ord(c) for c in v), "dyn"
            raise Refuse("constant %r" % (v,))
        if isinstance(e, ast.UnaryOp) and isinstance(e.op, ast.USub) and isinstance(e.operand, ast.Constant) \
                and isinstance(e.operand.value, int) and not isinstance(e.operand.value, bool):
            return [], "(-%d)" % e.operand.value, "int"
        if isinstance(e, ast.Name):
            if e.id not in defd:
                raise Refuse("read of possibly-undefined %s (line %d)" % (e.id, e.lineno))
            return [], e.id, self.kind(e.id)
        if isinstance(e, ast.Attribute) and isinstance(e.value, ast.Name) and e.value.id == "self":
            if e.attr in self.state:
                return [], "self_" + e.attr, "list"
            if e.attr in self.selfmap and self.selfmap[e.attr][1] != "fun":
                return [], self.selfmap[e.attr][0], self.selfmap[e.attr][1]
            raise Refuse("self.%s" % e.attr)
        if isinstance(e, ast.BinOp):
            b1, t1, k1 = self.expr(e.left, defd)
            b2, t2, k2 = self.expr(e.right, defd)
            if k1 == "int" and k2 == "int":
                if type(e.op) not in BINOP_INT:
                    raise Refuse("int binop %s" % type(e.op).__name__)
                return b1 + b2, "(%s %s %s)" % (BINOP_INT[type(e.op)], t1, t2), "int"
            if isinstance(e.op, ast.Add):
                v = self.fresh()
                return b1 + b2 + [(v, "py_add %s %s" % (self.dyn(t1, k1), self.dyn(t2, k2)))], v, "dyn"
            raise Refuse("binop %s on %s,%s (line %d)" % (type(e.op).__name__, k1, k2, e.lineno))
        if isinstance(e, ast.Subscript):
            b1, t1, k1 = self.expr(e.value, defd)
            b2, t2, k2 = self.expr(e.slice, defd)
            if k2 != "int":
                raise Refuse("non-int index")
            v = self.fresh()
            if k1 == "str":
                raise Refuse("bare str subscript (only ord(s[i]) is supported)")
            return b1 + b2 + [(v, "py_getitem %s %s" % (self.dyn(t1, k1), t2))], v, "dyn"
        if isinstance(e, ast.JoinedStr):
            parts = []
            bs = []
            for p in e.values:
                if isinstance(p, ast.Constant) and isinstance(p.value, str):
                    parts.append(zlist(ord(c) for c in p.value))
                elif isinstance(p, ast.FormattedValue) and p.conversion == -1 and p.format_spec is None:
                    b, t, k = self.expr(p.value, defd)
                    v = self.fresh()
                    bs += b + [(v, "py_str %s" % self.dyn(t, k))]
                    parts.append(v)
                else:
                    raise Refuse("f-string piece")
            return bs, "(DStr (%s))" % " ++ ".join(parts), "dyn"
        if isinstance(e, ast.Call):
            return self.call(e, defd)
        raise Refuse("expr %s (line %s)" % (type(e).__name__, getattr(e, "lineno", "?")))

    def call(self, e, defd):
        f = e.func
        if e.keywords:
            raise Refuse("keyword arguments in call (line %d)" % e.lineno)
        if isinstance(f, ast.Name):
            fn = f.id
            if fn == "len" and len(e.args) == 1:
                b, t, k = self.expr(e.args[0], defd)
                if k == "str":
                    return b, "(zlen %s)" % t, "int"
                v = self.fresh()
                return b + [(v, "py_len %s" % self.dyn(t, k))], v, "int"
            if fn == "ord" and len(e.args) == 1 and isinstance(e.args[0], ast.Subscript):
                s = e.args[0]
                if not (isinstance(s.value, ast.Name) and self.kind(s.value.id) == "str"):
                    raise Refuse("ord of non-str subscript")
                if s.value.id not in defd:
                    raise Refuse("undefined %s" % s.value.id)
                b, t, k = self.expr(s.slice, defd)
                if k != "int":
                    raise Refuse("non-int index")
                v = self.fresh()
                # ord(c) of the one-character string s[i] is its code point
                return b + [(v, "py_str_index %s %s" % (s.value.id, t))], v, "int"
            if fn == "str" and len(e.args) == 1:
                b, t, k = self.expr(e.args[0], defd)
                v = self.fresh()
                return b + [(v, "py_str %s" % self.dyn(t, k))], "(DStr %s)" % v, "dyn"
            if fn == "max" and len(e.args) == 2:
                b1, t1, k1 = self.expr(e.args[0], defd)
                b2, t2, k2 = self.expr(e.args[1], defd)
                v = self.fresh()
                return b1 + b2 + [(v, "py_max %s %s" % (self.dyn(t1, k1), self.dyn(t2, k2)))], v, "dyn"
            if fn == "int" and len(e.args) == 1:
                b, t, k = self.expr(e.args[0], defd)
                v = self.fresh()
                return b + [(v, "py_int %s" % self.dyn(t, k))], v, "dyn"
            raise Refuse("call %s (line %d)" % (fn, e.lineno))
        if isinstance(f, ast.Attribute):
            if isinstance(f.value, ast.Name) and f.value.id == "self" and f.attr in self.selfmap \
                    and self.selfmap[f.attr][1] == "fun":
                args = []
                bs = []
                for a in e.args:
                    b, t, k = self.expr(a, defd)
                    bs += b
                    args.append(self.dyn(t, k))
                v = self.fresh()
                return bs + [(v, "%s %s" % (self.selfmap[f.attr][0], " ".join(args)))], v, self.selfmap[f.attr][2]
            b, t, k = self.expr(f.value, defd)
            if f.attr == "encode" and len(e.args) == 1 and isinstance(e.args[0], ast.Constant) \
                    and e.args[0].value in ("utf8", "ascii"):
                v = self.fresh()
                enc = "EncUtf8" if e.args[0].value == "utf8" else "EncAscii"
                return b + [(v, "py_encode %s %s" % (self.dyn(t, k), enc))], v, "dyn"
            if f.attr == "split" and not e.args:
                v = self.fresh()
                return b + [(v, "py_split0 %s" % self.dyn(t, k))], v, "dyn"
            raise Refuse("method .%s (line %d)" % (f.attr, e.lineno))
        raise Refuse("call shape (line %d)" % e.lineno)

    def dyn(self, t, k):
        if k == "dyn":
            return t
        if k == "int":
            return "(DInt %s)" % t
        if k == "bool":
            return "(DBool %s)" % t
        if k == "list":
            return "(DList %s)" % t
        if k == "str":
            return "(DStr %s)" % t
        raise Refuse("kind %s" % k)

    def wrap(self, bs, term):
        for v, m in reversed(bs):
            term = "%s <- %s ;; %s" % (v, m, term)
        return term

    # ------------------------------------------------------------ conditions -> term : exc bool
    def cond(self, e, defd):
        if isinstance(e, ast.BoolOp):
            parts = [self.cond(v, defd) for v in e.values]
            op = "cond_or" if isinstance(e.op, ast.Or) else "cond_and"
            t = parts[-1]
            for p in reversed(parts[:-1]):
                t = "(%s %s %s)" % (op, p, t)
            return t
        if isinstance(e, ast.UnaryOp) and isinstance(e.op, ast.Not):
            return "(cond_not %s)" % self.cond(e.operand, defd)
        if isinstance(e, ast.Call) and isinstance(e.func, ast.Name) and e.func.id == "isinstance" \
                and len(e.args) == 2 and isinstance(e.args[1], ast.Name) and e.args[1].id in ("str", "bytes", "int", "tuple"):
            b, t, k = self.expr(e.args[0], defd)
            return "(%s)" % self.wrap(b, "Ok (py_isinstance_%s %s)" % (e.args[1].id, self.dyn(t, k)))
        if isinstance(e, ast.Compare) and len(e.ops) == 1:
            op = e.ops[0]
            b1, t1, k1 = self.expr(e.left, defd)
            c0 = e.comparators[0]
            if isinstance(op, (ast.In, ast.NotIn)):
                neg = isinstance(op, ast.NotIn)
                if k1 == "int" and isinstance(c0, ast.List):
                    items = []
                    for it in c0.elts:
                        b, t, k = self.expr(it, defd)
                        if b or k != "int":
                            raise Refuse("list literal element")
                        items.append(t)
                    r = "(py_in_list %s [%s])" % (t1, "; ".join(items))
                    return "(%s)" % self.wrap(b1, "Ok (%s)" % ("negb " + r if neg else r))
                b2, t2, k2 = self.expr(c0, defd)
                r = "py_contains %s %s" % (self.dyn(t1, k1), self.dyn(t2, k2))
                return "(%s)" % (self.wrap(b1 + b2, r) if not neg else "cond_not (%s)" % self.wrap(b1 + b2, r))
            b2, t2, k2 = self.expr(c0, defd)
            if isinstance(op, (ast.Is, ast.IsNot)) and isinstance(c0, ast.Constant) and c0.value is None:
                r = "py_is_none %s" % self.dyn(t1, k1)
                return "(%s)" % self.wrap(b1, "Ok (%s)" % ("negb (%s)" % r if isinstance(op, ast.IsNot) else r))
            if k1 == "int" and k2 == "int":
                o = CMP_INT.get(type(op))
                if o:
                    return "(%s)" % self.wrap(b1 + b2, "Ok (%s %s %s)" % (o, t1, t2))
                if isinstance(op, ast.NotEq):
                    return "(%s)" % self.wrap(b1 + b2, "Ok (negb (Z.eqb %s %s))" % (t1, t2))
            if isinstance(op, ast.NotEq):
                return "(%s)" % self.wrap(b1 + b2, "Ok (negb (dyn_eqb %s %s))" % (self.dyn(t1, k1), self.dyn(t2, k2)))
            if isinstance(op, ast.Eq):
                return "(%s)" % self.wrap(b1 + b2, "Ok (dyn_eqb %s %s)" % (self.dyn(t1, k1), self.dyn(t2, k2)))
            raise Refuse("compare %s on %s,%s (line %d)" % (type(op).__name__, k1, k2, e.lineno))
        b, t, k = self.expr(e, defd)
        if k == "bool":
            return "(%s)" % self.wrap(b, "Ok %s" % t)
        if k in ("dyn", "list"):
            return "(%s)" % self.wrap(b, "Ok (py_truthy %s)" % self.dyn(t, k))
        raise Refuse("truthiness of %s" % k)

    # ------------------------------------------------------------ statements
    def terminates(self, stmts):
        if not stmts:
            return False
        s = stmts[-1]
        if isinstance(s, (ast.Raise, ast.Return)):
            return True
        if isinstance(s, ast.If):
            return self.terminates(s.body) and self.terminates(s.orelse)
        return False

    def assigned(self, stmts):
        out = []

        def add(n):
            if n not in out:
                out.append(n)
        for s in stmts:
            if isinstance(s, ast.Assign):
                for t in s.targets:
                    if isinstance(t, ast.Name):
                        add(t.id)
                    elif isinstance(t, ast.Tuple) and all(isinstance(x, ast.Name) for x in t.elts):
                        for x in t.elts:
                            add(x.id)
                    else:
                        raise Refuse("assignment target (line %d)" % s.lineno)
            elif isinstance(s, ast.AugAssign):
                if not isinstance(s.target, ast.Name):
                    raise Refuse("augassign target")
                add(s.target.id)
            elif isinstance(s, ast.If):
                for v in self.assigned(s.body) + self.assigned(s.orelse):
                    add(v)
            elif isinstance(s, ast.Try):
                for v in self.assigned(s.body):
                    add(v)
            elif isinstance(s, ast.For):
                for v in self.assigned(s.body):
                    add(v)
            elif isinstance(s, ast.Expr):
                m = self.state_mutation(s)
                if m:
                    add("self_" + m[0])
            elif isinstance(s, (ast.Return, ast.Raise)):
                pass
            else:
                raise Refuse("stmt %s (line %d)" % (type(s).__name__, s.lineno))
        return out

    def state_mutation(self, s):
        """self.<attr>.append(x) / .remove(x) on a declared state attribute -> (attr, op, argexpr)"""
        if isinstance(s, ast.Expr) and isinstance(s.value, ast.Call):
            c = s.value
            f = c.func
            if isinstance(f, ast.Attribute) and f.attr in ("append", "remove") and isinstance(f.value, ast.Attribute) \
                    and isinstance(f.value.value, ast.Name) and f.value.value.id == "self" and f.value.attr in self.state \
                    and len(c.args) == 1 and not c.keywords:
                return (f.value.attr, f.attr, c.args[0])
        return None

    def tup(self, vs):
        return "tt" if not vs else (vs[0] if len(vs) == 1 else "(%s)" % ", ".join(vs))

    def pat(self, vs):
        return "_" if not vs else (vs[0] if len(vs) == 1 else "'(%s)" % ", ".join(vs))

    def ty_tuple(self, vs):
        return "unit" if not vs else " * ".join(COQ_TY[self.kind(v)] for v in vs)

    def names_loaded(self, stmts):
        out = []
        for s in stmts:
            for n in ast.walk(s):
                if isinstance(n, ast.Name) and n.id not in out:
                    out.append(n.id)
                if isinstance(n, ast.Attribute) and isinstance(n.value, ast.Name) and n.value.id == "self" \
                        and n.attr in self.state and ("self_" + n.attr) not in out:
                    out.append("self_" + n.attr)
        return out

    def block(self, stmts, defd, k, ind):
        sp = "  " * ind
        if not stmts:
            return k(defd)
        s, rest = stmts[0], stmts[1:]
        if isinstance(s, ast.Expr) and isinstance(s.value, ast.Constant) and isinstance(s.value.value, str):
            return self.block(rest, defd, k, ind)          # docstring
        if isinstance(s, ast.Expr):
            m = self.state_mutation(s)
            if not m:
                raise Refuse("expression statement (line %d)" % s.lineno)
            attr, op, arg = m
            b, t, kk = self.expr(arg, defd)
            sv = "self_" + attr
            code = "".join("%s%s <- %s ;;\n" % (sp, x, mm) for x, mm in b)
            if op == "append":
                code += "%slet %s := %s ++ [%s] in\n" % (sp, sv, sv, self.dyn(t, kk))
            else:
                code += "%s%s <- py_list_remove %s %s ;;\n" % (sp, sv, sv, self.dyn(t, kk))
            return code + self.block(rest, defd, k, ind)
        if isinstance(s, ast.Assign):
            if len(s.targets) != 1:
                raise Refuse("chained assignment")
            (t,) = s.targets
            if isinstance(t, ast.Tuple):
                if not (isinstance(s.value, ast.Tuple) and len(s.value.elts) == len(t.elts)):
                    raise Refuse("tuple assignment shape (line %d)" % s.lineno)
                tmps = []
                code = ""
                for el in s.value.elts:
                    b, tm, kk = self.expr(el, defd)
                    v = self.fresh("r")
                    tmps.append((v, kk))
                    code += "".join("%s%s <- %s ;;\n" % (sp, x, m) for x, m in b) + "%slet %s := %s in\n" % (sp, v, tm)
                d2 = set(defd)
                for tgt, (v, kk) in zip(t.elts, tmps):
                    if not isinstance(tgt, ast.Name):
                        raise Refuse("tuple target")
                    if tgt.id in defd and self.kind(tgt.id) != kk:
                        if self.kind(tgt.id) == "dyn":
                            v = self.dyn(v, kk)
                        else:
                            raise Refuse("kind change of %s in tuple assignment" % tgt.id)
                    else:
                        self.kinds[tgt.id] = kk
                    code += "%slet %s := %s in\n" % (sp, tgt.id, v)
                    d2.add(tgt.id)
                return code + self.block(rest, d2, k, ind)
            if not isinstance(t, ast.Name):
                raise Refuse("assignment target (line %d)" % s.lineno)
            b, tm, kk = self.expr(s.value, defd)
            if t.id in defd or t.id in self.kinds:
                want = self.kind(t.id)
                if want != kk:
                    if want == "dyn":
                        tm = self.dyn(tm, kk)
                    else:
                        raise Refuse("kind change of %s: %s -> %s (line %d)" % (t.id, want, kk, s.lineno))
            else:
                self.kinds[t.id] = kk
            return "".join("%s%s <- %s ;;\n" % (sp, x, m) for x, m in b) + \
                "%slet %s := %s in\n" % (sp, t.id, tm) + self.block(rest, defd | {t.id}, k, ind)
        if isinstance(s, ast.AugAssign):
            if not isinstance(s.target, ast.Name):
                raise Refuse("augassign target")
            new = ast.Assign(targets=[ast.Name(id=s.target.id, ctx=ast.Store())],
                             value=ast.BinOp(left=ast.Name(id=s.target.id, ctx=ast.Load(), lineno=s.lineno),
                                             op=s.op, right=s.value, lineno=s.lineno), lineno=s.lineno)
            return self.block([new] + rest, defd, k, ind)
        if isinstance(s, ast.Raise):
            exc = s.exc
            if isinstance(exc, ast.Call) and isinstance(exc.func, ast.Name):
                name = exc.func.id
            elif isinstance(exc, ast.Name):
                name = exc.id
            else:
                raise Refuse("raise shape (line %d)" % s.lineno)
            if name not in EXN_NAMES:
                raise Refuse("raise %s" % name)
            return "%sRaise %s" % (sp, EXN_COQ.get(name, name))
        if isinstance(s, ast.Return):
            if s.value is None:
                return self.ret(sp, [], "DNone", "dyn")
            b, tm, kk = self.expr(s.value, defd)
            return self.ret(sp, b, tm, kk)
        if isinstance(s, ast.If):
            c = self.cond(s.test, defd)
            cv = self.fresh("c")
            if self.terminates(s.body) or self.terminates(s.orelse):
                saved = dict(self.kinds)
                tb = self.block(s.body if self.terminates(s.body) else s.body + rest, defd, k, ind + 1)
                self.kinds = dict(saved)
                eb = self.block(s.orelse if self.terminates(s.orelse) else s.orelse + rest, defd, k, ind + 1)
                return "%s%s <- %s ;;\n%sif %s then\n%s\n%selse\n%s" % (sp, cv, c, sp, cv, tb, sp, eb)
            vs = self.assigned(s.body + s.orelse)
            for v in vs:
                if v not in defd:
                    raise Refuse("if assigns %s which is not defined on all paths (line %d)" % (v, s.lineno))
            ret = lambda d: "%s  Ok %s" % (sp, self.tup(vs))
            tb = self.block(s.body, defd, ret, ind + 1)
            eb = self.block(s.orelse, defd, ret, ind + 1)
            return "%s%s <- %s ;;\n%s%s <- (if %s then\n%s\n%s else\n%s) ;;\n%s" % (
                sp, cv, c, sp, self.pat(vs), cv, tb, sp, eb, self.block(rest, defd, k, ind))
        if isinstance(s, ast.Try):
            if len(s.handlers) != 1 or s.orelse or s.finalbody:
                raise Refuse("try shape (line %d)" % s.lineno)
            h = s.handlers[0]
            if h.name is not None:
                raise Refuse("except ... as name")
            cls = [n.id for n in (h.type.elts if isinstance(h.type, ast.Tuple) else [h.type])]
            for c in cls:
                if c not in EXN_NAMES and c != "Exception":
                    raise Refuse("except %s" % c)
            if not self.terminates(h.body):
                raise Refuse("handler must raise/return")
            vs = self.assigned(s.body)
            ret = lambda d: "%s  Ok %s" % (sp, self.tup(vs))
            body = self.block(s.body, defd, ret, ind + 1)
            hb = self.block(h.body, defd, ret, ind + 1)
            return "%s%s <- py_try (\n%s) [%s] (\n%s) ;;\n%s" % (
                sp, self.pat(vs), body, "; ".join(EXN_COQ.get(c, c) for c in cls), hb,
                self.block(rest, defd | set(vs), k, ind))
        if isinstance(s, ast.For):
            return self.for_(s, rest, defd, k, ind)
        raise Refuse("stmt %s (line %d)" % (type(s).__name__, s.lineno))

    def ret(self, sp, b, tm, kk):
        code = "".join("%s%s <- %s ;;\n" % (sp, x, m) for x, m in b)
        if self.ret_kind == "int":
            if kk != "int":
                raise Refuse("return of non-int in int function")
            val = tm
        else:
            val = self.dyn(tm, kk)
        if self.state:
            return code + "%sOk (%s, %s)" % (sp, ", ".join("self_" + a for a in self.state), val)
        return code + "%sOk %s" % (sp, val)

    def for_(self, s, rest, defd, k, ind):
        sp = "  " * ind
        if s.orelse or not isinstance(s.target, ast.Name):
            raise Refuse("for shape (line %d)" % s.lineno)
        for n in ast.walk(ast.Module(body=s.body, type_ignores=[])):
            if isinstance(n, (ast.Return, ast.Break, ast.Continue)):
                raise Refuse("return/break/continue inside for (line %d)" % s.lineno)
        it = s.iter
        carried = [v for v in self.assigned(s.body) if v in defd]
        self.nloop += 1
        lname = "%s_loop%d" % (self.name, self.nloop)
        tgt = s.target.id
        if isinstance(it, ast.Call) and isinstance(it.func, ast.Name) and it.func.id == "range" and len(it.args) == 3:
            args = []
            for a in it.args:
                b, t, kk = self.expr(a, defd)
                if b or kk != "int":
                    raise Refuse("range() argument")
                args.append(t)
            if not (isinstance(it.args[2], ast.Constant) and isinstance(it.args[2].value, int) and it.args[2].value > 0):
                raise Refuse("range() step must be a positive literal")
            self.kinds[tgt] = "int"
            head = "py_for_range %s %s %s" % tuple(args)
        else:
            b, tm, kk = self.expr(it, defd)
            if b or kk != "list":
                raise Refuse("for iterable must be a list-kinded name/attribute (line %d)" % s.lineno)
            self.kinds[tgt] = "dyn"
            head = "py_for_list %s" % tm
        # free variables of the body = parameters of the named loop body
        used = self.names_loaded(s.body)
        free = [v for v in used if v in defd and v != tgt and v not in carried]
        for a, spec in self.selfmap.items():
            pass
        saved = dict(self.kinds)
        ret = lambda d: "  Ok %s" % self.tup(carried)
        body = self.block(s.body, set(defd) | {tgt}, ret, 1)
        self.kinds.update({kx: vx for kx, vx in saved.items()})
        params = " ".join("(%s : %s)" % (v, COQ_TY[self.kind(v)]) for v in free)
        stty = self.ty_tuple(carried)
        if len(carried) > 1:
            unpack = "  let '(%s) := st_ in\n" % ", ".join(carried)
            stname = "st_"
        elif len(carried) == 1:
            unpack = ""
            stname = carried[0]
        else:
            unpack = ""
            stname = "st_"
        self.aux.append("Definition %s %s (%s : %s) (%s : %s) : exc (%s) :=\n%s%s." % (
            lname, params, tgt, COQ_TY[self.kind(tgt)], stname, stty, stty, unpack, body))
        call = "%s%s <- %s (%s %s) %s ;;\n" % (sp, self.pat(carried), head, lname, " ".join(free), self.tup(carried))
        # names first assigned inside the body are body-local: not defined afterwards (fail-closed)
        return call + self.block(rest, defd, k, ind)

    def emit(self, params):
        for p in params:
            if p not in self.kinds:
                self.kinds[p] = "dyn"
        sig = " ".join("(%s : %s)" % (p, COQ_TY[self.kind(p)]) for p in params)
        sig_state = " ".join("(self_%s : list dyn)" % a for a in self.state)

        def fell(d):
            # falling off the end returns None
            return self.ret("  ", [], "DNone", "dyn")
        body = self.block(self.f.body, set(params) | {"self_" + a for a in self.state}, fell, 1)
        rty = "Z" if self.ret_kind == "int" else "dyn"
        if self.state:
            rty = "(%s)" % " * ".join(["list dyn"] * len(self.state) + [rty])
        main = "Definition %s %s %s : exc %s :=\n%s." % (self.name, sig_state, sig, rty, body)
        return "\n\n".join(self.aux + [main])


def find_function(tree, name, cls=None):
    scope = tree.body
    if cls:
        for n in tree.body:
            if isinstance(n, ast.ClassDef) and n.name == cls:
                scope = n.body
                break
        else:
            raise Refuse("no class %s" % cls)
    found = [n for n in scope if isinstance(n, ast.FunctionDef) and n.name == name]
    if len(found) != 1:
        raise Refuse("expected exactly one definition of %s%s" % (cls + "." if cls else "", name))
    return found[0]


HEADER = """(* GENERATED by tools/py2coq from %s on every run -- do not edit *)
From Coq Require Import ZArith List Bool.
From PM Require Import Lib.Py%s.
Import ListNotations.
Open Scope Z_scope.
Open Scope exc_scope.
"""


def header(src, extra=""):
    return HEADER % (src, extra)
