#!/usr/bin/env python3
"""Regenerate coq/Gen/*.v from the repository's current working tree.

usage: gen.py <repo> <outdir> <target>...      (targets: see TARGETS)
Files are rewritten only when their content changes (so `make` rebuilds exactly the affected
cone).  A construct outside the translator's subset prints `REFUSED <target>: <reason>` and the
process exits 3; the generated file is then replaced by a stub that does not compile, so no stale model can be built.
"""
import ast
import os
import sys

sys.path.insert(0, os.path.dirname(os.path.abspath(__file__)))
import sem          # noqa: E402
from sem import Refuse, Fn, find_function, header  # noqa: E402


def parse(repo, rel):
    path = os.path.join(repo, rel)
    return ast.parse(open(path).read()), rel


def gen_murmur3(repo):
    tree, rel = parse(repo, "pymemcache/client/murmur3.py")
    for node in tree.body:
        if not isinstance(node, ast.FunctionDef):
            raise Refuse("top-level %s in murmur3.py" % type(node).__name__)
    f = find_function(tree, "murmur3_32")
    params = [a.arg for a in f.args.args]
    if params != ["data", "seed"] or f.args.vararg or f.args.kwarg or f.args.kwonlyargs:
        raise Refuse("murmur3_32 signature %r" % params)
    d = f.args.defaults
    if not (len(d) == 1 and isinstance(d[0], ast.Constant) and d[0].value == 0):
        raise Refuse("murmur3_32 default seed")
    fn = Fn(f, {"data": "str", "seed": "int"}, ret_kind="int")
    return header(rel) + "\n" + fn.emit(params) + "\n"


def gen_keycheck(repo):
    tree, rel = parse(repo, "pymemcache/client/base.py")
    f = find_function(tree, "check_key_helper")
    params = [a.arg for a in f.args.args]
    if params != ["key", "allow_unicode_keys", "key_prefix"]:
        raise Refuse("check_key_helper signature %r" % params)
    d = f.args.defaults
    if not (len(d) == 1 and isinstance(d[0], ast.Constant) and d[0].value == b""):
        raise Refuse("check_key_helper default prefix")
    fn = Fn(f, {"allow_unicode_keys": "bool"})
    return header(rel) + "\n" + fn.emit(params) + "\n"


def gen_rendezvous(repo):
    tree, rel = parse(repo, "pymemcache/client/rendezvous.py")
    out = [header(rel), "Section WithHash.", "Variable hash_function : dyn -> exc Z.", ""]
    f = find_function(tree, "get_node", "RendezvousHash")
    if [a.arg for a in f.args.args] != ["self", "key"]:
        raise Refuse("get_node signature")
    fn = Fn(f, {"nodes": "list"}, selfmap={"nodes": ("nodes", "list"),
                                            "hash_function": ("hash_function", "fun", "int")})
    out.append(fn.emit(["nodes", "key"]))
    out.append("End WithHash.\n")
    for m in ("add_node", "remove_node"):
        f = find_function(tree, m, "RendezvousHash")
        if [a.arg for a in f.args.args] != ["self", "node"]:
            raise Refuse("%s signature" % m)
        fn = Fn(f, {}, state=["nodes"])
        out.append(fn.emit(["node"]))
        out.append("")
    # the constructor: nodes default [] / given list, hash_function = lambda x: hash_function(x, seed)
    init = find_function(tree, "__init__", "RendezvousHash")
    sig = [a.arg for a in init.args.args]
    if sig != ["self", "nodes", "seed", "hash_function"]:
        raise Refuse("RendezvousHash.__init__ signature %r" % sig)
    dflt = init.args.defaults
    ok = (len(dflt) == 3 and isinstance(dflt[0], ast.Constant) and dflt[0].value is None
          and isinstance(dflt[1], ast.Constant) and dflt[1].value == 0
          and isinstance(dflt[2], ast.Name) and dflt[2].id == "murmur3_32")
    if not ok:
        raise Refuse("RendezvousHash.__init__ defaults")
    want = ast.dump(ast.parse(
        "self.hash_function = lambda x: hash_function(x, seed)").body[0])
    if not any(ast.dump(s) == want for s in init.body):
        raise Refuse("RendezvousHash.__init__: hash_function is not `lambda x: hash_function(x, seed)`")
    imp = [n for n in tree.body if isinstance(n, ast.ImportFrom)]
    if not any(n.module == "pymemcache.client.murmur3" and [a.name for a in n.names] == ["murmur3_32"] for n in imp):
        raise Refuse("rendezvous.py does not import murmur3_32 from pymemcache.client.murmur3")
    out.append("Definition default_seed : Z := 0.\n")
    return "\n".join(out)


TARGETS = {
    "Murmur3": gen_murmur3,
    "KeyCheck": gen_keycheck,
    "Rendezvous": gen_rendezvous,
}


def register(name, fn):
    TARGETS[name] = fn


def main(argv):
    repo, outdir, targets = argv[1], argv[2], argv[3:]
    sys.modules.setdefault("gen", sys.modules[__name__])
    try:
        import gen_more  # noqa: F401  (registers further targets)
    except ImportError:
        pass
    os.makedirs(outdir, exist_ok=True)
    rc = 0
    for t in targets:
        path = os.path.join(outdir, t + ".v")
        try:
            text = TARGETS[t](repo)
        except (Refuse, SyntaxError, OSError) as e:
            print("REFUSED %s: %s" % (t, e))
            # a stub that cannot compile: no stale model can be built, and coqdep still sees the file
            with open(path, "w") as fh:
                fh.write("(* TRANSLATION REFUSED: %s *)\nDefinition translation_refused : False := I.\n"
                         % str(e).replace("*)", "* )"))
            rc = 3
            continue
        old = open(path).read() if os.path.exists(path) else None
        if old != text:
            with open(path, "w") as fh:
                fh.write(text)
            print("GENERATED %s (changed)" % t)
        else:
            print("GENERATED %s (unchanged)" % t)
    return rc


if __name__ == "__main__":
    sys.exit(main(sys.argv))
