(* C16 — PooledClient, single-server HashClient and RetryingClient behave like Client.
   Behavioural part (hand models, each run against the real class on every check):
     c16_pooled_refines   a PooledClient call IS the inner Client's call on the checked-out client
     c16_pooled_options   ... whose configuration is the wrapper's (ignore_exc aside, which the wrapper applies itself: C07)
     c16_hash_single      a HashClient call with its server in rotation is the inner client's call with the bare key
     c16_retrying         RetryingClient is transparent when the first attempt succeeds or attempts = 1 (C17 covers the rest)
   Structural part (tables regenerated from base.py / hash.py on every run, Gen/Wrappers.v):
     every PooledClient method has Client's parameters with Client's defaults and hands each to the same-named
     parameter; _create_client passes every stored option; __init__ stores every option under its own name;
     HashClient forwards every constructor option and every method's arguments.
   Outside the claim: ignore_exc (not among C16's shared options; C07), close/quit (pool management). *)
From Coq Require Import ZArith List Bool String.
From PM Require Import Lib.Py Model.World Model.Readers Model.Client Model.Pooled Proofs.PoolProof
                       Model.Hash Proofs.C12Proof Model.Retrying Proofs.C16Proof Gen.Wrappers.
Import ListNotations.
Open Scope Z_scope.

Theorem c16_pooled_refines : forall P peer c pc, c_ignore_exc c = false -> 1 <= pc_max pc ->
  forall o p (w : world P) cid p1 w1, plain_op o -> PInv p ->
  pool_get P pc p w = (Ok cid, p1, w1) ->
  match as_client P cid (run_op P peer c o) p1 w1 with
  | (Ok v, p2, w2) => exists p3, pooled_op P peer c pc o p w = (Ok v, p3, w2) /\ PInv p3
  | (Raise e, p2, w2) => exists e' p3 w3, pooled_op P peer c pc o p w = (Raise e', p3, w3) /\
                           (e' = e \/ exn_isa e' Exception_ = false) /\ sends (w_trace w3) = sends (w_trace w2)
  end.
Proof. exact C16Proof.pooled_refines. Qed.
Print Assumptions c16_pooled_refines.

Theorem c16_pooled_options : forall c, c_ignore_exc c = false -> inner_cfg c = c.
Proof. exact C16Proof.inner_cfg_id. Qed.
Print Assumptions c16_pooled_options.

Theorem c16_hash_single : forall route c,
  (forall nodes k sv, route nodes k = Ok (Some sv) -> sv_mem nodes sv = true) -> hc_ignore_exc c = false ->
  forall meth key d args (s : hstate) sv k,
  healthy s -> routed route c (h_nodes s) key = Some (sv, k) ->
  match icall sv meth (k :: args) s with
  | (Ok v, s1) => run_cmd route c meth key d args s = (Ok v, s1)
  | (Raise e, s1) => exists s2, run_cmd route c meth key d args s = (Raise e, s2) /\
                                (h_log s2 = h_log s1 \/ exists t, h_log s2 = HEvict sv t :: h_log s1)
  end.
Proof. exact C16Proof.hash_single_refines. Qed.
Print Assumptions c16_hash_single.

Theorem c16_retrying : forall (c : rcfg) (out : nat -> exc dyn), 1 <= attempts c ->
  (forall v, out 0%nat = Ok v -> retry c out = (Ok v, [ECall])) /\
  (attempts c = 1 -> retry c out = (out 0%nat, [ECall])).
Proof. exact C16Proof.retrying_transparent. Qed.
Print Assumptions c16_retrying.

(* ---------------- forwarding, from the source of this run ---------------- *)
Open Scope string_scope.
(* every PooledClient method: Client's parameter list, Client's defaults, each parameter reaching its namesake *)
Theorem c16_pooled_forwarding :
  pooled_forward = map (fun r => (fst r, map (fun pd => (fst pd, snd pd, fst pd)) (snd r))) client_sigs.
Proof. vm_compute. reflexivity. Qed.
Print Assumptions c16_pooled_forwarding.

(* every option the constructor accepts is stored under its own name and handed to every client the pool creates *)
Definition shared_options : list string :=
  ["allow_unicode_keys"; "connect_timeout"; "default_noreply"; "encoding"; "key_prefix"; "no_delay"; "serde";
   "socket_keepalive"; "socket_module"; "timeout"; "tls_context"].
Theorem c16_pooled_construction :
  pooled_create_kwargs =
    ("allow_unicode_keys", "self.allow_unicode_keys") :: ("connect_timeout", "self.connect_timeout") ::
    ("default_noreply", "self.default_noreply") :: ("encoding", "self.encoding") :: ("ignore_exc", "False") ::
    ("key_prefix", "self.key_prefix") :: ("no_delay", "self.no_delay") :: ("serde", "self.serde") ::
    ("socket_keepalive", "self.socket_keepalive") :: ("socket_module", "self.socket_module") ::
    ("timeout", "self.timeout") :: ("tls_context", "self.tls_context") :: nil
  /\ forallb (fun o => existsb (fun r => String.eqb (fst r) o &&
                (String.eqb (snd r) o || (String.eqb o "serde" && String.eqb (snd r) "serde or LegacyWrappingSerde(serializer, deserializer)")))
                pooled_init_stores) shared_options = true.
Proof. split; vm_compute; reflexivity. Qed.
Print Assumptions c16_pooled_construction.

Theorem c16_hash_forwarding :
  hash_default_kwargs =
    [("allow_unicode_keys", "allow_unicode_keys"); ("connect_timeout", "connect_timeout"); ("default_noreply", "default_noreply");
     ("deserializer", "deserializer"); ("encoding", "encoding"); ("key_prefix", "key_prefix"); ("no_delay", "no_delay");
     ("serde", "serde"); ("serializer", "serializer"); ("socket_keepalive", "socket_keepalive"); ("socket_module", "socket_module");
     ("timeout", "timeout"); ("tls_context", "tls_context")]
  /\ hash_passthrough =
    map (fun md => (fst md, "key, *args, **kwargs", "self._run_cmd('" ++ fst md ++ "', key, " ++ snd md ++ ", *args, **kwargs)"))
        [("set", "False"); ("add", "False"); ("replace", "False"); ("append", "False"); ("prepend", "False"); ("cas", "False");
         ("incr", "None"); ("decr", "None"); ("delete", "False"); ("touch", "False")]
  /\ map (fun m => option_map snd (find (fun r => String.eqb (fst r) m) hash_forward)) ["get"; "gets"; "gat"; "gats"]
   = map (fun m => option_map (fun r => map (fun pd => (fst pd, snd pd, fst pd)) (snd r)) (find (fun r => String.eqb (fst r) m) client_sigs))
         ["get"; "gets"; "gat"; "gats"].
Proof. repeat split; vm_compute; reflexivity. Qed.
Print Assumptions c16_hash_forwarding.

(* the subscript forms c[k] = v, c[k], del c[k] go through the object's own set / get / delete (bodies read from the source on
   every run, Gen/Subscripts.v): they inherit everything proved of those methods *)
From Coq Require Import String.
From PM Require Import Gen.Subscripts Spec.SubscriptForms.
Theorem c16_subscripts :
  forms_of "Client"%string subscript_forms = expected_forms "Client"%string /\
  forms_of "PooledClient"%string subscript_forms = expected_forms "PooledClient"%string /\
  forms_of "RetryingClient"%string subscript_forms = expected_forms "RetryingClient"%string.
Proof. repeat split; reflexivity. Qed.
Print Assumptions c16_subscripts.

(* "configured identically" includes the options nobody mentions: an option that Client and a wrapper both accept has the same
   constructor default in both (signatures read from base.py / hash.py of this run: Gen/Wrappers.v, ctor_defaults) *)
Definition ctor_of (cls : string) : list (string * string) :=
  match find (fun r => String.eqb (fst r) cls) ctor_defaults with Some r => snd r | None => [] end.
Definition default_of (cls opt : string) : option string :=
  option_map snd (find (fun p => String.eqb (fst p) opt) (ctor_of cls)).
Definition same_defaults (wrapper : string) : bool :=
  forallb (fun p => match default_of wrapper (fst p) with
                    | Some d => String.eqb d (snd p)
                    | None => true end) (ctor_of "Client"%string).
Theorem c16_same_defaults :
  (forall w opt d dc, In w ["PooledClient"; "HashClient"]%string ->
     default_of w opt = Some d -> default_of "Client"%string opt = Some dc -> In (opt, dc) (ctor_of "Client"%string) -> d = dc) /\
  (forall w opt, In w ["PooledClient"; "HashClient"]%string -> In opt shared_options -> default_of w opt <> None /\ default_of "Client"%string opt <> None).
Proof.
  split.
  - intros w opt d dc Hw Hd Hc Hin.
    assert (H : same_defaults w = true) by (destruct Hw as [<-|[<-|[]]]; vm_compute; reflexivity).
    unfold same_defaults in H. rewrite forallb_forall in H. specialize (H _ Hin). cbn [fst snd] in H.
    rewrite Hd in H. apply String.eqb_eq in H. exact H.
  - intros w opt Hw Ho.
    destruct Hw as [<-|[<-|[]]];
      repeat (destruct Ho as [<-|Ho]; [split; vm_compute; discriminate|]); destruct Ho.
Qed.
Print Assumptions c16_same_defaults.
