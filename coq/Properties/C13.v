(* C13 — HashClient failover: bounded probing, eviction, rerouting, recovery.
   Model/Hash.v (hand model over abstract inner clients and a scripted clock) is run against the real
   HashClient on every check; Spec/Failover.v states the probing bounds as an executable check on the
   contact log, extracted as the search oracle.
     c13_windows        for EVERY history of key-addressed calls (single-key commands, set_many, get_many/gets_many,
                        delete_many, clock ticks; any keys), any number of servers, any non-decreasing clock and any outcomes that are success or an
                        OSError-class failure, the contact log of every server passes that oracle: at most two
                        failing contacts in any retry_timeout window, at most retry_attempts+2 in any
                        dead_timeout window (Proofs/C13Windows.v: an invariant coupling the failure record and the
                        eviction record of a server with the tail of its contact log; Proofs/C13Oracle.v: the link
                        to the executable oracle)
     c13_evictions      for every such history, every eviction of a server (retries configured) was preceded by at
                        least two failing contacts of it in a row: one failure never takes a server out
     c13_never_failed   for every such history, a server that has had no failing contact has no failure record, is
                        not evicted and is still in rotation: with c13_no_bypass, it is contacted by every call
                        placed on it
     c13_escapes        for every such history with valid keys, every call returns a value or - only without
                        ignore_exc - raises an OSError-class error or MemcacheError: never a KeyError/ValueError of
                        the failover tables (Proofs/C13Escapes.v, the invariant held for all servers at once)
     the others         the per-call decision rules and bookkeeping facts
     c13_revival, c13_rotation_restored   recovery: the call that finds the check due and every evicted server out for more
                        than dead_timeout empties the eviction table, and whenever that table is empty the rotation is
                        exactly the set of servers the client started with
     c13_check_time_bound, c13_two_periods, c13_two_periods_all   the "two dead_timeout periods" bound over whole histories
                        (Proofs/C13Recovery.v): the check time is never more than dead_timeout ahead of an evicted server's
                        eviction time, so the first call later than eviction + 2 * dead_timeout revives it
   The search on the real class runs the same oracle and clauses (blip episodes, random long histories, recovery probes). *)
From Coq Require Import ZArith List Bool Lia.
From PM Require Import Lib.Py Model.Hash Spec.Failover Proofs.C12Proof Proofs.C13Proof Proofs.C13Windows Proofs.C13Oracle Proofs.C13Escapes Proofs.C13Recovery.
Import ListNotations.
Open Scope Z_scope.

(* no server that did not fail is ever bypassed: without a failure record the routed server is contacted *)
Theorem c13_no_bypass : forall c A sv (call : HM A) d (s : hstate), sv_get (h_failed s) sv = None ->
  safely_run c sv call d s =
  match call s with
  | (Ok a, s') => (Ok a, s')
  | (Raise e, s') => dispatch_handlers
      [ (OSError, fun e => hbind (mark_failed c sv) (fun _ => if hc_ignore_exc c then hret d else hthrow e));
        (Exception_, fun e => if hc_ignore_exc c then hret d else hthrow e) ] e s' end.
Proof. exact C13Proof.fresh_server_contacted. Qed.
Print Assumptions c13_no_bypass.

(* inside retry_timeout after a failing contact the server is NOT contacted (the call returns its default) *)
Theorem c13_retry_window : forall c A sv (call : HM A) d (s : hstate) att ft t rest,
  sv_get (h_failed s) sv = Some (att, ft) -> att < hc_retry_attempts c ->
  h_time s = t :: rest -> t - ft <= hc_retry_timeout c ->
  exists s', safely_run c sv call d s = (Ok d, s') /\ h_log s' = h_log s /\ h_out s' = h_out s /\
             h_failed s' = h_failed s /\ h_nodes s' = h_nodes s /\ h_dead s' = h_dead s.
Proof. exact C13Proof.retry_window_no_contact. Qed.
Print Assumptions c13_retry_window.

(* a single failure does not take a server out of rotation when retries are configured *)
Theorem c13_not_evicted_by_one : forall c sv (s : hstate), 0 < hc_retry_attempts c -> sv_get (h_failed s) sv = None ->
  let '(r, s') := mark_failed c sv s in
  r = Ok tt /\ h_nodes s' = h_nodes s /\ h_dead s' = h_dead s /\ exists t, sv_get (h_failed s') sv = Some (0, t).
Proof. exact C13Proof.one_failure_keeps_rotation. Qed.
Print Assumptions c13_not_evicted_by_one.

(* eviction is free of internal errors (no KeyError from the failure table, no ValueError from the hasher) and
   takes exactly the evicted server out of rotation, leaving every other server's records untouched *)
Theorem c13_eviction_clean : forall sv (s : hstate) rec, HInv s -> sv_get (h_failed s) sv = Some rec -> sv_mem (h_nodes s) sv = true ->
  exists s', remove_server sv s = (Ok tt, s') /\ sv_mem (h_nodes s') sv = false /\ sv_get (h_failed s') sv = None /\
             (exists t, sv_get (h_dead s') sv = Some t) /\
             (forall x, list_eqb sv x = false -> sv_mem (h_nodes s') x = sv_mem (h_nodes s) x /\ sv_get (h_failed s') x = sv_get (h_failed s) x
                                                /\ sv_get (h_dead s') x = sv_get (h_dead s) x).
Proof. exact C13Proof.remove_server_ok. Qed.
Print Assumptions c13_eviction_clean.

(* after retry_attempts failed retries the next call evicts the server and contacts it one last time *)
Theorem c13_eviction_contact : forall c A sv (call : HM A) d (s : hstate) att ft, HInv s ->
  sv_get (h_failed s) sv = Some (att, ft) -> hc_retry_attempts c <= att -> sv_mem (h_nodes s) sv = true ->
  exists s1, remove_server sv s = (Ok tt, s1) /\ sv_mem (h_nodes s1) sv = false /\
    safely_run c sv call d s =
    match call s1 with
    | (Ok a, s') => (Ok a, s')
    | (Raise e, s') => dispatch_handlers
        [ (OSError, fun e => hbind (mark_failed c sv) (fun _ => if hc_ignore_exc c then hret d else hthrow e));
          (Exception_, fun e => if hc_ignore_exc c then hret d else hthrow e) ] e s' end.
Proof. exact C13Proof.eviction_then_contact. Qed.
Print Assumptions c13_eviction_contact.

(* non-vacuity of the oracle: two probes inside the window are fine, three are not *)
Example c13_oracle_ex : windows_ok 2 5 60 [(0, false); (1, false); (7, false)] = true
                     /\ windows_ok 2 5 60 [(0, false); (1, false); (4, false)] = false
                     /\ windows_ok 2 5 60 [(0, false); (1, true); (2, false); (4, false)] = true.
Proof. repeat split; reflexivity. Qed.

(* ---- whole histories ---- *)
Definition in_rotation_at_start (sv : server) (servers : list server) (t0 : Z) times outs : bool :=
  sv_mem (h_nodes (init_hstate servers t0 times outs)) sv.

Theorem c13_windows : forall (route : list server -> dyn -> exc (option server)) (c : hcfg),
  (forall nodes k sv, route nodes k = Ok (Some sv) -> sv_mem nodes sv = true) ->
  0 <= hc_retry_attempts c -> hc_retry_timeout c < hc_dead_timeout c ->
  forall sv servers t0 times outs ops, mono t0 times -> Forall okout outs ->
  windows_ok (hc_retry_attempts c) (hc_retry_timeout c) (hc_dead_timeout c)
             (contacts_chrono sv (h_log (snd (run_hops route c ops (init_hstate servers t0 times outs))))) = true.
Proof.
  intros route c Hr Ha Ht sv servers t0 times outs ops Hm Ho. apply log_ok_windows.
  apply (windows_hold route c Hr Ha Ht sv (in_rotation_at_start sv servers t0 times outs) servers t0 times outs ops Hm Ho). reflexivity.
Qed.
Print Assumptions c13_windows.

(* "not taken out of rotation by a single failure when retries are configured", for every history: each eviction of sv
   was preceded by at least two failing contacts of sv in a row *)
Theorem c13_evictions : forall (route : list server -> dyn -> exc (option server)) (c : hcfg),
  (forall nodes k sv, route nodes k = Ok (Some sv) -> sv_mem nodes sv = true) ->
  0 <= hc_retry_attempts c -> hc_retry_timeout c < hc_dead_timeout c ->
  forall sv servers t0 times outs ops, mono t0 times -> Forall okout outs ->
  evictions_ok c sv (h_log (snd (run_hops route c ops (init_hstate servers t0 times outs)))).
Proof.
  intros route c Hr Ha Ht sv servers t0 times outs ops Hm Ho. apply log_ok_evictions.
  apply (windows_hold route c Hr Ha Ht sv (in_rotation_at_start sv servers t0 times outs) servers t0 times outs ops Hm Ho). reflexivity.
Qed.
Print Assumptions c13_evictions.

(* "no server that did not fail is ever bypassed", for every history: as long as sv has had no failing contact it has no
   failure record, is not evicted and is still in rotation - so (c13_no_bypass) every call placed on it contacts it *)
Theorem c13_never_failed : forall (route : list server -> dyn -> exc (option server)) (c : hcfg),
  (forall nodes k sv, route nodes k = Ok (Some sv) -> sv_mem nodes sv = true) ->
  0 <= hc_retry_attempts c -> hc_retry_timeout c < hc_dead_timeout c ->
  forall sv servers t0 times outs ops, mono t0 times -> Forall okout outs ->
  let s := snd (run_hops route c ops (init_hstate servers t0 times outs)) in
  clean sv (h_log s) ->
  sv_get (h_failed s) sv = None /\ sv_get (h_dead s) sv = None /\
  (in_rotation_at_start sv servers t0 times outs = true -> sv_mem (h_nodes s) sv = true).
Proof.
  intros route c Hr Ha Ht sv servers t0 times outs ops Hm Ho. cbn zeta.
  destruct (history_inv route c Hr Ha Ht sv (in_rotation_at_start sv servers t0 times outs) servers t0 times outs ops Hm Ho eq_refl) as (_ & _ & _ & Cs & _).
  exact Cs.
Qed.
Print Assumptions c13_never_failed.

(* "only the failing server's own error or 'all servers down' can escape a key-addressed call - never an internal
   bookkeeping error - and nothing escapes with ignore_exc", for every history of calls with valid keys: every result is
   a return value, or (only without ignore_exc) an OSError-class error or MemcacheError *)
Theorem c13_escapes : forall (route : list server -> dyn -> exc (option server)) (c : hcfg),
  (forall nodes k sv, route nodes k = Ok (Some sv) -> sv_mem nodes sv = true) ->
  (forall nodes k, exists r, route nodes k = Ok r) ->
  0 <= hc_retry_attempts c -> hc_retry_timeout c < hc_dead_timeout c ->
  forall servers t0 times outs ops, mono t0 times -> Forall okout outs -> Forall (valid_op c) ops ->
  exists rs, fst (run_hops route c ops (init_hstate servers t0 times outs)) = Ok rs /\
             Forall (fun r => match r with
                              | Ok _ => True
                              | Raise e => hc_ignore_exc c = false /\ (exn_isa e OSError = true \/ e = MemcacheError) end) rs.
Proof.
  intros route c Hr Htot Ha Ht servers t0 times outs ops Hm Ho Hv.
  apply (escapes_hold route c Hr Htot Ha Ht (h_nodes (init_hstate servers t0 times outs)) ops _ (init_all c servers t0 times outs Hm Ho) Hv).
Qed.
Print Assumptions c13_escapes.

(* "once every server is healthy again, placement returns to the original within two dead_timeout periods of traffic":
   (a) the call that finds the check due (more than dead_timeout since the last one) and every evicted server out for more
       than dead_timeout empties the eviction table;
   (b) in every history, whenever the eviction table is empty the rotation consists of exactly the servers the client
       started with (as a set: by c11_order placement does not depend on the order), and an evicted server is always one
       of them.
   The check moves _last_dead_check_time only to the time of a call, so with calls arriving a server evicted at time D
   meets (a) at the first call after D + 2 * dead_timeout at the latest. *)
Theorem c13_revival : forall c (s : hstate) t rest, h_time s = t :: rest -> t - h_last_check s > hc_dead_timeout c ->
  (forall x td, In (x, td) (h_dead s) -> t - td > hc_dead_timeout c) -> h_dead (snd (retry_dead c s)) = [].
Proof. exact C13Windows.retry_dead_recovers. Qed.
Print Assumptions c13_revival.
Theorem c13_rotation_restored : forall (route : list server -> dyn -> exc (option server)) (c : hcfg),
  (forall nodes k sv, route nodes k = Ok (Some sv) -> sv_mem nodes sv = true) ->
  0 <= hc_retry_attempts c -> hc_retry_timeout c < hc_dead_timeout c ->
  forall servers t0 times outs ops, mono t0 times -> Forall okout outs ->
  let s := snd (run_hops route c ops (init_hstate servers t0 times outs)) in
  h_dead s = [] -> forall sv, sv_mem (h_nodes s) sv = sv_mem (h_nodes (init_hstate servers t0 times outs)) sv.
Proof.
  intros route c Hr Ha Ht servers t0 times outs ops Hm Ho. cbn zeta. intros Hd sv.
  apply (rotation_restored c (h_nodes (init_hstate servers t0 times outs))); [|exact Hd].
  apply (all_inv_hold route c Hr Ha Ht). apply (init_all c servers t0 times outs Hm Ho).
Qed.
Print Assumptions c13_rotation_restored.

(* "within two dead_timeout periods of traffic", for every history: in every reachable state the time of the last check is at
   most dead_timeout later than the eviction time of every server still evicted (the check time moves only when a check is
   carried out, and a check revives everything older than dead_timeout).  Consequently, whatever happened before, the
   revival check of the first key-addressed call whose clock reading is later than  eviction time + 2 * dead_timeout
   is due and brings that server back into rotation; and when this holds of every evicted server, the eviction table is
   empty afterwards and the rotation is the original one. *)
Theorem c13_check_time_bound : forall (route : list server -> dyn -> exc (option server)) (c : hcfg), 0 <= hc_dead_timeout c ->
  forall servers t0 times outs ops, mono t0 times -> Forall okout outs ->
  let s := snd (run_hops route c ops (init_hstate servers t0 times outs)) in
  forall sv td, In (sv, td) (h_dead s) -> td <= h_last_time s /\ h_last_check s <= td + hc_dead_timeout c.
Proof.
  intros route c Hd servers t0 times outs ops Hm Ho. cbn zeta. intros sv td Hin.
  apply (j_age c _ (run_hops_J route c Hd ops _ (init_J c servers t0 times outs Hm Ho)) sv td Hin).
Qed.
Print Assumptions c13_check_time_bound.
Theorem c13_two_periods : forall (route : list server -> dyn -> exc (option server)) (c : hcfg), 0 <= hc_dead_timeout c ->
  forall servers t0 times outs ops, mono t0 times -> Forall okout outs ->
  let s := snd (run_hops route c ops (init_hstate servers t0 times outs)) in
  forall t rest sv td, h_time s = t :: rest -> In (sv, td) (h_dead s) -> t - td > 2 * hc_dead_timeout c ->
  let s' := snd (retry_dead c s) in sv_get (h_dead s') sv = None /\ sv_mem (h_nodes s') sv = true.
Proof.
  intros route c Hd servers t0 times outs ops Hm Ho. cbn zeta. intros t rest sv td Ht Hin Hold.
  apply (old_eviction_revived c Hd _ t rest sv td (run_hops_J route c Hd ops _ (init_J c servers t0 times outs Hm Ho)) Ht Hin Hold).
Qed.
Print Assumptions c13_two_periods.
Theorem c13_two_periods_all : forall (route : list server -> dyn -> exc (option server)) (c : hcfg),
  (forall nodes k sv, route nodes k = Ok (Some sv) -> sv_mem nodes sv = true) ->
  0 <= hc_retry_attempts c -> hc_retry_timeout c < hc_dead_timeout c -> 0 <= hc_dead_timeout c ->
  forall servers t0 times outs ops, mono t0 times -> Forall okout outs ->
  let s := snd (run_hops route c ops (init_hstate servers t0 times outs)) in
  forall t rest, h_time s = t :: rest -> h_dead s <> [] ->
  (forall x td, In (x, td) (h_dead s) -> t - td > 2 * hc_dead_timeout c) ->
  let s' := snd (retry_dead c s) in
  h_dead s' = [] /\ forall sv, sv_mem (h_nodes s') sv = sv_mem (h_nodes (init_hstate servers t0 times outs)) sv.
Proof.
  intros route c Hr Ha Ht Hd servers t0 times outs ops Hm Ho. cbn zeta. intros t rest Htm Hne Hold.
  pose proof (old_evictions_cleared c Hd _ t rest (run_hops_J route c Hd ops _ (init_J c servers t0 times outs Hm Ho)) Htm Hne Hold) as Hc.
  split; [exact Hc|]. intros sv.
  apply (rotation_restored c (h_nodes (init_hstate servers t0 times outs))); [|exact Hc].
  intros sv0. apply C13Windows.retry_dead_inv.
  apply (all_inv_hold route c Hr Ha Ht (h_nodes (init_hstate servers t0 times outs)) ops _ (init_all c servers t0 times outs Hm Ho) sv0).
Qed.
Print Assumptions c13_two_periods_all.

(* non-vacuity: a history that drives one server through failure, a retry inside the window (no contact), retries after
   it, eviction with the last contact, revival and a further failure meets the premises; its contact log is the one shown *)
Definition ex_route (nodes : list server) (k : dyn) : exc (option server) := Ok (if sv_mem nodes [97] then Some [97] else hd_error nodes).
Definition ex_hcfg : hcfg := {| hc_retry_attempts := 1; hc_retry_timeout := 5; hc_dead_timeout := 60; hc_ignore_exc := true; hc_prefix := []; hc_unicode := false |}.
Example c13_windows_ex :
  let fails := [Raise ConnectionRefusedError; Raise ConnectionRefusedError; Raise ConnectionRefusedError; Raise ConnectionRefusedError] in
  let times := [10; 12; 17; 18; 30; 31; 100; 101; 102; 200; 200; 200] in
  let ops := [HCmd 0 (DBytes [107]) DNone []; HCmd 0 (DBytes [107]) DNone []; HCmd 0 (DBytes [107]) DNone []; HCmd 0 (DBytes [107]) DNone [];
              HSetMany [DTuple [DBytes [107]; DBytes [118]]] []; HDeleteMany [DBytes [107]] []; HTick; HGetMany false [DBytes [107]; DBytes [108]]] in
  (forall nodes k sv, ex_route nodes k = Ok (Some sv) -> sv_mem nodes sv = true) /\
  mono 0 times /\ Forall okout fails /\
  contacts_chrono [97] (h_log (snd (run_hops ex_route ex_hcfg ops (init_hstate [[97]; [98]] 0 times fails))))
  = [(0, false); (17, false); (30, false); (101, false); (200, true)].
Proof.
  cbn zeta. split.
  { intros nodes k sv H. unfold ex_route in H. destruct (sv_mem nodes [97]) eqn:E; [inversion H; subst; exact E|].
    destruct nodes as [|x t]; [discriminate|]. inversion H; subst. unfold sv_mem. cbn [existsb]. rewrite C12Proof.list_eqb_refl. reflexivity. }
  split; [cbn; lia|]. split; [repeat constructor|]. vm_compute. reflexivity.
Qed.

(* non-vacuity of c13_two_periods / c13_two_periods_all: [97] is evicted at 30; the next clock reading is 200 > 30 + 2 * 60 *)
Example c13_two_periods_ex :
  let fails : list (exc dyn) := [Raise ConnectionRefusedError; Raise ConnectionRefusedError; Raise ConnectionRefusedError; Raise ConnectionRefusedError] in
  let ops := [HCmd 0 (DBytes [107]) DNone []; HCmd 0 (DBytes [107]) DNone []; HCmd 0 (DBytes [107]) DNone []; HCmd 0 (DBytes [107]) DNone []] in
  let s := snd (run_hops ex_route ex_hcfg ops (init_hstate [[97]; [98]] 0 [10; 12; 17; 18; 30; 31; 200] fails)) in
  h_dead s = [([97], 30)] /\ h_time s = [200] /\ h_nodes s = [[98]] /\
  h_dead (snd (retry_dead ex_hcfg s)) = [] /\ h_nodes (snd (retry_dead ex_hcfg s)) = [[98]; [97]].
Proof. vm_compute. repeat split. Qed.
