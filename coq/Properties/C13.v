(* C13 — HashClient failover: bounded probing, eviction, rerouting, recovery.
   Model/Hash.v (hand model over abstract inner clients and a scripted clock) is run against the real
   HashClient on every check; Spec/Failover.v states the probing bounds as an executable check on the
   contact log, extracted as the search oracle.  PARTIAL: the theorems below are the per-call decision
   rules and the bookkeeping facts from which the window bounds follow; the bounds over whole histories
   are checked (oracle windows_ok on the real contact log, exhaustive short histories + random long
   ones), not proved. *)
From Coq Require Import ZArith List Bool.
From PM Require Import Lib.Py Model.Hash Spec.Failover Proofs.C12Proof Proofs.C13Proof.
Import ListNotations.
Open Scope Z_scope.

(* no server that did not fail is ever bypassed: without a failure record the routed server is contacted *)
Theorem c13_no_bypass : forall c A sv (call : HM A) d (s : hstate), sv_get (h_failed s) sv = None ->
  safely_run c sv call d s =
  match call s with
  | (Ok a, s') => (Ok a, s')
  | (Raise e, s') => dispatch_handlers
      [ (OSError, fun e => hbind (mark_failed c sv) (fun _ => if hc_ignore_exc c then hret d else hthrow e));
        (Exception_, fun e => if hc_ignore_exc c then hret d else hthrow e) ] e s' end.
Proof. exact C13Proof.fresh_server_contacted. Qed.
Print Assumptions c13_no_bypass.

(* inside retry_timeout after a failing contact the server is NOT contacted (the call returns its default) *)
Theorem c13_retry_window : forall c A sv (call : HM A) d (s : hstate) att ft t rest,
  sv_get (h_failed s) sv = Some (att, ft) -> att < hc_retry_attempts c ->
  h_time s = t :: rest -> t - ft <= hc_retry_timeout c ->
  exists s', safely_run c sv call d s = (Ok d, s') /\ h_log s' = h_log s /\ h_out s' = h_out s /\
             h_failed s' = h_failed s /\ h_nodes s' = h_nodes s /\ h_dead s' = h_dead s.
Proof. exact C13Proof.retry_window_no_contact. Qed.
Print Assumptions c13_retry_window.

(* a single failure does not take a server out of rotation when retries are configured *)
Theorem c13_not_evicted_by_one : forall c sv (s : hstate), 0 < hc_retry_attempts c -> sv_get (h_failed s) sv = None ->
  let '(r, s') := mark_failed c sv s in
  r = Ok tt /\ h_nodes s' = h_nodes s /\ h_dead s' = h_dead s /\ exists t, sv_get (h_failed s') sv = Some (0, t).
Proof. exact C13Proof.one_failure_keeps_rotation. Qed.
Print Assumptions c13_not_evicted_by_one.

(* eviction is free of internal errors (no KeyError from the failure table, no ValueError from the hasher) and
   takes exactly the evicted server out of rotation, leaving every other server's records untouched *)
Theorem c13_eviction_clean : forall sv (s : hstate) rec, HInv s -> sv_get (h_failed s) sv = Some rec -> sv_mem (h_nodes s) sv = true ->
  exists s', remove_server sv s = (Ok tt, s') /\ sv_mem (h_nodes s') sv = false /\ sv_get (h_failed s') sv = None /\
             (exists t, sv_get (h_dead s') sv = Some t) /\
             (forall x, list_eqb sv x = false -> sv_mem (h_nodes s') x = sv_mem (h_nodes s) x /\ sv_get (h_failed s') x = sv_get (h_failed s) x
                                                /\ sv_get (h_dead s') x = sv_get (h_dead s) x).
Proof. exact C13Proof.remove_server_ok. Qed.
Print Assumptions c13_eviction_clean.

(* after retry_attempts failed retries the next call evicts the server and contacts it one last time *)
Theorem c13_eviction_contact : forall c A sv (call : HM A) d (s : hstate) att ft, HInv s ->
  sv_get (h_failed s) sv = Some (att, ft) -> hc_retry_attempts c <= att -> sv_mem (h_nodes s) sv = true ->
  exists s1, remove_server sv s = (Ok tt, s1) /\ sv_mem (h_nodes s1) sv = false /\
    safely_run c sv call d s =
    match call s1 with
    | (Ok a, s') => (Ok a, s')
    | (Raise e, s') => dispatch_handlers
        [ (OSError, fun e => hbind (mark_failed c sv) (fun _ => if hc_ignore_exc c then hret d else hthrow e));
          (Exception_, fun e => if hc_ignore_exc c then hret d else hthrow e) ] e s' end.
Proof. exact C13Proof.eviction_then_contact. Qed.
Print Assumptions c13_eviction_contact.

(* non-vacuity of the oracle: two probes inside the window are fine, three are not *)
Example c13_oracle_ex : windows_ok 2 5 60 [(0, false); (1, false); (7, false)] = true
                     /\ windows_ok 2 5 60 [(0, false); (1, false); (4, false)] = false
                     /\ windows_ok 2 5 60 [(0, false); (1, true); (2, false); (4, false)] = true.
Proof. repeat split; reflexivity. Qed.
