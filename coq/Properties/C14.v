(* C14 — murmur3_32 equals the reference MurmurHash3 x86_32.
   Gen.Murmur3 is regenerated from pymemcache/client/murmur3.py on every run;
   Spec.MurmurRef is Appleby's algorithm on 32-bit words, validated by 21 published vectors. *)
From Coq Require Import ZArith List.
From PM Require Import Lib.Py Gen.Murmur3 Spec.MurmurRef Proofs.C14Proof.
Import ListNotations.
Open Scope Z_scope.

(* every string of code points 0..255 (length < 2^32: the source masks the length with
   0xFFFFFFFC, stated rather than hidden), every 32-bit seed *)
Theorem c14_reference : forall data seed,
  Forall (fun c => 0 <= c < 256) data -> Z.of_nat (length data) < 4294967296 -> 0 <= seed < 4294967296 ->
  murmur3_32 data seed = Ok (murmur3_x86_32 data seed).
Proof. exact C14Proof.c14_reference. Qed.
Print Assumptions c14_reference.

(* any other string (any code points, any length) and any integer seed: total, 32-bit *)
Theorem c14_range : forall data seed,
  exists h, murmur3_32 data seed = Ok h /\ 0 <= h < 4294967296.
Proof. exact C14Proof.c14_range_proof. Qed.
Print Assumptions c14_range.

(* non-vacuity: a concrete non-trivial input meets the hypotheses and the generated code computes
   the published value *)
Example c14_witness : murmur3_32 [72;101;108;108;111;44;32;119;111;114;108;100;33] 0x9747b28c = Ok 0x24884CBA.
Proof. vm_compute. reflexivity. Qed.
