(* C02 — requests are well-formed memcached commands; arguments cannot inject.
   Spec/Proto.v: the request grammar as abstract syntax, its rendering and a strict parser written from the
   protocol text.  Part A: the strict parser reads every well-formed command sequence back exactly.  Part B:
   for the Client model (run against the real Client on every check) the bytes handed to sendall are the
   rendering of the intended commands -- whatever the key, value, flags, expiry, cas token or delta contain --
   and a failing check raises before anything is sent. *)
From Coq Require Import ZArith List Bool.
From PM Require Import Lib.Py Spec.LegalKey Model.Lits Spec.Proto Model.World Model.Readers Model.Client
                       Proofs.C07Proof Proofs.C02Proof.
Import ListNotations.
Open Scope Z_scope.

(* A: parse o render = id on well-formed commands (protocol ranges: flags < 2^32, expiry signed 64 bit, delta and
   cas unsigned 64 bit / digit strings, keys 1..250 bytes without whitespace or NUL, any data block) *)
Theorem c02_parse_render : forall cmds, forallb wf_cmd cmds = true -> parse (render_all cmds) = Some cmds.
Proof. exact C02Proof.parse_render. Qed.
Print Assumptions c02_parse_render.

(* B, storage (set, add, replace, append, prepend, cas, set_many): the bytes of _store_cmd are the rendering of the
   intended commands and parse back to exactly them; keys, values and flags are never read as structure *)
Theorem c02_store : forall c v values expire nr flags cb bytes,
  store_bytes c (sverb_name v) values expire nr flags (cas_opt v cb) = Ok bytes ->
  in_i64 expire -> in_u32 flags -> (is_cas v = true -> bytes_isdigit cb = true) ->
  exists cmds, store_intent c v values expire nr flags cb = Ok cmds /\ bytes = render_all cmds /\ parse bytes = Some cmds.
Proof. exact C02Proof.store_wellformed. Qed.
Print Assumptions c02_store.
(* ... every key and value is checked and every command built before the connection is touched: one illegal key or
   value in a multi-key call means nothing at all is sent (the world, trace included, is unchanged) *)
Theorem c02_store_before_send : forall P peer c name values expire noreply flags cas (w : world P),
  store_cmd P peer c name values expire noreply flags cas w =
  match store_bytes c name values expire noreply flags cas with
  | Ok b => store_io P peer c name values noreply b w
  | Raise e => (Raise e, w) end.
Proof. exact C02Proof.store_cmd_bytes. Qed.
Theorem c02_fetch_before_send : forall P peer c name keys ec prefix expire (w : world P),
  fetch_cmd P peer c name keys ec prefix expire w =
  match fetch_plan c name keys prefix expire with
  | Ok (remapped, cmd) => fetch_io P peer c name ec remapped cmd w
  | Raise e => (Raise e, w) end.
Proof. exact C07Proof.fetch_cmd_plan. Qed.
Theorem c02_cas_token : forall c v b, check_cas c v = Ok b -> bytes_isdigit b = true.
Proof. exact C02Proof.check_cas_digits. Qed.

(* B, get / gets / gat / gats with any number of keys *)
Theorem c02_fetch : forall c name keys expire remapped cmd (gets : bool),
  fetch_plan c name keys (c_prefix c) expire = Ok (remapped, cmd) -> keys <> [] ->
  (name = if gets then L_gets else L_get) \/ (name = if gets then L_gats else L_gat) ->
  (forall e, expire = Some e -> in_i64 e) ->
  exists pks, forallb legal pks = true /\ length pks = length keys /\
    match expire with
    | None => name = (if gets then L_gets else L_get) -> cmd = render (CGet gets pks) /\ parse cmd = Some [CGet gets pks]
    | Some e => name = (if gets then L_gats else L_gat) -> exists z, int_value e = Some z /\ cmd = render (CGat gets z pks) /\ parse cmd = Some [CGat gets z pks]
    end.
Proof. exact C02Proof.fetch_wellformed. Qed.
Print Assumptions c02_fetch.

(* B, delete / incr / decr / touch / flush_all: the command line built by the operation is the rendering of the
   intended command *)
Theorem c02_delete : forall c key nr k, check_key c (c_prefix c) key = Ok k ->
  L_delete_sp ++ k ++ nr_sfx nr ++ L_crlf = render (CDelete k nr) /\ parse (render_all [CDelete k nr]) = Some [CDelete k nr].
Proof. exact C02Proof.delete_wellformed. Qed.
Theorem c02_arith : forall c (inc : bool) key value nr k vb,
  check_key c (c_prefix c) key = Ok k -> check_integer c value = Ok vb -> (forall z, int_value value = Some z -> 0 <= z < 2 ^ 64) ->
  exists z, int_value value = Some z /\
    (if inc then L_incr_sp else L_decr_sp) ++ k ++ L_sp ++ vb ++ nr_sfx nr ++ L_crlf = render (CArith inc k z nr) /\
    parse (render_all [CArith inc k z nr]) = Some [CArith inc k z nr].
Proof. exact C02Proof.arith_wellformed. Qed.
Theorem c02_touch : forall c key expire nr k eb,
  check_key c (c_prefix c) key = Ok k -> check_integer c expire = Ok eb -> in_i64 expire ->
  exists z, int_value expire = Some z /\
    L_touch_sp ++ k ++ L_sp ++ eb ++ nr_sfx nr ++ L_crlf = render (CTouch k z nr) /\
    parse (render_all [CTouch k z nr]) = Some [CTouch k z nr].
Proof. exact C02Proof.touch_wellformed. Qed.
Theorem c02_flush : forall c delay nr db,
  check_integer c delay = Ok db -> (forall z, int_value delay = Some z -> 0 <= z) ->
  exists z, int_value delay = Some z /\
    L_flush_all_sp ++ db ++ nr_sfx nr ++ L_crlf = render (CFlush z nr) /\ parse (render_all [CFlush z nr]) = Some [CFlush z nr].
Proof. exact C02Proof.flush_wellformed. Qed.
Print Assumptions c02_arith.

(* an accepted key is a legal wire key: never empty, never with whitespace, CR, LF or NUL, at most 250 bytes *)
Theorem c02_key : forall c prefix k w, check_key c prefix k = Ok w -> legal w = true.
Proof. exact C02Proof.check_key_legal. Qed.
(* an accepted integer argument is rendered by value *)
Theorem c02_integer : forall c v, check_integer c v = match int_value v with Some z => Ok (str_of_Z z) | None => Raise MemcacheIllegalInputError end.
Proof. exact C02Proof.check_integer_spec. Qed.
Print Assumptions c02_integer.

(* non-vacuity: a value full of protocol text is carried as data; a smuggled line break in a key is not a key *)
Example c02_ex :
  parse (render_all [CStore VSet [107] 5 (-1) [13; 10; 115; 101; 116; 32; 120; 32; 48; 32; 48; 32; 49; 13; 10; 121; 13; 10] [] true; CGet true [[97]; [98]]])
    = Some [CStore VSet [107] 5 (-1) [13; 10; 115; 101; 116; 32; 120; 32; 48; 32; 48; 32; 49; 13; 10; 121; 13; 10] [] true; CGet true [[97]; [98]]]
  /\ parse ([103; 101; 116; 32; 97; 13; 10; 98; 13; 10]) = None
  /\ parse ([103; 101; 116; 32; 32; 97; 13; 10]) = None.
Proof. vm_compute. repeat split; reflexivity. Qed.
