(* C12 — HashClient single-key and multi-key operations agree on where a key lives.
   Model/Hash.v: hand model of HashClient over abstract inner clients (client_class seam), run against
   the real class on every check.  `routed nodes key` is where _get_client sends a key (pair splitting,
   key check with the client's prefix, hasher.get_node on the routing key); `route` is ANY placement
   function (C11 proves the shipped one is the rendezvous rule). *)
From Coq Require Import ZArith List Bool.
From PM Require Import Lib.Py Model.Hash Proofs.C12Proof Proofs.C12Store.
Import ListNotations.
Open Scope Z_scope.

(* every single-key operation on a client with no failover bookkeeping pending contacts exactly the server
   placement assigns to the routing key, with the bare key (the second component of a (server_key, key) pair) *)
Theorem c12_single : forall route c meth key d args (s : hstate) sv k,
  healthy s -> routed route c (h_nodes s) key = Some (sv, k) ->
  run_cmd route c meth key d args s =
  match icall sv meth (k :: args) s with
  | (Ok v, s') => (Ok v, s')
  | (Raise e, s') => dispatch_handlers
       [ (OSError, fun e => hbind (mark_failed c sv) (fun _ => if hc_ignore_exc c then hret d else hthrow e));
         (Exception_, fun e => if hc_ignore_exc c then hret d else hthrow e) ] e s'
  end.
Proof. exact C12Proof.run_cmd_healthy. Qed.
Print Assumptions c12_single.

(* the batches of a multi-key operation are a partition of the keys by the SAME routing function: the batch of
   server sv is exactly the keys routed to sv, in the caller's order, and no server has two batches *)
Theorem c12_partition : forall route c nodes keys b sv,
  blookup (batches_of route c nodes keys b) sv = blookup b sv ++ keys_for route c nodes sv keys.
Proof. exact C12Proof.batches_partition. Qed.
Print Assumptions c12_partition.
Theorem c12_one_batch_per_server : forall route c nodes keys b,
  NoDup (map fst b) -> NoDup (map fst (batches_of route c nodes keys b)).
Proof. exact C12Proof.batches_nodup. Qed.

(* get_many / gets_many on a healthy client whose servers answer: exactly one inner call per non-empty batch, to
   that batch's server, carrying exactly its keys *)
Theorem c12_get_many : forall route c gets keys (s : hstate),
  healthy s -> Forall (fun key => routed route c (h_nodes s) key <> None) keys ->
  all_ok (length (batches_of route c (h_nodes s) keys [])) s ->
  exists r s', get_many route c gets keys [] s = (Ok r, s') /\
    contacts s' = contacts s ++ map (fun b => (fst b, (if gets then 3 else 2), [DList (snd b)])) (batches_of route c (h_nodes s) keys []).
Proof. exact C12Proof.get_many_contacts. Qed.
Print Assumptions c12_get_many.

(* ---- "anything written by set or set_many is found by get, gets, delete, incr or touch on the same key" ----
   The write and every later single-key operation on that key reach the same server with the same bare key, and the set_many
   batch sent to that server has an entry for that key (what the server then answers is C05).  set_many's per-server batches are
   dicts (client_batches[server][key] = value): c12_set_many_partition says the batch of a server is the dict built, in order,
   from exactly the items routing assigns to it - two items whose bare keys are equal and that land on the same server (possible
   only with (server_key, key) pairs) are one entry, as in the code. *)
Theorem c12_set_then_op : forall route c mset m key d1 d2 args1 args2 (s : hstate) sv k,
  healthy s -> routed route c (h_nodes s) key = Some (sv, k) -> all_ok 2 s ->
  exists v2 s', hbind (run_cmd route c mset key d1 args1) (fun _ => run_cmd route c m key d2 args2) s = (Ok v2, s') /\
    contacts s' = contacts s ++ [(sv, mset, k :: args1); (sv, m, k :: args2)].
Proof. exact C12Store.set_then_op. Qed.
Print Assumptions c12_set_then_op.
Theorem c12_set_many_partition : forall route c nodes values b sv,
  blookup (vbatches route c nodes values b) sv = fold_left put_item (items_for route c nodes sv values) (blookup b sv).
Proof. exact C12Store.vbatches_partition. Qed.
Theorem c12_set_many : forall route c values args (s : hstate),
  healthy s -> Forall (routable route c (h_nodes s)) values -> all_ok (length (vbatches route c (h_nodes s) values [])) s ->
  exists r s', set_many route c values args s = (Ok r, s') /\ healthy s' /\ h_nodes s' = h_nodes s /\
    contacts s' = contacts s ++ map (fun b => (fst b, 1, DDict (snd b) :: args)) (vbatches route c (h_nodes s) values []) /\
    h_out s' = skipn (length (vbatches route c (h_nodes s) values [])) (h_out s).
Proof. exact C12Store.set_many_contacts. Qed.
Theorem c12_set_many_then_op : forall route c values args m key value d2 args2 (s : hstate) sv k,
  dyn_eqb k k = true ->
  healthy s -> Forall (routable route c (h_nodes s)) values -> In (DTuple [key; value]) values -> routed route c (h_nodes s) key = Some (sv, k) ->
  all_ok (length (vbatches route c (h_nodes s) values []) + 1) s ->
  exists v2 s', hbind (set_many route c values args) (fun _ => run_cmd route c m key d2 args2) s = (Ok v2, s') /\
    contacts s' = contacts s ++ map (fun b => (fst b, 1, DDict (snd b) :: args)) (vbatches route c (h_nodes s) values []) ++ [(sv, m, k :: args2)] /\
    dget (blookup (vbatches route c (h_nodes s) values []) sv) k <> None /\ NoDup (map fst (vbatches route c (h_nodes s) values [])).
Proof. exact C12Store.set_many_then_op. Qed.
Print Assumptions c12_set_many_then_op.
