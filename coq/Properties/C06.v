(* C06 — connection lifecycle: errors close, next call reconnects, no socket leaks.
   Spec/Lifecycle.v: the discipline as a monitor automaton over socket events (at most one open
   socket; connect timeout before connect(), I/O timeout after it and before any send/recv; with TLS
   every connect/send/recv on the wrapper; close() counts as closed).  Model/Client.v is the hand
   model of _connect/close/the exchange paths, run against the real Client on every check.
   Quantifier: every configuration (TCP with any number of resolved addresses, UNIX, TLS-wrapped TCP,
   no_delay, keepalive), every peer, every recv behaviour, and every script of Exception-class failures
   of getaddrinfo/socket/setsockopt/wrap_socket/settimeout/connect/sendall/close (script_exc). *)
From Coq Require Import ZArith List Bool.
From Coq Require Import String.
From PM Require Import Lib.Py Model.World Model.Readers Model.Client Spec.Lifecycle Proofs.Hoare Proofs.C06Proof Gen.Wrappers Gen.Handlers.
Import ListNotations.
Open Scope Z_scope.

(* The boundary invariant Inv: the monitor has not been tripped and the set of open sockets is exactly
   {self.sock}, which is connected under the configured timeouts (and TLS-wrapped when configured).
   It holds again whenever a public call returns OR raises — for every operation: *)
Theorem c06_invariant : forall P peer c, (c_tls c = true -> c_tcp c = true) -> forall o,
  hoare (Inv P c) (run_op P peer c o) (fun _ => Inv P c) (fun _ => Inv P c).
Proof. exact C06Proof.keeps_run_op. Qed.
Print Assumptions c06_invariant.

(* ... hence for every sequence of calls, starting from a client that has never connected *)
Theorem c06_sequences : forall P peer c, (c_tls c = true -> c_tcp c = true) -> forall ops,
  hoare (Inv P c) (run_ops P peer c ops) (fun _ => Inv P c) (fun _ => Inv P c).
Proof. exact C06Proof.keeps_run_ops. Qed.
Print Assumptions c06_sequences.

Theorem c06_initial : forall P c (p : P) sc cs,
  Forall (fun o => match o with OFail e => exn_isa e Exception_ = true | ONormal => True | OLate _ => False end) sc ->
  Inv P c (init_world p sc cs).
Proof. intros P c p sc cs H. split; [exact H|reflexivity]. Qed.

(* what the invariant means: the monitor is untripped (no second open socket at any time, timeouts and
   TLS discipline respected on every event so far) and nothing but self.sock is open *)
Theorem c06_inv_meaning : forall P c (w : world P), Inv P c w ->
  trace_ok (c_tls c) (w_trace w) = true /\
  m_open (mon (c_tls c) (w_trace w)) = match w_sock w with Some sid => Some (sid, 3) | None => None end.
Proof.
  intros P c w [_ H]. unfold trace_ok. destruct (w_sock w); rewrite H; split; reflexivity.
Qed.

(* errors close: an exception of a class covered by the cleanup handler that escapes the socket phase of
   any of the three exchange paths leaves nothing open and self.sock = None (so the next call reconnects) *)
Theorem c06_failure_closes_fetch : forall P peer c, (c_tls c = true -> c_tcp c = true) ->
  forall name expect_cas remapped cmd,
  hoare (Inv P c) (fetch_io P peer c name expect_cas remapped cmd) (fun _ => Inv P c) (Eh P c (h_fetch c)).
Proof. exact C06Proof.h_fetch_io. Qed.
Theorem c06_failure_closes_store : forall P peer c, (c_tls c = true -> c_tcp c = true) ->
  forall name values noreply cmds,
  hoare (Inv P c) (store_io P peer c name values noreply cmds) (fun _ => Inv P c) (Eh P c (h_store c)).
Proof. exact C06Proof.h_store_io. Qed.
Theorem c06_failure_closes_misc : forall P peer c, (c_tls c = true -> c_tcp c = true) ->
  forall cmds noreply end_tokens,
  hoare (Inv P c) (misc_cmd P peer c cmds noreply end_tokens) (fun _ => Inv P c) (Eh P c (h_misc c)).
Proof. exact C06Proof.h_misc_cmd. Qed.
Print Assumptions c06_failure_closes_misc.

(* a connect attempt from the invariant either ends connected and ready, or with nothing open *)
Theorem c06_connect : forall P c, (c_tls c = true -> c_tcp c = true) ->
  hoare (Inv P c) (client_connect P c) (fun _ w => exists sid, As P c (Ready c sid) (Some sid) w) (fun _ => As P c Idle None).
Proof. exact C06Proof.h_client_connect. Qed.
Print Assumptions c06_connect.

(* address fallback: an address whose socket() fails is skipped; the first address for which a socket can
   be set up is used and no error of a skipped address is raised *)
Theorem c06_fallback_skip : forall P c j n err (w : world P) e rest,
  w_script w = OFail e :: rest -> exn_isa e Exception_ = true ->
  addr_loop P c j (S n) err w =
  addr_loop P c (j + 1) n (Some e) (upd_trace (upd_script w rest) (ESocketFail j :: w_trace w)).
Proof. exact C06Proof.addr_loop_skip. Qed.
Theorem c06_fallback_success : forall P c j n err (w w' : world P) sid,
  try_make P c j w = (Ok (inl sid), w') -> addr_loop P c j (S n) err w = (Ok (Some (sid, j), None), w').
Proof. exact C06Proof.addr_loop_success. Qed.
Print Assumptions c06_fallback_success.

(* "a Client on its own or inside a pool or hash client": the two timeouts reach the inner Client unswapped.  The tables are read
   from PooledClient._create_client and HashClient.__init__ (default_kwargs) on every run (Gen/Wrappers.v) *)
Theorem c06_stack_timeouts :
  In ("connect_timeout", "self.connect_timeout")%string pooled_create_kwargs /\ In ("timeout", "self.timeout")%string pooled_create_kwargs /\
  In ("connect_timeout", "connect_timeout")%string hash_default_kwargs /\ In ("timeout", "timeout")%string hash_default_kwargs.
Proof. repeat split; cbn; tauto. Qed.
Print Assumptions c06_stack_timeouts.

(* "whatever failures occur": the cleanup handlers of the three exchange paths catch EVERY exception class (read from base.py on
   every run, Gen/Handlers.v), so the c06_failure_closes_* theorems apply to whatever a socket call raises - an ordinary error or an
   interruption *)
Theorem c06_src_handlers : src_h_fetch = BaseException /\ src_h_store = BaseException /\ src_h_misc = BaseException.
Proof. repeat split; reflexivity. Qed.
Print Assumptions c06_src_handlers.
