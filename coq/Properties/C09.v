(* C09 — a failed pooled connection is discarded and pool capacity is conserved.
   Model/Pooled.v: hand model of ObjectPool (sequential use) and of PooledClient's wrappers on top of the
   Client model; run against the real PooledClient on every check (faults, idle gaps, pool sizes). *)
From Coq Require Import ZArith List Bool.
From PM Require Import Lib.Py Model.World Model.Readers Model.Client Model.Pooled Proofs.PoolProof.
Import ListNotations.
Open Scope Z_scope.

(* PInv: nothing checked out, no client listed twice.  After every PooledClient call that returns, or raises
   an exception of a class the pool's context manager catches, the invariant holds again: the number of
   checked-out connections is back to zero. Every operation, every fault script, every peer, every clock. *)
Theorem c09_used_zero : forall P peer c pc o p w, PInv p -> 1 <= pc_max pc ->
  let '(r, p', w') := pooled_op P peer c pc o p w in
  PInv p' \/ (exists e, r = Raise e /\ exn_isa e (pc_h_pool pc) = false).
Proof. exact PoolProof.pooled_op_spec. Qed.
Print Assumptions c09_used_zero.

(* a client whose call escaped with a caught exception is discarded: it is closed (after_remove) and ends
   up in neither the used nor the free list, so it is never handed out again *)
Theorem c09_failed_discarded : forall P A pc (body : Z -> PM P A) p w cid p1 w1 e p2 w2,
  PInv p -> 1 <= pc_max pc -> framed P (body cid) ->
  pool_get P pc p w = (Ok cid, p1, w1) -> body cid p1 w1 = (Raise e, p2, w2) -> exn_isa e (pc_h_pool pc) = true ->
  let '(r, p', w') := with_client P pc body p w in Gone cid p'.
Proof. exact PoolProof.with_client_discards. Qed.
Print Assumptions c09_failed_discarded.

(* checkout from the invariant: the returned client is the only one checked out and is in no list;
   the capacity error cannot occur (max_pool_size >= 1 and nothing is checked out between calls) *)
Theorem c09_checkout : forall P pc p w, PInv p -> 1 <= pc_max pc ->
  let '(r, p', w') := pool_get P pc p w in
  NoDup (ids p') /\ Forall (fun c => c < p_next p') (ids p') /\
  match r with
  | Ok cid => p_used p' = [cid] /\ ~ In cid (ids p') /\ cid < p_next p'
  | Raise e => p_used p' = []
  end.
Proof. exact PoolProof.pool_get_spec. Qed.
Theorem c09_never_exhausted : forall p pc, PInv p -> 1 <= pc_max pc ->
  (Z.of_nat (length (p_used p)) >=? pc_max pc) = false.
Proof. exact PoolProof.never_full. Qed.
Print Assumptions c09_never_exhausted.

(* release returns the client to the idle list with a fresh time stamp *)
Theorem c09_release : forall P cid p w, Held cid p ->
  let '(r, p', w') := pool_release P cid p w in
  r = Ok tt /\ PInv p' /\ exists now, p_free p' = p_free p ++ [(cid, now)].
Proof. exact PoolProof.pool_release_spec. Qed.
