(* C09 — a failed pooled connection is discarded and pool capacity is conserved.
   Model/Pooled.v: hand model of ObjectPool (sequential use) and of PooledClient's wrappers on top of the
   Client model; run against the real PooledClient on every check (faults, idle gaps, pool sizes).
     c09_used_zero / c09_failed_discarded / c09_checkout / c09_never_exhausted / c09_release   (Proofs/PoolProof.v)
     c09_reuse             checkout hands out the first idle connection still inside pool_idle_timeout exactly as it is
                           (its socket untouched: not closed, not reopened); the idle connections scanned before it had
                           expired and have been closed and dropped; a NEW connection is created only when every idle
                           connection had expired (each closed and dropped)
     c09_failed_retired    a connection whose call escaped with a caught exception is closed and retired
     c09_never_again       a retired connection (failed, expired, quit, cleared) is never returned by checkout, and stays
                           retired along every history of PooledClient calls (Proofs/PoolReuse.v) *)
From Coq Require Import ZArith List Bool Lia.
From PM Require Import Lib.Py Model.World Model.Readers Model.Client Model.Pooled Proofs.PoolProof Proofs.PoolReuse Proofs.C10Proof Gen.Handlers.
Import ListNotations.
Open Scope Z_scope.

(* PInv: nothing checked out, no client listed twice.  After every PooledClient call that returns, or raises
   an exception of a class the pool's context manager catches, the invariant holds again: the number of
   checked-out connections is back to zero. Every operation, every fault script, every peer, every clock. *)
Theorem c09_used_zero : forall P peer c pc o p w, PInv p -> 1 <= pc_max pc ->
  let '(r, p', w') := pooled_op P peer c pc o p w in
  PInv p' \/ (exists e, r = Raise e /\ exn_isa e (pc_h_pool pc) = false).
Proof. exact PoolProof.pooled_op_spec. Qed.
Print Assumptions c09_used_zero.

(* ... and with the handler class read from pool.py on this run (`except BaseException` in get_and_release: Gen/Handlers.v) nothing
   escapes it: the count is back to zero after EVERY call, whatever it raised - an ordinary error or an interruption *)
Theorem c09_used_zero_src : forall P peer c pc o p w, pc_h_pool pc = src_h_pool -> PInv p -> 1 <= pc_max pc ->
  let '(r, p', w') := pooled_op P peer c pc o p w in PInv p'.
Proof.
  intros P peer c pc o p w Hh Hi Hm. pose proof (PoolProof.pooled_op_spec P peer c pc o p w Hi Hm) as H.
  destruct (pooled_op P peer c pc o p w) as [[r p'] w']. destruct H as [H|(e & _ & He)]; [exact H|].
  rewrite Hh in He. change src_h_pool with BaseException in He. rewrite C10Proof.isa_base in He. discriminate.
Qed.
Print Assumptions c09_used_zero_src.

(* a client whose call escaped with a caught exception is discarded: it is closed (after_remove) and ends
   up in neither the used nor the free list, so it is never handed out again *)
Theorem c09_failed_discarded : forall P A pc (body : Z -> PM P A) p w cid p1 w1 e p2 w2,
  PInv p -> 1 <= pc_max pc -> framed P (body cid) ->
  pool_get P pc p w = (Ok cid, p1, w1) -> body cid p1 w1 = (Raise e, p2, w2) -> exn_isa e (pc_h_pool pc) = true ->
  let '(r, p', w') := with_client P pc body p w in Gone cid p'.
Proof. exact PoolProof.with_client_discards. Qed.
Print Assumptions c09_failed_discarded.

(* checkout from the invariant: the returned client is the only one checked out and is in no list;
   the capacity error cannot occur (max_pool_size >= 1 and nothing is checked out between calls) *)
Theorem c09_checkout : forall P pc p w, PInv p -> 1 <= pc_max pc ->
  let '(r, p', w') := pool_get P pc p w in
  NoDup (ids p') /\ Forall (fun c => c < p_next p') (ids p') /\
  match r with
  | Ok cid => p_used p' = [cid] /\ ~ In cid (ids p') /\ cid < p_next p'
  | Raise e => p_used p' = []
  end.
Proof. exact PoolProof.pool_get_spec. Qed.
Theorem c09_never_exhausted : forall p pc, PInv p -> 1 <= pc_max pc ->
  (Z.of_nat (length (p_used p)) >=? pc_max pc) = false.
Proof. exact PoolProof.never_full. Qed.
Print Assumptions c09_never_exhausted.

(* release returns the client to the idle list with a fresh time stamp *)
Theorem c09_release : forall P cid p w, Held cid p ->
  let '(r, p', w') := pool_release P cid p w in
  r = Ok tt /\ PInv p' /\ exists now, p_free p' = p_free p ++ [(cid, now)].
Proof. exact PoolProof.pool_release_spec. Qed.

(* ---- reuse before reopening; idle expiry ---- *)
Theorem c09_reuse : forall P pc p w, PInv p -> 1 <= pc_max pc ->
  let '(r, p', w') := pool_get P pc p w in
  match r with
  | Ok c =>
      (exists pre last, p_free p = pre ++ (c, last) :: p_free p' /\ now_of p - last <= pc_idle pc /\
                        sock_get (p_socks p') c = sock_get (p_socks p) c /\
                        Forall (fun e => now_of p - snd e > pc_idle pc /\ sock_get (p_socks p') (fst e) = None) pre)
      \/ (c = p_next p /\ p_free p' = [] /\
          Forall (fun e => now_of p - snd e > pc_idle pc /\ sock_get (p_socks p') (fst e) = None) (p_free p))
  | Raise _ => True
  end.
Proof. exact PoolReuse.pool_get_reuses. Qed.
Print Assumptions c09_reuse.

(* ---- never handed out again ---- *)
Theorem c09_failed_retired : forall P A pc (body : Z -> PM P A) p w cid p1 w1 e p2 w2,
  PInv p -> 1 <= pc_max pc -> framed P (body cid) ->
  pool_get P pc p w = (Ok cid, p1, w1) -> body cid p1 w1 = (Raise e, p2, w2) -> exn_isa e (pc_h_pool pc) = true ->
  let '(r, p', w') := with_client P pc body p w in Retired cid p' /\ sock_get (p_socks p') cid = None.
Proof. exact PoolReuse.failed_is_retired. Qed.
Theorem c09_never_again : forall P peer c pc cid,
  (forall p w, Retired cid p -> let '(r, p', w') := pool_get P pc p w in Retired cid p' /\ (forall c0, r = Ok c0 -> c0 <> cid)) /\
  (forall ops p w, Retired cid p -> Retired cid (snd (fst (pooled_ops P peer c pc ops p w)))).
Proof. intros P peer c pc cid. split; [exact (PoolReuse.pool_get_retired P pc cid)|exact (PoolReuse.retired_forever P peer c pc cid)]. Qed.
Print Assumptions c09_never_again.

(* non-vacuity: an idle connection inside the timeout is reused, one outside is closed and a new one made *)
Example c09_reuse_ex :
  let pc := {| pc_max := 2; pc_idle := 10; pc_h_pool := BaseException |} in
  let p0 := {| p_used := []; p_free := [(0, 100); (1, 195)]; p_next := 2; p_socks := [(0, Some 7); (1, Some 8)]; p_clock := [200; 300]; p_created := 2 |} in
  let w0 := init_world tt [] [] in
  let '(r1, p1, w1) := pool_get unit pc p0 w0 in
  PInv p0 /\ r1 = Ok 1 /\ sock_get (p_socks p1) 1 = Some 8 /\ sock_get (p_socks p1) 0 = None /\ p_free p1 = [].
Proof. cbn zeta. vm_compute. repeat split; try reflexivity; repeat constructor; cbn; intuition (try discriminate; try lia). Qed.

(* ---- idle expiry over whole histories: "idle longer than pool_idle_timeout -> closed, never reused" ----
   The stamps of the idle connections followed by the clock's future readings are one chronological sequence (Chron).  It is so
   initially for any non-decreasing clock, and every PooledClient call keeps it so (a call reads the clock at most twice; the
   statement holds while the scripted clock has readings left).  In such a state a checkout leaves NO idle connection behind that
   has been idle for longer than the timeout: the scan goes from the oldest, closes what has expired and stops at the first fresh
   one - everything after it is fresher still.  (c09_reuse above says the ones it passed were closed.) *)
From Coq Require Import Sorted.
From PM Require Import Proofs.PoolIdle.
Theorem c09_idle_chronological : forall P peer c pc ops p w,
  Chron p -> (2 * length ops <= length (p_clock p))%nat -> Chron (snd (fst (pooled_ops P peer c pc ops p w))).
Proof. exact PoolIdle.pooled_ops_chron. Qed.
Print Assumptions c09_idle_chronological.

Theorem c09_initially_chronological : forall clockl, StronglySorted Z.le clockl -> Chron (init_pool clockl).
Proof. intros clockl H. exact H. Qed.

Theorem c09_no_stale_idle : forall P pc p w, PInv p -> 1 <= pc_max pc -> Chron p -> (1 <= length (p_clock p))%nat ->
  let '(r, p', w') := pool_get P pc p w in
  forall c, r = Ok c -> Forall (fun e => now_of p - snd e <= pc_idle pc) (p_free p').
Proof. exact PoolIdle.get_leaves_no_stale. Qed.
Print Assumptions c09_no_stale_idle.

(* non-vacuity: two idle connections, the older one expired: it is closed, the fresh one is handed out, nothing stale stays *)
Example c09_no_stale_ex :
  let pc := {| pc_max := 3; pc_idle := 60; pc_h_pool := BaseException |} in
  let p0 := {| p_used := []; p_free := [(0, 1000); (1, 1050); (2, 1060)]; p_next := 3; p_socks := [(0, Some 7); (1, Some 8); (2, Some 9)];
               p_clock := [1070; 1080]; p_created := 3 |} in
  let '(r1, p1, w1) := pool_get unit pc p0 (init_world tt [] []) in
  Chron p0 /\ r1 = Ok 1 /\ p_free p1 = [(2, 1060)] /\ sock_get (p_socks p1) 0 = None.
Proof.
  cbn zeta. vm_compute. repeat split; try reflexivity.
  repeat (constructor; [|repeat constructor; intros X; discriminate X]). constructor.
Qed.
