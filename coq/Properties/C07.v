(* C07 — ignore_exc turns every read failure into a cache miss.
   Three layers, each a hand model run against the real class on every check:
     Client        Model/Client.v   (fetch path; socket-level faults at every socket call, every reply)
     PooledClient  Model/Pooled.v   (the per-method swallow around an inner Client that does not ignore errors)
     HashClient    Model/Hash.v     (_get_client / _safely_run_func with per-call default values)
   and a structural table regenerated from the source on every run (Gen/Wrappers.v): what each wrapper method
   returns when it swallows an error, which must be the same expression the call returns for a miss.
   Quantifier: every configuration, peer, reply, recv behaviour, script of Exception-class socket failures,
   pool state satisfying the pool invariant, failover state, clock and inner-call outcome script. *)
From Coq Require Import ZArith List Bool String.
From PM Require Import Lib.Py Model.World Model.Readers Model.Lits Model.Client Model.Pooled Model.Hash
                       Proofs.Hoare Proofs.C06Proof Proofs.PoolProof Proofs.C12Proof Proofs.C07Proof Gen.Wrappers.
Import ListNotations.
Open Scope Z_scope.

Definition is_read (o : op) : Prop := match o with OpStatsRaw _ => False | _ => True end.

(* ---------------- Client ---------------- *)
(* nothing Exception-class escapes a read: an escaping exception is a BaseException such as KeyboardInterrupt,
   or it was raised by argument validation (illegal key, non-integer expire) before any socket call *)
Theorem c07_client_never_raises : forall P peer c, (c_tls c = true -> c_tcp c = true) -> c_ignore_exc c = true ->
  (forall e, exn_isa e Exception_ = true -> exn_isa e (h_fetch c) = true) ->
  forall o d (w : world P), miss_value o = Some d -> is_read o -> Inv P c w ->
  match run_op P peer c o w with
  | (Ok _, w') => Inv P c w'
  | (Raise e, w') => Inv P c w' /\ (exn_isa e Exception_ = false \/ w' = w)
  end.
Proof. exact C07Proof.read_op_never_raises. Qed.
Print Assumptions c07_client_never_raises.

(* at every failure point of the socket phase -- connect, send, any recv, reply interpretation, deserialisation --
   the call returns exactly its miss value, with the connection closed and self.sock None (reusable: C06) *)
Theorem c07_client_failure_is_miss : forall P peer c, (c_tls c = true -> c_tcp c = true) -> c_ignore_exc c = true ->
  (forall e, exn_isa e Exception_ = true -> exn_isa e (h_fetch c) = true) ->
  forall o d name keys ec prefix expire remapped cmd (w : world P) e w1,
  miss_value o = Some d -> is_read o ->
  read_args c o = Some (name, keys, ec, prefix, expire) -> fetch_plan c name keys prefix expire = Ok (remapped, cmd) ->
  Inv P c w -> fetch_body P peer c name ec remapped cmd (snd (reset_buf w)) = (Raise e, w1) -> exn_isa e Exception_ = true ->
  exists w2, run_op P peer c o w = (Ok d, w2) /\ InvN P c w2.
Proof. exact C07Proof.read_op_failure_is_miss. Qed.
Print Assumptions c07_client_failure_is_miss.

(* the miss value IS what the call returns for a miss: the result is read_finish of the fetched items on success,
   read_finish of no items is the miss value, and the reading loop returns no items when the reply is just END *)
Theorem c07_client_success : forall P peer c o name keys ec prefix expire remapped cmd (w : world P) r w1,
  read_args c o = Some (name, keys, ec, prefix, expire) -> fetch_plan c name keys prefix expire = Ok (remapped, cmd) ->
  fetch_body P peer c name ec remapped cmd (snd (reset_buf w)) = (Ok r, w1) ->
  run_op P peer c o w = (Ok (read_finish o r), w1).
Proof. exact C07Proof.read_op_success. Qed.
Theorem c07_miss_value : forall o d, miss_value o = Some d -> is_read o -> read_finish o [] = d.
Proof. exact C07Proof.read_finish_empty. Qed.
Theorem c07_end_is_empty : forall P c fuel name ec remapped result (w w' : world P),
  guarded_reader P (fun cs avail buf => readline cs avail [] buf 0) w = (Ok L_END, w') ->
  fetch_loop P (S fuel) c name ec remapped result w = (Ok result, w').
Proof. exact C07Proof.fetch_loop_end. Qed.
Print Assumptions c07_client_success.

(* ---------------- PooledClient ---------------- *)
Theorem c07_pooled_never_raises : forall P peer c pc, c_ignore_exc c = true -> 1 <= pc_max pc ->
  forall o d p (w : world P), miss_value o = Some d -> PInv p ->
  match pooled_op P peer c pc o p w with
  | (Ok _, p', _) => PInv p'
  | (Raise e, _, _) => exn_isa e Exception_ = false end.
Proof. exact C07Proof.pooled_read_never_raises. Qed.
Print Assumptions c07_pooled_never_raises.

Theorem c07_pooled_failure_is_miss : forall P peer c pc, c_ignore_exc c = true -> 1 <= pc_max pc ->
  forall o d p (w : world P) cid p1 w1, miss_value o = Some d -> PInv p ->
  pool_get P pc p w = (Ok cid, p1, w1) ->
  match as_client P cid (run_op P peer (inner_cfg c) o) p1 w1 with
  | (Ok v, _, _) => exists p3 w3, pooled_op P peer c pc o p w = (Ok v, p3, w3)
  | (Raise e, _, _) => exn_isa e Exception_ = true -> exists p3 w3, pooled_op P peer c pc o p w = (Ok d, p3, w3)
  end.
Proof. exact C07Proof.pooled_read_value. Qed.
Print Assumptions c07_pooled_failure_is_miss.

(* ---------------- HashClient ---------------- *)
(* J: with retry_attempts <= 0 no failure record outlives a call (true of a new client, kept by every read) *)
Theorem c07_hash_initial : forall c servers t0 times outs, J c (init_hstate servers t0 times outs).
Proof. intros c servers t0 times outs _. reflexivity. Qed.

Theorem c07_hash_single : forall route c,
  (forall nodes k sv, route nodes k = Ok (Some sv) -> sv_mem nodes sv = true) -> hc_ignore_exc c = true ->
  forall meth key d args (s : hstate), J c s ->
  match run_cmd route c meth key d args s with
  | (Ok v, s') => J c s' /\ (v = d \/ exists sv a s1, fst (icall sv meth a s1) = Ok v)
  | (Raise e, s') => exn_isa e Exception_ = false \/ (key_gate c key = Raise e /\ s' = s) \/ exists nodes sk, route nodes sk = Raise e
  end.
Proof. exact C07Proof.run_cmd_ignore. Qed.
Print Assumptions c07_hash_single.

Theorem c07_hash_many : forall route c,
  (forall nodes k sv, route nodes k = Ok (Some sv) -> sv_mem nodes sv = true) -> hc_ignore_exc c = true ->
  forall gets keys args (s : hstate), J c s ->
  match get_many route c gets keys args s with
  | (Ok _, s') => J c s'
  | (Raise e, _) => exn_isa e Exception_ = false \/ (exists key, In key keys /\ key_gate c key = Raise e) \/ exists nodes sk, route nodes sk = Raise e
  end.
Proof. exact C07Proof.get_many_ignore. Qed.
Print Assumptions c07_hash_many.

(* the decision for one server, whatever its failure record: the value is the inner call's or the default *)
Theorem c07_hash_safely_run : forall c, hc_ignore_exc c = true ->
  forall A sv (call : HM A) (d : A) (s : hstate),
  inner_frame call -> J c s -> sv_mem (h_nodes s) sv = true ->
  match safely_run c sv call d s with
  | (Ok v, s') => J c s' /\ (v = d \/ exists s1, fst (call s1) = Ok v) /\
                  (forall x, list_eqb sv x = false -> sv_mem (h_nodes s') x = sv_mem (h_nodes s) x)
  | (Raise e, s') => exn_isa e Exception_ = false
  end.
Proof. exact C07Proof.safely_run_ignore. Qed.
Print Assumptions c07_hash_safely_run.

(* ---------------- what the wrappers return when they swallow an error (regenerated from the source) ---------------- *)
Open Scope string_scope.
Definition row (m : string) (t : list (string * list (string * string * string))) : option (list (string * string * string)) :=
  option_map snd (find (fun r => String.eqb (fst r) m) t).
(* PooledClient: each read method returns its own miss expression, over parameters that reach the same-named
   parameters of Client's method; HashClient: the default_val handed to _run_cmd / _safely_run_func is the miss expression *)
Theorem c07_wrapper_miss_shapes :
  pooled_ignore_returns =
    [("get", "default"); ("get_many", "{}"); ("gets", "(default, cas_default)"); ("gets_many", "{}");
     ("gat", "default"); ("gats", "(default, cas_default)")]
  /\ hash_default_vals =
    [("get", "default"); ("gets", "(default, cas_default)"); ("gat", "default"); ("gats", "(default, cas_default)"); ("get_many", "{}")]
  /\ row "gets" pooled_forward = Some [("key", "<required>", "key"); ("default", "None", "default"); ("cas_default", "None", "cas_default")]
  /\ row "gats" pooled_forward = Some [("key", "<required>", "key"); ("expire", "0", "expire"); ("default", "None", "default"); ("cas_default", "None", "cas_default")]
  /\ row "get" pooled_forward = Some [("key", "<required>", "key"); ("default", "None", "default")]
  /\ row "gat" pooled_forward = Some [("key", "<required>", "key"); ("expire", "0", "expire"); ("default", "None", "default")]
  /\ row "gets" hash_forward = Some [("key", "<required>", "key"); ("default", "None", "default"); ("cas_default", "None", "cas_default")]
  /\ row "gats" hash_forward = Some [("key", "<required>", "key"); ("expire", "0", "expire"); ("default", "None", "default"); ("cas_default", "None", "cas_default")]
  /\ row "get" hash_forward = Some [("key", "<required>", "key"); ("default", "None", "default")]
  /\ row "gat" hash_forward = Some [("key", "<required>", "key"); ("expire", "0", "expire"); ("default", "None", "default")].
Proof. repeat split; reflexivity. Qed.
Print Assumptions c07_wrapper_miss_shapes.
Close Scope string_scope.

(* non-vacuity: a refused connection under ignore_exc makes get/gets/get_many return their miss values *)
Definition ex_cfg : cfg :=
  {| c_tcp := true; c_naddr := 1; c_nodelay := false; c_tls := false; c_keepalive := false; c_ignore_exc := true;
     c_prefix := []; c_default_noreply := true; c_unicode := false; c_enc := EncAscii; c_serde := 0; c_orc := no_oracles 0;
     h_fetch := BaseException; h_store := BaseException; h_misc := BaseException |}.
Definition ex_world : world (list (list Z)) := init_world [] [ONormal; ONormal; ONormal; OFail ConnectionRefusedError] [].
Example c07_ex :
  fst (run_op _ scripted_peer ex_cfg (OpGet (DBytes [107]) (DInt 7)) ex_world) = Ok (DInt 7) /\
  fst (run_op _ scripted_peer ex_cfg (OpGets (DBytes [107]) (DInt 7) (DInt 8)) ex_world) = Ok (DTuple [DInt 7; DInt 8]) /\
  fst (run_op _ scripted_peer ex_cfg (OpGetMany false [DBytes [107]]) ex_world) = Ok (DDict []) /\
  w_sock (snd (run_op _ scripted_peer ex_cfg (OpGet (DBytes [107]) (DInt 7)) ex_world)) = None /\
  List.length (w_trace (snd (run_op _ scripted_peer ex_cfg (OpGet (DBytes [107]) (DInt 7)) ex_world))) = 5%nat.
Proof. vm_compute. repeat split; reflexivity. Qed.
