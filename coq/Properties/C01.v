(* C01 — a call only ever consumes the server's reply to its own request.
   What is PROVED on the Client model (Model/Client.v, tied to base.py by differential runs):
     c01_failure_closes_*     whatever a call raises -- any exception class, at any socket call, for any peer and any
                              recv behaviour -- self.sock is None afterwards (cleanup handlers catch BaseException:
                              the classes are read from the source on every run, Gen/Handlers.v)
     c01_fresh_connection     the connection a later call opens has nothing pending on it
     c01_only_own_connection  bytes become available only as the peer's answer to a sendall on the current socket
     c01_noreply_never_reads  a call that asked for noreply performs no recv at all
     c01_server_silent_iff    the specification server sends nothing back exactly for noreply commands
   so a later call can never read what a FAILED call left behind, and noreply calls neither wait nor read.
   c01_exact_*              on a connected client with nothing pending and a fault-free transport, an exchange
                              with a peer that answers one CRLF-terminated line per command reads exactly those lines:
                              nothing is left unread and nothing is over-read (store path, misc path, noreply variants);
                              with the specification server as the peer this gives St .. [] after every one-command
                              operation (Properties/C05.v, the c05_e2e theorems)
   c01_exact_fetch          the same for retrievals: a reply made of VALUE blocks closed by END, for ANY peer that
                              answers that way, is read item by item, each data block by its announced length - nothing
                              is left unread and nothing is over-read, whatever bytes the data contains
   c01_ready_*              the same five statements from ANY ready client: connected with nothing pending on the socket
                              (whatever its local buffer still holds), or closed - after a failed call, or never used -
                              in which case the exchange first connects (a fresh socket has nothing pending) and then
                              reads exactly the reply (Proofs/QuietConnect.v)
   So on the model a call that returns has consumed its reply to the last byte, whether or not it had to reconnect; on
   the implementation this is checked with
   per-byte ownership tags (every operation x fault plan x segmentation, followed by further calls). *)
From Coq Require Import ZArith List Bool.
From PM Require Import Lib.Py Model.World Model.Readers Model.Client Proofs.Hoare Proofs.C10Proof Proofs.C01Proof Proofs.Quiet Proofs.QuietFetch Proofs.QuietConnect
                       Spec.Proto Spec.Server Proofs.C05Proof Gen.Handlers.
Import ListNotations.
Open Scope Z_scope.

Definition base_handlers (c : cfg) : Prop := h_fetch c = BaseException /\ h_store c = BaseException /\ h_misc c = BaseException.

Theorem c01_failure_closes_fetch : forall P peer c, base_handlers c -> forall name expect_cas remapped cmd,
  closes P (fetch_io P peer c name expect_cas remapped cmd).
Proof. exact C10Proof.fetch_io_closes. Qed.
Theorem c01_failure_closes_store : forall P peer c, base_handlers c -> forall name values noreply cmds,
  closes P (store_io P peer c name values noreply cmds).
Proof. exact C10Proof.store_io_closes. Qed.
Theorem c01_failure_closes_misc : forall P peer c, base_handlers c -> forall cmds noreply end_tokens,
  closes P (misc_cmd P peer c cmds noreply end_tokens).
Proof. exact C10Proof.misc_cmd_closes. Qed.
Print Assumptions c01_failure_closes_misc.
(* the handler classes in the source of this run are the ones assumed *)
Theorem c01_src_handlers : src_h_fetch = BaseException /\ src_h_store = BaseException /\ src_h_misc = BaseException.
Proof. repeat split; reflexivity. Qed.

Theorem c01_fresh_connection : forall P (w : world P), conn_get (w_conns (snd (fresh_sid w))) (w_next w) = [].
Proof. exact C10Proof.fresh_conn_empty. Qed.
Theorem c01_only_own_connection : forall P peer b (w : world P) sid, w_sock w <> Some sid ->
  conn_get (w_conns (snd (deliver_reply peer b w))) sid = conn_get (w_conns w) sid.
Proof. exact C01Proof.deliver_only_current. Qed.
Print Assumptions c01_only_own_connection.

Theorem c01_noreply_never_reads : forall P peer c n o, asks_noreply c o = true ->
  hoare (NR P n) (run_op P peer c o) (fun _ => NR P n) (fun _ => NR P n).
Proof. exact C01Proof.noreply_never_reads. Qed.
Print Assumptions c01_noreply_never_reads.
Theorem c01_server_silent_iff : forall (s : sstate) c, (snd (step s c) = []) <-> is_noreply c = true.
Proof. exact C05Proof.reply_iff_not_noreply. Qed.

(* exact consumption on the two line-per-command exchange paths, for ANY peer that answers that way *)
Theorem c01_exact_store : forall P peer c sid p p' name values cmds lines,
  peer p cmds = (p', lines_bytes lines) -> length lines = length values -> Forall line_ok lines ->
  (forall e, exn_isa e Exception_ = true -> exn_isa e (h_store c) = true) ->
  hoare (St P sid p []) (store_io P peer c name values false cmds)
        (fun res w => read_store_lines name values lines [] = Ok res /\ St P sid p' [] w)
        (fun e w => read_store_lines name values lines [] = Raise e /\ w_sock w = None).
Proof. exact Quiet.store_io_quiet. Qed.
Theorem c01_exact_misc : forall P peer c sid p p' cmds lines,
  peer p (concat cmds) = (p', lines_bytes lines) -> length lines = length cmds -> Forall line_ok lines ->
  (forall e, exn_isa e Exception_ = true -> exn_isa e (h_misc c) = true) ->
  hoare (St P sid p []) (misc_cmd P peer c cmds false [])
        (fun res w => read_misc_lines lines [] = Ok res /\ St P sid p' [] w)
        (fun e w => read_misc_lines lines [] = Raise e /\ w_sock w = None).
Proof. exact Quiet.misc_cmd_quiet. Qed.
Theorem c01_exact_noreply : forall P peer c sid p p' cmds, peer p (concat cmds) = (p', []) ->
  hoare (St P sid p []) (misc_cmd P peer c cmds true []) (fun _ => St P sid p' []) (fun _ _ => False).
Proof. exact Quiet.misc_cmd_noreply_quiet. Qed.
Print Assumptions c01_exact_misc.
Theorem c01_exact_fetch : forall P peer c sid p p' name wc remapped cmd items,
  peer p cmd = (p', items_bytes wc items) -> Forall item_wf items -> c_ignore_exc c = false -> h_fetch c = BaseException ->
  hoare (St P sid p []) (fetch_io P peer c name wc remapped cmd)
        (fun res w => read_items c wc remapped items [] = Ok res /\ St P sid p' [] w)
        (fun e w => read_items c wc remapped items [] = Raise e /\ w_sock w = None).
Proof. exact QuietFetch.fetch_io_quiet. Qed.
Print Assumptions c01_exact_fetch.

(* ... and from any ready client, connected or closed *)
Theorem c01_ready_store : forall P peer c, can_connect c -> forall p p' name values cmds lines,
  peer p cmds = (p', lines_bytes lines) -> length lines = length values -> Forall line_ok lines ->
  (forall e, exn_isa e Exception_ = true -> exn_isa e (h_store c) = true) ->
  hoare (Ready P anybuf p) (store_io P peer c name values false cmds)
        (fun res w => read_store_lines name values lines [] = Ok res /\ exists sid, St P sid p' [] w)
        (fun e w => read_store_lines name values lines [] = Raise e /\ w_sock w = None).
Proof. exact QuietConnect.store_io_ready. Qed.
Theorem c01_ready_misc : forall P peer c, can_connect c -> forall p p' cmds lines,
  peer p (concat cmds) = (p', lines_bytes lines) -> length lines = length cmds -> Forall line_ok lines ->
  (forall e, exn_isa e Exception_ = true -> exn_isa e (h_misc c) = true) ->
  hoare (Ready P anybuf p) (misc_cmd P peer c cmds false [])
        (fun res w => read_misc_lines lines [] = Ok res /\ exists sid, St P sid p' [] w)
        (fun e w => read_misc_lines lines [] = Raise e /\ w_sock w = None).
Proof. exact QuietConnect.misc_cmd_ready. Qed.
Theorem c01_ready_noreply : forall P peer c, can_connect c -> forall p p',
  (forall name values cmds, peer p cmds = (p', []) ->
     hoare (Ready P anybuf p) (store_io P peer c name values true cmds) (fun _ w => exists sid, St P sid p' [] w) (fun _ _ => False)) /\
  (forall cmds, peer p (concat cmds) = (p', []) ->
     hoare (Ready P anybuf p) (misc_cmd P peer c cmds true []) (fun _ w => exists sid, St P sid p' [] w) (fun _ _ => False)).
Proof.
  intros P peer c Hc p p'. split; [intros name values cmds; apply (QuietConnect.store_io_noreply_ready P peer c Hc)|intros cmds; apply (QuietConnect.misc_cmd_noreply_ready P peer c Hc)].
Qed.
Theorem c01_ready_fetch : forall P peer c, can_connect c -> forall p p' name wc remapped cmd items,
  peer p cmd = (p', items_bytes wc items) -> Forall item_wf items -> c_ignore_exc c = false -> h_fetch c = BaseException ->
  hoare (Ready P anybuf p) (fetch_io P peer c name wc remapped cmd)
        (fun res w => read_items c wc remapped items [] = Ok res /\ exists sid, St P sid p' [] w)
        (fun e w => read_items c wc remapped items [] = Raise e /\ w_sock w = None).
Proof. exact QuietConnect.fetch_io_ready. Qed.
Print Assumptions c01_ready_fetch.
(* the premise is what a failed call leaves behind (c01_failure_closes_*: self.sock = None) or a fresh client *)
Theorem c01_ready_after_failure : forall P (p : P) (w : world P),
  w_sock w = None -> w_peer w = p -> ReaderFacts.ff (w_choices w) -> normal_script P w -> Ready P anybuf p w.
Proof. intros P p w A B C0 D. right. unfold Closed, K, anybuf. auto. Qed.
