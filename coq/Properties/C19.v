(* C19 — ElastiCache auto-discovery: the rotation equals the advertised node list.
   Model/Aws.v is the hand model of _get_nodes_list's parse and of reconfigure_nodes' bookkeeping, run against
   the real AWSElastiCacheHashClient on every check.  The bytes handed to the parse are what raw_command
   returns for the end token "\n\r\nEND\r\n": by C03 (c03_readsegment) that is a function of the reply stream,
   independent of how it is split on the wire. *)
From Coq Require Import ZArith List Bool.
From PM Require Import Lib.Py Model.Hash Model.Aws Proofs.C19Proof.
Import ListNotations.
Open Scope Z_scope.

(* after a reconfiguration the hasher's rotation is exactly the advertised list (no withdrawn node stays) ... *)
Theorem c19_rotation : forall adv (s : astate) x, sv_mem (as_nodes (reconfigure adv s)) x = sv_mem adv x.
Proof. exact C19Proof.rotation_is_advertised. Qed.
Print Assumptions c19_rotation.
Theorem c19_rotation_nodup : forall adv (s : astate), NoDup (as_nodes s) -> NoDup (as_nodes (reconfigure adv s)).
Proof. exact C19Proof.rotation_nodup. Qed.
(* ... there is one client per advertised node, the failover tables mention advertised nodes only ... *)
Theorem c19_clients : forall adv (s : astate) x, sv_mem (as_clients (reconfigure adv s)) x = sv_mem adv x.
Proof. exact C19Proof.clients_are_advertised. Qed.
Theorem c19_tables : forall adv (s : astate) x,
  (sv_mem (as_failed (reconfigure adv s)) x = true -> sv_mem adv x = true) /\
  (sv_mem (as_dead (reconfigure adv s)) x = true -> sv_mem adv x = true).
Proof. exact C19Proof.tables_advertised. Qed.
Print Assumptions c19_tables.
(* ... and every client object of the previous configuration has been closed *)
Theorem c19_old_closed : forall adv (s : astate), as_closed (reconfigure adv s) = as_closed s ++ as_clients s.
Proof. exact C19Proof.old_clients_closed. Qed.

(* every key is routed to an advertised node that has a client (never KeyError), for any hasher that picks among its nodes *)
Theorem c19_routing : forall route adv (s : astate) key,
  (forall nodes k sv, route nodes k = Ok (Some sv) -> sv_mem nodes sv = true) ->
  match lookup_client route (reconfigure adv s) key with
  | Ok (Some sv) => sv_mem adv sv = true
  | Ok None => route (as_nodes (reconfigure adv s)) key = Ok None
  | Raise e => route (as_nodes (reconfigure adv s)) key = Raise e
  end.
Proof. exact C19Proof.routing_after. Qed.
Print Assumptions c19_routing.

(* histories: after any sequence of reconfigurations (scale up, scale down, failed reads of the configuration)
   rotation and clients are those advertised by the last successful read *)
Theorem c19_histories : forall use_vpc replies (s : astate) cur,
  (forall x, sv_mem (as_nodes s) x = match cur with Some adv => sv_mem adv x | None => false end) ->
  (forall x, sv_mem (as_clients s) x = match cur with Some adv => sv_mem adv x | None => false end) ->
  let s' := snd (run_reconfigs use_vpc replies s) in
  forall x, sv_mem (as_nodes s') x = match last_ok use_vpc replies cur with Some adv => sv_mem adv x | None => false end
         /\ sv_mem (as_clients s') x = match last_ok use_vpc replies cur with Some adv => sv_mem adv x | None => false end.
Proof. exact C19Proof.history_rotation. Qed.
Print Assumptions c19_histories.

(* the parse: any number (>= 1) of advertised nodes, by IP address or by host name according to use_vpc, on the
   advertised ports, whatever precedes the node line (header, version line) *)
Theorem c19_parse : forall use_vpc pre entries, entries <> [] -> Forall entry_ok entries ->
  parse_nodes use_vpc (pre ++ 10 :: config_line entries) = Ok (map (pick use_vpc) entries).
Proof. exact C19Proof.parse_roundtrip. Qed.
Print Assumptions c19_parse.

(* an endpoint that answers ERROR: raw_command's MemcacheUnknownCommandError reaches the caller, nothing changes *)
Theorem c19_error : forall use_vpc e (s : astate), reconfigure_nodes use_vpc (Raise e) s = (Raise e, s).
Proof. exact C19Proof.error_reply. Qed.
Print Assumptions c19_error.

(* non-vacuity: two nodes, then a scale-down to the second only *)
Example c19_ex :
  let h1 := ([104; 49], [49; 46; 49], [49; 49]) in let h2 := ([104; 50], [49; 46; 50], [49; 50]) in
  let r1 := Ok ([67; 13; 10; 49; 10] ++ config_line [h1; h2]) in let r2 := Ok ([67; 13; 10; 50; 10] ++ config_line [h2]) in
  let s := snd (run_reconfigs true [r1; r2] init_astate) in
  as_nodes s = [[49; 46; 50; 58; 49; 50]] /\ as_clients s = [[49; 46; 50; 58; 49; 50]] /\
  as_closed s = [[49; 46; 49; 58; 49; 49]; [49; 46; 50; 58; 49; 50]].
Proof. vm_compute. repeat split; reflexivity. Qed.
