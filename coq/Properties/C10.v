(* C10 — asynchronous interruption cannot desynchronise a client or leak a pool slot.
   Gen.Handlers is extracted from the source on every run (the class each cleanup handler catches);
   Model/Client.v and Model/Pooled.v are parametrised by those classes and run against the real
   Client / PooledClient on every check with KeyboardInterrupt, SystemExit and a greenlet-style
   timeout injected at every socket call. *)
From Coq Require Import ZArith List Bool.
From PM Require Import Lib.Py Model.World Model.Readers Model.Client Model.Pooled Gen.Handlers
                       Proofs.Hoare Proofs.C10Proof Proofs.PoolProof.
Import ListNotations.
Open Scope Z_scope.

(* the cleanup handlers of the three exchange paths and of the pool's context manager catch BaseException *)
Theorem c10_src_handlers :
  src_h_fetch = BaseException /\ src_h_store = BaseException /\ src_h_misc = BaseException /\ src_h_pool = BaseException.
Proof. repeat split; reflexivity. Qed.

(* then EVERY exception, of any class, raised at any point of the socket phase of a call (any script,
   any recv behaviour, any peer, any configuration) leaves self.sock = None: the interrupted connection
   is never used again, so no later call can read a reply that answers the interrupted one *)
Theorem c10_fetch : forall P peer c,
  h_fetch c = BaseException /\ h_store c = BaseException /\ h_misc c = BaseException ->
  forall name expect_cas remapped cmd, closes P (fetch_io P peer c name expect_cas remapped cmd).
Proof. exact C10Proof.fetch_io_closes. Qed.
Theorem c10_store : forall P peer c,
  h_fetch c = BaseException /\ h_store c = BaseException /\ h_misc c = BaseException ->
  forall name values noreply cmds, closes P (store_io P peer c name values noreply cmds).
Proof. exact C10Proof.store_io_closes. Qed.
Theorem c10_misc : forall P peer c,
  h_fetch c = BaseException /\ h_store c = BaseException /\ h_misc c = BaseException ->
  forall cmds noreply end_tokens, closes P (misc_cmd P peer c cmds noreply end_tokens).
Proof. exact C10Proof.misc_cmd_closes. Qed.
Print Assumptions c10_misc.

(* the next call connects afresh, and a fresh connection has nothing unread on it *)
Theorem c10_fresh_connection : forall P (w : world P), conn_get (w_conns (snd (fresh_sid w))) (w_next w) = [].
Proof. exact C10Proof.fresh_conn_empty. Qed.

(* the pool slot: when the pool's context manager catches BaseException, after ANY PooledClient call -
   returned, failed or interrupted - nothing is checked out (pool invariant PInv: used = [], no duplicates) *)
Theorem c10_pool_slot : forall P peer c pc o p w, pc_h_pool pc = BaseException -> PInv p -> 1 <= pc_max pc ->
  let '(r, p', w') := pooled_op P peer c pc o p w in PInv p'.
Proof.
  intros P peer c pc o p w Hh Hi Hm. pose proof (pooled_op_spec P peer c pc o p w Hi Hm) as H.
  destruct (pooled_op P peer c pc o p w) as [[r p'] w']. destruct H as [H|(e & _ & He)]; [exact H|].
  rewrite Hh in He. destruct e; discriminate.
Qed.
Print Assumptions c10_pool_slot.
