(* C08 — pooled connections are never shared between threads.
   Model/PoolConc.v: ObjectPool under ANY number of threads, ANY programs (use-and-release, use-and-fail, clear) and
   ANY schedule, at the granularity of its locked blocks.  Proofs/Reduction.v (generic, proved once): for a program
   whose shared accesses all lie between acquire and release of one lock, every state reachable by interleaving
   single shared accesses is related to a state of the semantics in which each locked block is one transition, so
   an invariant of the latter holds whenever the lock is free.  The premise for pool.py -- every access to the two
   deques is under `with self._lock`, after_remove runs outside it in destroy/clear -- is read from the source on
   every run (Gen/PoolLocks.v, c08_lock_discipline).  What stays trusted: that single deque operations and the
   lock are atomic in CPython, and the correspondence of the atomic model with pool.py, checked by running the real
   pool under a deterministic scheduler (every explored interleaving's outcome must be an outcome of the model). *)
From Coq Require Import List Arith Bool String.
From PM Require Import Model.PoolConc Proofs.C08Proof Proofs.Reduction Gen.PoolLocks.
Import ListNotations.
Close Scope string_scope.
Open Scope list_scope.

(* the invariant holds in every state reachable under every schedule *)
Theorem c08_reachable : forall max progs sched, Inv max (run max sched (init progs)).
Proof. exact C08Proof.reachable_inv. Qed.
Print Assumptions c08_reachable.
Theorem c08_step : forall max i s s', Inv max s -> step max i s = Some s' -> Inv max s'.
Proof. exact C08Proof.step_inv. Qed.

(* at most one holder per connection; the pool never lists one twice nor holds more than max_pool_size *)
Theorem c08_one_holder : forall max s, Inv max s -> NoDup (held (p_threads s)).
Proof. exact C08Proof.one_holder. Qed.
Theorem c08_no_duplicates : forall max s, Inv max s -> NoDup (p_used s ++ p_free s)%list.
Proof. exact C08Proof.pool_lists_distinct. Qed.
Theorem c08_capacity : forall max s, Inv max s -> List.length (p_used s) + List.length (p_free s) <= max.
Proof. exact C08Proof.pool_capacity. Qed.
Print Assumptions c08_capacity.
(* when all threads are done every connection ever created is idle in the pool or was closed exactly once *)
Theorem c08_final_accounting : forall max s, Inv max s -> all_done s = true ->
  p_used s = [] /\
  forall o, o < p_next s ->
    (count_occ Nat.eq_dec (p_free s) o = 1 /\ count_occ Nat.eq_dec (p_closed s) o = 0) \/
    (count_occ Nat.eq_dec (p_free s) o = 0 /\ count_occ Nat.eq_dec (p_closed s) o = 1).
Proof. exact C08Proof.final_accounting. Qed.
Print Assumptions c08_final_accounting.
(* no schedule deadlocks; the only failure of a checkout is exhaustion with max_pool_size connections checked out *)
Theorem c08_progress : forall max s i th, nth_error (p_threads s) i = Some th -> finished th = false -> step max i s <> None.
Proof. exact C08Proof.progress. Qed.
Theorem c08_exhaustion : forall max i s s' th th',
  nth_error (p_threads s) i = Some th -> step max i s = Some s' -> nth_error (p_threads s') i = Some th' ->
  t_exhausted th' = S (t_exhausted th) -> max <= List.length (p_used s) /\ p_free s = [].
Proof. exact C08Proof.exhaustion_only_when_full. Qed.
Print Assumptions c08_exhaustion.

(* the lock makes its blocks atomic (generic reduction; its hypotheses are the lock discipline) *)
Definition c08_reduction := Reduction.invariant_transfer.
Print Assumptions c08_reduction.

(* the lock discipline of pool.py as read from the source of this run *)
Open Scope string_scope.
Theorem c08_lock_discipline :
  forallb (fun r => match r with (m, what, lk, e) =>
     if String.eqb what "shared" then String.eqb lk "locked"
     else if String.eqb what "obj_creator" then String.eqb lk "locked"
     else (* after_remove *) if String.eqb m "get" then String.eqb lk "locked" else String.eqb lk "unlocked" end) pool_accesses = true
  /\ get_and_release_shape =
     "obj = self.get() ; try: | yield obj | except BaseException: | if not destroy_on_fail: | self.release(obj) | else: | self.destroy(obj) | raise ; self.release(obj)".
Proof. split; vm_compute; reflexivity. Qed.
Print Assumptions c08_lock_discipline.
Close Scope string_scope.

(* non-vacuity: two threads, a pool of one connection; whichever wins, the other finds the pool exhausted or reuses it *)
Example c08_ex :
  let outs := explore 1 40 (init [[AUse false]; [AUse true]]) in
  forallb (fun s => (List.length (p_free s) + List.length (p_closed s) =? p_next s) && (List.length (p_used s) =? 0)) outs = true /\ (2 <= List.length outs).
Proof. vm_compute. split; [reflexivity|]. repeat constructor. Qed.
