(* C11 — key placement is a pure, order-independent, minimally disruptive function.
   Gen.Rendezvous (get_node, add_node, remove_node) and Gen.Murmur3 are regenerated from the
   source on every run.  Nodes are strings (HashClient's "host:port" / socket path); Model/ServerSpec.v (hand model of
   normalize_server_spec and _make_client_key, compared with the real functions on every run) says how a server
   address becomes that string: c11_spelling_* show that the equivalent spellings of an address give the same node name,
   hence - placement being a function of the node names - the same placement. *)
From Coq Require Import ZArith List Bool Permutation.
From PM Require Import Lib.Py Gen.Murmur3 Gen.Rendezvous Spec.Hrw Proofs.C11Proof Proofs.DecimalFacts Model.ServerSpec Proofs.C11Spelling.
Import ListNotations.
Open Scope Z_scope.

(* the published rule, for EVERY non-negative hash function (so forced ties are covered universally):
   the winner is a node with the highest score, ties to the greatest node name *)
Theorem c11_spec_any_hash : forall (hf : list Z -> Z), (forall s, 0 <= hf s) ->
  forall key ks, py_str key = Ok ks -> forall nodes, nodes <> [] ->
  exists w, get_node (hash_function hf) (map DStr nodes) key = Ok (DStr w) /\ is_owner hf nodes ks w.
Proof. exact C11Proof.get_node_owner. Qed.
Print Assumptions c11_spec_any_hash.

Theorem c11_owner_unique : forall hf ks nodes w1 w2,
  is_owner hf nodes ks w1 -> is_owner hf nodes ks w2 -> w1 = w2.
Proof. exact C11Proof.owner_unique. Qed.
Print Assumptions c11_owner_unique.

(* with the library's own hash (the translated murmur3_32 and the constructor's seed) *)
Theorem c11_spec : forall seed key ks, py_str key = Ok ks -> forall nodes, nodes <> [] ->
  exists w, get_node (murmur_hash_function seed) (map DStr nodes) key = Ok (DStr w)
            /\ is_owner (murmur_hf seed) nodes ks w.
Proof. exact C11Proof.m_spec. Qed.
Print Assumptions c11_spec.
Theorem c11_no_nodes : forall seed key, get_node (murmur_hash_function seed) [] key = Ok DNone.
Proof. exact C11Proof.m_empty. Qed.

(* order of the node list is irrelevant *)
Theorem c11_order : forall seed key ks, py_str key = Ok ks -> forall a b, Permutation a b ->
  get_node (murmur_hash_function seed) (map DStr a) key = get_node (murmur_hash_function seed) (map DStr b) key.
Proof. exact C11Proof.m_perm. Qed.
Print Assumptions c11_order.

(* any two add/remove histories (run through the translated add_node / remove_node) that end with
   the same SET of nodes place every key identically *)
Theorem c11_history : forall seed key ks, py_str key = Ok ks -> forall h1 h2 l1 l2,
  run_history h1 = map DStr l1 -> run_history h2 = map DStr l2 -> same_set l1 l2 ->
  get_node (murmur_hash_function seed) (run_history h1) key = get_node (murmur_hash_function seed) (run_history h2) key.
Proof. exact C11Proof.m_history. Qed.
Print Assumptions c11_history.
Theorem c11_history_shape : forall h, exists l, run_history h = map DStr l /\ NoDup l.
Proof. exact C11Proof.run_history_str. Qed.

(* removing a server moves only the keys that lived on it *)
Theorem c11_remove : forall seed key ks, py_str key = Ok ks -> forall nodes r w nodes', NoDup nodes ->
  get_node (murmur_hash_function seed) (map DStr nodes) key = Ok (DStr w) -> w <> r ->
  remove_node (map DStr nodes) (DStr r) = Ok (map DStr nodes', DNone) ->
  get_node (murmur_hash_function seed) (map DStr nodes') key = Ok (DStr w).
Proof. exact C11Proof.m_remove. Qed.
Print Assumptions c11_remove.

(* adding a server moves keys only onto the new server *)
Theorem c11_add : forall seed key ks, py_str key = Ok ks -> forall nodes n w w' nodes',
  get_node (murmur_hash_function seed) (map DStr nodes) key = Ok (DStr w) ->
  add_node (map DStr nodes) (DStr n) = Ok (map DStr nodes', DNone) ->
  get_node (murmur_hash_function seed) (map DStr nodes') key = Ok (DStr w') -> w' = w \/ w' = n.
Proof. exact C11Proof.m_add. Qed.
Print Assumptions c11_add.

(* "keys spread over all servers": a COMPUTATION on the translated code over a corpus (node sets of
   2, 3, 5 and 8 nodes "10.0.0.<i>:11211", keys '0'..'299'): every node owns between half and twice
   its fair share.  Not a universal claim. *)
Example c11_spread_corpus :
  spread_ok 2 300 && spread_ok 3 300 && spread_ok 5 300 && spread_ok 8 300 = true.
Proof. vm_compute. reflexivity. Qed.

(* non-vacuity: a forced tie is resolved to the greatest name by the translated code *)
Example c11_tie : get_node (hash_function (fun _ => 7)) [DStr [97]; DStr [99]; DStr [98]] (DStr [107]) = Ok (DStr [99]).
Proof. vm_compute. reflexivity. Qed.

(* ---- equivalent spellings of a server address ---- *)
(* "host:port" (a string) and (host, port) (a tuple) are the same node, named "host:port" *)
Theorem c11_spelling_host_port : forall h p, plain_host h -> h <> [117; 110; 105; 120] -> 0 <= p ->
  normalize_server_spec (DStr (h ++ COLON :: str_of_Z p)) = Ok (DTuple [DStr h; DInt p]) /\
  node_name (DStr (h ++ COLON :: str_of_Z p)) = node_name (DTuple [DStr h; DInt p]) /\
  node_name (DTuple [DStr h; DInt p]) = Ok (DStr (h ++ COLON :: str_of_Z p)).
Proof. exact C11Spelling.host_port_string. Qed.
Print Assumptions c11_spelling_host_port.
(* a bare host name means port 11211 *)
Theorem c11_spelling_default_port : forall h, plain_host h -> h <> [] ->
  node_name (DStr h) = node_name (DTuple [DStr h; DInt 11211]).
Proof. exact C11Spelling.bare_host. Qed.
(* "unix:/path" and "/path" *)
Theorem c11_spelling_unix : forall path, prefixb [SLASH] path = true ->
  node_name (DStr (L_unix ++ path)) = node_name (DStr path) /\ node_name (DStr path) = Ok (DStr path).
Proof. exact C11Spelling.unix_path. Qed.
(* "[v6]:port" and (v6, port) *)
Theorem c11_spelling_brackets : forall v6 p, Forall (fun ch => ch <> LBR /\ ch <> RBR) v6 -> v6 <> [] -> 0 <= p ->
  node_name (DStr (LBR :: v6 ++ RBR :: COLON :: str_of_Z p)) = node_name (DTuple [DStr v6; DInt p]).
Proof. exact C11Spelling.bracketed. Qed.
Print Assumptions c11_spelling_brackets.
Example c11_spelling_ex :
  node_name (DStr [49; 48; 46; 48; 46; 48; 46; 49; 58; 49; 49; 50; 49; 49]) = Ok (DStr [49; 48; 46; 48; 46; 48; 46; 49; 58; 49; 49; 50; 49; 49]) /\
  node_name (DStr [49; 48; 46; 48; 46; 48; 46; 49]) = Ok (DStr [49; 48; 46; 48; 46; 48; 46; 49; 58; 49; 49; 50; 49; 49]) /\
  node_name (DStr [91; 58; 58; 49; 93]) = Ok (DStr [58; 58; 49; 58; 49; 49; 50; 49; 49]) /\
  plain_host [49; 48; 46; 48; 46; 48; 46; 49].
Proof. vm_compute. repeat split; try reflexivity; repeat constructor; discriminate. Qed.
