(* C03 — reply parsing does not depend on how the byte stream is split.
   Model: Model/Readers.v, Model/Client.v (hand transliteration, run against the real Client on
   every check, including exhaustive segmentations).  Choices: the adversary's recv() results —
   CChunk n (at most n, at least one, of the available bytes; n is unbounded, a superset of
   recv(4096)) and CEintr; `ff cs` = a fault-free choice list; the empty list means that every recv
   delivers everything available ("the whole reply arrives in one piece"). *)
From Coq Require Import ZArith List Bool.
From PM Require Import Lib.Py Model.World Model.Readers Model.Client Proofs.ReaderFacts Proofs.Sim Proofs.C03Proof.
Import ListNotations.
Open Scope Z_scope.

(* the line reader returns the first CRLF-terminated line of the stream and leaves exactly the rest *)
Theorem c03_readline : forall cs, ff cs -> forall avail acc buf n,
  split_crlf acc = None ->
  match split_crlf (acc ++ buf ++ avail) with
  | Some (line, rest) =>
      exists cs' avail' buf' n', readline cs avail acc buf n = (RDone line, (cs', avail', buf'), n')
                                 /\ buf' ++ avail' = rest /\ ff cs'
  | None => exists cs' n', readline cs avail acc buf n = (RRaise WouldBlock, (cs', [], acc ++ buf ++ avail), n') /\ ff cs'
  end.
Proof. exact ReaderFacts.readline_stream. Qed.
Print Assumptions c03_readline.

(* the value reader returns the first `size` bytes and consumes size+2, wherever the cuts fall *)
Theorem c03_readvalue : forall size, 0 <= size -> forall cs, ff cs -> forall avail buf n,
  if zlen (buf ++ avail) >=? size + 2 then
    exists cs' avail' buf' n',
      readvalue cs avail [] false (size + 2) buf n = (RDone (firstn (Z.to_nat size) (buf ++ avail)), (cs', avail', buf'), n')
      /\ buf' ++ avail' = skipn (Z.to_nat (size + 2)) (buf ++ avail) /\ ff cs'
  else exists cs' n', readvalue cs avail [] false (size + 2) buf n = (RRaise WouldBlock, (cs', [], buf ++ avail), n') /\ ff cs'.
Proof. exact ReaderFacts.readvalue_stream. Qed.
Print Assumptions c03_readvalue.

(* the segment reader finds the first occurrence of ANY end token, also when it straddles pieces *)
Theorem c03_readsegment : forall tok cs, ff cs -> forall avail buf n,
  match split_token tok (buf ++ avail) with
  | Some (before, after) =>
      exists cs' avail' buf' n', readsegment cs avail tok buf n = (RDone before, (cs', avail', buf'), n')
                                 /\ buf' ++ avail' = after /\ ff cs'
  | None => exists cs' n', readsegment cs avail tok buf n = (RRaise WouldBlock, (cs', [], buf ++ avail), n') /\ ff cs'
  end.
Proof. exact ReaderFacts.readsegment_stream. Qed.
Print Assumptions c03_readsegment.

(* EVERY public operation, every peer, every configuration, every state of the world: two divisions of the
   same byte stream give the same return value or exception, and related final worlds (Rg: same socket,
   same script position, same peer state, same trace up to the number of recv calls, same unread
   bytes).  The escape clause bad2 is reached only after a VALUE header with a NEGATIVE size has been
   parsed, which no memcached sends. *)
Theorem c03_segmentation : forall P peer c o (w : world P) cs1 cs2, ff cs1 -> ff cs2 -> w_buf w = [] ->
  let r1 := run_op P peer c o (upd_choices w cs1) in
  let r2 := run_op P peer c o (upd_choices w cs2) in
  (fst r1 = fst r2 /\ Rg P (snd r1) (snd r2)) \/ bad2 P (snd r1) (snd r2).
Proof. exact C03Proof.op_segmentation. Qed.
Print Assumptions c03_segmentation.

(* sequences of calls on one connection: as long as the reference run leaves nothing unread and nothing
   over-read after each call (one reply per command, as a server sends), every call of the other run
   returns the same *)
Theorem c03_sequences : forall P peer c ops (w1 w2 : world P),
  Rg P w1 w2 -> w_buf w1 = [] -> w_buf w2 = [] -> quiet_run P peer c ops w2 ->
  (fst (run_ops P peer c ops w1) = fst (run_ops P peer c ops w2)
   /\ Rg P (snd (run_ops P peer c ops w1)) (snd (run_ops P peer c ops w2)))
  \/ bad2 P (snd (run_ops P peer c ops w1)) (snd (run_ops P peer c ops w2)).
Proof. exact C03Proof.ops_segmentation. Qed.
Print Assumptions c03_sequences.

(* non-vacuity: a get whose reply is cut inside the header, inside CR LF and inside the value *)
Definition c03_cfg : cfg :=
  {| c_tcp := false; c_naddr := 1; c_nodelay := false; c_tls := false; c_keepalive := false; c_ignore_exc := false;
     c_prefix := []; c_default_noreply := true; c_unicode := false; c_enc := EncAscii; c_serde := 0; c_orc := no_oracles 0;
     h_fetch := BaseException; h_store := BaseException; h_misc := BaseException |}.
Definition c03_reply : list Z :=   (* VALUE k 0 4\r\na\r\nb\r\nEND\r\n *)
  [86;65;76;85;69;32;107;32;48;32;52;13;10;97;13;10;98;13;10;69;78;68;13;10].
Example c03_ex :
  fst (run_op _ scripted_peer c03_cfg (OpGet (DBytes [107]) DNone)
        (init_world [c03_reply] [] [CChunk 7; CEintr; CChunk 5; CChunk 1; CChunk 2; CChunk 1; CChunk 1; CChunk 3; CChunk 100]))
  = Ok (DBytes [97; 13; 10; 98])
  /\ fst (run_op _ scripted_peer c03_cfg (OpGet (DBytes [107]) DNone) (init_world [c03_reply] [] [])) = Ok (DBytes [97; 13; 10; 98]).
Proof. split; vm_compute; reflexivity. Qed.
