(* C04 — what is stored is what is fetched.
   The path of a value: serializer -> length-framed data block (C02: c02_store) -> the server's map -> the
   retrieval reply -> exactly <bytes> bytes read back (C03: c03_readvalue) -> deserializer (C15).  This file
   proves the middle of that path on the specification side: the server returns the stored bytes and flags for
   that key and no other (Spec/Server.v), and a strict reader of the reply gets exactly the items back whatever
   the data contains (Spec/Reply.v).  PARTIAL: the composition with the Client model's fetch loop is covered by
   the differential run of this check, not by one end-to-end theorem. *)
From Coq Require Import ZArith List Bool.
From PM Require Import Lib.Py Spec.LegalKey Model.Lits Spec.Proto Spec.Server Spec.Reply Proofs.C04Proof.
Import ListNotations.
Open Scope Z_scope.

Theorem c04_set_then_get_partial : forall (s : sstate) k fl e data cas nr gets x,
  abs_exp (s_now s) e = Some x -> (x = 0 \/ s_now s < x) ->
  let s1 := fst (exec s (CStore VSet k fl e data cas nr)) in
  exists it, snd (exec s1 (CGet gets [k])) = OValues [(k, it)] /\ i_data it = data /\ i_flags it = fl /\ i_cas it = s_cas s + 1.
Proof. exact C04Proof.set_then_get. Qed.
Print Assumptions c04_set_then_get_partial.
Theorem c04_other_keys_untouched : forall (s : sstate) v k fl e data cas nr k', list_eqb k k' = false ->
  lookup (s_items (fst (exec s (CStore v k fl e data cas nr)))) k' = lookup (s_items s) k'.
Proof. exact C04Proof.store_other_key. Qed.
Theorem c04_found_own : forall (s : sstate) keys k it, In (k, it) (found_items s keys) -> In k keys /\ live s k = Some it.
Proof. exact C04Proof.found_own. Qed.
Print Assumptions c04_found_own.

(* the retrieval reply is length-framed: for ANY data bytes (CR LF, "END", "VALUE ..." lines, any size) a strict
   reader recovers exactly the items, keys, flags and cas values *)
Theorem c04_reply_roundtrip : forall wc items fuel, forallb item_ok items = true -> (length items < fuel)%nat ->
  parse_values fuel wc (render_values wc items) = Some (map (rv wc) items).
Proof. exact C04Proof.parse_render_values. Qed.
Print Assumptions c04_reply_roundtrip.

Example c04_ex :
  let nasty := [13; 10; 69; 78; 68; 13; 10; 86; 65; 76; 85; 69; 32; 120; 32; 48; 32; 49; 13; 10] in
  parse_values 5 true (render_values true [([107], {| i_flags := 16; i_exp := 0; i_data := nasty; i_cas := 7 |}); ([106], {| i_flags := 0; i_exp := 0; i_data := []; i_cas := 8 |})])
  = Some [([107], 16, nasty, 7); ([106], 0, [], 8)].
Proof. vm_compute. reflexivity. Qed.
