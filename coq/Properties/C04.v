(* C04 — what is stored is what is fetched.
   The path of a value: serializer -> length-framed data block (C02: c02_store) -> the server's map -> the
   retrieval reply -> exactly <bytes> bytes read back (C03: c03_readvalue) -> deserializer (C15).  This file
   proves the middle of that path on the specification side: the server returns the stored bytes and flags for
   that key and no other (Spec/Server.v), and a strict reader of the reply gets exactly the items back whatever
   the data contains (Spec/Reply.v); and END TO END on the Client model (the c04_e2e theorems, Proofs/E2EFetch.v):
   on a client that is connected with nothing pending (fr = Some sid: Start = Done = St sid s [], the connection is kept) or, with
   fr = None, any ready client - closed or connected, connecting first if it must (Proofs/QuietAny.v) -, a fault-free transport and
   the specification server as the peer,
     c04_e2e_get / c04_e2e_gets      return the deserialised item the server holds under the prefixed key (or the default),
     c04_e2e_get_many                returns, for any number of keys with pairwise different wire keys, each live item
                                     under the caller's own key and nothing else,
     c04_e2e_set_then_get            set followed by get returns the value stored (the stored bytes without a serializer),
                                     whatever bytes it contains, and leaves nothing unread; with PickleSerde or CompressedSerde
                                     for every value that the serializer round-trips (c04_roundtrips_native: every bytes/str/int
                                     without any assumption; c04_e2e_set_then_get_any: ANY value comes back as itself provided
                                     pickle round-trips that value and the codec round-trips: the oracle hypotheses of C15),
     c04_e2e_set_keeps_other         a set of one key does not change what a get of another key returns,
     c04_server_invariant            (the side condition swf of the above holds in every reachable server state).
   pickle and the compression codec are oracles (fields of the configuration the model never looks into; C15 states what is
   assumed of them); calls that must connect first are C01's c01_ready theorems; a caller-supplied flags argument
   replaces the serializer's flags and is outside the property. *)
From Coq Require Import ZArith List Bool.
From PM Require Import Lib.Py Spec.LegalKey Model.Lits Spec.Proto Spec.Server Spec.Reply Proofs.C04Proof
                       Model.World Model.Client Proofs.Hoare Proofs.C02Proof Proofs.Quiet Proofs.QuietConnect Proofs.QuietAny Proofs.E2E Proofs.E2EFetch Proofs.C15Proof Gen.Handlers.
Import ListNotations.
Open Scope Z_scope.

Theorem c04_set_then_get_partial : forall (s : sstate) k fl e data cas nr gets x,
  abs_exp (s_now s) e = Some x -> (x = 0 \/ s_now s < x) ->
  let s1 := fst (exec s (CStore VSet k fl e data cas nr)) in
  exists it, snd (exec s1 (CGet gets [k])) = OValues [(k, it)] /\ i_data it = data /\ i_flags it = fl /\ i_cas it = s_cas s + 1.
Proof. exact C04Proof.set_then_get. Qed.
Print Assumptions c04_set_then_get_partial.
Theorem c04_other_keys_untouched : forall (s : sstate) v k fl e data cas nr k', list_eqb k k' = false ->
  lookup (s_items (fst (exec s (CStore v k fl e data cas nr)))) k' = lookup (s_items s) k'.
Proof. exact C04Proof.store_other_key. Qed.
Theorem c04_found_own : forall (s : sstate) keys k it, In (k, it) (found_items s keys) -> In k keys /\ live s k = Some it.
Proof. exact C04Proof.found_own. Qed.
Print Assumptions c04_found_own.

(* the retrieval reply is length-framed: for ANY data bytes (CR LF, "END", "VALUE ..." lines, any size) a strict
   reader recovers exactly the items, keys, flags and cas values *)
Theorem c04_reply_roundtrip : forall wc items fuel, forallb item_ok items = true -> (length items < fuel)%nat ->
  parse_values fuel wc (render_values wc items) = Some (map (rv wc) items).
Proof. exact C04Proof.parse_render_values. Qed.
Print Assumptions c04_reply_roundtrip.

Example c04_ex :
  let nasty := [13; 10; 69; 78; 68; 13; 10; 86; 65; 76; 85; 69; 32; 120; 32; 48; 32; 49; 13; 10] in
  parse_values 5 true (render_values true [([107], {| i_flags := 16; i_exp := 0; i_data := nasty; i_cas := 7 |}); ([106], {| i_flags := 0; i_exp := 0; i_data := []; i_cas := 8 |})])
  = Some [([107], 16, nasty, 7); ([106], 0, [], 8)].
Proof. vm_compute. reflexivity. Qed.

(* ---- end to end on the Client model ---- *)
Definition quiet_cfg (c : cfg) : Prop :=
  c_ignore_exc c = false /\ h_fetch c = BaseException /\ (forall e, exn_isa e Exception_ = true -> exn_isa e (h_store c) = true).

Theorem c04_server_invariant : forall now, swf (empty_server now) /\
  (forall s cm, swf s -> wf_cmd cm = true -> swf (fst (exec s cm))) /\ (forall s d, swf s -> swf (tick s d)).
Proof. intros now. split; [apply swf_empty|]. split; [exact exec_swf|exact tick_swf]. Qed.

Theorem c04_e2e_get : forall c, c_ignore_exc c = false -> h_fetch c = BaseException ->
  forall fr, connectable c fr -> forall s key default k, check_key c (c_prefix c) key = Ok k -> swf s ->
  hoare (Start sstate fr s) (run_op sstate serve c (OpGet key default))
        (fun v w => match live s k with None => v = default | Some it => deser c it = Ok v end /\ Done sstate fr s w)
        (fun e w => (exists it, live s k = Some it /\ deser c it = Raise e) /\ w_sock w = None).
Proof. exact E2EFetch.get_e2e. Qed.
Print Assumptions c04_e2e_get.
Theorem c04_e2e_gets : forall c, c_ignore_exc c = false -> h_fetch c = BaseException ->
  forall fr, connectable c fr -> forall s key default cas_default k, check_key c (c_prefix c) key = Ok k -> swf s ->
  hoare (Start sstate fr s) (run_op sstate serve c (OpGets key default cas_default))
        (fun v w => match live s k with
                    | None => v = DTuple [default; cas_default]
                    | Some it => exists x, deser c it = Ok x /\ v = DTuple [x; DBytes (str_of_Z (i_cas it))] end /\ Done sstate fr s w)
        (fun e w => (exists it, live s k = Some it /\ deser c it = Raise e) /\ w_sock w = None).
Proof. exact E2EFetch.gets_e2e. Qed.
Theorem c04_e2e_get_many : forall c, c_ignore_exc c = false -> h_fetch c = BaseException ->
  forall fr, connectable c fr -> forall s (g oneshot : bool) keys pks, wire_keys c (c_prefix c) keys = Ok pks -> keys <> [] -> NoDup pks -> swf s ->
  hoare (Start sstate fr s) (run_op sstate serve c (if g then OpGetsMany oneshot keys else OpGetMany oneshot keys))
        (fun v w => (exists res, many_spec c g s (combine pks keys) [] = Ok res /\ v = DDict res) /\ Done sstate fr s w)
        (fun e w => many_spec c g s (combine pks keys) [] = Raise e /\ w_sock w = None).
Proof. exact E2EFetch.get_many_e2e. Qed.
Print Assumptions c04_e2e_get_many.
Theorem c04_e2e_set_then_get : forall c, c_ignore_exc c = false -> h_fetch c = BaseException ->
  (forall e, exn_isa e Exception_ = true -> exn_isa e (h_store c) = true) ->
  forall fr, connectable c fr -> forall s key value expire n bytes default x,
  let nr := eff_noreply c n in
  store_bytes c (verb_name 0) [(key, value)] expire nr DNone None = Ok bytes -> in_i64 expire ->
  roundtrips c value -> swf s ->
  (forall e, int_value expire = Some e -> abs_exp (s_now s) e = Some x /\ (x = 0 \/ s_now s < x)) ->
  exists db,
  hoare (Start sstate fr s) (mbind (run_op sstate serve c (OpStore 0 key value expire n DNone)) (fun _ => run_op sstate serve c (OpGet key default)))
        (fun v w => v = comes_back c value db /\ exists s', Done sstate fr s' w) (fun _ _ => False).
Proof. intros c Hi Hf Hst fr Hcan. exact (E2EFetch.set_then_get_e2e c Hi Hf fr Hcan Hst). Qed.
Print Assumptions c04_e2e_set_then_get.
(* bytes, str and int values need no assumption on the oracles (PickleSerde) ... *)
Theorem c04_roundtrips_native : forall c value, native value -> c_serde c <> 2 -> roundtrips c value.
Proof. intros c value Hn H2. apply native_roundtrips; [exact Hn|]. destruct (Z.eqb_spec (c_serde c) 2); [contradiction|reflexivity]. Qed.
Print Assumptions c04_roundtrips_native.
(* ... and ANY value comes back as itself (same constructor = same type) with PickleSerde or CompressedSerde, provided pickle
   round-trips that value (asked only of values that are pickled at all) and, with CompressedSerde, the codec round-trips *)
Theorem c04_e2e_set_then_get_any : forall c, c_ignore_exc c = false -> h_fetch c = BaseException ->
  (forall e, exn_isa e Exception_ = true -> exn_isa e (h_store c) = true) ->
  c_serde c = 1 \/ c_serde c = 2 ->
  forall fr, connectable c fr -> forall s key value expire n bytes default x,
  let o := c_orc c in let nr := eff_noreply c n in
  store_bytes c (verb_name 0) [(key, value)] expire nr DNone None = Ok bytes -> in_i64 expire ->
  (pickled value = true -> o_loads o (o_dumps o (o_pickle_version o) value) = Ok value) ->
  (c_serde c = 2 -> forall b, o_decompress o (o_compress o b) = Ok b) -> swf s ->
  (forall e, int_value expire = Some e -> abs_exp (s_now s) e = Some x /\ (x = 0 \/ s_now s < x)) ->
  hoare (Start sstate fr s) (mbind (run_op sstate serve c (OpStore 0 key value expire n DNone)) (fun _ => run_op sstate serve c (OpGet key default)))
        (fun v w => v = value /\ exists s', Done sstate fr s' w) (fun _ _ => False).
Proof.
  intros c Hi Hf Hst Hsd fr Hcan s key value expire n bytes default x. cbn zeta. intros Hb He Hp Hc Hs Hx.
  assert (Hr : roundtrips c value).
  { right. split; [exact Hp|]. intros E2. apply Hc. apply Z.eqb_eq, E2. }
  destruct (E2EFetch.set_then_get_e2e c Hi Hf fr Hcan Hst s key value expire n bytes default x Hb He Hr Hs Hx) as (db & H).
  eapply h_conseq; [exact H|auto| |auto].
  intros v w [Hv Hw]. split; [|exact Hw]. rewrite Hv. unfold comes_back.
  destruct (Z.eqb_spec (c_serde c) 0) as [E0|_]; [destruct Hsd as [X|X]; rewrite E0 in X; discriminate|reflexivity].
Qed.
Print Assumptions c04_e2e_set_then_get_any.
Theorem c04_e2e_set_keeps_other : forall c, c_ignore_exc c = false -> h_fetch c = BaseException ->
  (forall e, exn_isa e Exception_ = true -> exn_isa e (h_store c) = true) ->
  forall fr, connectable c fr -> forall s key value expire n bytes key2 k2 default,
  let nr := eff_noreply c n in
  store_bytes c (verb_name 0) [(key, value)] expire nr DNone None = Ok bytes -> in_i64 expire -> swf s ->
  check_key c (c_prefix c) key2 = Ok k2 -> (forall k, check_key c (c_prefix c) key = Ok k -> list_eqb k k2 = false) ->
  hoare (Start sstate fr s) (mbind (run_op sstate serve c (OpStore 0 key value expire n DNone)) (fun _ => run_op sstate serve c (OpGet key2 default)))
        (fun v w => match live s k2 with None => v = default | Some it => deser c it = Ok v end /\ exists s', Done sstate fr s' w)
        (fun e w => (exists it, live s k2 = Some it /\ deser c it = Raise e) /\ w_sock w = None).
Proof. intros c Hi Hf Hst fr Hcan. exact (E2EFetch.set_keeps_other_e2e c Hi Hf fr Hcan Hst). Qed.
Print Assumptions c04_e2e_set_keeps_other.
(* the handler classes the theorems assume are the ones in the source (read on every run) *)
Theorem c04_src_handlers : src_h_fetch = BaseException /\ src_h_store = BaseException.
Proof. split; reflexivity. Qed.

(* non-vacuity: the premises are met by a concrete connected client (prefix "p:", PickleSerde, 3-byte recv chunks) and the
   model, run on it, stores and fetches a value full of protocol text under two keys *)
Definition ex_cfg : cfg := {| c_tcp := false; c_naddr := 1; c_nodelay := false; c_tls := false; c_keepalive := false; c_ignore_exc := false;
  c_prefix := [112; 58]; c_default_noreply := true; c_unicode := false; c_enc := EncAscii; c_serde := 1; c_orc := no_oracles 0;
  h_fetch := src_h_fetch; h_store := src_h_store; h_misc := src_h_misc |}.
Definition ex_world : world sstate := {| w_script := []; w_choices := [CChunk 3; CChunk 1; CChunk 4096]; w_peer := empty_server 100; w_conns := [(1, [])];
  w_buf := []; w_discarded := []; w_bad := false; w_trace := []; w_next := 2; w_sock := Some 1 |}.
Example c04_e2e_ex :
  let nasty := DBytes [13; 10; 69; 78; 68; 13; 10; 86; 65; 76; 85; 69; 32; 120; 32; 48; 32; 49; 13; 10] in
  quiet_cfg ex_cfg /\ St sstate 1 (empty_server 100) [] ex_world /\
  let '(r, w) := mbind (run_op sstate serve ex_cfg (OpStore 0 (DStr [107]) nasty (DInt 0) DNone DNone))
                  (fun _ => mbind (run_op sstate serve ex_cfg (OpStore 0 (DBytes [106]) (DStr [233; 8364]) (DInt 50) (DBool false) DNone))
                  (fun _ => run_op sstate serve ex_cfg (OpGetMany false [DBytes [106]; DStr [122]; DStr [107]]))) ex_world in
  r = Ok (DDict [DTuple [DBytes [106]; DStr [233; 8364]]; DTuple [DStr [107]; nasty]]) /\ w_buf w = [] /\ w_conns w = [(1, [])] /\ w_sock w = Some 1.
Proof.
  cbn zeta. split; [split; [reflexivity|split; [reflexivity|intros e _; destruct e; reflexivity]]|].
  split; [unfold St; cbn; repeat split; repeat constructor|]. vm_compute. repeat split; reflexivity.
Qed.

(* non-vacuity of c04_e2e_set_then_get_any: CompressedSerde (threshold 1) over a toy pickle that knows None, the booleans and the
   list [1, 2], with list reversal as the codec: the oracle premises hold, the list is pickled, "compressed" (flags 1|8, reversed
   bytes on the server) and comes back as the same list *)
Definition toy_oracles : oracles :=
  {| o_dumps := fun _ v => match v with DNone => [78] | DBool true => [84] | DBool false => [70] | DList [DInt 1; DInt 2] => [91; 49; 44; 50; 93] | _ => [63] end;
     o_loads := fun b => match b with [78] => Ok DNone | [84] => Ok (DBool true) | [70] => Ok (DBool false)
                                 | [91; 49; 44; 50; 93] => Ok (DList [DInt 1; DInt 2]) | _ => Raise ValueError end;
     o_compress := @rev Z; o_decompress := fun b => Ok (rev b); o_pickle_version := 5; o_min_compress_len := 1 |}.
Definition ex_cfg2 : cfg := {| c_tcp := false; c_naddr := 1; c_nodelay := false; c_tls := false; c_keepalive := false; c_ignore_exc := false;
  c_prefix := [112; 58]; c_default_noreply := true; c_unicode := false; c_enc := EncAscii; c_serde := 2; c_orc := toy_oracles;
  h_fetch := src_h_fetch; h_store := src_h_store; h_misc := src_h_misc |}.
Example c04_e2e_any_ex :
  let value := DList [DInt 1; DInt 2] in
  quiet_cfg ex_cfg2 /\ pickled value = true /\
  o_loads toy_oracles (o_dumps toy_oracles 5 value) = Ok value /\ (forall b, o_decompress toy_oracles (o_compress toy_oracles b) = Ok b) /\
  let '(r, w) := mbind (run_op sstate serve ex_cfg2 (OpStore 0 (DStr [107]) value (DInt 0) DNone DNone))
                       (fun _ => run_op sstate serve ex_cfg2 (OpGet (DStr [107]) DNone)) ex_world in
  r = Ok value /\ live (w_peer w) [112; 58; 107] = Some {| i_flags := 9; i_exp := 0; i_data := [93; 50; 44; 49; 91]; i_cas := 1 |} /\ w_buf w = [].
Proof.
  cbn zeta. split; [split; [reflexivity|split; [reflexivity|intros e _; destruct e; reflexivity]]|].
  split; [reflexivity|]. split; [reflexivity|]. split; [intros b; cbn; rewrite rev_involutive; reflexivity|].
  vm_compute. repeat split; reflexivity.
Qed.

(* non-vacuity of the fr = None reading: a client that has never connected (no socket, no connection yet) is a legal start; the
   same two stores and the get_many connect first and return the same result on the new connection *)
Definition ex_world_closed : world sstate := {| w_script := []; w_choices := [CChunk 3; CChunk 1; CChunk 4096]; w_peer := empty_server 100; w_conns := [];
  w_buf := []; w_discarded := []; w_bad := false; w_trace := []; w_next := 1; w_sock := None |}.
Example c04_e2e_closed_ex :
  let nasty := DBytes [13; 10; 69; 78; 68; 13; 10; 86; 65; 76; 85; 69; 32; 120; 32; 48; 32; 49; 13; 10] in
  connectable ex_cfg None /\ Start sstate None (empty_server 100) ex_world_closed /\
  let '(r, w) := mbind (run_op sstate serve ex_cfg (OpStore 0 (DStr [107]) nasty (DInt 0) DNone DNone))
                  (fun _ => mbind (run_op sstate serve ex_cfg (OpStore 0 (DBytes [106]) (DStr [233; 8364]) (DInt 50) (DBool false) DNone))
                  (fun _ => run_op sstate serve ex_cfg (OpGetMany false [DBytes [106]; DStr [122]; DStr [107]]))) ex_world_closed in
  r = Ok (DDict [DTuple [DBytes [106]; DStr [233; 8364]]; DTuple [DStr [107]; nasty]]) /\ w_buf w = [] /\ w_conns w = [(1, [])] /\ w_sock w = Some 1.
Proof.
  cbn zeta. split; [intros _; left; reflexivity|].
  split; [right; unfold Closed, K, Quiet.normal_script, anybuf; cbn; repeat split; repeat constructor|]. vm_compute. repeat split; reflexivity.
Qed.
