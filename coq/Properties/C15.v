(* C15 — serializers round-trip every value with its exact type.
   Model.Serde is a hand transliteration of serde.py (C-tie: run against PickleSerde /
   CompressedSerde / LegacyWrappingSerde on every check).  pickle and the codec are oracles with
   the stated round-trip hypotheses; UTF-8 and decimal text are PROVED to round-trip
   (Proofs/Utf8Facts.v, Proofs/DecimalFacts.v). *)
From Coq Require Import ZArith List Bool.
From PM Require Import Lib.Py Model.Serde Proofs.C15Proof Proofs.DecimalFacts Proofs.Utf8Facts.
Import ListNotations.
Open Scope Z_scope.

(* every value (bytes; any UTF-8-encodable str; any int; anything else through pickle, which keeps
   bool/None/float/subclasses distinct from the native types) and every pickle protocol:
   the serialized form is bytes, flags fit in 16 bits, and deserialize returns the same value
   with the same constructor (= exact type) *)
Theorem c15_pickle_serde : forall dumps loads, (forall pv v, loads (dumps pv v) = Ok v) ->
  forall pv v, encodable v ->
  exists b f, serialize dumps pv v = Ok (DBytes b, f) /\ 0 <= f < 65536 /\ deserialize loads (DBytes b) f = Ok v.
Proof. exact C15Proof.pickle_serde_roundtrip. Qed.
Print Assumptions c15_pickle_serde.

(* CompressedSerde, every threshold (<= 0 means never) and every codec that round-trips:
   same round trip; the item is flagged COMPRESSED exactly when the stored form is the codec's
   output; the stored form is never longer than the uncompressed one *)
Theorem c15_compressed : forall dumps loads compress decompress,
  (forall pv v, loads (dumps pv v) = Ok v) -> (forall b, decompress (compress b) = Ok b) ->
  forall min_len pv v, encodable v ->
  exists b0 f0 b f,
    serialize dumps pv v = Ok (DBytes b0, f0) /\
    c_serialize dumps compress min_len pv v = Ok (DBytes b, f) /\
    0 <= f < 65536 /\
    c_deserialize loads decompress (DBytes b) f = Ok v /\
    ((f = Z.lor f0 8 /\ b = compress b0 /\ has f FLAG_COMPRESSED = true /\ zlen b0 > min_len /\ min_len > 0)
     \/ (f = f0 /\ b = b0 /\ has f FLAG_COMPRESSED = false)) /\
    zlen b <= zlen b0.
Proof. exact C15Proof.compressed_serde_roundtrip. Qed.
Print Assumptions c15_compressed.

(* the text codecs the serializer relies on, proved rather than assumed *)
Theorem c15_int_text : forall z, int_of_text (str_of_Z z) = Some z.
Proof. exact DecimalFacts.int_of_str_of_Z. Qed.
Print Assumptions c15_int_text.
Theorem c15_utf8 : forall s b, utf8_encode s = Some b -> utf8_decode b = Some s.
Proof. exact Utf8Facts.utf8_roundtrip. Qed.
Print Assumptions c15_utf8.

(* LegacyWrappingSerde without functions is the identity with flags 0 *)
Theorem c15_legacy : forall v, legacy_deserialize (fst (legacy_serialize v)) (snd (legacy_serialize v)) = v
                               /\ snd (legacy_serialize v) = 0.
Proof. intros v. split; reflexivity. Qed.

(* non-vacuity *)
Example c15_ex_int : serialize (fun _ _ => []) 5 (DInt (-12345678901234567890)) =
  Ok (DBytes [45;49;50;51;52;53;54;55;56;57;48;49;50;51;52;53;54;55;56;57;48], 2).
Proof. vm_compute. reflexivity. Qed.
Example c15_ex_str : deserialize (fun _ => Raise ValueError) (DBytes [226; 130; 172]) 16 = Ok (DStr [8364]).
Proof. vm_compute. reflexivity. Qed.
