(* C05 — return values report the server's actual outcome over any history.
   Spec/Server.v is the faithful memcached: a plain in-memory map with expiry and cas versions; `exec` says what
   it DOES for each command (the outcome) and `reply` what protocol.txt makes it answer.  The theorems compose
   that with the client's reading of the reply line (the functions the operations of Model/Client.v apply):
   for every server state -- hence after every history, with any clock -- the value the client computes is the
   documented result for what the server did.  PARTIAL: the single-line commands (set/add/replace/append/prepend/
   cas, delete, incr/decr, touch, flush_all) are proved; retrievals are C04; that run_op performs exactly
   "send render(intent), read one line per command, apply this reading" on a fault-free connection is covered
   by C02 (send), C03 (readers) and the differential run of this check, not by one end-to-end theorem. *)
From Coq Require Import ZArith List Bool.
From PM Require Import Lib.Py Model.Lits Spec.Proto Spec.Server Model.Client Proofs.C05Proof.
Import ListNotations.
Open Scope Z_scope.

Theorem c05_store_partial : forall (s : sstate) v k fl e data cas nr,
  let o := snd (exec s (CStore v k fl e data cas nr)) in
  read_store (sverb_name v) (reply_line o) = Ok (contract_store o).
Proof. exact C05Proof.store_reading. Qed.
Print Assumptions c05_store_partial.
Theorem c05_delete_partial : forall (s : sstate) k nr,
  let o := snd (exec s (CDelete k nr)) in read_delete (reply_line o) = Ok (contract_delete o).
Proof. exact C05Proof.delete_reading. Qed.
Theorem c05_touch_partial : forall (s : sstate) k e nr,
  let o := snd (exec s (CTouch k e nr)) in read_touch (reply_line o) = Ok (contract_touch o).
Proof. exact C05Proof.touch_reading. Qed.
Theorem c05_flush_partial : forall (s : sstate) d nr,
  let o := snd (exec s (CFlush d nr)) in read_flush (reply_line o) = Ok (DBool true).
Proof. exact C05Proof.flush_reading. Qed.
Theorem c05_arith_partial : forall (s : sstate) inc k d nr,
  let o := snd (exec s (CArith inc k d nr)) in 0 <= d -> read_arith (reply_line o) = contract_arith o.
Proof. exact C05Proof.arith_reading. Qed.
Print Assumptions c05_arith_partial.

(* noreply: the effect is the same, nothing is sent back; a reply is sent exactly when the command does not say noreply *)
Theorem c05_noreply_effect : forall (s : sstate) c b, exec s (set_nr b c) = exec s c.
Proof. exact C05Proof.noreply_same_effect. Qed.
Theorem c05_reply_iff : forall (s : sstate) c, (snd (step s c) = []) <-> is_noreply c = true.
Proof. exact C05Proof.reply_iff_not_noreply. Qed.
Print Assumptions c05_reply_iff.

(* non-vacuity: a short history with a cas race, a counter and an expiry *)
Example c05_ex :
  let k := [107] in
  let '(s1, r1) := steps (empty_server 1000) [CStore VSet k 0 10 [53] [] false; CGet true [k]; CStore VCas k 0 0 [54] [49] false;
                                            CStore VCas k 0 0 [55] [49] false; CArith true k 4 false] in
  let '(s2, r2) := steps (tick s1 1) [CGet false [k]; CStore VAdd k 0 (-1) [56] [] false; CGet false [k]] in
  r1 = L_STORED ++ L_crlf ++ value_block true (k, {| i_flags := 0; i_exp := 1010; i_data := [53]; i_cas := 1 |}) ++ L_END ++ L_crlf
       ++ L_STORED ++ L_crlf ++ L_EXISTS ++ L_crlf ++ [49; 48] ++ L_crlf
  /\ r2 = value_block false (k, {| i_flags := 0; i_exp := 0; i_data := [49; 48]; i_cas := 3 |}) ++ L_END ++ L_crlf ++ L_NOT_STORED ++ L_crlf
          ++ value_block false (k, {| i_flags := 0; i_exp := 0; i_data := [49; 48]; i_cas := 3 |}) ++ L_END ++ L_crlf.
Proof. vm_compute. split; reflexivity. Qed.
