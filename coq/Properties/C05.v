(* C05 — return values report the server's actual outcome over any history.
   Spec/Server.v is the faithful memcached: a plain in-memory map with expiry and cas versions; `exec` says what
   it DOES for each command (the outcome) and `reply` what protocol.txt makes it answer.  The theorems compose
   that with the client's reading of the reply line (the functions the operations of Model/Client.v apply):
   for every server state -- hence after every history, with any clock -- the value the client computes is the
   documented result for what the server did.  PARTIAL: the single-line commands (set/add/replace/append/prepend/
   cas, delete, incr/decr, touch, flush_all) are proved at the level of one reply line (the _partial theorems), and END TO END
   on the Client model for the one-command operations set/add/replace/append/prepend, delete, incr, decr, touch,
   flush_all (the c05_e2e theorems): on a client that is connected with nothing pending or closed (it then connects first), a fault-free transport and the specification
   server as the peer, run_op returns exactly the documented result of what the server did, the server state
   advances by exactly that command, and nothing is left unread; the same for cas (c05_e2e_cas: True / False / None as
   the item was stored, changed by someone else, or absent) and for the multi-command operations set_many and delete_many
   (c05_e2e_set_many, c05_e2e_delete_many: the server executes exactly the intended commands in order, the client reads
   one reply line per command), and for gat / gats (c05_e2e_gat, c05_e2e_gats: the item comes back as for get / gets and
   the server re-times it, c05_gat_retimes).  Retrievals end to end are in Properties/C04.v; calls that (re)connect first are
   covered at the exchange level by c01_ready_*.  Checked rather than proved: the Pooled/Hash stacks (C16 relates them to Client). *)
From Coq Require Import ZArith List Bool.
From PM Require Import Lib.Py Model.Lits Spec.Proto Spec.Server Model.World Model.Client Proofs.Hoare Proofs.C02Proof Proofs.C05Proof Proofs.Quiet Proofs.QuietConnect Proofs.QuietAny Proofs.E2E Proofs.E2EMany Proofs.E2EFetch Proofs.E2EGat.
Import ListNotations.
Open Scope Z_scope.

Theorem c05_store_partial : forall (s : sstate) v k fl e data cas nr,
  let o := snd (exec s (CStore v k fl e data cas nr)) in
  read_store (sverb_name v) (reply_line o) = Ok (contract_store o).
Proof. exact C05Proof.store_reading. Qed.
Print Assumptions c05_store_partial.
Theorem c05_delete_partial : forall (s : sstate) k nr,
  let o := snd (exec s (CDelete k nr)) in read_delete (reply_line o) = Ok (contract_delete o).
Proof. exact C05Proof.delete_reading. Qed.
Theorem c05_touch_partial : forall (s : sstate) k e nr,
  let o := snd (exec s (CTouch k e nr)) in read_touch (reply_line o) = Ok (contract_touch o).
Proof. exact C05Proof.touch_reading. Qed.
Theorem c05_flush_partial : forall (s : sstate) d nr,
  let o := snd (exec s (CFlush d nr)) in read_flush (reply_line o) = Ok (DBool true).
Proof. exact C05Proof.flush_reading. Qed.
Theorem c05_arith_partial : forall (s : sstate) inc k d nr,
  let o := snd (exec s (CArith inc k d nr)) in 0 <= d -> read_arith (reply_line o) = contract_arith o.
Proof. exact C05Proof.arith_reading. Qed.
Print Assumptions c05_arith_partial.

(* noreply: the effect is the same, nothing is sent back; a reply is sent exactly when the command does not say noreply *)
Theorem c05_noreply_effect : forall (s : sstate) c b, exec s (set_nr b c) = exec s c.
Proof. exact C05Proof.noreply_same_effect. Qed.
Theorem c05_reply_iff : forall (s : sstate) c, (snd (step s c) = []) <-> is_noreply c = true.
Proof. exact C05Proof.reply_iff_not_noreply. Qed.
Print Assumptions c05_reply_iff.

(* ---- end to end on the Client model (Proofs/E2E.v) ----
   Where the call starts is the parameter fr (Proofs/QuietAny.v):
     fr = Some sid : Start = Done = "connected on sid, server state s, nothing pending" (St sid s []): the connection is kept;
     fr = None     : Start = any ready client - closed (never used, or after a failed call) or connected with nothing pending on
                     the socket, whatever its local buffer holds - and Done = connected on some socket with nothing pending: the
                     call connects first if it has to (connectable: a UNIX path or at least one address to try). *)
Definition catches (c : cfg) : Prop :=
  (forall e, exn_isa e Exception_ = true -> exn_isa e (h_misc c) = true) /\ (forall e, exn_isa e Exception_ = true -> exn_isa e (h_store c) = true).

Theorem c05_e2e_delete : forall c, (forall e, exn_isa e Exception_ = true -> exn_isa e (h_misc c) = true) ->
  forall fr, connectable c fr -> forall s key n k, check_key c (c_prefix c) key = Ok k ->
  let nr := eff_noreply c n in
  let s' := fst (exec s (CDelete k nr)) in let o := snd (exec s (CDelete k nr)) in
  hoare (Start sstate fr s) (run_op sstate serve c (OpDelete key n))
        (fun v w => v = (if nr then DBool true else contract_delete o) /\ Done sstate fr s' w) (fun _ _ => False).
Proof. exact E2E.delete_e2e. Qed.
Print Assumptions c05_e2e_delete.
Theorem c05_e2e_touch : forall c, (forall e, exn_isa e Exception_ = true -> exn_isa e (h_misc c) = true) ->
  forall fr, connectable c fr -> forall s key expire n k eb, check_key c (c_prefix c) key = Ok k -> check_integer c expire = Ok eb -> in_i64 expire ->
  exists z, int_value expire = Some z /\
  let nr := eff_noreply c n in
  let s' := fst (exec s (CTouch k z nr)) in let o := snd (exec s (CTouch k z nr)) in
  hoare (Start sstate fr s) (run_op sstate serve c (OpTouch key expire n))
        (fun v w => v = (if nr then DBool true else contract_touch o) /\ Done sstate fr s' w) (fun _ _ => False).
Proof. exact E2E.touch_e2e. Qed.
Theorem c05_e2e_flush : forall c, (forall e, exn_isa e Exception_ = true -> exn_isa e (h_misc c) = true) ->
  forall fr, connectable c fr -> forall s delay n db, check_integer c delay = Ok db -> (forall z, int_value delay = Some z -> 0 <= z) ->
  exists z, int_value delay = Some z /\
  let nr := eff_noreply c n in
  let s' := fst (exec s (CFlush z nr)) in
  hoare (Start sstate fr s) (run_op sstate serve c (OpFlushAll delay n)) (fun v w => v = DBool true /\ Done sstate fr s' w) (fun _ _ => False).
Proof. exact E2E.flush_e2e. Qed.
(* incr / decr: the new counter, None when absent or under noreply; a non-numeric item raises MemcacheClientError and the connection is closed *)
Theorem c05_e2e_arith : forall c, (forall e, exn_isa e Exception_ = true -> exn_isa e (h_misc c) = true) ->
  forall fr, connectable c fr -> forall s (inc : bool) key value n k vb, check_key c (c_prefix c) key = Ok k -> check_integer c value = Ok vb ->
  (forall z, int_value value = Some z -> 0 <= z < 2 ^ 64) ->
  exists z, int_value value = Some z /\
  let nr := py_truthy n in
  let s' := fst (exec s (CArith inc k z nr)) in let o := snd (exec s (CArith inc k z nr)) in
  hoare (Start sstate fr s) (run_op sstate serve c (if inc then OpIncr key value n else OpDecr key value n))
        (fun v w => (if nr then v = DNone else contract_arith o = Ok v) /\ Done sstate fr s' w)
        (fun e w => nr = false /\ contract_arith o = Raise e /\ w_sock w = None).
Proof. exact E2E.arith_e2e. Qed.
Print Assumptions c05_e2e_arith.
(* set / add / replace / append / prepend of one key: True / False as the server stored it or not (True under noreply) *)
Theorem c05_e2e_store : forall c, (forall e, exn_isa e Exception_ = true -> exn_isa e (h_store c) = true) ->
  forall fr, connectable c fr -> forall s verb key value expire n flags bytes,
  let nr := eff_noreply c n in let v := sv_of verb in
  store_bytes c (verb_name verb) [(key, value)] expire nr flags None = Ok bytes -> in_i64 expire -> in_u32 flags ->
  exists k f e db, store_intent c v [(key, value)] expire nr flags [] = Ok [CStore v k f e db [] nr] /\
  let s' := fst (exec s (CStore v k f e db [] nr)) in let o := snd (exec s (CStore v k f e db [] nr)) in
  hoare (Start sstate fr s) (run_op sstate serve c (OpStore verb key value expire n flags))
        (fun r w => r = (if nr then DBool true else contract_store o) /\ Done sstate fr s' w) (fun _ _ => False).
Proof. exact E2E.store_e2e. Qed.
Print Assumptions c05_e2e_store.

(* cas: True when stored, False when the item changed since the gets, None when it is absent (True under noreply) *)
Theorem c05_e2e_cas : forall c, (forall e, exn_isa e Exception_ = true -> exn_isa e (h_store c) = true) ->
  forall fr, connectable c fr -> forall s key value cas expire n flags cb bytes,
  check_cas c cas = Ok cb ->
  let nr := py_truthy n in
  store_bytes c L_cas [(key, value)] expire nr flags (Some cb) = Ok bytes -> in_i64 expire -> in_u32 flags ->
  exists k f e db, store_intent c VCas [(key, value)] expire nr flags cb = Ok [CStore VCas k f e db cb nr] /\
  let s' := fst (exec s (CStore VCas k f e db cb nr)) in let o := snd (exec s (CStore VCas k f e db cb nr)) in
  hoare (Start sstate fr s) (run_op sstate serve c (OpCas key value cas expire n flags))
        (fun r w => r = (if nr then DBool true else contract_store o) /\ Done sstate fr s' w) (fun _ _ => False).
Proof. exact E2E.cas_e2e. Qed.
Print Assumptions c05_e2e_cas.
(* set_many: every item is stored in order, the list of failed keys is empty *)
Theorem c05_e2e_set_many : forall c, (forall e, exn_isa e Exception_ = true -> exn_isa e (h_store c) = true) ->
  forall fr, connectable c fr -> forall s pairs expire n flags bytes,
  let nr := eff_noreply c n in
  store_bytes c L_set pairs expire nr flags None = Ok bytes -> in_i64 expire -> in_u32 flags ->
  exists cmds, store_intent c VSet pairs expire nr flags [] = Ok cmds /\ Forall (is_set nr) cmds /\ length cmds = length pairs /\
  hoare (Start sstate fr s) (run_op sstate serve c (OpSetMany pairs expire n flags))
        (fun r w => r = DList [] /\ Done sstate fr (fst (run_cmds s cmds)) w) (fun _ _ => False).
Proof. exact E2EMany.set_many_e2e. Qed.
Print Assumptions c05_e2e_set_many.
(* delete_many: every key is deleted in order, the call returns True *)
Theorem c05_e2e_delete_many : forall c, (forall e, exn_isa e Exception_ = true -> exn_isa e (h_misc c) = true) ->
  forall fr, connectable c fr -> forall s (oneshot : bool) keys n ks, legal_keys c keys = Ok ks ->
  let nr := eff_noreply c n in
  hoare (Start sstate fr s) (run_op sstate serve c (OpDeleteMany oneshot keys n))
        (fun r w => r = DBool true /\ ((ks = [] /\ Start sstate fr s w) \/ Done sstate fr (fst (run_cmds s (map (fun k => CDelete k nr) ks))) w)) (fun _ _ => False).
Proof. exact E2EMany.delete_many_e2e. Qed.
Print Assumptions c05_e2e_delete_many.

(* gat / gats: the value (and cas token) as for get / gets; on the server the item's expiry is re-timed *)
Theorem c05_e2e_gat : forall c, c_ignore_exc c = false -> h_fetch c = BaseException ->
  forall fr, connectable c fr -> forall s key expire default k z, check_key c (c_prefix c) key = Ok k -> swf s ->
  int_value expire = Some z -> - 2 ^ 63 <= z < 2 ^ 63 ->
  let s' := fst (exec s (CGat false z [k])) in
  hoare (Start sstate fr s) (run_op sstate serve c (OpGat key expire default))
        (fun v w => match live s k with None => v = default | Some it => deser c it = Ok v end /\ Done sstate fr s' w)
        (fun e w => (exists it, live s k = Some it /\ deser c it = Raise e) /\ w_sock w = None).
Proof. exact E2EGat.gat_e2e. Qed.
Print Assumptions c05_e2e_gat.
Theorem c05_e2e_gats : forall c, c_ignore_exc c = false -> h_fetch c = BaseException ->
  forall fr, connectable c fr -> forall s key expire default cas_default k z, check_key c (c_prefix c) key = Ok k -> swf s ->
  int_value expire = Some z -> - 2 ^ 63 <= z < 2 ^ 63 ->
  let s' := fst (exec s (CGat true z [k])) in
  hoare (Start sstate fr s) (run_op sstate serve c (OpGats key expire default cas_default))
        (fun v w => match live s k with
                    | None => v = DTuple [default; cas_default]
                    | Some it => exists x, deser c it = Ok x /\ v = DTuple [x; DBytes (str_of_Z (i_cas it))] end /\ Done sstate fr s' w)
        (fun e w => (exists it, live s k = Some it /\ deser c it = Raise e) /\ w_sock w = None).
Proof. exact E2EGat.gats_e2e. Qed.
Theorem c05_gat_retimes : forall s (g : bool) z k it, live s k = Some it ->
  let s' := fst (exec s (CGat g z [k])) in
  match abs_exp (s_now s) z with
  | Some x => lookup (s_items s') k = Some {| i_flags := i_flags it; i_exp := x; i_data := i_data it; i_cas := i_cas it |}
  | None => lookup (s_items s') k = None end.
Proof. exact E2EGat.gat_retimes. Qed.

(* non-vacuity: a short history with a cas race, a counter and an expiry *)
Example c05_ex :
  let k := [107] in
  let '(s1, r1) := steps (empty_server 1000) [CStore VSet k 0 10 [53] [] false; CGet true [k]; CStore VCas k 0 0 [54] [49] false;
                                            CStore VCas k 0 0 [55] [49] false; CArith true k 4 false] in
  let '(s2, r2) := steps (tick s1 1) [CGet false [k]; CStore VAdd k 0 (-1) [56] [] false; CGet false [k]] in
  r1 = L_STORED ++ L_crlf ++ value_block true (k, {| i_flags := 0; i_exp := 1010; i_data := [53]; i_cas := 1 |}) ++ L_END ++ L_crlf
       ++ L_STORED ++ L_crlf ++ L_EXISTS ++ L_crlf ++ [49; 48] ++ L_crlf
  /\ r2 = value_block false (k, {| i_flags := 0; i_exp := 0; i_data := [49; 48]; i_cas := 3 |}) ++ L_END ++ L_crlf ++ L_NOT_STORED ++ L_crlf
          ++ value_block false (k, {| i_flags := 0; i_exp := 0; i_data := [49; 48]; i_cas := 3 |}) ++ L_END ++ L_crlf.
Proof. vm_compute. split; reflexivity. Qed.

(* "noreply defaults per operation": what an operation does when the caller leaves noreply out is part of its contract (the model's
   run_op takes the argument as given; eff_noreply resolves None to default_noreply; cas, incr and decr use the argument as it is).
   The signature defaults are read from base.py on every run (Gen/Wrappers.v): cas, incr and decr wait for their reply unless told
   otherwise, every other storing or deleting operation follows default_noreply. *)
From Coq Require Import String.
From PM Require Import Gen.Wrappers.
Definition noreply_default (meth : string) : option string :=
  match find (fun r => String.eqb (fst r) meth) client_sigs with
  | Some (_, params) => match find (fun p => String.eqb (fst p) "noreply"%string) params with Some (_, d) => Some d | None => None end
  | None => None end.
Theorem c05_noreply_defaults :
  map noreply_default ["cas"; "incr"; "decr"]%string = [Some "False"; Some "False"; Some "False"]%string /\
  map noreply_default ["set"; "set_many"; "add"; "replace"; "append"; "prepend"; "delete"; "delete_many"; "touch"]%string
  = repeat (Some "None"%string) 9.
Proof. split; reflexivity. Qed.
Print Assumptions c05_noreply_defaults.

(* the documented aliases: get_multi / set_multi / delete_multi (and HashClient's gets_multi) are bound to their *_many method, and
   disconnect_all to close, on every client class, so what is shown for the *_many methods is what the aliases do.  The table is
   the class bodies of this run (Gen/Aliases.v: the binding in force at the end of the class body). *)
From PM Require Import Gen.Aliases Spec.AliasRule.
Theorem c05_aliases :
  (forall cls a t, In (cls, a, t) method_aliases -> alias_ok a t = true) /\
  (forall cls a, In cls alias_classes -> In a documented_aliases -> has_alias method_aliases cls a = true) /\
  multi_not_alias = [].
Proof.
  assert (H : aliases_ok method_aliases = true) by (vm_compute; reflexivity).
  unfold aliases_ok in H. apply andb_true_iff in H. destruct H as [H1 H2].
  rewrite forallb_forall in H1, H2.
  split; [|split].
  - intros cls a t Hin. exact (H1 _ Hin).
  - intros cls a Hc Ha. specialize (H2 _ Hc). rewrite forallb_forall in H2. exact (H2 _ Ha).
  - reflexivity.
Qed.
Print Assumptions c05_aliases.
