(* C18 — FallbackClient: reads fall through in order, writes touch only the primary.
   Model.Fallback is a hand transliteration of fallback.py, run against the real class on every
   check (exhaustive: 1..4 caches x all hit/miss/raise assignments x all operations). *)
From Coq Require Import ZArith List Bool.
From PM Require Import Lib.Py Model.Fallback Proofs.C18Proof.
Import ListNotations.
Open Scope Z_scope.

(* For every number of caches and every state of them: a read (get, gets: hit = not None;
   get_many, gets_many: hit = non-empty) returns the first hit in the configured order and consults
   exactly caches 0..k (consult m arg 0 (k+1)), none after the one that answered; a cache that raises
   ends the read with its error; if no cache hits, all are consulted and the miss value is returned. *)
Theorem c18_reads : forall m arg answers,
  (exists k v, nth_error answers k = Some (Ok v) /\ is_hit m v = true /\
               (forall j, (j < k)%nat -> exists w, nth_error answers j = Some (Ok w) /\ is_hit m w = false) /\
               fb_read m arg answers = (Ok v, consult m arg 0 (S k)))
  \/ (exists k e, nth_error answers k = Some (Raise e) /\
               (forall j, (j < k)%nat -> exists w, nth_error answers j = Some (Ok w) /\ is_hit m w = false) /\
               fb_read m arg answers = (Raise e, consult m arg 0 (S k)))
  \/ ((forall j, (j < length answers)%nat -> exists w, nth_error answers j = Some (Ok w) /\ is_hit m w = false) /\
      fb_read m arg answers =
        (Ok (match m with MGet | MGets => DNone | _ => DList [] end), consult m arg 0 (length answers))).
Proof. intros m arg answers. exact (C18Proof.read_loop_spec (is_hit m) m arg answers 0%nat []). Qed.
Print Assumptions c18_reads.

(* every mutating operation issues exactly one call: to cache 0, the same method, the caller's
   arguments in the caller's order; no other cache is touched *)
Theorem c18_writes : forall m args a, snd (fb_write m args a) = [(0%nat, m, args)].
Proof. reflexivity. Qed.

Example c18_ex : fb_read MGet (DStr [107]) [Ok DNone; Ok (DInt 0); Ok (DInt 5)]
               = (Ok (DInt 0), [(0%nat, MGet, [DStr [107]]); (1%nat, MGet, [DStr [107]])]).
Proof. reflexivity. Qed.

(* the model above is stateless: each call is a function of the caches' answers alone.  That is the code's own shape - the only
   attribute of self that FallbackClient ever stores to or mutates, in any method, is `caches` in the constructor (every store,
   deletion, setattr / __dict__ use and mutating method call on an attribute of self, read from fallback.py on every run) - so no
   call can depend on an earlier one (what a read returned, or from which cache, cannot steer a later write) *)
From Coq Require Import String.
From PM Require Import Gen.Fallback.
Theorem c18_stateless : fallback_stores = [("__init__", "caches")]%string.
Proof. reflexivity. Qed.
Print Assumptions c18_stateless.
