(* C17 — RetryingClient retries exactly as configured.
   Model.Retrying is a hand transliteration of retrying.py (C-tie: run against the real class on
   every check, exhaustively over attempts x outcome sequences x class lists). *)
From Coq Require Import ZArith List Bool.
From PM Require Import Lib.Py Model.Retrying Proofs.C17Proof.
Import ListNotations.
Open Scope Z_scope.

(* For every configuration with attempts >= 1 and EVERY outcome sequence of the wrapped call there is
   a k with 1 <= k <= attempts such that: the wrapped method is invoked exactly k times with
   sleep(retry_delay) exactly between consecutive invocations (calls_sleeps k: k calls, k-1 sleeps,
   ending with a call); the result is the outcome of the k-th invocation unchanged (first success, or
   the exception of the final attempt); every earlier invocation failed with a retryable exception
   (an Exception matching retry_for when given and not matching do_not_retry_for); and if k < attempts
   the k-th outcome is a success or a non-retryable error (non-Exception errors propagate at once). *)
Theorem c17_retry : forall c out, 1 <= attempts c ->
  exists k : nat, (1 <= k)%nat /\ Z.of_nat k <= attempts c /\
    retry c out = (out (k - 1)%nat, calls_sleeps k (delay c)) /\
    (forall j, (j < k - 1)%nat -> exists e, out j = Raise e /\ retryable c e = true) /\
    (Z.of_nat k < attempts c -> match out (k - 1)%nat with Ok _ => True | Raise e => retryable c e = false end).
Proof. exact C17Proof.retry_spec. Qed.
Print Assumptions c17_retry.

(* shape of the event log: k calls, k-1 sleeps, the last event is a call, every sleep is retry_delay *)
Theorem c17_log_shape : forall k d, (1 <= k)%nat ->
  length (filter (fun e => match e with ECall => true | _ => false end) (calls_sleeps k d)) = k /\
  length (filter (fun e => match e with ESleep _ => true | _ => false end) (calls_sleeps k d)) = (k - 1)%nat /\
  last (calls_sleeps k d) (ESleep d) = ECall /\
  Forall (fun e => match e with ESleep x => x = d | ECall => True end) (calls_sleeps k d).
Proof. exact C17Proof.calls_sleeps_counts. Qed.
Print Assumptions c17_log_shape.

(* construction succeeds iff attempts >= 1, both lists are None or a tuple/list/set of Exception
   subclasses, and no class occurs in both *)
Theorem c17_config : forall att rf dnr,
  (exists r d, init_check att rf dnr = Ok (r, d)) <->
  (1 <= att /\ exists r d, ensure_tuple rf = Ok r /\ ensure_tuple dnr = Ok d /\
               (forall k, In k r -> forall k', In k' d -> cls_eqb k k' = false)).
Proof. exact C17Proof.init_check_spec. Qed.
Print Assumptions c17_config.

(* non-vacuity: 3 attempts, two retryable failures then success *)
Example c17_ex :
  retry {| attempts := 3; delay := 5; retry_for := [MemcacheError]; do_not_retry_for := [MemcacheUnknownError]; name_in_dir := true |}
        (fun i => match i with 0%nat => Raise MemcacheServerError | 1%nat => Raise MemcacheClientError | _ => Ok (DInt 7) end)
  = (Ok (DInt 7), [ECall; ESleep 5; ECall; ESleep 5; ECall]).
Proof. vm_compute. reflexivity. Qed.

(* the subscript forms c[k] = v, c[k], del c[k] go through the object's own set / get / delete (bodies read from the source on
   every run, Gen/Subscripts.v): they inherit everything proved of those methods *)
From Coq Require Import String.
From PM Require Import Gen.Subscripts Spec.SubscriptForms.
Theorem c17_subscripts :
  forms_of "RetryingClient"%string subscript_forms = expected_forms "RetryingClient"%string.
Proof. repeat split; reflexivity. Qed.
Print Assumptions c17_subscripts.
