(* C20 — key validation accepts exactly the documented legal keys.
   Gen.KeyCheck is the translation of check_key_helper, regenerated on every run;
   Gen.CallSites lists every call of the helper with its arguments (structural extraction). *)
From Coq Require Import ZArith List Bool.
From PM Require Import Lib.Py Gen.KeyCheck Gen.CallSites Spec.LegalKey Spec.KeySites Proofs.C20Proof.
Import ListNotations.
Open Scope Z_scope.
Open Scope list_scope.

(* for every str or bytes key, every prefix, both settings of allow_unicode_keys: the helper
   returns prefix + encoded key iff that is legal, and MemcacheIllegalInputError otherwise
   (key_spec, Spec/LegalKey.v; lengths are byte lengths of the encoded, prefixed form) *)
Theorem c20_exact : forall k allow p,
  (py_isinstance_str k || py_isinstance_bytes k) = true ->
  check_key_helper k allow (DBytes p) = key_spec k allow p.
Proof. exact C20Proof.c20_exact_proof. Qed.
Print Assumptions c20_exact.

(* the spec predicate means what the documentation says *)
Theorem c20_legal_meaning : forall w,
  legal w = true <->
  (1 <= zlen w <= 250 /\ Forall (fun c => c <> 0 /\ c <> 9 /\ c <> 10 /\ c <> 11 /\ c <> 12 /\ c <> 13 /\ c <> 32) w).
Proof. exact C20Proof.legal_meaning. Qed.
Print Assumptions c20_legal_meaning.

(* in the property's words: a key whose prefixed form is non-empty is accepted iff legal, is then
   transmitted as exactly prefix + encoded key, and rejection is always MemcacheIllegalInputError *)
Theorem c20_accept_iff : forall (k : dyn) (allow : bool) (p e : list Z),
  encode_key allow k = Some e -> p ++ e <> [] ->
  (legal (p ++ e) = true  -> check_key_helper k allow (DBytes p) = Ok (DBytes (p ++ e))) /\
  (legal (p ++ e) = false -> check_key_helper k allow (DBytes p) = Raise MemcacheIllegalInputError).
Proof. exact C20Proof.accept_iff. Qed.
Print Assumptions c20_accept_iff.

(* a str key that cannot be encoded (non-ASCII without unicode keys; not UTF-8-encodable with) is rejected *)
Theorem c20_unencodable_rejected : forall (s : list Z) (allow : bool) (p : list Z),
  encode_key allow (DStr s) = None ->
  check_key_helper (DStr s) allow (DBytes p) = Raise MemcacheIllegalInputError.
Proof. exact C20Proof.unencodable_rejected. Qed.
Print Assumptions c20_unencodable_rejected.

(* the same rule in the three classes: each calls the helper with its own key, its own
   allow_unicode_keys and its key prefix, and there is no other call site *)
Theorem c20_same_rule : key_check_sites = expected_key_check_sites.
Proof. reflexivity. Qed.

Print Assumptions c20_same_rule.

(* ... and every key-taking command of Client hands the client's own key_prefix to that check (table read from base.py on
   every run): a command that validated or sent its keys without the prefix would break this *)
Theorem c20_prefix_everywhere : prefix_sites_ok prefix_arg_sites = true.
Proof. vm_compute. reflexivity. Qed.
Print Assumptions c20_prefix_everywhere.

(* non-vacuity: concrete keys on both sides of every clause *)
Example c20_ex_accept : check_key_helper (DStr [233]) true (DBytes [112; 58]) = Ok (DBytes [112; 58; 195; 169]).
Proof. vm_compute. reflexivity. Qed.
Example c20_ex_space : check_key_helper (DBytes [32]) false (DBytes []) = Raise MemcacheIllegalInputError.
Proof. vm_compute. reflexivity. Qed.
Example c20_ex_nonascii : check_key_helper (DStr [233]) false (DBytes []) = Raise MemcacheIllegalInputError.
Proof. vm_compute. reflexivity. Qed.
