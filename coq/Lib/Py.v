(* PM.Lib.Py — Python values, exceptions and builtins as used by pymemcache.
   Everything here is a total Gallina function that is exactly as partial as the
   Python builtin it renders (failure = Raise <exception class>).  This file is
   part of the trusted base (PyLib <-> CPython); harness/pylib_diff.py runs every
   definition against CPython on each check. No proofs here: facts live in PyFacts.v *)
From Coq Require Import ZArith List Bool.
Import ListNotations.
Open Scope Z_scope.

(* ------------------------------------------------------------------ values *)
Inductive dyn :=
| DNone
| DBool (b : bool)
| DInt (z : Z)
| DStr (s : list Z)          (* code points *)
| DBytes (b : list Z)        (* 0..255 *)
| DList (l : list dyn)
| DTuple (l : list dyn)
| DDict (l : list dyn)       (* insertion-ordered; every element is DTuple [k; v] *)
| DOpaque (id : Z).          (* anything else (float, object, ...): only identity matters *)

(* ------------------------------------------------------------------ exceptions *)
Inductive exn :=
| BaseException | KeyboardInterrupt | SystemExit | GreenletTimeout | WouldBlock
| Exception_ | ValueError | TypeError | IndexError | KeyError | AttributeError
| RuntimeError | AssertionError | UnicodeError | UnicodeEncodeError | UnicodeDecodeError
| OSError | ConnectionRefusedError | ConnectionResetError | SocketTimeout | GaiError
| MemcacheError | MemcacheClientError | MemcacheUnknownCommandError | MemcacheIllegalInputError
| MemcacheServerError | MemcacheUnknownError | MemcacheUnexpectedCloseError.

Definition exn_parent (e : exn) : option exn :=
  match e with
  | BaseException => None
  | KeyboardInterrupt | SystemExit | GreenletTimeout | WouldBlock | Exception_ => Some BaseException
  | ValueError | TypeError | IndexError | KeyError | AttributeError | RuntimeError
  | AssertionError | OSError | MemcacheError => Some Exception_
  | UnicodeError => Some ValueError
  | UnicodeEncodeError | UnicodeDecodeError => Some UnicodeError
  | ConnectionRefusedError | ConnectionResetError | SocketTimeout | GaiError => Some OSError
  | MemcacheClientError | MemcacheServerError | MemcacheUnknownError => Some MemcacheError
  | MemcacheUnknownCommandError | MemcacheIllegalInputError => Some MemcacheClientError
  | MemcacheUnexpectedCloseError => Some MemcacheServerError
  end.

Definition exn_tag (e : exn) : Z :=
  match e with
  | BaseException => 0 | KeyboardInterrupt => 1 | SystemExit => 2 | GreenletTimeout => 3
  | Exception_ => 4 | ValueError => 5 | TypeError => 6 | IndexError => 7 | KeyError => 8
  | AttributeError => 9 | RuntimeError => 10 | AssertionError => 11 | UnicodeError => 12
  | UnicodeEncodeError => 13 | UnicodeDecodeError => 14 | OSError => 15
  | ConnectionRefusedError => 16 | ConnectionResetError => 17 | SocketTimeout => 18 | GaiError => 19
  | MemcacheError => 20 | MemcacheClientError => 21 | MemcacheUnknownCommandError => 22
  | MemcacheIllegalInputError => 23 | MemcacheServerError => 24 | MemcacheUnknownError => 25
  | MemcacheUnexpectedCloseError => 26 | WouldBlock => 27
  end.
Definition exn_eqb (a b : exn) : bool := exn_tag a =? exn_tag b.

(* isinstance(exception of class e, c); the hierarchy has depth <= 5 *)
Fixpoint exn_isa_fuel (n : nat) (e c : exn) : bool :=
  exn_eqb e c ||
  match n with O => false | S n' =>
    match exn_parent e with Some p => exn_isa_fuel n' p c | None => false end end.
Definition exn_isa (e c : exn) : bool := exn_isa_fuel 6 e c.
Definition exn_isa_any (e : exn) (cs : list exn) : bool := existsb (exn_isa e) cs.

(* ------------------------------------------------------------------ the exception monad *)
Inductive exc (A : Type) := Ok (a : A) | Raise (e : exn).
Arguments Ok {A}. Arguments Raise {A}.
Definition bind {A B} (m : exc A) (k : A -> exc B) : exc B :=
  match m with Ok a => k a | Raise e => Raise e end.
Declare Scope exc_scope.
Delimit Scope exc_scope with exc.
Notation "x <- m ;; k" := (bind m (fun x => k))
  (at level 61, m at next level, right associativity) : exc_scope.
Notation "' p <- m ;; k" := (bind m (fun x => let p := x in k))
  (at level 61, p pattern, m at next level, right associativity) : exc_scope.
Open Scope exc_scope.

(* try: m  except (classes): handler *)
Definition py_try {A} (m : exc A) (classes : list exn) (handler : exc A) : exc A :=
  match m with Ok a => Ok a | Raise e => if exn_isa_any e classes then handler else Raise e end.
Definition cond_or (a b : exc bool) : exc bool := x <- a ;; if x then Ok true else b.
Definition cond_and (a b : exc bool) : exc bool := x <- a ;; if x then b else Ok false.
Definition cond_not (a : exc bool) : exc bool := x <- a ;; Ok (negb x).

(* ------------------------------------------------------------------ lists of Z (bytes / str) *)
Fixpoint list_eqb (a b : list Z) : bool :=
  match a, b with [], [] => true | x :: a', y :: b' => (x =? y) && list_eqb a' b' | _, _ => false end.
Fixpoint prefixb (p s : list Z) : bool :=
  match p, s with [], _ => true | x :: p', y :: s' => (x =? y) && prefixb p' s' | _, _ => false end.
Fixpoint containsb (needle hay : list Z) : bool :=
  prefixb needle hay || match hay with [] => false | _ :: t => containsb needle t end.
(* bytes.find(needle): index of first occurrence, None if absent *)
Fixpoint find_from (needle hay : list Z) (i : Z) : option Z :=
  if prefixb needle hay then Some i
  else match hay with [] => None | _ :: t => find_from needle t (i + 1) end.
Definition bytes_find (hay needle : list Z) : Z :=
  match find_from needle hay 0 with Some i => i | None => -1 end.
Definition suffixb (p s : list Z) : bool := prefixb (rev p) (rev s).
(* lexicographic order on code-point lists, as Python compares str / bytes *)
Fixpoint str_ltb (a b : list Z) : bool :=
  match a, b with
  | [], [] => false | [], _ :: _ => true | _ :: _, [] => false
  | x :: a', y :: b' => if x <? y then true else if y <? x then false else str_ltb a' b'
  end.

(* bytes.split(): runs of ASCII whitespace \t \n \v \f \r space *)
Definition is_ws (c : Z) : bool := ((9 <=? c) && (c <=? 13)) || (c =? 32).
Fixpoint split_ws_aux (s : list Z) (cur : list Z) : list (list Z) :=
  match s with
  | [] => match cur with [] => [] | _ => [rev cur] end
  | c :: t => if is_ws c
              then match cur with [] => split_ws_aux t [] | _ => rev cur :: split_ws_aux t [] end
              else split_ws_aux t (c :: cur)
  end.
Definition split_ws (s : list Z) : list (list Z) := split_ws_aux s [].
(* split on a single separator character, Python's s.split(sep) for len(sep) = 1 *)
Fixpoint split_char_aux (sep : Z) (s cur : list Z) : list (list Z) :=
  match s with
  | [] => [rev cur]
  | c :: t => if c =? sep then rev cur :: split_char_aux sep t [] else split_char_aux sep t (c :: cur)
  end.
Definition split_char (sep : Z) (s : list Z) : list (list Z) := split_char_aux sep s [].

(* Python slicing s[a:b] with non-negative literal bounds; b = None is "to the end" *)
Definition slice_from (s : list Z) (a : Z) : list Z := skipn (Z.to_nat a) s.
Definition slice_to (s : list Z) (b : Z) : list Z := firstn (Z.to_nat b) s.

(* ------------------------------------------------------------------ decimal text *)
Fixpoint digits_pos_fuel (n : nat) (z : Z) (acc : list Z) : list Z :=
  match n with O => acc | S n' =>
    if z <? 10 then (48 + z) :: acc else digits_pos_fuel n' (z / 10) ((48 + z mod 10) :: acc) end.
(* str(z) / "%d" % z for an int *)
Definition str_of_Z (z : Z) : list Z :=
  if z <? 0 then 45 :: digits_pos_fuel (S (Z.to_nat (Z.log2 (- z)))) (- z) []
  else digits_pos_fuel (S (Z.to_nat (Z.log2 z))) z [].
Definition is_digit (c : Z) : bool := (48 <=? c) && (c <=? 57).
Fixpoint digits_val (s : list Z) (acc : Z) : Z :=
  match s with [] => acc | c :: t => digits_val t (acc * 10 + (c - 48)) end.
(* int(b) for bytes/str: optional surrounding ASCII whitespace, optional sign, digits with single
   underscores between digits.  Anything else: ValueError. *)
Fixpoint strip_left (s : list Z) : list Z :=
  match s with c :: t => if is_ws c then strip_left t else s | [] => [] end.
Definition strip_ws (s : list Z) : list Z := rev (strip_left (rev (strip_left s))).
(* digits with underscores: d (_? d)* *)
Fixpoint digits_us (s : list Z) (prev_digit : bool) (acc : list Z) : option (list Z) :=
  match s with
  | [] => if prev_digit then Some (rev acc) else None
  | c :: t => if is_digit c then digits_us t true (c :: acc)
              else if (c =? 95) && prev_digit then
                     match t with d :: _ => if is_digit d then digits_us t false acc else None | [] => None end
                   else None
  end.
Definition int_of_text (s : list Z) : option Z :=
  let s := strip_ws s in
  let '(neg, body) := match s with
                      | 45 :: t => (true, t) | 43 :: t => (false, t) | _ => (false, s) end in
  match digits_us body false [] with
  | Some ds => Some (if neg then - digits_val ds 0 else digits_val ds 0)
  | None => None end.

(* ------------------------------------------------------------------ UTF-8 / ASCII *)
Definition utf8_cp (c : Z) : option (list Z) :=
  if (c <? 0) then None
  else if c <? 128 then Some [c]
  else if c <? 2048 then Some [192 + c / 64; 128 + c mod 64]
  else if (55296 <=? c) && (c <=? 57343) then None
  else if c <? 65536 then Some [224 + c / 4096; 128 + (c / 64) mod 64; 128 + c mod 64]
  else if c <? 1114112 then
    Some [240 + c / 262144; 128 + (c / 4096) mod 64; 128 + (c / 64) mod 64; 128 + c mod 64]
  else None.
Fixpoint utf8_encode (s : list Z) : option (list Z) :=
  match s with
  | [] => Some []
  | c :: t => match utf8_cp c, utf8_encode t with Some a, Some b => Some (a ++ b) | _, _ => None end
  end.
Definition ascii_encode (s : list Z) : option (list Z) :=
  if forallb (fun c => (0 <=? c) && (c <? 128)) s then Some s else None.
Definition is_cont (c : Z) : bool := (128 <=? c) && (c <? 192).
(* strict UTF-8 decoder (shortest form, no surrogates, <= U+10FFFF), as CPython's *)
Fixpoint utf8_decode_fuel (n : nat) (b : list Z) : option (list Z) :=
  match n with O => match b with [] => Some [] | _ => None end | S n' =>
  match b with
  | [] => Some []
  | c :: t =>
    if (0 <=? c) && (c <? 128) then option_map (cons c) (utf8_decode_fuel n' t)
    else if (194 <=? c) && (c <? 224) then
      match t with
      | c1 :: t1 => if is_cont c1 then option_map (cons ((c - 192) * 64 + (c1 - 128))) (utf8_decode_fuel n' t1) else None
      | _ => None end
    else if (224 <=? c) && (c <? 240) then
      match t with
      | c1 :: c2 :: t2 =>
        let v := (c - 224) * 4096 + (c1 - 128) * 64 + (c2 - 128) in
        if is_cont c1 && is_cont c2 && (2048 <=? v) && negb ((55296 <=? v) && (v <=? 57343))
        then option_map (cons v) (utf8_decode_fuel n' t2) else None
      | _ => None end
    else if (240 <=? c) && (c <? 245) then
      match t with
      | c1 :: c2 :: c3 :: t3 =>
        let v := (c - 240) * 262144 + (c1 - 128) * 4096 + (c2 - 128) * 64 + (c3 - 128) in
        if is_cont c1 && is_cont c2 && is_cont c3 && (65536 <=? v) && (v <? 1114112)
        then option_map (cons v) (utf8_decode_fuel n' t3) else None
      | _ => None end
    else None
  end end.
Definition utf8_decode (b : list Z) : option (list Z) := utf8_decode_fuel (S (length b)) b.

(* ------------------------------------------------------------------ operations on dyn *)
Inductive encoding := EncAscii | EncUtf8.
Definition py_isinstance_str (v : dyn) : bool := match v with DStr _ => true | _ => false end.
Definition py_isinstance_bytes (v : dyn) : bool := match v with DBytes _ => true | _ => false end.
(* isinstance(v, int): bool is a subclass of int *)
Definition py_isinstance_int (v : dyn) : bool := match v with DInt _ | DBool _ => true | _ => false end.
Definition py_isinstance_tuple (v : dyn) : bool := match v with DTuple _ => true | _ => false end.
Definition py_isinstance_list_or_tuple (v : dyn) : bool :=
  match v with DTuple _ | DList _ => true | _ => false end.
Definition py_is_none (v : dyn) : bool := match v with DNone => true | _ => false end.
Definition py_encode (v : dyn) (e : encoding) : exc dyn :=
  match v with
  | DStr s => match (match e with EncAscii => ascii_encode s | EncUtf8 => utf8_encode s end) with
              | Some b => Ok (DBytes b) | None => Raise UnicodeEncodeError end
  | _ => Raise AttributeError end.
Definition py_decode_utf8 (v : dyn) : exc dyn :=
  match v with
  | DBytes b => match utf8_decode b with Some s => Ok (DStr s) | None => Raise UnicodeDecodeError end
  | _ => Raise AttributeError end.
Definition py_add (a b : dyn) : exc dyn :=
  match a, b with
  | DBytes x, DBytes y => Ok (DBytes (x ++ y))
  | DStr x, DStr y => Ok (DStr (x ++ y))
  | DInt x, DInt y => Ok (DInt (x + y))
  | DList x, DList y => Ok (DList (x ++ y))
  | DTuple x, DTuple y => Ok (DTuple (x ++ y))
  | _, _ => Raise TypeError end.
Definition py_split0 (v : dyn) : exc dyn :=
  match v with DBytes b => Ok (DList (map DBytes (split_ws b))) | _ => Raise AttributeError end.
Definition py_len (v : dyn) : exc Z :=
  match v with
  | DBytes b => Ok (Z.of_nat (length b)) | DStr s => Ok (Z.of_nat (length s))
  | DList l | DTuple l | DDict l => Ok (Z.of_nat (length l))
  | _ => Raise TypeError end.
Definition py_truthy (v : dyn) : bool :=
  match v with
  | DNone => false | DBool b => b | DInt z => negb (z =? 0)
  | DStr s | DBytes s => match s with [] => false | _ => true end
  | DList l | DTuple l | DDict l => match l with [] => false | _ => true end
  | DOpaque _ => true end.
Definition py_getitem (v : dyn) (i : Z) : exc dyn :=
  match v with
  | DList l | DTuple l =>
      let j := if i <? 0 then i + Z.of_nat (length l) else i in
      if (0 <=? j) && (j <? Z.of_nat (length l)) then Ok (nth (Z.to_nat j) l DNone) else Raise IndexError
  | _ => Raise TypeError end.
Definition bool_Z (b : bool) : Z := if b then 1 else 0.
Fixpoint dyn_eqb (a b : dyn) : bool :=
  let fix go (x y : list dyn) : bool :=
    match x, y with [], [] => true | p :: x', q :: y' => dyn_eqb p q && go x' y' | _, _ => false end in
  match a, b with
  | DNone, DNone => true
  | DBool x, DBool y => Bool.eqb x y
  | DInt x, DInt y => x =? y
  | DBool x, DInt y => bool_Z x =? y
  | DInt x, DBool y => x =? bool_Z y
  | DStr x, DStr y => list_eqb x y
  | DBytes x, DBytes y => list_eqb x y
  | DList x, DList y => go x y
  | DTuple x, DTuple y => go x y
  | DDict x, DDict y => go x y
  | DOpaque x, DOpaque y => x =? y
  | _, _ => false end.
Definition py_contains (needle hay : dyn) : exc bool :=
  match needle, hay with
  | DBytes n, DBytes h => Ok (containsb n h)
  | DStr n, DStr h => Ok (containsb n h)
  | x, DList l | x, DTuple l => Ok (existsb (dyn_eqb x) l)
  | _, _ => Raise TypeError end.
(* repr(bytes) body: printable ASCII as is, \t \n \r \\ and the quote escaped, others \xhh *)
Definition hex_digit (n : Z) : Z := if n <? 10 then 48 + n else 87 + n.
Definition repr_byte (q : Z) (c : Z) : list Z :=
  if c =? 92 then [92; 92]
  else if c =? q then [92; q]
  else if c =? 9 then [92; 116] else if c =? 10 then [92; 110] else if c =? 13 then [92; 114]
  else if (32 <=? c) && (c <? 127) then [c]
  else [92; 120; hex_digit (c / 16); hex_digit (c mod 16)].
Definition repr_bytes (b : list Z) : list Z :=
  let has_sq := existsb (Z.eqb 39) b in
  let has_dq := existsb (Z.eqb 34) b in
  let q := if has_sq && negb has_dq then 34 else 39 in
  [98; q] ++ flat_map (repr_byte q) b ++ [q].
(* str(x) for the values the modelled code formats: str, int, bytes (= repr), None, bool *)
Definition py_str (v : dyn) : exc (list Z) :=
  match v with
  | DStr s => Ok s
  | DInt z => Ok (str_of_Z z)
  | DBytes b => Ok (repr_bytes b)
  | DNone => Ok [78; 111; 110; 101]
  | DBool true => Ok [84; 114; 117; 101]
  | DBool false => Ok [70; 97; 108; 115; 101]
  | _ => Raise TypeError   (* containers / opaque objects: outside the modelled subset *)
  end.
Definition py_max (a b : dyn) : exc dyn :=
  match a, b with
  | DStr x, DStr y => Ok (if str_ltb x y then DStr y else DStr x)  (* max returns the first maximal *)
  | DInt x, DInt y => Ok (if x <? y then DInt y else DInt x)
  | _, _ => Raise TypeError end.
Definition py_int (v : dyn) : exc dyn :=
  match v with
  | DInt z => Ok (DInt z)
  | DBool b => Ok (DInt (bool_Z b))
  | DBytes s | DStr s => match int_of_text s with Some z => Ok (DInt z) | None => Raise ValueError end
  | _ => Raise TypeError end.
Fixpoint py_for_list {S} (l : list dyn) (body : dyn -> S -> exc S) (s : S) : exc S :=
  match l with [] => Ok s | x :: l' => s' <- body x s ;; py_for_list l' body s' end.

(* ------------------------------------------------------------------ typed (Z) mode helpers *)
Definition zlen (l : list Z) : Z := Z.of_nat (length l).
Definition py_str_index (l : list Z) (i : Z) : exc Z :=
  let j := if i <? 0 then i + zlen l else i in
  if (0 <=? j) && (j <? zlen l) then Ok (nth (Z.to_nat j) l 0) else Raise IndexError.
Definition py_in_list (x : Z) (l : list Z) : bool := existsb (Z.eqb x) l.
Fixpoint iter_range {S} (n : nat) (i step : Z) (body : Z -> S -> exc S) (s : S) : exc S :=
  match n with O => Ok s | S n' => s' <- body i s ;; iter_range n' (i + step) step body s' end.
Definition range_count (start stop step : Z) : nat :=
  if 0 <? step then Z.to_nat ((stop - start + step - 1) / step) else O. (* step <= 0: refused by the translator *)
Definition py_for_range {S} (start stop step : Z) (body : Z -> S -> exc S) (s : S) : exc S :=
  iter_range (range_count start stop step) start step body s.
(* list.remove(x): drop the first element equal to x, ValueError if absent *)
Fixpoint list_remove_first (l : list dyn) (x : dyn) : option (list dyn) :=
  match l with
  | [] => None
  | y :: t => if dyn_eqb y x then Some t else option_map (cons y) (list_remove_first t x)
  end.
Definition py_list_remove (l : list dyn) (x : dyn) : exc (list dyn) :=
  match list_remove_first l x with Some l' => Ok l' | None => Raise ValueError end.

(* ------------------------------------------------------------------ Python slices with any integer bounds *)
Definition clamp_index (n i : Z) : Z :=            (* slice index i for a sequence of length n *)
  let j := if i <? 0 then i + n else i in
  if j <? 0 then 0 else if n <? j then n else j.
Definition py_slice_to (s : list Z) (b : Z) : list Z := firstn (Z.to_nat (clamp_index (zlen s) b)) s.
Definition py_slice_from (s : list Z) (a : Z) : list Z := skipn (Z.to_nat (clamp_index (zlen s) a)) s.
(* bytes.partition(sep) for a one-byte separator: (before, sep or empty, after) *)
Fixpoint partition_char (sep : Z) (s : list Z) (acc : list Z) : list Z * bool * list Z :=
  match s with
  | [] => (rev acc, false, [])
  | c :: t => if c =? sep then (rev acc, true, t) else partition_char sep t (c :: acc)
  end.
(* b" ".join(parts) *)
Fixpoint join_with (sep : list Z) (parts : list (list Z)) : list Z :=
  match parts with [] => [] | [p] => p | p :: t => p ++ sep ++ join_with sep t end.
(* bytes.isdigit(): non-empty and all ASCII digits *)
Definition bytes_isdigit (s : list Z) : bool := match s with [] => false | _ => forallb is_digit s end.
(* bytes.splitlines(): split on \n, \r, \r\n (bytes recognise only these) without keeping ends *)
Fixpoint splitlines_aux (s cur : list Z) : list (list Z) :=
  match s with
  | [] => match cur with [] => [] | _ => [rev cur] end
  | 13 :: 10 :: t => rev cur :: splitlines_aux t []
  | c :: t => if (c =? 10) || (c =? 13) then rev cur :: splitlines_aux t [] else splitlines_aux t (c :: cur)
  end.
Definition bytes_splitlines (s : list Z) : list (list Z) := splitlines_aux s [].
