(* Sequential pool discipline (C09, pool clause of C10): after every PooledClient call the number of
   checked-out clients is back to zero; a client whose call escaped with an exception is destroyed
   (closed, in neither list); ordinary use can never exhaust max_pool_size. *)
From Coq Require Import ZArith List Bool Lia.
From PM Require Import Lib.Py Model.World Model.Readers Model.Client Model.Pooled.
Import ListNotations.
Open Scope Z_scope.

Section Pool.
Variable P : Type.
Variable peer : P -> list Z -> P * list Z.
Notation PM := (PM P).

Definition ids (p : pstate) : list Z := map fst (p_free p).
(* the pool invariant between calls *)
Definition PInv (p : pstate) : Prop :=
  p_used p = [] /\ NoDup (ids p) /\ Forall (fun cid => cid < p_next p) (ids p).

Lemma as_client_frame {A} cid (m : M P A) p w :
  let '(r, p', w') := as_client P cid m p w in
  p_used p' = p_used p /\ p_free p' = p_free p /\ p_next p' = p_next p /\ p_clock p' = p_clock p.
Proof. unfold as_client. destruct (m _) as [r w']. cbn. auto. Qed.

Lemma after_remove_frame cid p w :
  let '(r, p', w') := after_remove P cid p w in
  p_used p' = p_used p /\ p_free p' = p_free p /\ p_next p' = p_next p.
Proof. unfold after_remove. pose proof (as_client_frame cid (client_close P) p w) as H. destruct (as_client _ _ _ _ _) as [[r p'] w']. tauto. Qed.

(* scanning the free list: used is untouched; the free list shrinks to a suffix; a client that is found is
   the element just before that suffix *)
Lemma scan_free_spec pc now : forall free p w,
  let '(r, p', w') := scan_free P pc now free p w in
  p_used p' = p_used p /\ p_next p' = p_next p /\
  match r with
  | Ok (Some cid) => exists pre last, free = pre ++ (cid, last) :: p_free p'
  | _ => exists pre, free = pre ++ p_free p' end.
Proof.
  induction free as [|[cid last] rest IH]; intros p w; cbn [scan_free].
  - cbn. repeat split; auto. exists []. reflexivity.
  - destruct (now - last <=? pc_idle pc).
    + cbn. repeat split; auto. exists [], last. reflexivity.
    + unfold pbind. cbn.
      pose proof (after_remove_frame cid (upd_p p (p_used p) rest) w) as Hf.
      destruct (after_remove P cid (upd_p p (p_used p) rest) w) as [[r1 p1] w1].
      destruct Hf as (Hu & Hfr & Hn). cbn in Hu, Hfr, Hn.
      destruct r1 as [u|e].
      * specialize (IH p1 w1). destruct (scan_free P pc now rest p1 w1) as [[r2 p2] w2].
        destruct IH as (H1 & H2 & H5).
        repeat split; try congruence.
        destruct r2 as [[c2|]|].
        -- destruct H5 as (pre & l2 & H5). exists ((cid, last) :: pre), l2. rewrite H5. reflexivity.
        -- destruct H5 as (pre & H5). exists ((cid, last) :: pre). rewrite H5. reflexivity.
        -- destruct H5 as (pre & H5). exists ((cid, last) :: pre). rewrite H5. reflexivity.
      * repeat split; try congruence. exists [(cid, last)]. rewrite Hfr. reflexivity.
Qed.

Lemma NoDup_app_remove (A : Type) (pre suf : list A) x : NoDup (pre ++ x :: suf) -> NoDup suf /\ ~ In x suf.
Proof.
  intros H. apply NoDup_remove in H. destruct H as [H1 H2]. split.
  - induction pre; [exact H1|]. inversion H1; subst. apply IHpre; auto. intros X. apply H2. right. exact X.
  - intros X. apply H2. apply in_or_app. right. exact X.
Qed.
Lemma NoDup_app_iff_snoc (l : list Z) x : NoDup l -> ~ In x l -> NoDup (l ++ [x]).
Proof.
  intros H N. pose proof (Add_app x l []) as A. rewrite app_nil_r in A. apply (NoDup_Add A). split; assumption.
Qed.
Lemma NoDup_suffix (A : Type) (pre suf : list A) : NoDup (pre ++ suf) -> NoDup suf.
Proof. induction pre; cbn; auto. intros H. inversion H; auto. Qed.

(* ObjectPool.get from the invariant: either it raises with nothing checked out, or exactly the returned
   client is checked out and it is in neither list's remainder *)
Lemma pool_get_spec pc p w : PInv p -> 1 <= pc_max pc ->
  let '(r, p', w') := pool_get P pc p w in
  NoDup (ids p') /\ Forall (fun c => c < p_next p') (ids p') /\
  match r with
  | Ok cid => p_used p' = [cid] /\ ~ In cid (ids p') /\ cid < p_next p'
  | Raise e => p_used p' = []
  end.
Proof.
  intros (Hu & Hnd & Hlt) Hmax. unfold pool_get, pbind.
  destruct (clock P p w) as [[rn p0] w0] eqn:Ec.
  assert (Hc : p_used p0 = p_used p /\ p_free p0 = p_free p /\ p_next p0 = p_next p /\ exists now, rn = Ok now).
  { unfold clock in Ec. destruct (p_clock p); inversion Ec; subst; cbn; repeat split; eauto. }
  destruct Hc as (C1 & C2 & C3 & now & ->).
  pose proof (scan_free_spec pc now (p_free p0) p0 w0) as Hs.
  destruct (scan_free P pc now (p_free p0) p0 w0) as [[r1 p1] w1].
  destruct Hs as (S1 & S2 & S3).
  destruct r1 as [[cid|]|e].
  - (* an idle client is reused *)
    destruct S3 as (pre & last & E). cbn.
    assert (Hids : ids p = map fst pre ++ cid :: ids p1).
    { unfold ids. rewrite <- C2, E, map_app. reflexivity. }
    rewrite Hids in Hnd, Hlt.
    destruct (NoDup_app_remove _ _ _ _ Hnd) as [N1 N2].
    apply Forall_app in Hlt. destruct Hlt as [_ Hlt]. inversion Hlt as [|? ? L1 L2]; subst.
    unfold ids in *. cbn. split; [exact N1|]. split; [rewrite S2, C3; exact L2|].
    split; [rewrite S1, C1, Hu; reflexivity|]. split; [exact N2|rewrite S2, C3; exact L1].
  - (* a new client *)
    destruct S3 as (pre & E). cbn.
    assert (Hids : ids p = map fst pre ++ ids p1) by (unfold ids; rewrite <- C2, E, map_app; reflexivity).
    rewrite Hids in Hnd, Hlt. apply NoDup_suffix in Hnd. apply Forall_app in Hlt. destruct Hlt as [_ Hlt].
    rewrite S1, C1, Hu. cbn [length Z.of_nat].
    destruct (Z.geb_spec 0 (pc_max pc)); [lia|]. cbn. unfold ids in *. cbn.
    repeat split; auto.
    + rewrite S2, C3. eapply Forall_impl; [|exact Hlt]. intros a Ha. cbn in Ha. lia.
    + intros X. rewrite Forall_forall in Hlt. specialize (Hlt _ X). rewrite S2, C3 in *. lia.
    + lia.
  - (* closing an expired client was interrupted *)
    destruct S3 as (pre & E). cbn.
    assert (Hids : ids p = map fst pre ++ ids p1) by (unfold ids; rewrite <- C2, E, map_app; reflexivity).
    rewrite Hids in Hnd, Hlt. apply NoDup_suffix in Hnd. apply Forall_app in Hlt. destruct Hlt as [_ Hlt].
    repeat split; auto; try (rewrite S2, C3; exact Hlt); try (rewrite S1, C1; exact Hu).
Qed.

Lemma never_full p pc : PInv p -> 1 <= pc_max pc -> (Z.of_nat (length (p_used p)) >=? pc_max pc) = false.
Proof. intros (H & _) Hm. rewrite H. cbn [length Z.of_nat]. destruct (Z.geb_spec 0 (pc_max pc)); [lia|reflexivity]. Qed.

Lemma remove_first_single cid : remove_first_z [cid] cid = Some [].
Proof. cbn. rewrite Z.eqb_refl. reflexivity. Qed.

(* the state while exactly client cid is checked out *)
Definition Held (cid : Z) (p : pstate) : Prop :=
  p_used p = [cid] /\ NoDup (ids p) /\ Forall (fun c => c < p_next p) (ids p) /\ ~ In cid (ids p) /\ cid < p_next p.

Lemma pool_release_spec cid p w : Held cid p ->
  let '(r, p', w') := pool_release P cid p w in
  r = Ok tt /\ PInv p' /\ exists now, p_free p' = p_free p ++ [(cid, now)].
Proof.
  intros (Hu & Hnd & Hlt & Hni & Hc). unfold pool_release. rewrite Hu, remove_first_single.
  unfold clock. cbn. destruct (p_clock p) as [|t r]; cbn.
  - split; [reflexivity|]. split; [|exists 0; reflexivity]. unfold PInv, ids. cbn. rewrite map_app. cbn.
    repeat split; auto.
    + apply NoDup_app_iff_snoc; auto.
    + apply Forall_app. split; [exact Hlt|constructor; [exact Hc|constructor]].
  - split; [reflexivity|]. split; [|exists t; reflexivity]. unfold PInv, ids. cbn. rewrite map_app. cbn.
    repeat split; auto.
    + apply NoDup_app_iff_snoc; auto.
    + apply Forall_app. split; [exact Hlt|constructor; [exact Hc|constructor]].
Qed.

(* the discarded state: nothing checked out, and client cid is in neither list *)
Definition Gone (cid : Z) (p : pstate) : Prop := PInv p /\ ~ In cid (ids p).

Lemma pool_destroy_spec cid p w : Held cid p ->
  let '(r, p', w') := pool_destroy P cid p w in Gone cid p'.
Proof.
  intros (Hu & Hnd & Hlt & Hni & Hc). unfold pool_destroy. rewrite Hu, remove_first_single.
  pose proof (after_remove_frame cid (upd_p p [] (p_free p)) w) as Hf.
  destruct (after_remove P cid (upd_p p [] (p_free p)) w) as [[r p'] w'].
  destruct Hf as (F1 & F2 & F3). cbn in F1, F2, F3. unfold Gone, PInv, ids. rewrite F1, F2, F3. repeat split; auto.
Qed.
Lemma pool_destroy_absent cid p w : ~ In cid (p_used p) -> pool_destroy P cid p w = (Ok tt, p, w).
Proof.
  intros H. unfold pool_destroy.
  assert (E : remove_first_z (p_used p) cid = None).
  { induction (p_used p) as [|y t IH]; [reflexivity|]. cbn. destruct (Z.eqb_spec y cid) as [->|N]; [exfalso; apply H; left; reflexivity|].
    rewrite IH; [reflexivity|]. intros X. apply H. right. exact X. }
  rewrite E. reflexivity.
Qed.
Lemma pool_release_absent cid p w : ~ In cid (p_used p) -> pool_release P cid p w = (Ok tt, p, w).
Proof.
  intros H. unfold pool_release.
  assert (E : remove_first_z (p_used p) cid = None).
  { induction (p_used p) as [|y t IH]; [reflexivity|]. cbn. destruct (Z.eqb_spec y cid) as [->|N]; [exfalso; apply H; left; reflexivity|].
    rewrite IH; [reflexivity|]. intros X. apply H. right. exact X. }
  rewrite E. reflexivity.
Qed.

(* a body that leaves the pool's lists alone (every PooledClient method except quit) *)
Definition framed {A} (body : PM A) : Prop :=
  forall p w, let '(r, p', w') := body p w in p_used p' = p_used p /\ p_free p' = p_free p /\ p_next p' = p_next p.

Lemma framed_as_client {A} cid (m : M P A) : framed (as_client P cid m).
Proof. intros p w. pose proof (as_client_frame cid m p w) as H. destruct (as_client _ _ _ _ _) as [[r p'] w']. tauto. Qed.
Lemma framed_ptry {A} (m : PM A) c (h : exn -> PM A) : framed m -> (forall e, framed (h e)) -> framed (ptry P m c h).
Proof.
  intros Hm Hh p w. unfold ptry. specialize (Hm p w). destruct (m p w) as [[r p1] w1]. destruct r as [a|e]; [exact Hm|].
  destruct (exn_isa e c); [|exact Hm]. specialize (Hh e p1 w1). destruct (h e p1 w1) as [[r2 p2] w2].
  destruct Hm as (A1 & A2 & A3), Hh as (B1 & B2 & B3). repeat split; congruence.
Qed.
Lemma framed_pret {A} (a : A) : framed (pret P a). Proof. intros p w. cbn. auto. Qed.
Lemma framed_pthrow {A} e : framed (@pthrow P A e). Proof. intros p w. cbn. auto. Qed.

Lemma Held_frame cid p p' : Held cid p -> p_used p' = p_used p -> p_free p' = p_free p -> p_next p' = p_next p -> Held cid p'.
Proof. unfold Held, ids. intros H A B C. rewrite A, B, C. exact H. Qed.

(* with self.client_pool.get_and_release(destroy_on_fail=True) as client: <framed body> *)
Theorem with_client_spec {A} pc (body : Z -> PM A) p w :
  PInv p -> 1 <= pc_max pc -> (forall cid, framed (body cid)) ->
  let '(r, p', w') := with_client P pc body p w in
  PInv p' \/ (exists e, r = Raise e /\ exn_isa e (pc_h_pool pc) = false).
Proof.
  intros Hinv Hmax Hb. unfold with_client, pbind.
  pose proof (pool_get_spec pc p w Hinv Hmax) as Hg.
  destruct (pool_get P pc p w) as [[rg p1] w1]. destruct Hg as (G1 & G2 & G3).
  destruct rg as [cid|e]; [|left; unfold PInv; auto].
  destruct G3 as (U & Ni & Lt).
  assert (Hh : Held cid p1) by (unfold Held; auto).
  unfold ptry. pose proof (Hb cid p1 w1) as Hf.
  destruct (body cid p1 w1) as [[rb p2] w2]. destruct Hf as (F1 & F2 & F3).
  pose proof (Held_frame cid p1 p2 Hh F1 F2 F3) as Hh2.
  destruct rb as [a|e].
  - pose proof (pool_release_spec cid p2 w2 Hh2) as Hr.
    destruct (pool_release P cid p2 w2) as [[rr p3] w3]. destruct Hr as (-> & I3 & _). left. exact I3.
  - destruct (exn_isa e (pc_h_pool pc)) eqn:Eh.
    + pose proof (pool_destroy_spec cid p2 w2 Hh2) as Hd.
      destruct (pool_destroy P cid p2 w2) as [[rd p3] w3]. destruct rd; left; exact (proj1 Hd).
    + right. exists e. auto.
Qed.

(* ... and the client whose call escaped with an exception is discarded: closed, in neither list *)
Theorem with_client_discards {A} pc (body : Z -> PM A) p w cid p1 w1 e p2 w2 :
  PInv p -> 1 <= pc_max pc -> framed (body cid) ->
  pool_get P pc p w = (Ok cid, p1, w1) -> body cid p1 w1 = (Raise e, p2, w2) -> exn_isa e (pc_h_pool pc) = true ->
  let '(r, p', w') := with_client P pc body p w in Gone cid p'.
Proof.
  intros Hinv Hmax Hb Eg Eb Eh. unfold with_client, pbind.
  pose proof (pool_get_spec pc p w Hinv Hmax) as Hg. rewrite Eg in *. destruct Hg as (G1 & G2 & (U & Ni & Lt)).
  assert (Hh : Held cid p1) by (unfold Held; auto).
  unfold ptry. pose proof (Hb p1 w1) as Hf. rewrite Eb in *. destruct Hf as (F1 & F2 & F3).
  pose proof (Held_frame cid p1 p2 Hh F1 F2 F3) as Hh2. rewrite Eh.
  pose proof (pool_destroy_spec cid p2 w2 Hh2) as Hd.
  destruct (pool_destroy P cid p2 w2) as [[rd p3] w3]. destruct rd; exact Hd.
Qed.

(* PooledClient methods *)
Theorem pooled_op_spec c pc o p w : PInv p -> 1 <= pc_max pc ->
  let '(r, p', w') := pooled_op P peer c pc o p w in
  PInv p' \/ (exists e, r = Raise e /\ exn_isa e (pc_h_pool pc) = false).
Proof.
  intros Hinv Hmax.
  assert (Hgen : forall body : Z -> PM dyn, (forall cid, framed (body cid)) ->
            let '(r, p', w') := with_client P pc body p w in
            PInv p' \/ (exists e, r = Raise e /\ exn_isa e (pc_h_pool pc) = false))
    by (intros body Hb; apply (with_client_spec pc body p w Hinv Hmax Hb)).
  assert (Hmiss : forall o', (forall cid, framed (match miss_value o' with
        | Some dflt => ptry P (as_client P cid (run_op P peer (inner_cfg c) o')) Exception_
                         (fun e => if c_ignore_exc c then pret P dflt else pthrow P e)
        | None => as_client P cid (run_op P peer (inner_cfg c) o') end))).
  { intros o' cid. destruct (miss_value o'); [|apply framed_as_client].
    apply framed_ptry; [apply framed_as_client|]. intros e. destruct (c_ignore_exc c); [apply framed_pret|apply framed_pthrow]. }
  destruct o; cbn [pooled_op]; try (apply Hgen; apply Hmiss).
  - (* quit: the client is destroyed inside the with block *)
    unfold with_client, pbind.
    pose proof (pool_get_spec pc p w Hinv Hmax) as Hg.
    destruct (pool_get P pc p w) as [[rg p1] w1]. destruct Hg as (G1 & G2 & G3).
    destruct rg as [cid|e]; [|left; unfold PInv; auto].
    destruct G3 as (U & Ni & Lt). assert (Hh : Held cid p1) by (unfold Held; auto).
    unfold ptry, pfinally.
    pose proof (as_client_frame cid (run_op P peer (inner_cfg c) OpQuit) p1 w1) as Hf.
    destruct (as_client P cid (run_op P peer (inner_cfg c) OpQuit) p1 w1) as [[rb p2] w2].
    destruct Hf as (F1 & F2 & F3 & _).
    pose proof (Held_frame cid p1 p2 Hh F1 F2 F3) as Hh2.
    pose proof (pool_destroy_spec cid p2 w2 Hh2) as Hd.
    destruct (pool_destroy P cid p2 w2) as [[rd p3] w3]. destruct Hd as [I3 N3].
    assert (Hab : ~ In cid (p_used p3)) by (destruct I3 as (U3 & _); rewrite U3; auto).
    destruct rb as [a|e]; destruct rd as [u|e2].
    + rewrite (pool_release_absent cid p3 w3 Hab). left. exact I3.
    + destruct (exn_isa e2 (pc_h_pool pc)); [rewrite (pool_destroy_absent cid p3 w3 Hab)|]; left; exact I3.
    + destruct (exn_isa e (pc_h_pool pc)); [rewrite (pool_destroy_absent cid p3 w3 Hab)|]; left; exact I3.
    + destruct (exn_isa e2 (pc_h_pool pc)); [rewrite (pool_destroy_absent cid p3 w3 Hab)|]; left; exact I3.
  - (* close = pool.clear() *)
    assert (G : forall l p0 w0, PInv p0 ->
      let '(r, p', w') := (fix go (l : list Z) (p : pstate) (w : world P) : exc dyn * pstate * world P :=
           match l with
           | [] => (Ok DNone, p, w)
           | cid :: t => match after_remove P cid p w with
                         | (Ok _, p', w') => go t p' w'
                         | (Raise e, p', w') => (Raise e, p', w') end
           end) l p0 w0 in PInv p').
    { induction l as [|cid t IH]; intros p0 w0 H0; [exact H0|].
      pose proof (after_remove_frame cid p0 w0) as Hf.
      destruct (after_remove P cid p0 w0) as [[r1 p1] w1]. destruct Hf as (F1 & F2 & F3).
      assert (H1 : PInv p1) by (unfold PInv, ids in *; rewrite F1, F2, F3; exact H0).
      destruct r1; [apply IH, H1|exact H1]. }
    assert (H0 : PInv (upd_p p [] [])) by (unfold PInv, ids; cbn; repeat split; constructor).
    specialize (G (p_used p ++ map fst (p_free p)) (upd_p p [] []) w H0).
    destruct ((fix go (l : list Z) (p : pstate) (w : world P) : exc dyn * pstate * world P := _) _ _ _) as [[r p'] w'].
    left. exact G.
Qed.
End Pool.
