(* C13 — what can escape a key-addressed call, over whole histories: only the failing server's own (OSError-class)
   error or MemcacheError "all servers down", and nothing at all under ignore_exc - never a KeyError / ValueError of the
   failover bookkeeping.  Uses the invariant of C13Windows.v for every server at once. *)
From Coq Require Import ZArith List Bool Lia.
From PM Require Import Lib.Py Spec.LegalKey Model.Hash Proofs.C12Proof Proofs.C13Proof Proofs.C13Windows.
Import ListNotations.
Open Scope Z_scope.

Section Escapes.
Variable route : list server -> dyn -> exc (option server).
Variable c : hcfg.
Hypothesis route_in : forall nodes k sv, route nodes k = Ok (Some sv) -> sv_mem nodes sv = true.
Hypothesis route_total : forall nodes k, exists r, route nodes k = Ok r.
Notation ra := (hc_retry_attempts c).
Notation rt := (hc_retry_timeout c).
Notation dt := (hc_dead_timeout c).
Hypothesis ra_nonneg : 0 <= ra.
Hypothesis rt_lt_dt : rt < dt.

Variable nodes0 : list server.          (* the rotation the client started with *)
Notation m0 sv := (sv_mem nodes0 sv).
Definition AllInv (s : hstate) : Prop := forall sv, Inv c sv (m0 sv) s.
(* the outcomes the property allows *)
Definition Res {A} (r : exc A) : Prop :=
  match r with Ok _ => True | Raise e => hc_ignore_exc c = false /\ (exn_isa e OSError = true \/ e = MemcacheError) end.

Lemma mark_failed_res sv s : G s -> (sv_get (h_failed s) sv = None -> ra <= 0 -> sv_mem (h_nodes s) sv = true) ->
  fst (mark_failed c sv s) = Ok tt.
Proof.
  intros Gs Hm. unfold mark_failed. destruct (sv_get (h_failed s) sv) as [[att ft]|] eqn:Er; unfold hbind.
  - destruct (now_sp s Gs) as (t & s1 & En & _). rewrite En. reflexivity.
  - destruct (now_sp s Gs) as (t & s1 & En & G1 & N1 & N2 & N3 & N4 & N5 & N6). rewrite En.
    destruct (Z.gtb_spec ra 0) as [Hp|Hz]; [reflexivity|].
    set (s2 := upd s1 (h_nodes s1) (h_clients s1) (sv_set (h_failed s1) sv (0, t)) (h_dead s1) (h_last_check s1)).
    assert (G2 : G s2) by (destruct G1 as [A1 A2 A3 A4 A5]; apply G_upd; [constructor; assumption|exact A1|apply sv_set_nodup, A2|exact A3]).
    assert (R2 : sv_get (h_failed s2) sv = Some (0, t)) by apply sv_get_set_same.
    assert (M2 : sv_mem (h_nodes s2) sv = true) by (cbn; rewrite N1; apply Hm; [reflexivity|exact Hz]).
    destruct (remove_sv c sv s2 (0, t) G2 R2 M2 ltac:(intros; lia)) as (td & s3 & E3 & _).
    change ((fun s0 : hstate => (Ok tt, upd s0 (h_nodes s0) (h_clients s0) (sv_set (h_failed s0) sv (0, t)) (h_dead s0) (h_last_check s0))) s1) with (Ok tt, s2).
    cbn iota beta. rewrite E3. reflexivity.
Qed.
Lemma fst_then {A} (m : HM unit) (d : A) e s : fst (m s) = Ok tt -> exn_isa e OSError = true ->
  Res (fst ((m ;;;; if hc_ignore_exc c then hret d else hthrow e) s)).
Proof.
  intros H He. unfold hbind. destruct (m s) as [[u|x] s']; cbn [fst] in H; [|discriminate].
  destruct (hc_ignore_exc c) eqn:E; cbn; auto.
Qed.

(* a call on a server in rotation *)
Lemma safely_res sv m0 m a d s : Inv c sv m0 s -> sv_mem (h_nodes s) sv = true -> Res (fst (safely_run c sv (icall sv m a) d s)).
Proof.
  intros (Gs & Lg & Ls & Cs) Hm. unfold L, Lv in Ls. rewrite Hm in Ls. destruct Ls as (Hd & Hl & Ls).
  unfold safely_run, htry. unfold hbind at 1.
  destruct (sv_get (h_failed s) sv) as [[att ft]|] eqn:Er; destruct (sv_get (h_dead s) sv) as [td|] eqn:Ed;
    try (destruct Ls as (_ & _ & _ & _ & _ & X & _); discriminate X); try (destruct Ls as (_ & _ & X); discriminate X).
  - destruct Ls as ((C & O & EF & Hs & Hatt & Hra & Hlen & Hft & HftT & Hgap) & Hlong).
    destruct (Z.ltb_spec att ra) as [Hlt|Hge].
    + unfold hbind at 1. destruct (now_sp s Gs) as (t & s1 & En & G1 & N1 & N2 & N3 & N4 & N5 & N6). rewrite En.
      destruct (Z.gtb_spec (t - ft) rt) as [Hw|Hw]; [|cbn; exact I].
      unfold hbind at 1. destruct (icall_sp sv m a s1 G1) as (o & s2 & Ei & Ho & G2 & I1 & I2 & I3 & I4 & I5). rewrite Ei.
      destruct o as [v|e]; [cbn; exact I|].
      cbn [fst snd]. cbn [okout] in Ho. rewrite dispatch_os by exact Ho. apply fst_then; [|exact Ho].
      apply mark_failed_res; [exact G2|]. intros X. rewrite I2, N2, Er in X. discriminate.
    + assert (Hev : 0 < ra -> (2 <= length (cur_run sv (h_log s)))%nat) by (intros _; lia).
      destruct (remove_sv c sv s (att, ft) Gs Er Hm Hev) as (td & s1 & E1 & T1 & G1 & R1 & D1 & M1 & C1 & L1 & T1' & K1).
      unfold hbind at 1. unfold hbind at 1. rewrite E1. cbn [hret].
      destruct (icall_sp sv m a s1 G1) as (o & s2 & Ei & Ho & G2 & I1 & I2 & I3 & I4 & I5). rewrite Ei.
      destruct o as [v|e]; [cbn; exact I|].
      cbn [fst snd]. cbn [okout] in Ho. cbn [dispatch_handlers]. rewrite Ho.
      assert (Hmk : fst (mark_failed c sv s2) = Ok tt) by (apply mark_failed_res; [exact G2|intros _ X; lia]).
      destruct (mark_failed c sv s2) as [[u|x] s3]; cbn [fst] in Hmk; [|discriminate].
      destruct (hc_ignore_exc c) eqn:E; cbn; auto.
  - cbn [snd fst]. destruct (icall_sp sv m a s Gs) as (o & s1 & Ei & Ho & G1 & I1 & I2 & I3 & I4 & I5). rewrite Ei.
    destruct o as [v|e]; [cbn; exact I|].
    cbn [fst snd]. cbn [okout] in Ho. rewrite dispatch_os by exact Ho. apply fst_then; [|exact Ho].
    apply mark_failed_res; [exact G1|]. intros _ _. rewrite I1. exact Hm.
Qed.
Lemma same_exc_res {A B} (r1 : exc A) (r2 : exc B) : same_exc r1 r2 -> Res r2 -> Res r1.
Proof. destruct r1, r2; cbn; auto; try contradiction. intros ->. auto. Qed.
Lemma set_many_res sv m0 values args s : Inv c sv m0 s -> sv_mem (h_nodes s) sv = true -> Res (fst (safely_run_set_many c sv values args s)).
Proof.
  intros Hi Hm. destruct (set_many_both c sv values args (DList []) s (g_out s (proj1 Hi))) as [_ H].
  apply (same_exc_res _ _ H). apply (safely_res sv m0); assumption.
Qed.

(* routing with a valid key: a node in rotation, or "all servers down" *)
Definition valid_key (key : dyn) : Prop := key_ok c (fst (split_key key)) = true.
Lemma revive_go_ok t : forall l s, fst (revive_go t l s) = Ok tt.
Proof. induction l as [|x r IH]; intros s; [reflexivity|]. cbn [revive_go]. unfold hbind, add_server, hlog. cbn [fst snd]. apply IH. Qed.
Lemma retry_dead_ok s : fst (retry_dead c s) = Ok tt.
Proof.
  rewrite retry_dead_eq. unfold hbind. destruct (now_sp_nodes s) as (t & s1 & En & _). rewrite En.
  destruct (t - h_last_check s1 >? dt); [apply revive_go_ok|reflexivity].
Qed.
Lemma get_client_res key s : valid_key key -> Res (fst (get_client route c key s)).
Proof.
  unfold valid_key, split_key, key_ok, get_client. intros Hv.
  destruct (match key with DTuple [a; b] => (a, b) | _ => (key, key) end) as [server_key k]. cbn [fst] in Hv.
  unfold hbind at 1.
  assert (Hk : (match server_key with
            | DStr _ | DBytes _ => match key_spec server_key (hc_unicode c) (hc_prefix c) with Ok _ => Ok tt | Raise e => Raise e end
            | _ => Raise TypeError end) = Ok tt).
  { destruct server_key; try discriminate; destruct (key_spec _ (hc_unicode c) (hc_prefix c)); try discriminate; reflexivity. }
  rewrite Hk. unfold hbind.
  assert (H2 : fst (match h_dead s with [] => (Ok tt, s) | _ :: _ => retry_dead c s end) = Ok tt) by (destruct (h_dead s); [reflexivity|apply retry_dead_ok]).
  destruct (match h_dead s with [] => (Ok tt, s) | _ :: _ => retry_dead c s end) as [[u2|e2] s2]; cbn [fst] in H2; [|discriminate].
  destruct (route_total (h_nodes s2) server_key) as (r & Er). rewrite Er. destruct r as [sv'|]; [cbn; exact I|].
  destruct (hc_ignore_exc c) eqn:E; cbn; auto.
Qed.

Lemma AllInv_step {A} (m : HM A) s : (forall sv, Inv c sv (m0 sv) s -> Inv c sv (m0 sv) (snd (m s))) -> AllInv s -> AllInv (snd (m s)).
Proof. intros H Ha sv. apply H, Ha. Qed.

Lemma run_cmd_res meth key d args s : AllInv s -> valid_key key -> Res (fst (run_cmd route c meth key d args s)).
Proof.
  intros Ha Hv. unfold run_cmd. unfold hbind at 1. pose proof (get_client_res key s Hv) as R1.
  destruct (get_client route c key s) as [[[osv k]|e] s1] eqn:Eg; cbn [fst] in *; [|exact R1].
  destruct osv as [sv'|]; [|cbn; exact I].
  destruct (get_client_inv route c route_in sv' (m0 sv') key s (Ha sv')) as [I1 Hm]. rewrite Eg in I1, Hm. cbn [snd] in I1.
  apply (safely_res sv' (m0 sv')); [exact I1|apply (Hm sv' k s1 eq_refl)].
Qed.

(* one inner call, seen from any server sv *)
Lemma safely_any sv sv' m a d s : Inv c sv (m0 sv) s -> sv_mem (h_nodes s) sv' = true ->
  let s1 := snd (safely_run c sv' (icall sv' m a) d s) in
  Inv c sv (m0 sv) s1 /\ (list_eqb sv' sv = false -> sv_mem (h_nodes s1) sv = sv_mem (h_nodes s) sv).
Proof.
  intros Hi Hm. cbn zeta. destruct (list_eqb sv' sv) eqn:E.
  - apply list_eqb_eq in E. subst sv'. split; [apply (safely_sv c ra_nonneg rt_lt_dt); assumption|intros X; discriminate].
  - pose proof (FR_safely c sv sv' (icall sv' m a) d E (FR_icall c sv sv' m a E) s) as F1.
    split; [apply (Inv_frame c sv (m0 sv) s); assumption|]. intros _. destruct (F1 (proj1 Hi)) as [_ (_ & _ & V3 & _)]. exact V3.
Qed.
Lemma set_many_any sv sv' values args s : Inv c sv (m0 sv) s -> sv_mem (h_nodes s) sv' = true ->
  let s1 := snd (safely_run_set_many c sv' values args s) in
  Inv c sv (m0 sv) s1 /\ (list_eqb sv' sv = false -> sv_mem (h_nodes s1) sv = sv_mem (h_nodes s) sv).
Proof.
  intros Hi Hm. cbn zeta. rewrite (set_many_state c sv' values args (DList []) s (g_out s (proj1 Hi))).
  apply (safely_any sv sv' 1 (DDict values :: args) (DList []) s Hi Hm).
Qed.

Definition AllRouted {V} (b : list (server * V)) (s : hstate) : Prop := forall sv, Routed sv b s.
Lemma run_get_res gets args : forall bs acc s, AllInv s -> NoDup (map fst bs) -> AllRouted bs s ->
  Res (fst (run_get c gets args bs acc s)).
Proof.
  induction bs as [|[sv' ks] t IH]; intros acc s Ha Hn Hr; [cbn; exact I|]. cbn [run_get]. unfold hbind.
  cbn [map fst] in Hn. inversion Hn as [|? ? Hnot Hn']; subst.
  assert (Hm : sv_mem (h_nodes s) sv' = true) by (apply (Hr sv'); left; reflexivity).
  pose proof (safely_res sv' (m0 sv') (if gets then 3 else 2) (DList ks :: args) (DDict []) s (Ha sv') Hm) as R1.
  pose proof (fun sv => safely_any sv sv' (if gets then 3 else 2) (DList ks :: args) (DDict []) s (Ha sv) Hm) as St. cbn zeta in St.
  destruct (safely_run c sv' (icall sv' (if gets then 3 else 2) (DList ks :: args)) (DDict []) s) as [[res|e] s1]; cbn [fst snd] in *; [|exact R1].
  apply IH; [intros sv; apply (St sv)|exact Hn'|].
  intros sv Hin. destruct (list_eqb sv' sv) eqn:E; [apply list_eqb_eq in E; subst; contradiction|].
  rewrite (proj2 (St sv) E). apply (Hr sv). right. exact Hin.
Qed.
Lemma run_set_res args : forall bs failed s, AllInv s -> NoDup (map fst bs) -> AllRouted bs s ->
  Res (fst (run_set c args bs failed s)).
Proof.
  induction bs as [|[sv' vals] t IH]; intros failed s Ha Hn Hr; [cbn; exact I|]. cbn [run_set]. unfold hbind.
  cbn [map fst] in Hn. inversion Hn as [|? ? Hnot Hn']; subst.
  assert (Hm : sv_mem (h_nodes s) sv' = true) by (apply (Hr sv'); left; reflexivity).
  pose proof (set_many_res sv' (m0 sv') vals args s (Ha sv') Hm) as R1.
  pose proof (fun sv => set_many_any sv sv' vals args s (Ha sv) Hm) as St. cbn zeta in St.
  destruct (safely_run_set_many c sv' vals args s) as [[res|e] s1]; cbn [fst snd] in *; [|exact R1].
  apply IH; [intros sv; apply (St sv)|exact Hn'|].
  intros sv Hin. destruct (list_eqb sv' sv) eqn:E; [apply list_eqb_eq in E; subst; contradiction|].
  rewrite (proj2 (St sv) E). apply (Hr sv). right. exact Hin.
Qed.

Lemma collect_get_res : forall ks b s, Forall valid_key ks -> Res (fst (collect_get route c ks b s)).
Proof.
  induction ks as [|key t IH]; intros b s Hv; [cbn; exact I|]. cbn [collect_get]. unfold hbind.
  pose proof (get_client_res key s (Forall_inv Hv)) as R1.
  destruct (get_client route c key s) as [[[osv k]|e] s1]; cbn [fst] in *; [|exact R1].
  destruct osv; apply IH, (Forall_inv_tail Hv).
Qed.
Lemma get_many_res gets keys args s : AllInv s -> Forall valid_key keys -> Res (fst (get_many route c gets keys args s)).
Proof.
  intros Ha Hv. unfold get_many. unfold hbind at 1. pose proof (collect_get_res keys [] s Hv) as R1.
  pose proof (fun sv => collect_get_inv route c route_in sv (m0 sv) keys [] s (Ha sv) (NoDup_nil _) (fun X => match X with end)) as Hc.
  destruct (collect_get route c keys [] s) as [[b|e] s1]; cbn [fst snd] in *; [|exact R1].
  unfold hbind.
  assert (R2 : Res (fst (run_get c gets args b [] s1))).
  { apply run_get_res; [intros sv; apply (Hc sv)|apply (proj2 (Hc []) b eq_refl)|intros sv; apply (proj2 (Hc sv) b eq_refl)]. }
  destruct (run_get c gets args b [] s1) as [[r|e] s2]; cbn [fst] in *; [exact I|exact R2].
Qed.

Definition valid_value (v : dyn) : Prop := match v with DTuple [key; _] => valid_key key | _ => True end.
Lemma collect_set_res : forall vs b failed s, Forall valid_value vs -> Res (fst (collect_set route c vs b failed s)).
Proof.
  induction vs as [|v t IH]; intros b failed s Hv; [cbn; exact I|]. cbn [collect_set].
  pose proof (IH b failed s (Forall_inv_tail Hv)) as Skip. pose proof (Forall_inv Hv) as Hv1.
  destruct v as [| | | | | |l| |]; try exact Skip.
  destruct l as [|key [|value [|x l']]]; try exact Skip. cbn [valid_value] in Hv1.
  unfold hbind. pose proof (get_client_res key s Hv1) as R1.
  destruct (get_client route c key s) as [[[osv k]|e] s1]; cbn [fst] in *; [|exact R1].
  destruct osv; apply IH, (Forall_inv_tail Hv).
Qed.
Lemma set_many_hop_res values args s : AllInv s -> Forall valid_value values -> Res (fst (set_many route c values args s)).
Proof.
  intros Ha Hv. unfold set_many. unfold hbind at 1. pose proof (collect_set_res values [] [] s Hv) as R1.
  pose proof (fun sv => collect_set_inv route c route_in sv (m0 sv) values [] [] s (Ha sv) (NoDup_nil _) (fun X => match X with end)) as Hc.
  destruct (collect_set route c values [] [] s) as [[[b f0]|e] s1]; cbn [fst snd] in *; [|exact R1].
  unfold hbind.
  assert (R2 : Res (fst (run_set c args b f0 s1))).
  { apply run_set_res; [intros sv; apply (Hc sv)|apply (proj2 (Hc []) b f0 eq_refl)|intros sv; apply (proj2 (Hc sv) b f0 eq_refl)]. }
  destruct (run_set c args b f0 s1) as [[r|e] s2]; cbn [fst] in *; [exact I|exact R2].
Qed.
Lemma delete_many_res args : forall keys s, AllInv s -> Forall valid_key keys -> Res (fst (delete_many route c keys args s)).
Proof.
  unfold delete_many. induction keys as [|k t IH]; intros s Ha Hv; [cbn; exact I|]. unfold hbind.
  pose proof (run_cmd_res 4 k (DBool false) args s Ha (Forall_inv Hv)) as R1.
  pose proof (fun sv => run_hop_inv route c route_in ra_nonneg rt_lt_dt sv (m0 sv) (HCmd 4 k (DBool false) args) s (Ha sv)) as St. cbn [run_hop] in St.
  destruct (run_cmd route c 4 k (DBool false) args s) as [[r|e] s1]; cbn [fst snd] in *; [|exact R1].
  apply IH; [exact St|apply (Forall_inv_tail Hv)].
Qed.

Definition valid_op (o : hop) : Prop :=
  match o with
  | HCmd _ key _ _ => valid_key key
  | HSetMany values _ => Forall valid_value values
  | HGetMany _ keys => Forall valid_key keys
  | HDeleteMany keys _ => Forall valid_key keys
  | HTick => True
  end.
Lemma run_hop_res o s : AllInv s -> valid_op o -> Res (fst (run_hop route c o s)).
Proof.
  destruct o; cbn [valid_op run_hop]; intros Ha Hv.
  - apply run_cmd_res; assumption.
  - apply set_many_hop_res; assumption.
  - apply get_many_res; assumption.
  - apply delete_many_res; assumption.
  - unfold hbind. destruct (now_sp_nodes s) as (t & s1 & En & _). rewrite En. cbn. exact I.
Qed.
Theorem escapes_hold : forall ops s, AllInv s -> Forall valid_op ops ->
  exists rs, fst (run_hops route c ops s) = Ok rs /\ Forall Res rs.
Proof.
  induction ops as [|o t IH]; intros s Ha Hv; [exists []; split; [reflexivity|constructor]|]. cbn [run_hops].
  pose proof (run_hop_res o s Ha (Forall_inv Hv)) as R1.
  pose proof (fun sv => run_hop_inv route c route_in ra_nonneg rt_lt_dt sv (m0 sv) o s (Ha sv)) as St.
  destruct (run_hop route c o s) as [r s1]; cbn [fst snd] in *.
  destruct (IH s1 St (Forall_inv_tail Hv)) as (rs & E & Hrs).
  destruct (run_hops route c t s1) as [[rs'|e] s2]; cbn [fst] in E; [|discriminate]. inversion E; subst rs'.
  exists (r :: rs). split; [reflexivity|constructor; assumption].
Qed.
(* every state of a history satisfies the invariant of every server *)
Theorem all_inv_hold : forall ops s, AllInv s -> AllInv (snd (run_hops route c ops s)).
Proof.
  induction ops as [|o t IH]; intros s Ha; [exact Ha|]. cbn [run_hops].
  pose proof (fun sv => run_hop_inv route c route_in ra_nonneg rt_lt_dt sv (m0 sv) o s (Ha sv)) as St.
  destruct (run_hop route c o s) as [r s1]. cbn [snd] in St. specialize (IH s1 St).
  destruct (run_hops route c t s1) as [[rs|e] s2]; exact IH.
Qed.
(* placement returns to the original: once no server is evicted any more, the rotation has exactly the servers it started with *)
Theorem rotation_restored s : AllInv s -> h_dead s = [] -> forall sv, sv_mem (h_nodes s) sv = sv_mem nodes0 sv.
Proof. intros Ha Hd sv. destruct (Ha sv) as (_ & _ & _ & _ & [M1 _]). apply M1. rewrite Hd. reflexivity. Qed.
End Escapes.

Lemma init_all c servers t0 times outs : mono t0 times -> Forall okout outs ->
  AllInv c (h_nodes (init_hstate servers t0 times outs)) (init_hstate servers t0 times outs).
Proof. intros Hm Ho sv. apply init_inv; [exact Hm|exact Ho|reflexivity]. Qed.

