(* C10 — asynchronous interruption: when the cleanup handlers of the exchange paths catch BaseException,
   EVERY exception (KeyboardInterrupt, SystemExit, a greenlet timeout, ... raised inside any socket call)
   that escapes the socket phase of a call leaves self.sock = None, so the next call starts on a fresh
   connection with nothing unread on it. No assumption on the script or on the recv choices. *)
From Coq Require Import ZArith List Bool Lia.
From PM Require Import Lib.Py Spec.LegalKey Model.Lits Model.World Model.Readers Model.Serde Model.Client Proofs.Hoare.
Import ListNotations.
Open Scope Z_scope.

Section C10.
Variable P : Type.
Variable peer : P -> list Z -> P * list Z.
Variable c : cfg.
Notation world := (world P).

Definition SN (w : world) : Prop := w_sock w = None.
Definition TT (w : world) : Prop := True.
(* keeps self.sock = None on every exit *)
Definition sn {A} (m : M P A) : Prop := hoare SN m (fun _ => SN) (fun _ => SN).
(* from any state: whatever is raised leaves self.sock = None *)
Definition closes {A} (m : M P A) : Prop := hoare TT m (fun _ => TT) (fun _ => SN).

Lemma sn_bind {A B} (m : M P A) (k : A -> M P B) : sn m -> (forall a, sn (k a)) -> sn (mbind m k).
Proof. intros H1 H2. eapply h_bind; [apply H1|intros a; apply H2]. Qed.
Lemma sn_ret {A} (a : A) : sn (ret a). Proof. apply h_ret'. auto. Qed.
Lemma sn_throw {A} e : sn (@throw P A e). Proof. apply h_throw'. auto. Qed.
Lemma sn_try {A} (m : M P A) cl h : sn m -> (forall e, sn (h e)) -> sn (mtry m cl h).
Proof. intros H1 H2. eapply h_try with (E1 := fun _ => SN); [apply H1|intros e _; apply H2|auto]. Qed.
Lemma sn_log e : sn (log (P:=P) e). Proof. intros w H. exact H. Qed.
Lemma sn_pop : sn (@pop P). Proof. intros w H. unfold pop. destruct (w_script w); exact H. Qed.
Lemma sn_call e : sn (call (P:=P) e).
Proof. unfold call. apply sn_bind; [apply sn_log|]. intros ?u; cbn beta. apply sn_bind; [apply sn_pop|]. intros [|x|x]; [apply sn_ret|apply sn_throw|apply sn_ret]. Qed.
Lemma sn_fresh_sid : sn (@fresh_sid P). Proof. intros w H. exact H. Qed.
Lemma sn_fresh_wrapped raw : sn (@fresh_wrapped P raw). Proof. intros w H. exact H. Qed.

Lemma sn_try_make j : sn (try_make P c j).
Proof.
  unfold try_make. apply sn_bind; [apply sn_pop|]. intros [|e|e].
  2:{ apply sn_bind; [apply sn_log|]. intros ?u; cbn beta. destruct (exn_isa e Exception_); [apply sn_ret|apply sn_throw]. }
  all: apply sn_bind; [apply sn_fresh_sid|]; intros sid; apply sn_bind; [apply sn_log|]; intros ?u; cbn beta;
    apply sn_try; [|intros e0; apply sn_bind; [apply sn_call|]; intros ?u; cbn beta; apply sn_ret];
    apply sn_bind; [destruct (c_nodelay c); [apply sn_call|apply sn_ret]|]; intros ?u; cbn beta;
    (destruct (c_tls c); [|apply sn_ret]); apply sn_bind; [apply sn_pop|]; intros [|e2|e2];
    [|apply sn_bind; [apply sn_log|]; intros ?u; cbn beta; apply sn_throw|];
    (apply sn_bind; [apply sn_fresh_wrapped|]; intros w; apply sn_bind; [apply sn_log|]; intros ?u; cbn beta; apply sn_ret).
Qed.
Lemma sn_addr_loop : forall n j err, sn (addr_loop P c j n err).
Proof.
  induction n as [|n IH]; intros j err; cbn [addr_loop]; [apply sn_ret|].
  apply sn_bind; [apply sn_try_make|]. intros [sid|e]; [apply sn_ret|apply IH].
Qed.

(* close(): self.sock is None afterwards, whatever happens *)
Lemma close_all : hoare TT (client_close P) (fun _ => SN) (fun _ => SN).
Proof.
  intros w _. unfold client_close, mbind, get_sock. destruct (w_sock w) as [sid|] eqn:Es; [|exact Es].
  unfold mfinally, mtry.
  destruct (call (EClose sid) w) as [[u|x] w'].
  - unfold drop_sock. destruct (w_sock w'); reflexivity.
  - destruct (exn_isa x Exception_); cbn [ret]; unfold drop_sock; destruct (w_sock w'); reflexivity.
Qed.

(* _connect: an exception of ANY class leaves self.sock = None (a half-set-up socket may be left behind:
   that is outside C10's claim, which is about desynchronisation) *)
Lemma connect_closes : closes (client_connect P c).
Proof.
  unfold client_connect.
  eapply h_bind; [apply close_all|]. intros ?u; cbn beta. cbn beta.
  eapply h_bind with (Q1 := fun _ => SN).
  - destruct (c_tcp c).
    + apply sn_bind; [apply sn_call|]. intros ?u; cbn beta. apply sn_bind; [apply sn_addr_loop|].
      intros [[sj|] [e|]]; try apply sn_throw; apply sn_ret.
    + apply sn_bind; [apply sn_pop|]. intros [|e|e].
      * apply sn_bind; [apply sn_fresh_sid|]. intros sid. apply sn_bind; [apply sn_log|]. intros ?u; cbn beta. apply sn_ret.
      * apply sn_bind; [apply sn_log|]. intros ?u; cbn beta. apply sn_throw.
      * apply sn_bind; [apply sn_fresh_sid|]. intros sid. apply sn_bind; [apply sn_log|]. intros ?u; cbn beta. apply sn_ret.
  - intros [sid j]. eapply h_bind with (Q1 := fun _ => SN).
    + apply sn_try.
      * apply sn_bind; [apply sn_call|]. intros ?u; cbn beta.
        apply sn_bind; [destruct (c_keepalive c); [|apply sn_ret]|].
        { apply sn_bind; [apply sn_call|]. intros ?u; cbn beta. apply sn_bind; [apply sn_call|]. intros ?u; cbn beta.
          apply sn_bind; [apply sn_call|]. intros ?u; cbn beta. apply sn_call. }
        intros ?u; cbn beta. apply sn_bind; [apply sn_call|]. intros ?u; cbn beta. apply sn_call.
      * intros e. apply sn_bind; [apply sn_call|]. intros ?u; cbn beta. apply sn_throw.
    + intros ?u; cbn beta. intros w _. exact I.
Qed.
Lemma ensure_closes : closes (ensure_connected P c).
Proof.
  intros w _. unfold ensure_connected, mbind, get_sock. destruct (w_sock w) as [sid|]; [exact I|].
  apply (connect_closes w I).
Qed.

(* the handler of an exchange path: close, then re-raise (or swallow) *)
Lemma handler_closes {A} (k : M P A) : (forall w, SN w -> match k w with (Ok _, _) => True | (Raise _, w') => SN w' end) ->
  hoare TT (mbind (client_close P) (fun _ => k)) (fun _ => TT) (fun _ => SN).
Proof.
  intros Hk. eapply h_bind; [apply close_all|]. intros ?u w H; cbn beta in *. specialize (Hk w H). destruct (k w) as [[a|e] w']; auto.
Qed.

Hypothesis handlers_base : h_fetch c = BaseException /\ h_store c = BaseException /\ h_misc c = BaseException.

Lemma isa_base e : exn_isa e BaseException = true.
Proof. destruct e; reflexivity. Qed.

(* an exchange whose handler catches BaseException: whatever the body raises, self.sock ends up None *)
Lemma exchange_closes {A} (body : M P A) (handler : exn -> M P A) :
  (forall e, hoare TT (handler e) (fun _ => TT) (fun _ => SN)) ->
  closes (mtry body BaseException handler).
Proof.
  intros Hh w _. unfold mtry. destruct (body w) as [[a|e] w']; [exact I|].
  rewrite isa_base. apply (Hh e w' I).
Qed.

Theorem fetch_io_closes name expect_cas remapped cmd : closes (fetch_io P peer c name expect_cas remapped cmd).
Proof.
  unfold fetch_io, exchange. destruct handlers_base as (-> & _ & _).
  eapply h_bind with (Q1 := fun _ => TT); [intros w _; exact I|]. intros ?u; cbn beta.
  apply exchange_closes. intros e. apply handler_closes. intros w H.
  destruct (c_ignore_exc c && exn_isa e Exception_); cbn; auto.
Qed.
Theorem store_io_closes name values noreply cmds : closes (store_io P peer c name values noreply cmds).
Proof.
  unfold store_io, exchange. destruct handlers_base as (_ & -> & _).
  eapply h_bind; [apply ensure_closes|]. intros ?u; cbn beta.
  eapply h_bind with (Q1 := fun _ => TT); [intros w _; exact I|]. intros ?u; cbn beta.
  apply exchange_closes. intros e. apply handler_closes. intros w H. exact H.
Qed.
Theorem misc_cmd_closes cmds noreply end_tokens : closes (misc_cmd P peer c cmds noreply end_tokens).
Proof.
  unfold misc_cmd, exchange. destruct handlers_base as (_ & _ & ->).
  eapply h_bind; [apply ensure_closes|]. intros ?u; cbn beta.
  eapply h_bind with (Q1 := fun _ => TT); [intros w _; exact I|]. intros ?u; cbn beta.
  apply exchange_closes. intros e. apply handler_closes. intros w H. exact H.
Qed.

(* a fresh connection has nothing unread on it *)
Lemma fresh_conn_empty (w : world) : conn_get (w_conns (snd (fresh_sid w))) (w_next w) = [].
Proof.
  cbn. induction (w_conns w) as [|[s x] t IH]; cbn; [rewrite Z.eqb_refl; reflexivity|].
  destruct (Z.eqb_spec s (w_next w)); cbn; [rewrite e, Z.eqb_refl; reflexivity|].
  destruct (Z.eqb_spec s (w_next w)); [congruence|exact IH].
Qed.
End C10.
