(* int(str(z)) = z  for every integer: the decimal renderer and parser of PM.Lib.Py round-trip *)
From Coq Require Import ZArith List Bool Lia ZifyBool.
From PM Require Import Lib.Py.
Import ListNotations.
Open Scope Z_scope.

Lemma digits_val_app l1 l2 a : digits_val (l1 ++ l2) a = digits_val l2 (digits_val l1 a).
Proof. revert a. induction l1 as [|c l1 IH]; intros a; [reflexivity|]. cbn. apply IH. Qed.

Lemma dpf_acc : forall n z acc, digits_pos_fuel n z acc = digits_pos_fuel n z [] ++ acc.
Proof.
  induction n as [|n IH]; intros z acc; [reflexivity|].
  cbn [digits_pos_fuel]. destruct (z <? 10); [reflexivity|].
  rewrite (IH (z / 10) ((48 + z mod 10) :: acc)), (IH (z / 10) [48 + z mod 10]).
  rewrite <- app_assoc. reflexivity.
Qed.

Definition all_digits (l : list Z) : bool := forallb is_digit l.

Lemma dpf_spec : forall n z, 0 <= z < 10 ^ Z.of_nat n -> (1 <= n)%nat ->
  let d := digits_pos_fuel n z [] in
  all_digits d = true /\ d <> [] /\ digits_val d 0 = z.
Proof.
  induction n as [|n IH]; intros z Hz Hn; [lia|].
  cbn [digits_pos_fuel]. destruct (Z.ltb_spec z 10) as [Hlt|Hge].
  - cbv zeta. split; [|split].
    + cbn [all_digits forallb]. unfold is_digit. lia.
    + discriminate.
    + cbn [digits_val]. lia.
  - destruct n as [|n'].
    + change (10 ^ Z.of_nat 1) with 10 in Hz. lia.
    + assert (Hq : 0 <= z / 10 < 10 ^ Z.of_nat (S n')).
      { rewrite Nat2Z.inj_succ, Z.pow_succ_r in Hz by lia.
        split; [apply Z.div_pos; lia|apply Z.div_lt_upper_bound; lia]. }
      destruct (IH (z / 10) Hq ltac:(lia)) as (H1 & H2 & H3).
      rewrite dpf_acc. cbv zeta. split; [|split].
      * unfold all_digits in *. rewrite forallb_app, H1. cbn [forallb andb]. unfold is_digit.
        pose proof (Z.mod_pos_bound z 10 ltac:(lia)). lia.
      * intros E. apply app_eq_nil in E. destruct E; discriminate.
      * rewrite digits_val_app, H3. cbn [digits_val]. pose proof (Z.div_mod z 10 ltac:(lia)). lia.
Qed.

Lemma log2_bound z : 0 <= z -> z < 10 ^ Z.of_nat (S (Z.to_nat (Z.log2 z))).
Proof.
  intros Hz. destruct (Z.eq_dec z 0) as [->|Hne]; [reflexivity|].
  pose proof (Z.log2_nonneg z). rewrite Nat2Z.inj_succ, Z2Nat.id by lia.
  pose proof (Z.log2_spec z ltac:(lia)) as [_ Hub].
  eapply Z.lt_le_trans; [exact Hub|].
  apply Z.pow_le_mono_l. lia.
Qed.

Lemma str_of_Z_nonneg z : 0 <= z ->
  let d := str_of_Z z in all_digits d = true /\ d <> [] /\ digits_val d 0 = z.
Proof.
  intros Hz. unfold str_of_Z. destruct (Z.ltb_spec z 0); [lia|].
  apply dpf_spec; [split; [lia|apply log2_bound; lia]|lia].
Qed.

(* ---- the parser on a clean digit string ---- *)
Lemma digits_us_all : forall l p acc, all_digits l = true -> (p = true \/ l <> []) ->
  digits_us l p acc = Some (rev acc ++ l).
Proof.
  induction l as [|c l IH]; intros p acc Hd Hp.
  - destruct Hp as [->|Hp]; [cbn; rewrite app_nil_r; reflexivity|congruence].
  - cbn [all_digits forallb] in Hd. apply andb_prop in Hd. destruct Hd as [Hc Hl].
    cbn [digits_us]. rewrite Hc. rewrite (IH true (c :: acc) Hl (or_introl eq_refl)).
    cbn [rev]. rewrite <- app_assoc. reflexivity.
Qed.

Lemma digit_not_ws c : is_digit c = true -> is_ws c = false.
Proof. unfold is_digit, is_ws. lia. Qed.

Lemma strip_left_id l : (match l with c :: _ => is_ws c = false | [] => True end) -> strip_left l = l.
Proof. destruct l as [|c l]; [reflexivity|]. cbn. intros ->. reflexivity. Qed.

Lemma strip_ws_id l : (forall c, In c l -> is_ws c = false) -> strip_ws l = l.
Proof.
  intros H. unfold strip_ws.
  rewrite (strip_left_id l) by (destruct l as [|c l']; [exact I|apply H; left; reflexivity]).
  rewrite (strip_left_id (rev l)).
  - apply rev_involutive.
  - destruct (rev l) as [|c r] eqn:E; [exact I|]. apply H. apply in_rev. rewrite E. left. reflexivity.
Qed.

Lemma all_digits_in l c : all_digits l = true -> In c l -> is_digit c = true.
Proof. unfold all_digits. rewrite forallb_forall. auto. Qed.

Lemma head_digit_match (A : Type) c t (x y z : A) : is_digit c = true ->
  match c :: t with 45 :: u => x | 43 :: u => y | _ => z end = z.
Proof.
  unfold is_digit. intros H.
  assert (Hc : c = 48 \/ c = 49 \/ c = 50 \/ c = 51 \/ c = 52 \/ c = 53 \/ c = 54 \/ c = 55 \/ c = 56 \/ c = 57) by lia.
  destruct Hc as [->|[->|[->|[->|[->|[->|[->|[->|[->| ->]]]]]]]]]; reflexivity.
Qed.

Theorem int_of_str_of_Z z : int_of_text (str_of_Z z) = Some z.
Proof.
  unfold int_of_text.
  destruct (Z.ltb_spec z 0) as [Hneg|Hpos].
  - (* negative: "-" ++ digits *)
    assert (E : str_of_Z z = 45 :: str_of_Z (- z)).
    { unfold str_of_Z. destruct (Z.ltb_spec z 0); [|lia]. destruct (Z.ltb_spec (- z) 0); [lia|]. reflexivity. }
    destruct (str_of_Z_nonneg (- z) ltac:(lia)) as (H1 & H2 & H3).
    rewrite E. rewrite strip_ws_id.
    + cbn [fst snd]. rewrite (digits_us_all _ false [] H1 (or_intror H2)). cbn [rev app]. rewrite H3. f_equal. lia.
    + intros c [<-|Hc]; [reflexivity|]. apply digit_not_ws. eapply all_digits_in; eassumption.
  - destruct (str_of_Z_nonneg z Hpos) as (H1 & H2 & H3).
    rewrite strip_ws_id by (intros c Hc; apply digit_not_ws; eapply all_digits_in; eassumption).
    destruct (str_of_Z z) as [|c t] eqn:E; [congruence|].
    assert (Hc : is_digit c = true) by (eapply all_digits_in; [exact H1|left; reflexivity]).
    rewrite (head_digit_match _ c t _ _ (false, c :: t) Hc).
    rewrite (digits_us_all _ false [] H1 (or_intror H2)). cbn [rev app]. rewrite H3. reflexivity.
Qed.
