From Coq Require Import ZArith List Bool Lia.
From PM Require Import Lib.Py Model.World Model.Readers Model.Client Proofs.ReaderFacts Proofs.Sim Proofs.ClientSim.
Import ListNotations.
Open Scope Z_scope.

Section C03.
Variable P : Type.
Variable peer : P -> list Z -> P * list Z.
Notation world := (world P).

Lemma Rg_choices (w : world) cs1 cs2 : ff cs1 -> ff cs2 -> Rg P (upd_choices w cs1) (upd_choices w cs2).
Proof. intros F1 F2. constructor; cbn; auto. Qed.

(* one public call: any two fault-free divisions of the byte stream *)
Theorem op_segmentation c o (w : world) cs1 cs2 : ff cs1 -> ff cs2 -> w_buf w = [] ->
  let r1 := run_op P peer c o (upd_choices w cs1) in
  let r2 := run_op P peer c o (upd_choices w cs2) in
  (fst r1 = fst r2 /\ Rg P (snd r1) (snd r2)) \/ bad2 P (snd r1) (snd r2).
Proof.
  intros F1 F2 Hb. cbv zeta.
  destruct (g_rel P _ _ _ _ _ (good_run_op P peer c o false) (upd_choices w cs1) (upd_choices w cs2)
              (Rg_choices w cs1 cs2 F1 F2)) as [(R' & E & _ & _)|B].
  - split; [discriminate|]. intros _. exact Hb.
  - split; [discriminate|]. intros _. exact Hb.
  - left. split; assumption.
  - right. exact B.
Qed.

(* a sequence of calls: the reference run leaves nothing unread and nothing over-read after each call *)
Definition quiet (w : world) : Prop := w_buf w = [] /\ cur_avail w = [].
Fixpoint quiet_run (c : cfg) (ops : list op) (w : world) : Prop :=
  match ops with
  | [] => True
  | o :: t => quiet (snd (run_op P peer c o w)) /\ quiet_run c t (snd (run_op P peer c o w))
  end.

Lemma mono_run_ops c : forall ops w, w_bad w = true -> w_bad (snd (run_ops P peer c ops w)) = true.
Proof.
  induction ops as [|o t IH]; intros w H; [exact H|]. cbn [run_ops].
  pose proof (g_mono P _ _ _ _ _ (good_run_op P peer c o false) w H) as H1.
  destruct (run_op P peer c o w) as [r w']. cbn [snd] in H1.
  specialize (IH w' H1). destruct (run_ops P peer c t w') as [[rs|e] w'']; exact IH.
Qed.

Theorem ops_segmentation c : forall ops (w1 w2 : world),
  Rg P w1 w2 -> w_buf w1 = [] -> w_buf w2 = [] -> quiet_run c ops w2 ->
  (fst (run_ops P peer c ops w1) = fst (run_ops P peer c ops w2)
   /\ Rg P (snd (run_ops P peer c ops w1)) (snd (run_ops P peer c ops w2)))
  \/ bad2 P (snd (run_ops P peer c ops w1)) (snd (run_ops P peer c ops w2)).
Proof.
  induction ops as [|o t IH]; intros w1 w2 HR B1 B2 Hq; [left; split; [reflexivity|exact HR]|].
  cbn [run_ops quiet_run] in *. destruct Hq as [[Q1 Q2] Hq].
  destruct (g_rel P _ _ _ _ _ (good_run_op P peer c o false) w1 w2 HR) as [(R' & E & _ & _)|[Bd1 Bd2]].
  - split; [discriminate|]. intros _. exact B1.
  - split; [discriminate|]. intros _. exact B2.
  - destruct (run_op P peer c o w1) as [r1 w1'], (run_op P peer c o w2) as [r2 w2']. cbn [fst snd] in *. subst r2.
    assert (B1' : w_buf w1' = []).
    { pose proof (rg_stream P _ _ R') as S. rewrite Q1, Q2 in S. cbn in S. apply app_eq_nil in S. tauto. }
    destruct (IH w1' w2' R' B1' Q1 Hq) as [[E' R'']|Bd].
    + left. destruct (run_ops P peer c t w1') as [[rs1|e1] w1''], (run_ops P peer c t w2') as [[rs2|e2] w2''];
        cbn [fst snd] in *; try discriminate; split; try assumption; congruence.
    + right. destruct (run_ops P peer c t w1') as [[rs1|e1] w1''], (run_ops P peer c t w2') as [[rs2|e2] w2'']; exact Bd.
  - right. pose proof (mono_run_ops c t _ Bd1) as M1. pose proof (mono_run_ops c t _ Bd2) as M2.
    destruct (run_op P peer c o w1) as [r1 w1'], (run_op P peer c o w2) as [r2 w2']. cbn [snd] in *.
    destruct (run_ops P peer c t w1') as [[rs1|e1] w1''], (run_ops P peer c t w2') as [[rs2|e2] w2'']; split; assumption.
Qed.
End C03.
