(* End to end on the model: a connected client with nothing pending, a fault-free transport and the specification
   server as the peer.  Every single-line operation returns exactly the documented result of what the server did and
   leaves nothing unread: the composition of C02 (what is sent), Spec/Server (what is answered), Quiet (what is
   read) and C05Proof (how it is read). *)
From Coq Require Import ZArith List Bool Lia.
From PM Require Import Lib.Py Spec.LegalKey Model.Lits Spec.Proto Spec.Server Model.World Model.Readers Model.Serde Model.Client
                       Proofs.Hoare Proofs.ReaderFacts Proofs.DecimalFacts Proofs.C02Proof Proofs.C05Proof Proofs.Quiet Proofs.QuietFetch Proofs.QuietConnect Proofs.QuietAny.
Import ListNotations.
Open Scope Z_scope.

(* ---- the server's answer to one rendered single-line command ---- *)
Definition single_line (c : cmd) : bool := match c with CGet _ _ | CGat _ _ _ => false | _ => true end.

Lemma steps_one s c : steps s [c] = let '(s', o) := exec s c in (s', if is_noreply c then [] else reply c o).
Proof. cbn [steps]. unfold step. destruct (exec s c) as [s' o]. rewrite app_nil_r. reflexivity. Qed.
Lemma serve_one s c : wf_cmd c = true ->
  serve s (render c) = let '(s', o) := exec s c in (s', if is_noreply c then [] else reply c o).
Proof.
  intros H. unfold serve. rewrite <- (app_nil_r (render c)). change (render c ++ []) with (render_all [c]).
  rewrite parse_render by (cbn; rewrite H; reflexivity). apply steps_one.
Qed.
Lemma exec_not_values s c : single_line c = true -> match snd (exec s c) with OValues _ => False | _ => True end.
Proof.
  destruct c; cbn [single_line]; try discriminate; intros _; unfold exec.
  - destruct v; destruct (live s key) as [it|]; cbn; auto. destruct (i_cas it =? digits_val cas 0); cbn; auto.
  - destruct (live s key); cbn; auto.
  - destruct (live s key) as [it|]; cbn; auto. destruct (numeric (i_data it)); cbn; auto.
  - destruct (live s key); cbn; auto.
  - cbn; auto.
  - cbn; auto.
Qed.
Lemma reply_single c o : match o with OValues _ => False | _ => True end -> reply c o = reply_line o ++ [CR; LF].
Proof. destruct o; intros H; try reflexivity. destruct H. Qed.
Lemma reply_line_ok o : match o with OValues _ => False | _ => True end -> line_ok (reply_line o).
Proof.
  assert (L : forall l, forallb (fun ch => negb (ch =? CR)) l = true -> line_ok l).
  { intros l H. apply Forall_forall. intros x Hx. rewrite forallb_forall in H. specialize (H x Hx). unfold CR in *. lia. }
  destruct o; intros H; try (apply L; reflexivity); try destruct H.
  cbn [reply_line]. pose proof (str_tok z) as T. eapply Forall_impl; [|exact T]. cbn. unfold CR. intros a [_ Ha]. exact Ha.
Qed.

Section E2E.
Variable c : cfg.
Hypothesis catches_misc : forall e, exn_isa e Exception_ = true -> exn_isa e (h_misc c) = true.
Hypothesis catches_store : forall e, exn_isa e Exception_ = true -> exn_isa e (h_store c) = true.
(* where the call starts: Some sid = connected on sid with nothing pending (the connection is kept); None = any ready client,
   closed or connected, that may have to connect first (Proofs/QuietAny.v) *)
Variable fr : option Z.
Hypothesis Hcan : connectable c fr.
Notation world := (world sstate).
Notation St := (St sstate).
Notation Start := (Start sstate fr).
Notation Done := (Done sstate fr).

(* one command through _misc_cmd: the reply line that comes back, and nothing left *)
Lemma misc_single s cm bytes : wf_cmd cm = true -> single_line cm = true -> bytes = render cm ->
  let s' := fst (exec s cm) in let o := snd (exec s cm) in
  if is_noreply cm
  then hoare (Start s) (misc_cmd sstate serve c [bytes] true []) (fun _ => Done s') (fun _ _ => False)
  else hoare (Start s) (misc_cmd sstate serve c [bytes] false [])
             (fun res w => read_misc_lines [reply_line o] [] = Ok res /\ Done s' w)
             (fun e w => read_misc_lines [reply_line o] [] = Raise e /\ w_sock w = None).
Proof.
  intros Hwf Hs ->. cbn zeta.
  pose proof (serve_one s cm Hwf) as Hsv. pose proof (exec_not_values s cm Hs) as Hnv.
  destruct (exec s cm) as [s' o] eqn:Ex. cbn [fst snd] in *.
  destruct (is_noreply cm).
  - apply (misc_cmd_noreply_any sstate serve c fr Hcan s s' [render cm]). cbn [concat]. rewrite app_nil_r. exact Hsv.
  - apply (misc_cmd_any sstate serve c fr Hcan s s' [render cm] [reply_line o]).
    + cbn [concat]. rewrite app_nil_r, Hsv, (reply_single cm o Hnv). unfold lines_bytes. cbn. rewrite app_nil_r. reflexivity.
    + reflexivity.
    + constructor; [apply reply_line_ok, Hnv|constructor].
    + exact catches_misc.
Qed.

(* ---- delete ---- *)
Theorem delete_e2e s key n k : check_key c (c_prefix c) key = Ok k ->
  let nr := eff_noreply c n in
  let s' := fst (exec s (CDelete k nr)) in let o := snd (exec s (CDelete k nr)) in
  hoare (Start s) (run_op sstate serve c (OpDelete key n))
        (fun v w => v = (if nr then DBool true else contract_delete o) /\ Done s' w) (fun _ _ => False).
Proof.
  intros Hk. cbn zeta. cbn [run_op]. set (nr := eff_noreply c n).
  destruct (delete_wellformed c key nr k Hk) as [Hb _].
  assert (Hwf : wf_cmd (CDelete k nr) = true) by (cbn; apply (check_key_legal c _ _ _ Hk)).
  pose proof (misc_single s (CDelete k nr) (L_delete_sp ++ k ++ (if nr then L_noreply else []) ++ L_crlf) Hwf eq_refl Hb) as M.
  cbn zeta in M. cbn [is_noreply] in M.
  pose proof (delete_reading s k nr) as R. cbn zeta in R.
  destruct (exec s (CDelete k nr)) as [s' o]. cbn [fst snd] in *.
  eapply h_bind with (Q1 := fun k0 w => k0 = k /\ Start s w).
  { intros w Hw. unfold lift. rewrite Hk. auto. }
  intros k0. unfold read_delete in R.
  destruct (raise_errors (reply_line o)) as [u|e0] eqn:Er; [|discriminate]. cbn [bind] in R. inversion R as [R'].
  destruct nr.
  - intros w [-> Hw]. specialize (M w Hw). unfold mbind.
    destruct (misc_cmd sstate serve c _ true [] w) as [[r|e] w']; [cbn [ret]; auto|destruct M].
  - intros w [-> Hw]. specialize (M w Hw). unfold mbind.
    destruct (misc_cmd sstate serve c _ false [] w) as [[r|e] w'].
    + destruct M as [M1 M2]. cbn [read_misc_lines] in M1. rewrite Er in M1. cbn [bind app] in M1. inversion M1; subst r.
      cbn [lift first_or_error ret]. split; [unfold contract_delete; rewrite R'; reflexivity|exact M2].
    + destruct M as [M1 _]. cbn [read_misc_lines] in M1. rewrite Er in M1. discriminate.
Qed.

(* ---- touch ---- *)
Theorem touch_e2e s key expire n k eb : check_key c (c_prefix c) key = Ok k -> check_integer c expire = Ok eb -> in_i64 expire ->
  exists z, int_value expire = Some z /\
  let nr := eff_noreply c n in
  let s' := fst (exec s (CTouch k z nr)) in let o := snd (exec s (CTouch k z nr)) in
  hoare (Start s) (run_op sstate serve c (OpTouch key expire n))
        (fun v w => v = (if nr then DBool true else contract_touch o) /\ Done s' w) (fun _ _ => False).
Proof.
  intros Hk He Hr. set (nr := eff_noreply c n).
  destruct (touch_wellformed c key expire nr k eb Hk He Hr) as (z & Ez & Hb & _). exists z. split; [exact Ez|]. cbn zeta. fold nr.
  assert (Hwf : wf_cmd (CTouch k z nr) = true).
  { unfold wf_cmd. rewrite (check_key_legal c _ _ _ Hk). cbn [andb]. specialize (Hr z Ez). apply andb_true_iff. split; [apply Z.leb_le; lia|apply Z.ltb_lt; lia]. }
  pose proof (misc_single s (CTouch k z nr) (L_touch_sp ++ k ++ L_sp ++ eb ++ (if nr then L_noreply else []) ++ L_crlf) Hwf eq_refl Hb) as M.
  cbn zeta in M. cbn [is_noreply] in M.
  pose proof (touch_reading s k z nr) as R. cbn zeta in R.
  destruct (exec s (CTouch k z nr)) as [s' o]. cbn [fst snd] in *. cbn [run_op]. fold nr.
  eapply h_bind with (Q1 := fun k0 w => k0 = k /\ Start s w).
  { intros w Hw. unfold lift. rewrite Hk. auto. }
  intros k0. eapply h_bind with (Q1 := fun e0 w => e0 = eb /\ k0 = k /\ Start s w).
  { intros w [-> Hw]. unfold lift. rewrite He. auto. }
  intros e0. unfold read_touch in R.
  destruct (raise_errors (reply_line o)) as [u|x] eqn:Er; [|discriminate]. cbn [bind] in R. inversion R as [R'].
  destruct nr.
  - intros w (-> & -> & Hw). specialize (M w Hw). unfold mbind.
    destruct (misc_cmd sstate serve c _ true [] w) as [[r|e] w']; [cbn [ret]; auto|destruct M].
  - intros w (-> & -> & Hw). specialize (M w Hw). unfold mbind.
    destruct (misc_cmd sstate serve c _ false [] w) as [[r|e] w'].
    + destruct M as [M1 M2]. cbn [read_misc_lines] in M1. rewrite Er in M1. cbn [bind app] in M1. inversion M1; subst r.
      cbn [lift first_or_error ret]. split; [unfold contract_touch; rewrite R'; reflexivity|exact M2].
    + destruct M as [M1 _]. cbn [read_misc_lines] in M1. rewrite Er in M1. discriminate.
Qed.

(* ---- flush_all ---- *)
Theorem flush_e2e s delay n db : check_integer c delay = Ok db -> (forall z, int_value delay = Some z -> 0 <= z) ->
  exists z, int_value delay = Some z /\
  let nr := eff_noreply c n in
  let s' := fst (exec s (CFlush z nr)) in
  hoare (Start s) (run_op sstate serve c (OpFlushAll delay n)) (fun v w => v = DBool true /\ Done s' w) (fun _ _ => False).
Proof.
  intros He Hr. set (nr := eff_noreply c n).
  destruct (flush_wellformed c delay nr db He Hr) as (z & Ez & Hb & _). exists z. split; [exact Ez|]. cbn zeta. fold nr.
  assert (Hwf : wf_cmd (CFlush z nr) = true).
  { unfold wf_cmd. specialize (Hr z Ez). apply Z.leb_le; lia. }
  pose proof (misc_single s (CFlush z nr) (L_flush_all_sp ++ db ++ (if nr then L_noreply else []) ++ L_crlf) Hwf eq_refl Hb) as M.
  cbn zeta in M. cbn [is_noreply] in M.
  assert (Ho : snd (exec s (CFlush z nr)) = OOk) by reflexivity.
  destruct (exec s (CFlush z nr)) as [s' o]. cbn [fst snd] in *. subst o. cbn [run_op]. fold nr.
  eapply h_bind with (Q1 := fun e0 w => e0 = db /\ Start s w).
  { intros w Hw. unfold lift. rewrite He. auto. }
  intros e0. destruct nr.
  - intros w (-> & Hw). specialize (M w Hw). unfold mbind.
    destruct (misc_cmd sstate serve c _ true [] w) as [[r|e] w']; [cbn [ret]; auto|destruct M].
  - intros w (-> & Hw). specialize (M w Hw). unfold mbind.
    destruct (misc_cmd sstate serve c _ false [] w) as [[r|e] w'].
    + destruct M as [M1 M2]. cbn in M1. inversion M1; subst r. cbn [lift first_or_error ret]. split; [reflexivity|exact M2].
    + destruct M as [M1 _]. cbn in M1. discriminate.
Qed.

(* ---- incr / decr ---- *)
Theorem arith_e2e s (inc : bool) key value n k vb : check_key c (c_prefix c) key = Ok k -> check_integer c value = Ok vb ->
  (forall z, int_value value = Some z -> 0 <= z < 2 ^ 64) ->
  exists z, int_value value = Some z /\
  let nr := py_truthy n in
  let s' := fst (exec s (CArith inc k z nr)) in let o := snd (exec s (CArith inc k z nr)) in
  hoare (Start s) (run_op sstate serve c (if inc then OpIncr key value n else OpDecr key value n))
        (fun v w => (if nr then v = DNone else contract_arith o = Ok v) /\ Done s' w)
        (fun e w => nr = false /\ contract_arith o = Raise e /\ w_sock w = None).
Proof.
  intros Hk Hv Hr. set (nr := py_truthy n).
  destruct (arith_wellformed c inc key value nr k vb Hk Hv Hr) as (z & Ez & Hb & _). exists z. split; [exact Ez|]. cbn zeta. fold nr.
  assert (Hwf : wf_cmd (CArith inc k z nr) = true).
  { unfold wf_cmd. rewrite (check_key_legal c _ _ _ Hk). cbn [andb]. specialize (Hr z Ez). apply andb_true_iff. split; [apply Z.leb_le; lia|apply Z.ltb_lt; lia]. }
  pose proof (misc_single s (CArith inc k z nr) ((if inc then L_incr_sp else L_decr_sp) ++ k ++ L_sp ++ vb ++ (if nr then L_noreply else []) ++ L_crlf) Hwf eq_refl Hb) as M.
  cbn zeta in M. cbn [is_noreply] in M.
  assert (Hz : 0 <= z) by (specialize (Hr z Ez); lia).
  pose proof (arith_reading s inc k z nr) as R. cbn zeta in R. specialize (R Hz).
  destruct (exec s (CArith inc k z nr)) as [s' o]. cbn [fst snd] in *.
  assert (Hop : run_op sstate serve c (if inc then OpIncr key value n else OpDecr key value n) = arith sstate serve c (if inc then L_incr_sp else L_decr_sp) key value n)
    by (destruct inc; reflexivity).
  rewrite Hop. unfold arith. fold nr.
  eapply h_bind with (Q1 := fun k0 w => k0 = k /\ Start s w).
  { intros w Hw. unfold lift. rewrite Hk. auto. }
  intros k0. eapply h_bind with (Q1 := fun v0 w => v0 = vb /\ k0 = k /\ Start s w).
  { intros w [-> Hw]. unfold lift. rewrite Hv. auto. }
  intros v0. unfold read_arith in R.
  destruct nr.
  - intros w (-> & -> & Hw). specialize (M w Hw). unfold mbind.
    destruct (misc_cmd sstate serve c _ true [] w) as [[r|e] w']; [cbn [ret]; auto|destruct M].
  - intros w (-> & -> & Hw). specialize (M w Hw). unfold mbind.
    destruct (misc_cmd sstate serve c _ false [] w) as [[r|e] w'].
    + destruct M as [M1 M2]. cbn [read_misc_lines] in M1.
      destruct (raise_errors (reply_line o)) as [u|x] eqn:Er; [|discriminate]. cbn [bind app] in M1, R. inversion M1; subst r.
      cbn [lift first_or_error]. destruct (list_eqb (reply_line o) L_NOT_FOUND).
      * cbn [ret]. split; [symmetry; exact R|exact M2].
      * unfold lift. destruct (int_of_text (reply_line o)) as [zz|].
        -- split; [symmetry; exact R|exact M2].
        -- (* the server never answers a non-number here: contract says ValueError is impossible *)
           exfalso. destruct o; cbn in R; try discriminate; cbn in Er; try discriminate.
    + destruct M as [M1 M2]. cbn [read_misc_lines] in M1.
      destruct (raise_errors (reply_line o)) as [u|x] eqn:Er; [discriminate|]. cbn [bind] in M1, R. inversion M1; subst x.
      split; [reflexivity|]. split; [symmetry; exact R|exact M2].
Qed.

(* ---- set / add / replace / append / prepend with one key ---- *)
Definition sv_of (verb : Z) : sverb := match verb with 0 => VSet | 1 => VAdd | 2 => VReplace | 3 => VAppend | _ => VPrepend end.
Lemma verb_name_sv verb : verb_name verb = sverb_name (sv_of verb).
Proof. unfold verb_name, sv_of. destruct verb as [|p|p]; try reflexivity. do 3 (destruct p as [p|p|]; try reflexivity). Qed.
Lemma sv_not_cas verb : is_cas (sv_of verb) = false.
Proof. unfold sv_of. destruct verb as [|p|p]; try reflexivity. do 3 (destruct p as [p|p|]; try reflexivity). Qed.
Lemma key_eqb_refl key k : check_key c (c_prefix c) key = Ok k -> dyn_eqb key key = true.
Proof. unfold check_key. destruct key; try discriminate; intros _; cbn; apply C13Proof.leq_refl. Qed.

Theorem store_e2e s verb key value expire n flags bytes :
  let nr := eff_noreply c n in let v := sv_of verb in
  store_bytes c (verb_name verb) [(key, value)] expire nr flags None = Ok bytes -> in_i64 expire -> in_u32 flags ->
  exists k f e db, store_intent c v [(key, value)] expire nr flags [] = Ok [CStore v k f e db [] nr] /\
  let s' := fst (exec s (CStore v k f e db [] nr)) in let o := snd (exec s (CStore v k f e db [] nr)) in
  hoare (Start s) (run_op sstate serve c (OpStore verb key value expire n flags))
        (fun r w => r = (if nr then DBool true else contract_store o) /\ Done s' w) (fun _ _ => False).
Proof.
  cbn zeta. set (nr := eff_noreply c n). set (v := sv_of verb). intros Hb He Hf.
  rewrite verb_name_sv in Hb. fold v in Hb.
  assert (Hco : cas_opt v [] = None) by (unfold cas_opt, v; rewrite sv_not_cas; reflexivity).
  rewrite <- Hco in Hb.
  destruct (store_wellformed c v [(key, value)] expire nr flags [] bytes Hb He Hf) as (cmds & Hi & Hby & _).
  { unfold v. rewrite sv_not_cas. discriminate. }
  (* the intent of a one-item store is one command *)
  assert (Hone : exists k f e db, cmds = [CStore v k f e db [] nr] /\ check_key c (c_prefix c) key = Ok k).
  { unfold store_intent in Hi. destruct (int_value expire) as [e|]; [|discriminate]. cbn [map_exc] in Hi. unfold store_item in Hi. cbn [fst snd] in Hi.
    destruct (check_key c (c_prefix c) key) as [k|x]; [|discriminate]. cbn [bind] in Hi.
    destruct (serde_serialize c value) as [[data dfl]|x]; [|discriminate]. cbn [bind fst snd] in Hi.
    destruct (int_value match flags with DNone => DInt dfl | _ => flags end) as [f|]; [|discriminate].
    destruct (data_bytes c data) as [db|x]; [|discriminate]. cbn [bind] in Hi. inversion Hi.
    exists k, f, e, db. unfold v at 2. rewrite sv_not_cas. auto. }
  destruct Hone as (k & f & e & db & -> & Hk). exists k, f, e, db. split; [exact Hi|].
  assert (Hwf : wf_cmd (CStore v k f e db [] nr) = true).
  { pose proof (store_intent_wf c v [(key, value)] expire nr flags [] _ Hi He Hf) as W. cbn [forallb] in W.
    rewrite andb_true_r in W. apply W. unfold v. rewrite sv_not_cas. discriminate. }
  cbn [render_all] in Hby. rewrite app_nil_r in Hby.
  pose proof (serve_one s (CStore v k f e db [] nr) Hwf) as Hsv.
  pose proof (exec_not_values s (CStore v k f e db [] nr) eq_refl) as Hnv.
  pose proof (store_reading s v k f e db [] nr) as R. cbn zeta in R.
  destruct (exec s (CStore v k f e db [] nr)) as [s' o]. cbn [fst snd is_noreply] in *.
  cbn [run_op]. fold nr.
  intros w Hw. unfold mbind. rewrite (store_cmd_bytes sstate serve c), verb_name_sv. fold v. rewrite <- Hco, Hb.
  unfold read_store in R. destruct (raise_errors (reply_line o)) as [u|x] eqn:Er; [|discriminate]. cbn [bind] in R.
  destruct nr.
  - pose proof (store_io_noreply_value_any sstate serve c fr Hcan s s' (sverb_name v) [(key, value)] bytes) as Q.
    rewrite Hby in Q. specialize (Q Hsv w Hw). rewrite <- Hby in Q.
    destruct (store_io sstate serve c (sverb_name v) [(key, value)] true bytes w) as [[r|x] w']; [|destruct Q].
    destruct Q as [-> Q]. cbn [fold_left dict_set fst]. unfold lift. cbn [dict_get]. rewrite (key_eqb_refl key k Hk). split; [reflexivity|exact Q].
  - pose proof (store_io_any sstate serve c fr Hcan s s' (sverb_name v) [(key, value)] bytes [reply_line o]) as Q.
    assert (Hp : serve s bytes = (s', lines_bytes [reply_line o])).
    { rewrite Hby, Hsv, (reply_single _ o Hnv). unfold lines_bytes. cbn. rewrite app_nil_r. reflexivity. }
    specialize (Q Hp eq_refl (Forall_cons _ (reply_line_ok o Hnv) (Forall_nil _)) catches_store w Hw).
    destruct (store_io sstate serve c (sverb_name v) [(key, value)] false bytes w) as [[r|x] w'].
    + destruct Q as [Q1 Q2]. cbn [read_store_lines] in Q1. rewrite Er in Q1. cbn [bind] in Q1. rewrite R in Q1. cbn [bind fst] in Q1.
      inversion Q1; subst r. unfold lift. cbn [dict_set dict_get]. rewrite (key_eqb_refl key k Hk). split; [reflexivity|exact Q2].
    + destruct Q as [Q1 _]. cbn [read_store_lines] in Q1. rewrite Er in Q1. cbn [bind] in Q1. rewrite R in Q1. discriminate.
Qed.

(* ---- cas ---- *)
Theorem cas_e2e s key value cas expire n flags cb bytes :
  check_cas c cas = Ok cb ->
  let nr := py_truthy n in
  store_bytes c L_cas [(key, value)] expire nr flags (Some cb) = Ok bytes -> in_i64 expire -> in_u32 flags ->
  exists k f e db, store_intent c VCas [(key, value)] expire nr flags cb = Ok [CStore VCas k f e db cb nr] /\
  let s' := fst (exec s (CStore VCas k f e db cb nr)) in let o := snd (exec s (CStore VCas k f e db cb nr)) in
  hoare (Start s) (run_op sstate serve c (OpCas key value cas expire n flags))
        (fun r w => r = (if nr then DBool true else contract_store o) /\ Done s' w) (fun _ _ => False).
Proof.
  intros Hc. cbn zeta. set (nr := py_truthy n). intros Hb He Hf.
  change L_cas with (sverb_name VCas) in Hb. change (Some cb) with (cas_opt VCas cb) in Hb.
  pose proof (check_cas_digits c cas cb Hc) as Hdig.
  destruct (store_wellformed c VCas [(key, value)] expire nr flags cb bytes Hb He Hf (fun _ => Hdig)) as (cmds & Hi & Hby & _).
  assert (Hone : exists k f e db, cmds = [CStore VCas k f e db cb nr] /\ check_key c (c_prefix c) key = Ok k).
  { unfold store_intent in Hi. destruct (int_value expire) as [e|]; [|discriminate]. cbn [map_exc] in Hi. unfold store_item in Hi. cbn [fst snd] in Hi.
    destruct (check_key c (c_prefix c) key) as [k|x]; [|discriminate]. cbn [bind] in Hi.
    destruct (serde_serialize c value) as [[data dfl]|x]; [|discriminate]. cbn [bind fst snd] in Hi.
    destruct (int_value match flags with DNone => DInt dfl | _ => flags end) as [f|]; [|discriminate].
    destruct (data_bytes c data) as [db|x]; [|discriminate]. cbn [bind] in Hi. inversion Hi.
    exists k, f, e, db. auto. }
  destruct Hone as (k & f & e & db & -> & Hk). exists k, f, e, db. split; [exact Hi|].
  assert (Hwf : wf_cmd (CStore VCas k f e db cb nr) = true).
  { pose proof (store_intent_wf c VCas [(key, value)] expire nr flags cb _ Hi He Hf (fun _ => Hdig)) as W. cbn [forallb] in W.
    rewrite andb_true_r in W. exact W. }
  cbn [render_all] in Hby. rewrite app_nil_r in Hby.
  pose proof (serve_one s (CStore VCas k f e db cb nr) Hwf) as Hsv.
  pose proof (exec_not_values s (CStore VCas k f e db cb nr) eq_refl) as Hnv.
  pose proof (store_reading s VCas k f e db cb nr) as R. cbn zeta in R.
  destruct (exec s (CStore VCas k f e db cb nr)) as [s' o]. cbn [fst snd is_noreply] in *.
  cbn [run_op]. fold nr.
  intros w Hw. unfold mbind at 1. unfold lift at 1. rewrite Hc. unfold mbind. rewrite (store_cmd_bytes sstate serve c).
  change L_cas with (sverb_name VCas). change (Some cb) with (cas_opt VCas cb). rewrite Hb.
  unfold read_store in R. destruct (raise_errors (reply_line o)) as [u|x] eqn:Er; [|discriminate]. cbn [bind] in R.
  destruct nr.
  - pose proof (store_io_noreply_value_any sstate serve c fr Hcan s s' (sverb_name VCas) [(key, value)] bytes) as Q.
    rewrite Hby in Q. specialize (Q Hsv w Hw). rewrite <- Hby in Q.
    destruct (store_io sstate serve c (sverb_name VCas) [(key, value)] true bytes w) as [[r|x] w']; [|destruct Q].
    destruct Q as [-> Q]. cbn [fold_left dict_set fst]. unfold lift. cbn [dict_get]. rewrite (key_eqb_refl key k Hk). split; [reflexivity|exact Q].
  - pose proof (store_io_any sstate serve c fr Hcan s s' (sverb_name VCas) [(key, value)] bytes [reply_line o]) as Q.
    assert (Hp : serve s bytes = (s', lines_bytes [reply_line o])).
    { rewrite Hby, Hsv, (reply_single _ o Hnv). unfold lines_bytes. cbn. rewrite app_nil_r. reflexivity. }
    specialize (Q Hp eq_refl (Forall_cons _ (reply_line_ok o Hnv) (Forall_nil _)) catches_store w Hw).
    destruct (store_io sstate serve c (sverb_name VCas) [(key, value)] false bytes w) as [[r|x] w'].
    + destruct Q as [Q1 Q2]. cbn [read_store_lines] in Q1. rewrite Er in Q1. cbn [bind] in Q1. rewrite R in Q1. cbn [bind fst] in Q1.
      inversion Q1; subst r. unfold lift. cbn [dict_set dict_get]. rewrite (key_eqb_refl key k Hk). split; [reflexivity|exact Q2].
    + destruct Q as [Q1 _]. cbn [read_store_lines] in Q1. rewrite Er in Q1. cbn [bind] in Q1. rewrite R in Q1. discriminate.
Qed.
End E2E.
