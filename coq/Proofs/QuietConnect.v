(* Exact consumption for calls that have to (re)connect first: on a client that is closed (after a failed call, or never
   used) or connected with nothing pending on the socket - whatever its local buffer still holds - the exchange connects
   if it must, and then reads exactly the peer's reply.  Completes c01_exact_* of Quiet.v / QuietFetch.v. *)
From Coq Require Import ZArith List Bool Lia.
From PM Require Import Lib.Py Spec.LegalKey Model.Lits Model.World Model.Readers Model.Serde Model.Client Proofs.Hoare Proofs.ReaderFacts
                       Proofs.Quiet Proofs.QuietFetch.
Import ListNotations.
Open Scope Z_scope.

Section QuietConnect.
Variable P : Type.
Variable peer : P -> list Z -> P * list Z.
Variable c : cfg.
Variable X : list Z -> Prop.          (* what is known about the local buffer (nothing, or that it is empty) *)
Notation world := (world P).
Notation St := (St P).
Notation normal_script := (normal_script P).

(* the parts of the world a connection attempt does not touch *)
Definition K (p : P) (w : world) : Prop := w_peer w = p /\ ff (w_choices w) /\ normal_script w /\ X (w_buf w).
Definition Closed (p : P) (w : world) : Prop := w_sock w = None /\ K p w.
Definition Conn (sid : Z) (p : P) (w : world) : Prop := w_sock w = Some sid /\ conn_get (w_conns w) sid = [] /\ K p w.
Definition Ready (p : P) (w : world) : Prop := (exists sid, Conn sid p w) \/ Closed p w.
(* a closed client that has made a socket sid with nothing pending on it *)
Definition Mid (sid : Z) (p : P) (w : world) : Prop := w_sock w = None /\ conn_get (w_conns w) sid = [] /\ K p w.
Definition can_connect : Prop := c_tcp c = false \/ 1 <= c_naddr c.

Lemma St_Conn sid p w : X [] -> St sid p [] w -> Conn sid p w.
Proof. intros Hx H. destruct (St_nil P sid p w H) as [Hb Ha]. destruct H as (H1 & H2 & _ & H4 & H5). rewrite <- Hb in Hx. repeat split; auto. Qed.

(* predicates that look only at the socket, the peer, the choices, the connections and the script's normality *)
Definition stable (I : world -> Prop) : Prop :=
  (forall w, I w -> normal_script w) /\ (forall w t, I w -> I (upd_trace w t)) /\ (forall w o r, I w -> w_script w = o :: r -> I (upd_script w r)).
Lemma stable_K_like (F : world -> Prop) :
  (forall w t, F w -> F (upd_trace w t)) -> (forall w r, F w -> F (upd_script w r)) ->
  forall p, stable (fun w => F w /\ K p w).
Proof.
  intros Ht Hs p. split; [intros w [_ (_ & _ & H & _)]; exact H|]. split.
  - intros w t [Hf (A & B & C0 & D)]. split; [apply Ht, Hf|]. unfold K, Quiet.normal_script. cbn. auto.
  - intros w o r [Hf (A & B & C0 & D)] E. split; [apply Hs, Hf|]. unfold K, Quiet.normal_script in *. cbn. rewrite E in C0. repeat split; auto. apply (Forall_inv_tail C0).
Qed.
Lemma stable_Closed p : stable (Closed p).
Proof. apply (stable_K_like (fun w => w_sock w = None)); intros; assumption. Qed.
Lemma stable_Mid sid p : stable (Mid sid p).
Proof.
  pose proof (stable_K_like (fun w => w_sock w = None /\ conn_get (w_conns w) sid = []) (fun w t H => H) (fun w r H => H) p) as S.
  destruct S as (S1 & S2 & S3). split; [intros w (A & B & C0); apply (S1 w); tauto|]. split.
  - intros w t (A & B & C0). destruct (S2 w t (conj (conj A B) C0)) as [[X1 Y1] Z0]. repeat split; auto; apply Z0.
  - intros w o r (A & B & C0) E. destruct (S3 w o r (conj (conj A B) C0) E) as [[X1 Y1] Z0]. repeat split; auto; apply Z0.
Qed.
Lemma h_log_stable I e : stable I -> hoare I (log (P:=P) e) (fun _ => I) (fun _ _ => False).
Proof. intros (_ & S2 & _) w H. unfold log. apply S2, H. Qed.
Lemma h_pop_stable I : stable I -> hoare I (pop (P:=P)) (fun o w => o = ONormal /\ I w) (fun _ _ => False).
Proof.
  intros (S1 & _ & S3) w H. unfold pop. destruct (w_script w) as [|o r] eqn:E; [auto|].
  pose proof (S1 w H) as Hn. unfold Quiet.normal_script in Hn. rewrite E in Hn. pose proof (Forall_inv Hn) as Ho. cbn beta in Ho. subst o.
  split; [reflexivity|apply (S3 w ONormal r H E)].
Qed.
Lemma h_call_stable I e : stable I -> hoare I (call (P:=P) e) (fun _ => I) (fun _ _ => False).
Proof.
  intros S. unfold call. eapply h_bind; [apply (h_log_stable I e S)|]. intros ?u.
  eapply h_bind; [apply (h_pop_stable I S)|]. intros o w [E H]. subst o. exact H.
Qed.

Lemma conn_get_set_other cs a b x : a <> b -> conn_get (conn_set cs a x) b = conn_get cs b.
Proof.
  intros N. induction cs as [|[s y] t IH]; cbn; [destruct (Z.eqb_spec a b); [contradiction|reflexivity]|].
  destruct (Z.eqb_spec s a); cbn.
  - subst s. destruct (Z.eqb_spec a b); [contradiction|reflexivity].
  - destruct (Z.eqb_spec s b); [reflexivity|exact IH].
Qed.

(* making the socket object (and wrapping it for TLS) *)
Lemma h_fresh_sid p : hoare (Closed p) (fresh_sid (P:=P)) (fun sid w => Mid sid p w) (fun _ _ => False).
Proof.
  intros w (A & B & C0 & D & E). unfold fresh_sid, Mid, K, Quiet.normal_script. cbn. rewrite conn_get_set_same. repeat split; auto.
Qed.
Lemma h_fresh_wrapped sid p : hoare (Mid sid p) (fresh_wrapped (P:=P) sid) (fun w2 w => Mid w2 p w) (fun _ _ => False).
Proof.
  intros w (A & B & C0 & D & E & F). unfold fresh_wrapped, Mid, K, Quiet.normal_script. cbn.
  destruct (Z.eq_dec sid (w_next w)) as [Hq|Hq].
  - subst sid. rewrite conn_get_set_same. repeat split; auto.
  - rewrite (conn_get_set_other _ sid (w_next w)) by exact Hq. rewrite conn_get_set_same. repeat split; auto.
Qed.

Lemma h_pop_then {A} I (k : outcome -> M P A) Q E : stable I -> hoare I (k ONormal) Q E -> hoare I (mbind pop k) Q E.
Proof.
  intros S Hk w Hw. unfold mbind. pose proof (h_pop_stable I S w Hw) as Hq. destruct (pop w) as [[o|e] w1]; [|destruct Hq].
  destruct Hq as [-> H1]. apply Hk, H1.
Qed.

Lemma h_try_make p j : hoare (Closed p) (try_make P c j) (fun r w => exists sid, r = inl sid /\ Mid sid p w) (fun _ _ => False).
Proof.
  unfold try_make. apply h_pop_then; [apply stable_Closed|]. cbn iota.
  eapply h_bind; [apply h_fresh_sid|]. intros sid.
  eapply h_bind; [apply (h_log_stable _ _ (stable_Mid sid p))|]. intros ?u.
  eapply h_try with (E1 := fun _ _ => False); [|intros e He w []|intros e w He []].
  eapply h_bind with (Q1 := fun _ => Mid sid p).
  { destruct (c_nodelay c); [apply (h_call_stable _ _ (stable_Mid sid p))|apply h_ret']; auto. }
  intros ?u. destruct (c_tls c).
  - apply h_pop_then; [apply stable_Mid|]. cbn iota.
    eapply h_bind; [apply h_fresh_wrapped|]. intros w0.
    eapply h_bind; [apply (h_log_stable _ _ (stable_Mid w0 p))|]. intros ?u. apply h_ret'. intros w H. exists w0. auto.
  - apply h_ret'. intros w H. exists sid. auto.
Qed.

Lemma h_connect p : can_connect -> hoare (Closed p) (client_connect P c) (fun _ w => exists sid, Conn sid p w) (fun _ _ => False).
Proof.
  intros Hcan. unfold client_connect.
  eapply h_bind with (Q1 := fun _ => Closed p).
  { intros w H. unfold client_close, mbind, get_sock. destruct H as [Hs Hk]. rewrite Hs. split; assumption. }
  intros ?u.
  eapply h_bind with (Q1 := fun sj w => Mid (fst sj) p w).
  { destruct (c_tcp c) eqn:Et.
    - destruct Hcan as [Hq|Hn]; [congruence|].
      eapply h_bind; [apply (h_call_stable _ _ (stable_Closed p))|]. intros ?u.
      destruct (Z.to_nat (c_naddr c)) as [|n] eqn:En; [lia|]. cbn [addr_loop].
      eapply h_bind with (Q1 := fun r w => exists sid, r = (Some (sid, 0), None) /\ Mid sid p w).
      + eapply h_bind; [apply (h_try_make p 0)|]. intros r. intros w (sid & E & H). subst r. exists sid. auto.
      + intros r. intros w (sid & E & H). subst r. exact H.
    - apply h_pop_then; [apply stable_Closed|]. cbn iota.
      eapply h_bind; [apply h_fresh_sid|]. intros sid.
      eapply h_bind; [apply (h_log_stable _ _ (stable_Mid sid p))|]. intros ?u. apply h_ret'. auto. }
  intros [sid j]. cbn [fst].
  eapply h_bind with (Q1 := fun _ => Mid sid p).
  { eapply h_try with (E1 := fun _ _ => False); [|intros e He w []|intros e w He []].
    eapply h_bind; [apply (h_call_stable _ _ (stable_Mid sid p))|]. intros ?u.
    eapply h_bind with (Q1 := fun _ => Mid sid p).
    { destruct (c_keepalive c); [|apply h_ret'; auto].
      eapply h_bind; [apply (h_call_stable _ _ (stable_Mid sid p))|]. intros ?u.
      eapply h_bind; [apply (h_call_stable _ _ (stable_Mid sid p))|]. intros ?u.
      eapply h_bind; [apply (h_call_stable _ _ (stable_Mid sid p))|]. intros ?u. apply (h_call_stable _ _ (stable_Mid sid p)). }
    intros ?u. eapply h_bind; [apply (h_call_stable _ _ (stable_Mid sid p))|]. intros ?u. apply (h_call_stable _ _ (stable_Mid sid p)). }
  intros ?u. intros w (A & B & C0). unfold set_sock. exists sid. unfold Conn, K, Quiet.normal_script in *. cbn. tauto.
Qed.

Lemma h_ensure_ready p : can_connect -> hoare (Ready p) (ensure_connected P c) (fun _ w => exists sid, Conn sid p w) (fun _ _ => False).
Proof.
  intros Hcan w [[sid H]|H]; unfold ensure_connected, mbind, get_sock.
  - destruct H as (A & B). rewrite A. exists sid. split; assumption.
  - pose proof (h_connect p Hcan w H) as Hq. destruct H as [A _]. rewrite A. exact Hq.
Qed.
Lemma h_ex {A} (Pre : Z -> world -> Prop) (m : M P A) Q E : (forall sid, hoare (Pre sid) m Q E) -> hoare (fun w => exists sid, Pre sid w) m Q E.
Proof. intros H w [sid Hw]. apply (H sid w Hw). Qed.
Lemma h_reset_conn sid p : hoare (Conn sid p) (@reset_buf P) (fun _ => St sid p []) (fun _ _ => False).
Proof. intros w (A & B & C0 & D & E & F). unfold reset_buf, Quiet.St, Quiet.normal_script. cbn. rewrite B. repeat split; auto. Qed.

End QuietConnect.

(* ---- the exchanges, from any ready client ---- *)
Section Exchanges.
Variable P : Type.
Variable peer : P -> list Z -> P * list Z.
Variable c : cfg.
Hypothesis Hcan : can_connect c.
Notation world := (world P).
Notation St := (St P).
Notation normal_script := (normal_script P).
Definition anybuf (b : list Z) : Prop := True.
Definition nobuf (b : list Z) : Prop := b = [].
Notation Ready := (Ready P anybuf).
Ltac start_ready XX p :=
  eapply h_bind with (Q1 := fun _ w => exists sid, Conn P XX sid p w); [eapply h_conseq; [apply (h_ensure_ready P peer c XX p Hcan)|auto|auto|intros e w []]|].

Theorem store_io_ready p p' name values cmds lines :
  peer p cmds = (p', lines_bytes lines) -> length lines = length values -> Forall line_ok lines ->
  (forall e, exn_isa e Exception_ = true -> exn_isa e (h_store c) = true) ->
  hoare (Ready p) (store_io P peer c name values false cmds)
        (fun res w => read_store_lines name values lines [] = Ok res /\ exists sid, St sid p' [] w)
        (fun e w => read_store_lines name values lines [] = Raise e /\ w_sock w = None).
Proof.
  intros Hp Hlen Hok Hc. unfold store_io, exchange. start_ready anybuf p. intros u. cbn beta. apply h_ex. intros sid.
  eapply h_bind with (Q1 := fun _ => St sid p []); [eapply h_conseq; [apply (h_reset_conn P anybuf sid p)|auto|auto|intros e w []]|]. intros u1. cbn beta.
  eapply h_try with (E1 := fun e w => read_store_lines name values lines [] = Raise e /\ normal_script w).
  - eapply h_bind with (Q1 := fun _ => St sid p' (lines_bytes lines));
      [eapply h_conseq; [apply (h_send_quiet P peer sid p cmds p' (lines_bytes lines) Hp)|auto|auto|intros e w []]|].
    intros u2. cbn beta iota. eapply h_conseq; [apply (store_loop P sid p' name values lines [] Hlen Hok)|auto| |auto].
    intros a w [A B]. split; [exact A|exists sid; exact B].
  - intros e He. eapply h_conseq; [apply (h_handler_after_read P (fun x => read_store_lines name values lines [] = Raise x) e)|auto|intros a w []|auto].
  - intros e w He [H1 H2]. rewrite (Hc e (read_store_class name values lines [] e H1)) in He. discriminate.
Qed.
Theorem misc_cmd_ready p p' cmds lines :
  peer p (concat cmds) = (p', lines_bytes lines) -> length lines = length cmds -> Forall line_ok lines ->
  (forall e, exn_isa e Exception_ = true -> exn_isa e (h_misc c) = true) ->
  hoare (Ready p) (misc_cmd P peer c cmds false [])
        (fun res w => read_misc_lines lines [] = Ok res /\ exists sid, St sid p' [] w)
        (fun e w => read_misc_lines lines [] = Raise e /\ w_sock w = None).
Proof.
  intros Hp Hlen Hok Hc. unfold misc_cmd, exchange. start_ready anybuf p. intros u. cbn beta. apply h_ex. intros sid.
  eapply h_bind with (Q1 := fun _ => St sid p []); [eapply h_conseq; [apply (h_reset_conn P anybuf sid p)|auto|auto|intros e w []]|]. intros u1. cbn beta.
  eapply h_try with (E1 := fun e w => read_misc_lines lines [] = Raise e /\ normal_script w).
  - eapply h_bind with (Q1 := fun _ => St sid p' (lines_bytes lines));
      [eapply h_conseq; [apply (h_send_quiet P peer sid p (concat cmds) p' (lines_bytes lines) Hp)|auto|auto|intros e w []]|].
    intros u2. cbn beta iota. eapply h_conseq; [apply (misc_loop P sid p' cmds lines [] Hlen Hok)|auto| |auto].
    intros a w [A B]. split; [exact A|exists sid; exact B].
  - intros e He. eapply h_conseq; [apply (h_handler_after_read P (fun x => read_misc_lines lines [] = Raise x) e)|auto|intros a w []|auto].
  - intros e w He [H1 H2]. rewrite (Hc e (read_misc_class lines [] e H1)) in He. discriminate.
Qed.
Theorem store_io_noreply_ready p p' name values cmds : peer p cmds = (p', []) ->
  hoare (Ready p) (store_io P peer c name values true cmds) (fun _ w => exists sid, St sid p' [] w) (fun _ _ => False).
Proof.
  intros Hp. unfold store_io, exchange. start_ready anybuf p. intros u. cbn beta. apply h_ex. intros sid.
  eapply h_bind with (Q1 := fun _ => St sid p []); [apply (h_reset_conn P anybuf sid p)|]. intros u1. cbn beta.
  eapply h_try with (E1 := fun _ _ => False).
  - eapply h_bind with (Q1 := fun _ => St sid p' []); [apply (h_send_quiet P peer sid p cmds p' [] Hp)|]. intros u2. cbn beta iota. apply h_ret'. intros w H. exists sid. exact H.
  - intros e He w [].
  - intros e w He [].
Qed.
Theorem store_io_noreply_value_ready p p' name values cmds : peer p cmds = (p', []) ->
  hoare (Ready p) (store_io P peer c name values true cmds)
        (fun r w => r = fold_left (fun d kv => dict_set d (fst kv) (DBool true)) values [] /\ exists sid, St sid p' [] w) (fun _ _ => False).
Proof.
  intros Hp. unfold store_io, exchange. start_ready anybuf p. intros u. cbn beta. apply h_ex. intros sid.
  eapply h_bind with (Q1 := fun _ => St sid p []); [apply (h_reset_conn P anybuf sid p)|]. intros u1. cbn beta.
  eapply h_try with (E1 := fun _ _ => False).
  - eapply h_bind with (Q1 := fun _ => St sid p' []); [apply (h_send_quiet P peer sid p cmds p' [] Hp)|]. intros u2. cbn beta iota. apply h_ret'.
    intros w H. split; [reflexivity|exists sid; exact H].
  - intros e He w [].
  - intros e w He [].
Qed.
Theorem misc_cmd_noreply_ready p p' cmds : peer p (concat cmds) = (p', []) ->
  hoare (Ready p) (misc_cmd P peer c cmds true []) (fun _ w => exists sid, St sid p' [] w) (fun _ _ => False).
Proof.
  intros Hp. unfold misc_cmd, exchange. start_ready anybuf p. intros u. cbn beta. apply h_ex. intros sid.
  eapply h_bind with (Q1 := fun _ => St sid p []); [apply (h_reset_conn P anybuf sid p)|]. intros u1. cbn beta.
  eapply h_try with (E1 := fun _ _ => False).
  - eapply h_bind with (Q1 := fun _ => St sid p' []); [apply (h_send_quiet P peer sid p (concat cmds) p' [] Hp)|]. intros u2. cbn beta iota. apply h_ret'. intros w H. exists sid. exact H.
  - intros e He w [].
  - intros e w He [].
Qed.
(* retrievals: _fetch_cmd empties its buffer first and connects inside the try block *)
Theorem fetch_io_ready p p' name wc remapped cmd items :
  peer p cmd = (p', items_bytes wc items) -> Forall item_wf items -> c_ignore_exc c = false -> h_fetch c = BaseException ->
  hoare (Ready p) (fetch_io P peer c name wc remapped cmd)
        (fun res w => read_items c wc remapped items [] = Ok res /\ exists sid, St sid p' [] w)
        (fun e w => read_items c wc remapped items [] = Raise e /\ w_sock w = None).
Proof.
  intros Hp Hwf Hign Hh. unfold fetch_io, exchange.
  eapply h_bind with (Q1 := fun _ => QuietConnect.Ready P nobuf p).
  { intros w [[sid (A & B & C0 & D & E & F)]|(A & C0 & D & E & F)]; unfold reset_buf; [left; exists sid|right];
      unfold Conn, Closed, K, Quiet.normal_script, nobuf; cbn; repeat split; auto. }
  intros u1. cbn beta.
  eapply h_try with (E1 := fun e w => read_items c wc remapped items [] = Raise e /\ normal_script w).
  - start_ready nobuf p. intros u. cbn beta. apply h_ex. intros sid.
    eapply h_conseq with (Pre' := St sid p []) (Q' := fun res w => read_items c wc remapped items [] = Ok res /\ St sid p' [] w)
                         (E' := fun e w => read_items c wc remapped items [] = Raise e /\ normal_script w).
    + eapply h_bind with (Q1 := fun _ => St sid p' (items_bytes wc items));
        [eapply h_conseq; [apply (h_send_quiet P peer sid p cmd p' (items_bytes wc items) Hp)|auto|auto|intros e w []]|].
      intros u2. cbn beta. intros w Hw.
      apply (fetch_loop_quiet P peer c sid p' name wc remapped items _ [] Hwf); [|exact Hw].
      destruct Hw as (S1 & _ & S3 & _). unfold cur_avail. rewrite S1, S3. unfold items_bytes. rewrite app_length. pose proof (items_len P peer wc items). lia.
    + intros w (A & B & C0 & D & E & F). unfold nobuf in F. unfold Quiet.St. rewrite F, B. repeat split; auto.
    + intros a w [A B]. split; [exact A|exists sid; exact B].
    + auto.
  - intros e He. rewrite Hign. cbn [andb].
    eapply h_conseq; [apply (h_handler_after_read P (fun x => read_items c wc remapped items [] = Raise x) e)|auto|intros a w []|auto].
  - intros e w He _. rewrite Hh in He. destruct e; discriminate.
Qed.
End Exchanges.
