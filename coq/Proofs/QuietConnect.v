(* Exact consumption for calls that have to (re)connect first: on a client that is closed (after a failed call, or never
   used) or connected with nothing pending on the socket - whatever its local buffer still holds - the exchange connects
   if it must, and then reads exactly the peer's reply.  Completes c01_exact_* of Quiet.v / QuietFetch.v. *)
From Coq Require Import ZArith List Bool Lia.
From PM Require Import Lib.Py Spec.LegalKey Model.Lits Model.World Model.Readers Model.Serde Model.Client Proofs.Hoare Proofs.ReaderFacts
                       Proofs.Quiet Proofs.QuietFetch.
Import ListNotations.
Open Scope Z_scope.

Section QuietConnect.
Variable P : Type.
Variable peer : P -> list Z -> P * list Z.
Variable c : cfg.
Notation world := (world P).
Notation St := (St P).
Notation normal_script := (normal_script P).

(* the parts of the world a connection attempt does not touch *)
Definition K (p : P) (w : world) : Prop := w_peer w = p /\ ff (w_choices w) /\ normal_script w.
Definition Closed (p : P) (w : world) : Prop := w_sock w = None /\ K p w.
Definition Conn (sid : Z) (p : P) (w : world) : Prop := w_sock w = Some sid /\ conn_get (w_conns w) sid = [] /\ K p w.
Definition Ready (p : P) (w : world) : Prop := (exists sid, Conn sid p w) \/ Closed p w.
(* a closed client that has made a socket sid with nothing pending on it *)
Definition Mid (sid : Z) (p : P) (w : world) : Prop := w_sock w = None /\ conn_get (w_conns w) sid = [] /\ K p w.
Definition can_connect : Prop := c_tcp c = false \/ 1 <= c_naddr c.

Lemma St_Conn sid p w : St sid p [] w -> Conn sid p w.
Proof. intros H. destruct (St_nil P sid p w H) as [_ Ha]. destruct H as (H1 & H2 & _ & H4 & H5). repeat split; auto. Qed.

(* predicates that look only at the socket, the peer, the choices, the connections and the script's normality *)
Definition stable (I : world -> Prop) : Prop :=
  (forall w, I w -> normal_script w) /\ (forall w t, I w -> I (upd_trace w t)) /\ (forall w o r, I w -> w_script w = o :: r -> I (upd_script w r)).
Lemma stable_K_like (F : world -> Prop) :
  (forall w t, F w -> F (upd_trace w t)) -> (forall w r, F w -> F (upd_script w r)) ->
  forall p, stable (fun w => F w /\ K p w).
Proof.
  intros Ht Hs p. split; [intros w [_ (_ & _ & H)]; exact H|]. split.
  - intros w t [Hf (A & B & C0)]. split; [apply Ht, Hf|]. unfold K, Quiet.normal_script. cbn. auto.
  - intros w o r [Hf (A & B & C0)] E. split; [apply Hs, Hf|]. unfold K, Quiet.normal_script in *. cbn. rewrite E in C0. repeat split; auto. apply (Forall_inv_tail C0).
Qed.
Lemma stable_Closed p : stable (Closed p).
Proof. apply (stable_K_like (fun w => w_sock w = None)); intros; assumption. Qed.
Lemma stable_Mid sid p : stable (Mid sid p).
Proof.
  pose proof (stable_K_like (fun w => w_sock w = None /\ conn_get (w_conns w) sid = []) (fun w t H => H) (fun w r H => H) p) as S.
  destruct S as (S1 & S2 & S3). split; [intros w (A & B & C0); apply (S1 w); tauto|]. split.
  - intros w t (A & B & C0). destruct (S2 w t (conj (conj A B) C0)) as [[X Y] Z0]. repeat split; auto; apply Z0.
  - intros w o r (A & B & C0) E. destruct (S3 w o r (conj (conj A B) C0) E) as [[X Y] Z0]. repeat split; auto; apply Z0.
Qed.
Lemma h_log_stable I e : stable I -> hoare I (log (P:=P) e) (fun _ => I) (fun _ _ => False).
Proof. intros (_ & S2 & _) w H. unfold log. apply S2, H. Qed.
Lemma h_pop_stable I : stable I -> hoare I (pop (P:=P)) (fun o w => o = ONormal /\ I w) (fun _ _ => False).
Proof.
  intros (S1 & _ & S3) w H. unfold pop. destruct (w_script w) as [|o r] eqn:E; [auto|].
  pose proof (S1 w H) as Hn. unfold Quiet.normal_script in Hn. rewrite E in Hn. pose proof (Forall_inv Hn) as Ho. cbn beta in Ho. subst o.
  split; [reflexivity|apply (S3 w ONormal r H E)].
Qed.
Lemma h_call_stable I e : stable I -> hoare I (call (P:=P) e) (fun _ => I) (fun _ _ => False).
Proof.
  intros S. unfold call. eapply h_bind; [apply (h_log_stable I e S)|]. intros _.
  eapply h_bind; [apply (h_pop_stable I S)|]. intros o. intros w [-> H]. exact H.
Qed.

Lemma conn_get_set_other cs a b x : a <> b -> conn_get (conn_set cs a x) b = conn_get cs b.
Proof.
  intros N. induction cs as [|[s y] t IH]; cbn; [destruct (Z.eqb_spec a b); [contradiction|reflexivity]|].
  destruct (Z.eqb_spec s a); cbn.
  - subst s. destruct (Z.eqb_spec a b); [contradiction|reflexivity].
  - destruct (Z.eqb_spec s b); [reflexivity|exact IH].
Qed.

(* making the socket object (and wrapping it for TLS) *)
Lemma h_fresh_sid p : hoare (Closed p) (fresh_sid (P:=P)) (fun sid w => Mid sid p w) (fun _ _ => False).
Proof.
  intros w (A & B & C0 & D). unfold fresh_sid, Mid, K, Quiet.normal_script. cbn. rewrite conn_get_set_same. repeat split; auto.
Qed.
Lemma h_fresh_wrapped sid p : hoare (Mid sid p) (fresh_wrapped (P:=P) sid) (fun w2 w => Mid w2 p w) (fun _ _ => False).
Proof.
  intros w (A & B & C0 & D & E). unfold fresh_wrapped, Mid, K, Quiet.normal_script. cbn.
  destruct (Z.eq_dec sid (w_next w)) as [X|X].
  - subst sid. rewrite conn_get_set_same. repeat split; auto.
  - rewrite (conn_get_set_other _ sid (w_next w)) by exact X. rewrite conn_get_set_same. repeat split; auto.
Qed.

Lemma h_try_make p j : hoare (Closed p) (try_make P c j) (fun r w => exists sid, r = inl sid /\ Mid sid p w) (fun _ _ => False).
Proof.
  unfold try_make. eapply h_bind; [apply (h_pop_stable _ (stable_Closed p))|]. intros o.
  intros w [-> H]. revert w H. change (hoare (Closed p) (mbind (fresh_sid (P:=P)) (fun sid => mbind (log (ESocket sid j)) (fun _ =>
     mtry (mbind (if c_nodelay c then call (ESetopt sid 1) else ret tt) (fun _ =>
           if c_tls c then mbind pop (fun o2 => match o2 with
                                                 | OFail e => mbind (log (EWrapFail sid)) (fun _ => throw e)
                                                 | _ => mbind (fresh_wrapped sid) (fun w0 => mbind (log (EWrap sid w0)) (fun _ => ret (inl w0))) end)
           else ret (inl sid))) Exception_ (fun e => mbind (call (EClose sid)) (fun _ => ret (inr e))))))
     (fun r w => exists sid, r = inl sid /\ Mid sid p w) (fun _ _ => False)).
  eapply h_bind; [apply h_fresh_sid|]. intros sid.
  eapply h_bind; [apply (h_log_stable _ _ (stable_Mid sid p))|]. intros _.
  eapply h_try with (E1 := fun _ _ => False); [|intros e He w []|intros e w He []].
  eapply h_bind with (Q1 := fun _ => Mid sid p).
  { destruct (c_nodelay c); [apply (h_call_stable _ _ (stable_Mid sid p))|apply h_ret']; auto. }
  intros _. destruct (c_tls c).
  - eapply h_bind; [apply (h_pop_stable _ (stable_Mid sid p))|]. intros o2. intros w [-> H]. revert w H.
    change (hoare (Mid sid p) (mbind (fresh_wrapped (P:=P) sid) (fun w0 => mbind (log (EWrap sid w0)) (fun _ => ret (inl w0))))
                  (fun r w => exists sid0, r = inl sid0 /\ Mid sid0 p w) (fun _ _ => False)).
    eapply h_bind; [apply h_fresh_wrapped|]. intros w0.
    eapply h_bind; [apply (h_log_stable _ _ (stable_Mid w0 p))|]. intros _. apply h_ret'. intros w H. exists w0. auto.
  - apply h_ret'. intros w H. exists sid. auto.
Qed.

Lemma h_connect p : can_connect -> hoare (Closed p) (client_connect P c) (fun _ w => exists sid, Conn sid p w) (fun _ _ => False).
Proof.
  intros Hcan. unfold client_connect.
  eapply h_bind with (Q1 := fun _ => Closed p).
  { intros w H. unfold client_close, mbind, get_sock. destruct H as [Hs Hk]. rewrite Hs. split; assumption. }
  intros _.
  eapply h_bind with (Q1 := fun sj w => Mid (fst sj) p w).
  { destruct (c_tcp c) eqn:Et.
    - destruct Hcan as [X|Hn]; [discriminate|].
      eapply h_bind; [apply (h_call_stable _ _ (stable_Closed p))|]. intros _.
      destruct (Z.to_nat (c_naddr c)) as [|n] eqn:En; [lia|]. cbn [addr_loop].
      eapply h_bind with (Q1 := fun r w => exists sid, r = (Some (sid, 0), None) /\ Mid sid p w).
      + eapply h_bind; [apply (h_try_make p 0)|]. intros r. intros w (sid & -> & H). exists sid. auto.
      + intros r. intros w (sid & -> & H). exact H.
    - eapply h_bind; [apply (h_pop_stable _ (stable_Closed p))|]. intros o. intros w [-> H]. revert w H.
      change (hoare (Closed p) (mbind (fresh_sid (P:=P)) (fun sid => mbind (log (ESocket sid (-1))) (fun _ => ret (sid, -1))))
                    (fun sj w => Mid (fst sj) p w) (fun _ _ => False)).
      eapply h_bind; [apply h_fresh_sid|]. intros sid.
      eapply h_bind; [apply (h_log_stable _ _ (stable_Mid sid p))|]. intros _. apply h_ret'. auto. }
  intros [sid j]. cbn [fst].
  eapply h_bind with (Q1 := fun _ => Mid sid p).
  { eapply h_try with (E1 := fun _ _ => False); [|intros e He w []|intros e w He []].
    eapply h_bind; [apply (h_call_stable _ _ (stable_Mid sid p))|]. intros _.
    eapply h_bind with (Q1 := fun _ => Mid sid p).
    { destruct (c_keepalive c); [|apply h_ret'; auto].
      eapply h_bind; [apply (h_call_stable _ _ (stable_Mid sid p))|]. intros _.
      eapply h_bind; [apply (h_call_stable _ _ (stable_Mid sid p))|]. intros _.
      eapply h_bind; [apply (h_call_stable _ _ (stable_Mid sid p))|]. intros _. apply (h_call_stable _ _ (stable_Mid sid p)). }
    intros _. eapply h_bind; [apply (h_call_stable _ _ (stable_Mid sid p))|]. intros _. apply (h_call_stable _ _ (stable_Mid sid p)). }
  intros _. intros w (A & B & C0). unfold set_sock. exists sid. unfold Conn, K, Quiet.normal_script in *. cbn. tauto.
Qed.

Lemma h_ensure_ready p : can_connect -> hoare (Ready p) (ensure_connected P c) (fun _ w => exists sid, Conn sid p w) (fun _ _ => False).
Proof.
  intros Hcan w [[sid H]|H]; unfold ensure_connected, mbind, get_sock.
  - destruct H as (A & B). rewrite A. exists sid. split; assumption.
  - pose proof (h_connect p Hcan w H) as X. destruct H as [A _]. rewrite A. exact X.
Qed.
Lemma h_ex {A} (Pre : Z -> world -> Prop) (m : M P A) Q E : (forall sid, hoare (Pre sid) m Q E) -> hoare (fun w => exists sid, Pre sid w) m Q E.
Proof. intros H w [sid Hw]. apply (H sid w Hw). Qed.
Lemma h_reset_conn sid p : hoare (Conn sid p) (@reset_buf P) (fun _ => St sid p []) (fun _ _ => False).
Proof. intros w (A & B & C0 & D & E). unfold reset_buf, Quiet.St, Quiet.normal_script. cbn. rewrite B. repeat split; auto. Qed.
End QuietConnect.
