(* C07 — ignore_exc turns every read failure into a miss.
   Part 1: Client (the fetch path of Model/Client.v); part 2: PooledClient (Model/Pooled.v);
   part 3: HashClient (Model/Hash.v). *)
From Coq Require Import ZArith List Bool Lia.
From PM Require Import Lib.Py Spec.LegalKey Model.Lits Model.World Model.Readers Model.Serde Model.Client
                       Spec.Lifecycle Proofs.Hoare Proofs.C06Proof Model.Pooled Proofs.PoolProof
                       Model.Hash Proofs.C12Proof Proofs.C13Proof.
Import ListNotations.
Open Scope Z_scope.

(* ------------------------------------------------------------------ Client *)
Section C07Client.
Variable P : Type.
Variable peer : P -> list Z -> P * list Z.
Variable c : cfg.
Hypothesis tls_tcp : c_tls c = true -> c_tcp c = true.
Hypothesis ign : c_ignore_exc c = true.
(* the cleanup handler of the fetch path covers at least Exception (Gen/Handlers.v records the class in the source) *)
Hypothesis catches : forall e, exn_isa e Exception_ = true -> exn_isa e (h_fetch c) = true.
Notation world := (world P).
Notation Inv := (Inv P c).
Notation InvN := (InvN P c).
Notation InvS := (InvS P c).

(* close() never raises from the boundary invariant (scripted close failures are Exception-class and swallowed) *)
Lemma close_noraise : hoare Inv (client_close P) (fun _ => InvN) (fun _ _ => False).
Proof.
  intros w [Hs Hm]. unfold client_close, mbind, get_sock.
  destruct (w_sock w) as [sid|] eqn:Es.
  - assert (Hpre : As P c (Ready c sid) (Some sid) w) by (repeat split; auto).
    pose proof (h_call P c (Ready c sid) (Some sid) (EClose sid) w Hpre) as Hc.
    unfold mfinally, mtry.
    destruct (call (EClose sid) w) as [[uu|x] w'] eqn:Ec.
    + pose proof (h_drop_sock P c _ _ (fun _ _ => False) w' Hc) as Hd. unfold Ready in Hd.
      rewrite (mon_close c sid 3 (c_tls c)) in Hd.
      destruct (drop_sock w') as [[u2|e2] w'']; [exact Hd|destruct Hd].
    + destruct Hc as [Hx Hc]. rewrite Hx. cbn [ret].
      pose proof (h_drop_sock P c _ _ (fun _ _ => False) w' Hc) as Hd. unfold Ready in Hd.
      rewrite (mon_close c sid 3 (c_tls c)) in Hd.
      destruct (drop_sock w') as [[u2|e2] w'']; [exact Hd|destruct Hd].
  - cbn. repeat split; auto.
Qed.

(* the body of _fetch_cmd's try block *)
Definition fetch_body (name : list Z) (expect_cas : bool) (remapped : list (list Z * dyn)) (cmd : list Z) : M P (list dyn) :=
  mbind (ensure_connected P c) (fun _ => mbind (send peer cmd) (fun _ =>
    fun w => fetch_loop P (S (S (length (w_buf w ++ cur_avail w)))) c name expect_cas remapped [] w)).

Lemma fetch_io_unfold name expect_cas remapped cmd :
  fetch_io P peer c name expect_cas remapped cmd =
  exchange P (mtry (fetch_body name expect_cas remapped cmd) (h_fetch c)
                   (fun e => mbind (client_close P) (fun _ => if c_ignore_exc c && exn_isa e Exception_ then ret [] else throw e))).
Proof. reflexivity. Qed.

Lemma fetch_body_inv name expect_cas remapped cmd :
  hoare Inv (fetch_body name expect_cas remapped cmd) (fun _ => Inv) (fun _ => Inv).
Proof.
  unfold fetch_body.
  eapply h_bind with (Q1 := fun _ => InvS).
  { eapply h_conseq; [apply (h_ensure_connected P c tls_tcp)|auto|auto|intros e w H; apply InvN_Inv, H]. }
  intros u1. cbn beta. eapply h_bind with (Q1 := fun _ => InvS).
  { eapply h_conseq; [apply (h_send P peer c tls_tcp)|auto|auto|intros e w H; apply InvS_Inv, H]. }
  intros u2.
  apply (h_read P InvS (fun w => S (S (length (w_buf w ++ cur_avail w))))
                (fun fuel => fetch_loop P fuel c name expect_cas remapped [])).
  intros fuel.
  eapply h_conseq; [apply (rd_fetch_loop P c tls_tcp)|auto|intros a w H; apply InvS_Inv, H|auto].
Qed.

(* (1) no Exception-class error ever escapes the socket phase of a read *)
Theorem fetch_io_never_raises name expect_cas remapped cmd :
  hoare Inv (fetch_io P peer c name expect_cas remapped cmd) (fun _ => Inv)
        (fun e w => Inv w /\ exn_isa e Exception_ = false).
Proof.
  rewrite fetch_io_unfold. unfold exchange.
  eapply h_bind; [apply (Inv_reset_buf P _ Inv (Inv_stable P c))|]. intros u. cbn beta.
  eapply h_try with (E1 := fun _ => Inv).
  - apply fetch_body_inv.
  - intros e He. eapply h_bind with (Q1 := fun _ => InvN).
    + eapply h_conseq; [apply close_noraise|auto|auto|intros x w []].
    + intros u3. rewrite ign. cbn [andb]. destruct (exn_isa e Exception_) eqn:Ex.
      * apply h_ret'. intros w H. apply InvN_Inv, H.
      * apply h_throw'. intros w H. split; [apply InvN_Inv, H|exact Ex].
  - intros e w He H. split; [exact H|].
    destruct (exn_isa e Exception_) eqn:Ex; [|reflexivity]. rewrite (catches e Ex) in He. discriminate.
Qed.

(* (2) whenever the try block fails with an Exception-class error, the fetch returns the empty result,
       the connection is closed and self.sock is None: the next call reconnects *)
Theorem fetch_io_failure_is_empty name expect_cas remapped cmd (w : world) e w1 :
  Inv w ->
  fetch_body name expect_cas remapped cmd (snd (reset_buf w)) = (Raise e, w1) -> exn_isa e Exception_ = true ->
  exists w2, fetch_io P peer c name expect_cas remapped cmd w = (Ok [], w2) /\ InvN w2.
Proof.
  intros Hw Hb He. rewrite fetch_io_unfold. unfold exchange, mbind at 1.
  assert (Hw0 : Inv (snd (reset_buf w))) by (apply (Inv_stable P c) with (w := w); auto).
  destruct (reset_buf w) as [r0 w0] eqn:E0. cbn [snd] in *.
  assert (r0 = Ok tt) by (unfold reset_buf in E0; inversion E0; reflexivity). subst r0.
  unfold mtry. rewrite Hb, (catches e He).
  pose proof (fetch_body_inv name expect_cas remapped cmd w0 Hw0) as H1. rewrite Hb in H1.
  pose proof (close_noraise w1 H1) as H2. unfold mbind.
  destruct (client_close P w1) as [[u|x] w2]; [|destruct H2].
  rewrite ign, He. cbn. exists w2. split; [reflexivity|exact H2].
Qed.

(* ... and when it succeeds the fetch returns its result unchanged *)
Theorem fetch_io_success name expect_cas remapped cmd (w : world) r w1 :
  fetch_body name expect_cas remapped cmd (snd (reset_buf w)) = (Ok r, w1) ->
  fetch_io P peer c name expect_cas remapped cmd w = (Ok r, w1).
Proof.
  intros Hb. rewrite fetch_io_unfold. unfold exchange, mbind at 1.
  destruct (reset_buf w) as [r0 w0] eqn:E0. cbn [snd] in *.
  assert (r0 = Ok tt) by (unfold reset_buf in E0; inversion E0; reflexivity). subst r0.
  unfold mtry. rewrite Hb. reflexivity.
Qed.

(* the reading loop hands back the accumulated result untouched when the reply is just END: with nothing
   accumulated that is the empty result, i.e. the miss *)
Theorem fetch_loop_end fuel name expect_cas remapped result (w w' : world) :
  guarded_reader P (fun cs avail buf => readline cs avail [] buf 0) w = (Ok L_END, w') ->
  fetch_loop P (S fuel) c name expect_cas remapped result w = (Ok result, w').
Proof. intros H. cbn [fetch_loop]. unfold mbind at 1. rewrite H. reflexivity. Qed.

(* the public read operations: validation, then the fetch, then a pure function of its result *)
Definition read_args (o : op) : option (list Z * list dyn * bool * list Z * option dyn) :=
  match o with
  | OpGet key _ => Some (L_get, [key], false, c_prefix c, None)
  | OpGat key expire _ => Some (L_gat, [key], false, c_prefix c, Some expire)
  | OpGets key _ _ => Some (L_gets, [key], true, c_prefix c, None)
  | OpGats key expire _ _ => Some (L_gats, [key], true, c_prefix c, Some expire)
  | OpGetMany _ keys => match keys with [] => None | _ => Some (L_get, keys, false, c_prefix c, None) end
  | OpGetsMany _ keys => match keys with [] => None | _ => Some (L_gets, keys, true, c_prefix c, None) end
  | _ => None end.
Definition read_finish (o : op) (r : list dyn) : dyn :=
  match o with
  | OpGet key d | OpGat key _ d => lookup_or r key d
  | OpGets key d cd | OpGats key _ d cd => lookup_or r key (DTuple [d; cd])
  | _ => DDict r end.

Lemma run_op_read o name keys ec prefix expire :
  read_args o = Some (name, keys, ec, prefix, expire) ->
  run_op P peer c o = mbind (fetch_cmd P peer c name keys ec prefix expire) (fun r => ret (read_finish o r)).
Proof.
  destruct o; cbn [read_args]; try discriminate; try (intros H; inversion H; subst; reflexivity).
  - destruct keys0; [discriminate|]. intros H; inversion H; subst; reflexivity.
  - destruct keys0; [discriminate|]. intros H; inversion H; subst; reflexivity.
Qed.

(* the value a read returns for the empty fetch result is the miss value of the call *)
Theorem read_finish_empty o d : miss_value o = Some d -> (match o with OpStatsRaw _ => False | _ => True end) -> read_finish o [] = d.
Proof. destruct o; cbn; intros H; inversion H; auto. Qed.

(* (3) every read operation: an exception that escapes is either not Exception-class (KeyboardInterrupt and
       the like) or was raised by argument validation before any socket call (the world is untouched) *)
Theorem read_op_never_raises o d (w : world) : miss_value o = Some d -> (match o with OpStatsRaw _ => False | _ => True end) ->
  Inv w ->
  match run_op P peer c o w with
  | (Ok _, w') => Inv w'
  | (Raise e, w') => Inv w' /\ (exn_isa e Exception_ = false \/ w' = w)
  end.
Proof.
  intros Hm Hs Hw.
  destruct (read_args o) as [[[[[name keys] ec] prefix] expire]|] eqn:Ea.
  - rewrite (run_op_read o _ _ _ _ _ Ea). unfold fetch_cmd, mbind, lift.
    match goal with |- context [match ?x with Ok _ => _ | Raise e => (Raise e, w) end] => destruct x as [pks|e] end;
      [|split; [exact Hw|right; reflexivity]].
    match goal with |- context [match ?x with Ok _ => _ | Raise e => (Raise e, w) end] => destruct x as [eb|e] end;
      [|split; [exact Hw|right; reflexivity]].
    match goal with |- context [fetch_io P peer c ?a ?b ?r ?m w] => pose proof (fetch_io_never_raises a b r m w Hw) as H;
      destruct (fetch_io P peer c a b r m w) as [[res|e] w'] end.
    + exact H.
    + destruct H as [H1 H2]. split; [exact H1|left; exact H2].
  - destruct o; cbn in Ea, Hm; try discriminate; try contradiction.
    + destruct keys; [|discriminate]. cbn. exact Hw.
    + destruct keys; [|discriminate]. cbn. exact Hw.
Qed.

(* the validation prefix of _fetch_cmd as a pure function: the remapped-key table and the command bytes *)
Definition fetch_plan (name : list Z) (keys : list dyn) (prefix : list Z) (expire : option dyn) : exc (list (list Z * dyn) * list Z) :=
  match (fix go (ks : list dyn) : exc (list (list Z)) :=
           match ks with [] => Ok [] | k :: t => bind (check_key c prefix k) (fun w => bind (go t) (fun r => Ok (w :: r))) end) keys with
  | Raise e => Raise e
  | Ok pks =>
    match (match expire with Some e => bind (check_integer c e) (fun b => Ok (L_sp ++ b)) | None => Ok [] end) with
    | Raise e => Raise e
    | Ok eb => Ok (fold_left (fun d kw => bdict_set d (fst kw) (snd kw)) (combine pks keys) [],
                   name ++ eb ++ (match pks with [] => [] | _ => L_sp ++ join_with L_sp pks end) ++ L_crlf)
    end
  end.
Lemma fetch_cmd_plan name keys ec prefix expire (w : world) :
  fetch_cmd P peer c name keys ec prefix expire w =
  match fetch_plan name keys prefix expire with
  | Ok (remapped, cmd) => fetch_io P peer c name ec remapped cmd w
  | Raise e => (Raise e, w) end.
Proof.
  unfold fetch_cmd, fetch_plan, mbind, lift.
  match goal with |- context [match ?x with Ok _ => _ | Raise e => (Raise e, w) end] => destruct x as [pks|e] end; [|reflexivity].
  match goal with |- context [match ?x with Ok _ => _ | Raise e => (Raise e, w) end] => destruct x as [eb|e] end; reflexivity.
Qed.

(* (4) every read operation, at every failure point of its socket phase (connect, send, any recv, reply
       interpretation, deserialisation -- whatever makes the try block raise an Exception-class error):
       the call returns exactly its miss value, and the client is left closed and reusable *)
Theorem read_op_failure_is_miss o d name keys ec prefix expire remapped cmd (w : world) e w1 :
  miss_value o = Some d -> (match o with OpStatsRaw _ => False | _ => True end) ->
  read_args o = Some (name, keys, ec, prefix, expire) -> fetch_plan name keys prefix expire = Ok (remapped, cmd) ->
  Inv w -> fetch_body name ec remapped cmd (snd (reset_buf w)) = (Raise e, w1) -> exn_isa e Exception_ = true ->
  exists w2, run_op P peer c o w = (Ok d, w2) /\ InvN w2.
Proof.
  intros Hm Hs Ha Hp Hw Hb He.
  destruct (fetch_io_failure_is_empty name ec remapped cmd w e w1 Hw Hb He) as (w2 & E2 & I2).
  exists w2. split; [|exact I2].
  rewrite (run_op_read o _ _ _ _ _ Ha). unfold mbind. rewrite fetch_cmd_plan, Hp, E2. cbn [ret].
  rewrite (read_finish_empty o d Hm Hs). reflexivity.
Qed.
(* ... and on success it returns the same function of the fetched items as on a miss (where there are none) *)
Theorem read_op_success o name keys ec prefix expire remapped cmd (w : world) r w1 :
  read_args o = Some (name, keys, ec, prefix, expire) -> fetch_plan name keys prefix expire = Ok (remapped, cmd) ->
  fetch_body name ec remapped cmd (snd (reset_buf w)) = (Ok r, w1) ->
  run_op P peer c o w = (Ok (read_finish o r), w1).
Proof.
  intros Ha Hp Hb. rewrite (run_op_read o _ _ _ _ _ Ha). unfold mbind.
  rewrite fetch_cmd_plan, Hp, (fetch_io_success name ec remapped cmd w r w1 Hb). reflexivity.
Qed.
End C07Client.

(* ------------------------------------------------------------------ PooledClient *)
Section C07Pooled.
Variable P : Type.
Variable peer : P -> list Z -> P * list Z.
Variable c : cfg.
Variable pc : pcfg.
Hypothesis ign : c_ignore_exc c = true.
Hypothesis max1 : 1 <= pc_max pc.
Notation world := (world P).
Notation PM := (PM P).

(* Client.close() swallows every Exception-class failure of socket.close(): what escapes is not Exception-class *)
Lemma client_close_class (w : world) :
  match client_close P w with (Raise e, _) => exn_isa e Exception_ = false | _ => True end.
Proof.
  unfold client_close, mbind, get_sock. destruct (w_sock w) as [sid|]; [|exact I].
  unfold mfinally, mtry. destruct (call (EClose sid) w) as [[u|x] w'].
  - destruct (drop_sock w') as [[u2|e2] w''] eqn:E; [exact I|]. unfold drop_sock in E. discriminate.
  - destruct (exn_isa x Exception_) eqn:Ex.
    + cbn [ret]. destruct (drop_sock w') as [[u2|e2] w''] eqn:E; [exact I|]. unfold drop_sock in E. discriminate.
    + destruct (drop_sock w') as [[u2|e2] w''] eqn:E; [exact Ex|]. unfold drop_sock in E. discriminate.
Qed.
Lemma after_remove_class cid p (w : world) :
  match after_remove P cid p w with (Raise e, _, _) => exn_isa e Exception_ = false | _ => True end.
Proof.
  unfold after_remove, as_client. pose proof (client_close_class (upd_sock w (sock_get (p_socks p) cid))) as H.
  destruct (client_close P _) as [[u|e] w']; exact H.
Qed.
Lemma scan_free_class now : forall free p (w : world),
  match scan_free P pc now free p w with (Raise e, _, _) => exn_isa e Exception_ = false | _ => True end.
Proof.
  induction free as [|[cid last] rest IH]; intros p w; cbn [scan_free]; [exact I|].
  destruct (now - last <=? pc_idle pc); [exact I|]. unfold pbind.
  pose proof (after_remove_class cid (upd_p p (p_used p) rest) w) as H.
  destruct (after_remove P cid (upd_p p (p_used p) rest) w) as [[[u|e] p1] w1]; [apply IH|exact H].
Qed.
Lemma pool_get_class p (w : world) : PInv p ->
  match pool_get P pc p w with (Raise e, _, _) => exn_isa e Exception_ = false | _ => True end.
Proof.
  intros (Hu & Hnd & Hlt). unfold pool_get, pbind.
  destruct (clock P p w) as [[rn p0] w0] eqn:Ec.
  assert (Hc : p_used p0 = p_used p /\ exists now, rn = Ok now).
  { unfold clock in Ec. destruct (p_clock p); inversion Ec; subst; cbn; split; eauto. }
  destruct Hc as (C1 & now & ->).
  pose proof (scan_free_spec P pc now (p_free p0) p0 w0) as Hs.
  pose proof (scan_free_class now (p_free p0) p0 w0) as Hk.
  destruct (scan_free P pc now (p_free p0) p0 w0) as [[r1 p1] w1].
  destruct Hs as (S1 & _ & _).
  destruct r1 as [[cid|]|e]; [exact I| |exact Hk].
  rewrite S1, C1, Hu. cbn [length Z.of_nat]. destruct (Z.geb_spec 0 (pc_max pc)); [lia|exact I].
Qed.
Lemma pool_destroy_class cid p (w : world) :
  match pool_destroy P cid p w with (Raise e, _, _) => exn_isa e Exception_ = false | _ => True end.
Proof. unfold pool_destroy. destruct (remove_first_z (p_used p) cid); [apply after_remove_class|exact I]. Qed.

(* the read wrapper around an inner call that leaves the pool's lists alone *)
Definition read_wrap (inner : Z -> PM dyn) (d : dyn) : PM dyn :=
  with_client P pc (fun cid => ptry P (inner cid) Exception_ (fun e => if c_ignore_exc c then pret P d else pthrow P e)).

Lemma read_wrap_spec inner d p (w : world) : (forall cid, framed P (inner cid)) -> PInv p ->
  match pool_get P pc p w with
  | (Raise e, p1, w1) => read_wrap inner d p w = (Raise e, p1, w1) /\ exn_isa e Exception_ = false
  | (Ok cid, p1, w1) =>
      match inner cid p1 w1 with
      | (Ok v, p2, w2) => exists p3 w3, read_wrap inner d p w = (Ok v, p3, w3) /\ PInv p3
      | (Raise e, p2, w2) =>
          if exn_isa e Exception_ then exists p3 w3, read_wrap inner d p w = (Ok d, p3, w3) /\ PInv p3
          else exists e' p3 w3, read_wrap inner d p w = (Raise e', p3, w3) /\ exn_isa e' Exception_ = false
      end
  end.
Proof.
  intros Hf Hinv. unfold read_wrap, with_client, pbind.
  pose proof (pool_get_spec P pc p w Hinv max1) as Hg. pose proof (pool_get_class p w Hinv) as Hk.
  destruct (pool_get P pc p w) as [[rg p1] w1]. destruct Hg as (G1 & G2 & G3).
  destruct rg as [cid|e]; [|split; [reflexivity|exact Hk]].
  destruct G3 as (U & Ni & Lt). assert (Hh : Held cid p1) by (unfold Held; auto).
  unfold ptry. pose proof (Hf cid p1 w1) as Hfr.
  destruct (inner cid p1 w1) as [[ri p2] w2]. destruct Hfr as (F1 & F2 & F3).
  pose proof (Held_frame cid p1 p2 Hh F1 F2 F3) as Hh2.
  destruct ri as [v|e].
  - pose proof (pool_release_spec P cid p2 w2 Hh2) as Hr.
    destruct (pool_release P cid p2 w2) as [[rr p3] w3]. destruct Hr as (-> & I3 & _).
    exists p3, w3. split; [reflexivity|exact I3].
  - destruct (exn_isa e Exception_) eqn:Ex.
    + rewrite ign. unfold pret. pose proof (pool_release_spec P cid p2 w2 Hh2) as Hr.
      destruct (pool_release P cid p2 w2) as [[rr p3] w3]. destruct Hr as (-> & I3 & _).
      exists p3, w3. split; [reflexivity|exact I3].
    + destruct (exn_isa e (pc_h_pool pc)).
      * pose proof (pool_destroy_class cid p2 w2) as Hd.
        destruct (pool_destroy P cid p2 w2) as [[[u|e2] p3] w3].
        -- exists e, p3, w3. split; [reflexivity|exact Ex].
        -- exists e2, p3, w3. split; [reflexivity|exact Hd].
      * exists e, p2, w2. split; [reflexivity|exact Ex].
Qed.

Lemma pooled_op_read o d : miss_value o = Some d ->
  pooled_op P peer c pc o = read_wrap (fun cid => as_client P cid (run_op P peer (inner_cfg c) o)) d.
Proof. intros H. destruct o; cbn in H; try discriminate; unfold read_wrap; cbn [pooled_op miss_value]; inversion H; reflexivity. Qed.

(* every PooledClient read: nothing Exception-class escapes (not even "pool exhausted": nothing is checked out
   between calls), and the pool invariant holds again whenever the call returns *)
Theorem pooled_read_never_raises o d p (w : world) : miss_value o = Some d -> PInv p ->
  match pooled_op P peer c pc o p w with
  | (Ok _, p', _) => PInv p'
  | (Raise e, _, _) => exn_isa e Exception_ = false end.
Proof.
  intros Hm Hinv. rewrite (pooled_op_read o d Hm).
  pose proof (read_wrap_spec (fun cid => as_client P cid (run_op P peer (inner_cfg c) o)) d p w
                (fun cid => framed_as_client P cid _) Hinv) as H.
  destruct (pool_get P pc p w) as [[[cid|e] p1] w1].
  - destruct (as_client P cid (run_op P peer (inner_cfg c) o) p1 w1) as [[[v|e] p2] w2].
    + destruct H as (p3 & w3 & -> & I3). exact I3.
    + destruct (exn_isa e Exception_).
      * destruct H as (p3 & w3 & -> & I3). exact I3.
      * destruct H as (e' & p3 & w3 & -> & He). exact He.
  - destruct H as [-> He]. exact He.
Qed.

(* ... and whenever the inner client's call fails with an Exception-class error, the wrapper returns exactly
   the call's miss value; when it succeeds, its value *)
Theorem pooled_read_value o d p (w : world) cid p1 w1 : miss_value o = Some d -> PInv p ->
  pool_get P pc p w = (Ok cid, p1, w1) ->
  match as_client P cid (run_op P peer (inner_cfg c) o) p1 w1 with
  | (Ok v, _, _) => exists p3 w3, pooled_op P peer c pc o p w = (Ok v, p3, w3)
  | (Raise e, _, _) => exn_isa e Exception_ = true -> exists p3 w3, pooled_op P peer c pc o p w = (Ok d, p3, w3)
  end.
Proof.
  intros Hm Hinv Eg. rewrite (pooled_op_read o d Hm).
  pose proof (read_wrap_spec (fun cid => as_client P cid (run_op P peer (inner_cfg c) o)) d p w
                (fun cid => framed_as_client P cid _) Hinv) as H.
  rewrite Eg in H.
  destruct (as_client P cid (run_op P peer (inner_cfg c) o) p1 w1) as [[[v|e] p2] w2].
  - destruct H as (p3 & w3 & E & _). eauto.
  - intros Ex. rewrite Ex in H. destruct H as (p3 & w3 & E & _). eauto.
Qed.
End C07Pooled.

(* ------------------------------------------------------------------ HashClient *)
Section C07Hash.
Variable route : list server -> dyn -> exc (option server).
Variable c : hcfg.
Hypothesis route_in : forall nodes k sv, route nodes k = Ok (Some sv) -> sv_mem nodes sv = true.
Hypothesis ign : hc_ignore_exc c = true.

(* with retry_attempts <= 0 a failing server is evicted at once, so no failure record survives a call *)
Definition J (s : hstate) : Prop := hc_retry_attempts c <= 0 -> h_failed s = [].
(* an inner-client call touches only the outcome script and the contact log *)
Definition inner_frame {A} (call : HM A) : Prop :=
  forall s, h_nodes (snd (call s)) = h_nodes s /\ h_failed (snd (call s)) = h_failed s.
Lemma icall_frame sv m a : inner_frame (icall sv m a).
Proof. intros s. unfold icall. destruct (h_out s); cbn; auto. Qed.

Lemma hbind_now {A} (k : Z -> HM A) (s : hstate) :
  exists t s1, hbind now k s = k t s1 /\ h_nodes s1 = h_nodes s /\ h_failed s1 = h_failed s.
Proof.
  destruct (now_spec s) as (t & s1 & En & N1 & _ & N3 & _). exists t, s1. unfold hbind. rewrite En. auto.
Qed.

Lemma remove_server_present sv (s : hstate) rec : sv_get (h_failed s) sv = Some rec -> sv_mem (h_nodes s) sv = true ->
  exists s', remove_server sv s = (Ok tt, s') /\ h_failed s' = sv_del (h_failed s) sv /\ h_nodes s' = sv_remove (h_nodes s) sv.
Proof.
  intros Hf Hn. unfold remove_server, hbind.
  destruct (now_spec s) as (t & s1 & En & N1 & N2 & N3 & N4 & N5 & N6 & N7). rewrite En.
  rewrite N3, Hf. cbn [upd h_nodes]. rewrite N1, Hn. unfold hlog. cbn.
  eexists. split; [reflexivity|]. cbn. auto.
Qed.

Lemma J_frame (s s' : hstate) : h_failed s' = h_failed s -> J s -> J s'.
Proof. unfold J. intros E H X. rewrite E. auto. Qed.

(* _mark_failed_server never raises when the server is in rotation *)
Lemma mark_failed_ok sv (s : hstate) : J s -> sv_mem (h_nodes s) sv = true ->
  exists s', mark_failed c sv s = (Ok tt, s') /\ J s' /\
             (forall x, list_eqb sv x = false -> sv_mem (h_nodes s') x = sv_mem (h_nodes s) x).
Proof.
  intros HJ Hn. unfold mark_failed. destruct (sv_get (h_failed s) sv) as [[att ft]|] eqn:Ef.
  - unfold hbind. destruct (now_spec s) as (t & s1 & En & N1 & N2 & N3 & _). rewrite En.
    eexists. split; [reflexivity|]. split.
    + intros X. specialize (HJ X). rewrite HJ in Ef. discriminate.
    + intros x _. cbn. rewrite N1. reflexivity.
  - unfold hbind at 1. destruct (now_spec s) as (t & s1 & En & N1 & N2 & N3 & _). rewrite En.
    unfold hbind at 1. cbn beta iota.
    set (s2 := upd s1 (h_nodes s1) (h_clients s1) (sv_set (h_failed s1) sv (0, t)) (h_dead s1) (h_last_check s1)).
    destruct (Z.gtb_spec (hc_retry_attempts c) 0) as [Hr|Hr].
    + exists s2. split; [reflexivity|]. split; [intros X; lia|]. intros x _. cbn. rewrite N1. reflexivity.
    + assert (F2 : sv_get (h_failed s2) sv = Some (0, t)) by (cbn; apply sv_get_set_same).
      assert (M2 : sv_mem (h_nodes s2) sv = true) by (cbn; rewrite N1; exact Hn).
      destruct (remove_server_present sv s2 (0, t) F2 M2) as (s3 & E3 & F3 & G3).
      exists s3. split; [exact E3|]. split.
      * intros X. rewrite F3. cbn. rewrite N3, (HJ X). cbn. rewrite (C13Proof.leq_refl sv). reflexivity.
      * intros x Hx. rewrite G3. cbn. rewrite N1. apply sv_mem_remove_other, Hx.
Qed.

(* _safely_run_func with ignore_exc: no Exception-class error escapes; the result is the inner call's value or
   the default; the bookkeeping fact J is kept and no other server's membership changes *)
Theorem safely_run_ignore {A} sv (call : HM A) (d : A) (s : hstate) :
  inner_frame call -> J s -> sv_mem (h_nodes s) sv = true ->
  match safely_run c sv call d s with
  | (Ok v, s') => J s' /\ (v = d \/ exists s1, fst (call s1) = Ok v) /\
             (forall x, list_eqb sv x = false -> sv_mem (h_nodes s') x = sv_mem (h_nodes s) x)
  | (Raise e, s') => exn_isa e Exception_ = false
  end.
Proof.
  intros Hfr HJ Hn.
  (* what the handlers do with an exception raised at a state where sv may or may not still be in rotation *)
  assert (Hh : forall e (s1 : hstate), J s1 -> (exn_isa e OSError = true -> sv_mem (h_nodes s1) sv = true) ->
            (forall x, list_eqb sv x = false -> sv_mem (h_nodes s1) x = sv_mem (h_nodes s) x) ->
            match dispatch_handlers
                    [ (OSError, fun e => hbind (mark_failed c sv) (fun _ => if hc_ignore_exc c then hret d else hthrow e));
                      (Exception_, fun e => if hc_ignore_exc c then hret d else hthrow e) ] e s1 with
            | (Ok v, s') => J s' /\ (v = d \/ exists s1, fst (call s1) = Ok v) /\
             (forall x, list_eqb sv x = false -> sv_mem (h_nodes s') x = sv_mem (h_nodes s) x)
            | (Raise e, s') => exn_isa e Exception_ = false end).
  { intros e s1 J1 M1 O1. cbn [dispatch_handlers]. destruct (exn_isa e OSError) eqn:Eo.
    - destruct (mark_failed_ok sv s1 J1 (M1 eq_refl)) as (s2 & E2 & J2 & O2). unfold hbind. rewrite E2, ign. cbn.
      split; [exact J2|]. split; [left; reflexivity|]. intros x Hx. rewrite (O2 x Hx). apply O1, Hx.
    - destruct (exn_isa e Exception_) eqn:Ee; [rewrite ign; cbn; auto|]. cbn. exact Ee. }
  unfold safely_run, htry, hbind at 1.
  destruct (sv_get (h_failed s) sv) as [[att ft]|] eqn:Ef.
  - assert (Hra : 0 < hc_retry_attempts c).
    { destruct (Z.ltb_spec 0 (hc_retry_attempts c)); [assumption|]. rewrite HJ in Ef by lia. discriminate. }
    assert (JJ : forall s', J s') by (intros s' X; lia).
    destruct (Z.ltb_spec att (hc_retry_attempts c)) as [La|La].
    + unfold hbind at 1. destruct (now_spec s) as (t & s1 & En & N1 & N2 & N3 & _). rewrite En.
      destruct (t - ft >? hc_retry_timeout c).
      * unfold hbind. pose proof (Hfr s1) as [F1 F2].
        destruct (call s1) as [[a|e] s2] eqn:Ec; cbn [fst snd] in *.
        -- cbn. split; [apply JJ|]. split; [right; exists s1; rewrite Ec; reflexivity|]. intros x _. rewrite F1, N1. reflexivity.
        -- apply Hh; [apply JJ| |].
           ++ intros _. rewrite F1, N1. exact Hn.
           ++ intros x _. rewrite F1, N1. reflexivity.
      * cbn. split; [apply JJ|]. split; [left; reflexivity|]. intros x _. rewrite N1. reflexivity.
    + unfold hbind at 1.
      destruct (remove_server_present sv s (att, ft) Ef Hn) as (s1 & E1 & F1 & G1). rewrite E1. cbn [hret].
      pose proof (Hfr s1) as [C1 C2].
      destruct (call s1) as [[a|e] s2] eqn:Ec; cbn [fst snd] in *.
      * split; [apply JJ|]. split; [right; exists s1; rewrite Ec; reflexivity|].
        intros x Hx. rewrite C1, G1. apply sv_mem_remove_other, Hx.
      * (* the evicted server fails again: OSError would call _mark_failed_server on a server that is no longer in
           rotation -- harmless here because retry_attempts > 0 means it only records the failure *)
        cbn [dispatch_handlers]. destruct (exn_isa e OSError) eqn:Eo.
        -- unfold hbind, mark_failed.
           destruct (sv_get (h_failed s2) sv) as [[a2 f2]|]; unfold hbind;
             destruct (now_spec s2) as (t & s3 & En & N1 & N2 & N3 & _); rewrite En.
           ++ rewrite ign. cbn. split; [apply JJ|]. split; [left; reflexivity|].
              intros x Hx. rewrite N1, C1, G1. apply sv_mem_remove_other, Hx.
           ++ destruct (Z.gtb_spec (hc_retry_attempts c) 0); [|lia]. rewrite ign. cbn.
              split; [apply JJ|]. split; [left; reflexivity|].
              intros x Hx. rewrite N1, C1, G1. apply sv_mem_remove_other, Hx.
        -- destruct (exn_isa e Exception_) eqn:Ee; [|exact Ee]. rewrite ign. cbn.
           split; [apply JJ|]. split; [left; reflexivity|]. intros x Hx. rewrite C1, G1. apply sv_mem_remove_other, Hx.
  - cbn [hret]. pose proof (Hfr s) as [C1 C2].
    destruct (call s) as [[a|e] s2] eqn:Ec; cbn [fst snd] in *.
    + split; [apply (J_frame s s2 C2 HJ)|]. split; [right; exists s; rewrite Ec; reflexivity|]. intros x _. rewrite C1. reflexivity.
    + apply Hh; [apply (J_frame s s2 C2 HJ)| |].
      * intros _. rewrite C1. exact Hn.
      * intros x _. rewrite C1. reflexivity.
Qed.

(* nodes in rotation stay in rotation *)
Definition mono (s s' : hstate) : Prop := forall x, sv_mem (h_nodes s) x = true -> sv_mem (h_nodes s') x = true.
Lemma sv_mem_snoc l y x : sv_mem l x = true -> sv_mem (l ++ [y]) x = true.
Proof. unfold sv_mem. intros H. rewrite existsb_app. apply orb_true_iff. left. exact H. Qed.

(* _retry_dead never raises, leaves the failure records alone and only adds servers *)
Lemma retry_dead_ok (s : hstate) : exists s', retry_dead c s = (Ok tt, s') /\ h_failed s' = h_failed s /\ mono s s'.
Proof.
  unfold retry_dead, hbind at 1. destruct (now_spec s) as (t & s1 & En & N1 & N2 & N3 & _). rewrite En.
  destruct (t - h_last_check s1 >? hc_dead_timeout c);
    [|exists s1; split; [reflexivity|split; [exact N3|intros x Hx; rewrite N1; exact Hx]]].
  match goal with |- exists s', ?go ?cs s1 = _ /\ _ =>
    assert (G : forall l s0, exists s', go l s0 = (Ok tt, s') /\ h_failed s' = h_failed s0 /\ mono s0 s') end.
  { induction l as [|sv r IH]; intros s0.
    - eexists. split; [reflexivity|]. cbn. split; [reflexivity|intros x Hx; exact Hx].
    - unfold hbind, add_server, hlog. cbn beta iota.
      match goal with |- exists s', ?g r ?st = _ /\ _ => destruct (IH st) as (s' & E & F & M) end.
      exists s'. split; [exact E|]. split; [rewrite F; reflexivity|].
      intros x Hx. apply M. cbn. destruct (sv_mem (h_nodes s0) sv); [exact Hx|apply sv_mem_snoc, Hx]. }
  match goal with |- exists s', ?go ?cs s1 = _ /\ _ => destruct (G cs s1) as (s' & E & F & M) end.
  exists s'. split; [exact E|]. split; [rewrite F; exact N3|]. intros x Hx. apply M. rewrite N1. exact Hx.
Qed.

(* the key check at the head of _get_client *)
Definition key_gate (key : dyn) : exc unit :=
  match fst (split_key key) with
  | DStr _ | DBytes _ => match key_spec (fst (split_key key)) (hc_unicode c) (hc_prefix c) with Ok _ => Ok tt | Raise e => Raise e end
  | _ => Raise TypeError end.

Lemma get_client_spec key (s : hstate) :
  match get_client route c key s with
  | (Ok (Some sv, k), s') => h_failed s' = h_failed s /\ mono s s' /\ sv_mem (h_nodes s') sv = true
  | (Ok (None, k), s') => h_failed s' = h_failed s /\ mono s s'
  | (Raise e, s') => (key_gate key = Raise e /\ s' = s) \/ exists nodes sk, route nodes sk = Raise e
  end.
Proof.
  unfold get_client, key_gate.
  destruct (split_key key) as [sk k0] eqn:Esk. unfold split_key in Esk.
  assert (E : (match key with DTuple [a; b] => (a, b) | _ => (key, key) end) = (sk, k0)) by exact Esk.
  rewrite E. cbn [fst]. unfold hbind at 1.
  assert (Hrest : forall u : unit,
    match (hbind (fun s0 : hstate => match h_dead s0 with [] => (Ok tt, s0) | _ :: _ => retry_dead c s0 end)
            (fun _ => fun s0 : hstate => match route (h_nodes s0) sk with
               | Ok (Some sv) => (Ok (Some sv, k0), s0)
               | Ok None => if hc_ignore_exc c then (Ok (None, k0), s0) else (Raise MemcacheError, s0)
               | Raise e => (Raise e, s0) end)) s with
    | (Ok (Some sv, k), s') => h_failed s' = h_failed s /\ mono s s' /\ sv_mem (h_nodes s') sv = true
    | (Ok (None, k), s') => h_failed s' = h_failed s /\ mono s s'
    | (Raise e, s') => exists nodes sk, route nodes sk = Raise e
    end).
  { intros _. unfold hbind.
    assert (Hd : exists s1, (match h_dead s with [] => (Ok tt, s) | _ :: _ => retry_dead c s end) = (Ok tt, s1)
                            /\ h_failed s1 = h_failed s /\ mono s s1).
    { destruct (h_dead s); [exists s; split; [reflexivity|split; [reflexivity|intros x Hx; exact Hx]]|apply retry_dead_ok]. }
    destruct Hd as (s1 & -> & F1 & M1).
    destruct (route (h_nodes s1) sk) as [[sv|]|e] eqn:Er.
    - split; [exact F1|]. split; [exact M1|]. apply (route_in _ _ _ Er).
    - rewrite ign. split; [exact F1|exact M1].
    - eauto. }
  destruct sk; try (left; split; reflexivity).
  - destruct (key_spec (DStr s0) (hc_unicode c) (hc_prefix c)) as [x|e]; [|left; split; reflexivity].
    specialize (Hrest tt). destruct (hbind _ _ s) as [[[[sv|] k]|e] s']; try exact Hrest.
    right. exact Hrest.
  - destruct (key_spec (DBytes b) (hc_unicode c) (hc_prefix c)) as [x|e]; [|left; split; reflexivity].
    specialize (Hrest tt). destruct (hbind _ _ s) as [[[[sv|] k]|e] s']; try exact Hrest.
    right. exact Hrest.
Qed.

(* every single-key read (and, for that matter, every single-key command) of a HashClient with ignore_exc:
   what escapes is not Exception-class, unless the key itself is rejected before any server is chosen or the
   hasher raises; the value is the inner client's or the default *)
Theorem run_cmd_ignore meth key d args (s : hstate) : J s ->
  match run_cmd route c meth key d args s with
  | (Ok v, s') => J s' /\ (v = d \/ exists sv a s1, fst (icall sv meth a s1) = Ok v)
  | (Raise e, s') => exn_isa e Exception_ = false \/ (key_gate key = Raise e /\ s' = s) \/ exists nodes sk, route nodes sk = Raise e
  end.
Proof.
  intros HJ. unfold run_cmd, hbind at 1.
  pose proof (get_client_spec key s) as Hg.
  destruct (get_client route c key s) as [[[[sv|] k]|e] s1].
  - destruct Hg as (F1 & M1 & In1).
    pose proof (safely_run_ignore sv (icall sv meth (k :: args)) d s1 (icall_frame sv meth (k :: args)) (J_frame s s1 F1 HJ) In1) as H.
    destruct (safely_run c sv (icall sv meth (k :: args)) d s1) as [[v|e] s2].
    + destruct H as (J2 & [V|(s3 & V)] & _); (split; [exact J2|]); [left; exact V|right; eauto].
    + left. exact H.
  - destruct Hg as (F1 & M1). cbn. split; [apply (J_frame s s1 F1 HJ)|left; reflexivity].
  - right. exact Hg.
Qed.

(* the routing loop of get_many: batches are keyed by distinct servers, all in rotation when the loop ends *)
Lemma collect_get_spec : forall ks b (s : hstate),
  NoDup (map fst b) -> (forall x, In x (map fst b) -> sv_mem (h_nodes s) x = true) ->
  match collect_get route c ks b s with
  | (Ok b', s') => h_failed s' = h_failed s /\ NoDup (map fst b') /\ (forall x, In x (map fst b') -> sv_mem (h_nodes s') x = true)
  | (Raise e, s') => (exists key, In key ks /\ key_gate key = Raise e) \/ exists nodes sk, route nodes sk = Raise e
  end.
Proof.
  induction ks as [|key t IH]; intros b s ND Hin; cbn [collect_get].
  - cbn. auto.
  - unfold hbind at 1. pose proof (get_client_spec key s) as Hg.
    destruct (get_client route c key s) as [[[[sv|] k]|e] s1].
    + destruct Hg as (F1 & M1 & In1).
      destruct (batch_servers_add b sv k ND) as [ND' Hiff].
      assert (Hin' : forall x, In x (map fst (batch_add b sv k)) -> sv_mem (h_nodes s1) x = true).
      { intros x Hx. apply Hiff in Hx. destruct Hx as [Hx| ->]; [apply M1, Hin, Hx|exact In1]. }
      specialize (IH (batch_add b sv k) s1 ND' Hin').
      destruct (collect_get route c t (batch_add b sv k) s1) as [[b'|e] s2].
      * destruct IH as (F2 & R). split; [congruence|exact R].
      * destruct IH as [(k' & Hk & G)|R]; [left; exists k'; split; [right; exact Hk|exact G]|right; exact R].
    + destruct Hg as (F1 & M1).
      assert (Hin' : forall x, In x (map fst b) -> sv_mem (h_nodes s1) x = true) by (intros x Hx; apply M1, Hin, Hx).
      specialize (IH b s1 ND Hin').
      destruct (collect_get route c t b s1) as [[b'|e] s2].
      * destruct IH as (F2 & R). split; [congruence|exact R].
      * destruct IH as [(k' & Hk & G)|R]; [left; exists k'; split; [right; exact Hk|exact G]|right; exact R].
    + destruct Hg as [[G _]|R]; [left; exists key; split; [left; reflexivity|exact G]|right; exact R].
Qed.

(* a server whose batch fails contributes nothing: end.update({}) *)
Lemma dict_update_empty acc : dict_update acc (DDict []) = acc.
Proof. reflexivity. Qed.

Lemma run_get_ignore gets args : forall bs acc (s : hstate), J s ->
  NoDup (map fst bs) -> (forall x, In x (map fst bs) -> sv_mem (h_nodes s) x = true) ->
  match run_get c gets args bs acc s with
  | (Ok _, s') => J s'
  | (Raise e, _) => exn_isa e Exception_ = false end.
Proof.
  induction bs as [|[sv ks] t IH]; intros acc s HJ ND Hin; cbn [run_get]; [exact HJ|].
  unfold hbind at 1. cbn [map fst] in ND, Hin. inversion ND as [|? ? Hni ND']; subst.
  pose proof (safely_run_ignore sv (icall sv (if gets then 3 else 2) (DList ks :: args)) (DDict []) s
                (icall_frame _ _ _) HJ (Hin sv (or_introl eq_refl))) as H.
  destruct (safely_run c sv _ (DDict []) s) as [[v|e] s1]; [|exact H].
  destruct H as (J1 & _ & O1).
  apply IH; [exact J1|exact ND'|].
  intros x Hx. rewrite O1; [apply Hin; right; exact Hx|].
  destruct (list_eqb sv x) eqn:E; [|reflexivity]. apply C13Proof.leq_eq in E. subst x. contradiction.
Qed.

Theorem get_many_ignore gets keys args (s : hstate) : J s ->
  match get_many route c gets keys args s with
  | (Ok _, s') => J s'
  | (Raise e, _) => exn_isa e Exception_ = false \/ (exists key, In key keys /\ key_gate key = Raise e) \/ exists nodes sk, route nodes sk = Raise e
  end.
Proof.
  intros HJ. unfold get_many, hbind at 1.
  pose proof (collect_get_spec keys [] s (NoDup_nil _) (fun x (H : In x []) => match H with end)) as Hc.
  destruct (collect_get route c keys [] s) as [[b|e] s1]; [|right; exact Hc].
  destruct Hc as (F1 & ND & Hin). unfold hbind.
  pose proof (run_get_ignore gets args b [] s1 (J_frame s s1 F1 HJ) ND Hin) as H.
  destruct (run_get c gets args b [] s1) as [[r|e] s2]; [exact H|left; exact H].
Qed.

(* J holds for a freshly constructed client *)
Lemma J_init nodes times outs t0 : J (init_hstate nodes times outs t0).
Proof. intros _. reflexivity. Qed.
End C07Hash.
