(* C05 — the client's interpretation of each reply is the documented result for what the server actually did. *)
From Coq Require Import ZArith List Bool Lia.
From PM Require Import Lib.Py Spec.LegalKey Model.Lits Spec.Proto Spec.Server Model.World Model.Readers Model.Client
                       Proofs.DecimalFacts Proofs.C02Proof.
Import ListNotations.
Open Scope Z_scope.

(* the documented results *)
Definition contract_store (o : Server.outcome) : dyn :=
  match o with OStored => DBool true | ONotFound => DNone | _ => DBool false end.
Definition contract_delete (o : Server.outcome) : dyn := DBool (match o with ODeleted => true | _ => false end).
Definition contract_touch (o : Server.outcome) : dyn := DBool (match o with OTouched => true | _ => false end).
Definition contract_arith (o : Server.outcome) : exc dyn :=
  match o with ONumber z => Ok (DInt z) | ONotFound => Ok DNone | _ => Raise MemcacheClientError end.

(* the client's reading of a single reply line, as the operations of Model/Client.v do it *)
Definition read_store (name line : list Z) : exc dyn := bind (raise_errors line) (fun _ => store_result name line).
Definition read_delete (line : list Z) : exc dyn := bind (raise_errors line) (fun _ => Ok (DBool (list_eqb line L_DELETED))).
Definition read_touch (line : list Z) : exc dyn := bind (raise_errors line) (fun _ => Ok (DBool (list_eqb line L_TOUCHED))).
Definition read_flush (line : list Z) : exc dyn := bind (raise_errors line) (fun _ => Ok (DBool (list_eqb line L_OK))).
Definition read_arith (line : list Z) : exc dyn :=
  bind (raise_errors line) (fun _ =>
    if list_eqb line L_NOT_FOUND then Ok DNone
    else match int_of_text line with Some z => Ok (DInt z) | None => Raise ValueError end).

(* storage commands: whatever the state, the verb and the arguments, the reply line is one the client accepts for
   that verb and it reads it as the documented result of what the server did *)
Theorem store_reading (s : sstate) v k fl e data cas nr :
  let o := snd (exec s (CStore v k fl e data cas nr)) in
  read_store (sverb_name v) (reply_line o) = Ok (contract_store o).
Proof.
  cbn zeta. unfold exec. destruct v; destruct (live s k) as [it|]; cbn [snd]; try reflexivity.
  destruct (i_cas it =? digits_val cas 0); reflexivity.
Qed.
Theorem delete_reading (s : sstate) k nr :
  let o := snd (exec s (CDelete k nr)) in read_delete (reply_line o) = Ok (contract_delete o).
Proof. cbn zeta. unfold exec. destruct (live s k); reflexivity. Qed.
Theorem touch_reading (s : sstate) k e nr :
  let o := snd (exec s (CTouch k e nr)) in read_touch (reply_line o) = Ok (contract_touch o).
Proof. cbn zeta. unfold exec. destruct (live s k); reflexivity. Qed.
Theorem flush_reading (s : sstate) d nr :
  let o := snd (exec s (CFlush d nr)) in read_flush (reply_line o) = Ok (DBool true).
Proof. reflexivity. Qed.

Lemma digits_no_error d : all_digits d = true -> d <> [] -> raise_errors d = Ok tt /\ list_eqb d L_NOT_FOUND = false.
Proof.
  intros H N. destruct d as [|c t]; [contradiction|].
  assert (Hc : is_digit c = true) by (cbn in H; apply andb_true_iff in H; tauto). unfold is_digit in Hc.
  unfold raise_errors. cbn [prefixb L_ERROR L_CLIENT_ERROR L_SERVER_ERROR list_eqb L_NOT_FOUND].
  destruct (Z.eqb_spec 69 c); [lia|]. destruct (Z.eqb_spec 67 c); [lia|]. destruct (Z.eqb_spec 83 c); [lia|].
  destruct (Z.eqb_spec c 78); [lia|]. split; reflexivity.
Qed.
Theorem arith_reading (s : sstate) inc k d nr :
  let o := snd (exec s (CArith inc k d nr)) in 0 <= d -> read_arith (reply_line o) = contract_arith o.
Proof.
  cbn zeta. intros Hd. unfold exec. destruct (live s k) as [it|]; [|reflexivity].
  destruct (numeric (i_data it)) as [cur|] eqn:En; [|reflexivity]. cbn [snd reply_line contract_arith].
  set (n := if inc then (cur + d) mod 2 ^ 64 else Z.max 0 (cur - d)).
  assert (Hn : 0 <= n) by (subst n; destruct inc; [apply Z.mod_pos_bound; lia|lia]).
  destruct (str_of_Z_nonneg n Hn) as (A & B & C).
  destruct (digits_no_error _ A B) as [E1 E2].
  unfold read_arith. rewrite E1. cbn [bind]. rewrite E2, int_of_str_of_Z. reflexivity.
Qed.

(* noreply changes what is sent back, never what is done *)
Definition set_nr (b : bool) (c : cmd) : cmd :=
  match c with
  | CStore v k fl e data cas _ => CStore v k fl e data cas b
  | CDelete k _ => CDelete k b | CArith i k d _ => CArith i k d b | CTouch k e _ => CTouch k e b | CFlush d _ => CFlush d b
  | other => other end.
Theorem noreply_same_effect (s : sstate) c b : exec s (set_nr b c) = exec s c.
Proof. destruct c; reflexivity. Qed.
Theorem noreply_silent (s : sstate) c : is_noreply c = true -> snd (step s c) = [].
Proof. intros H. unfold step. destruct (exec s c). rewrite H. cbn. reflexivity. Qed.

(* a reply is sent exactly when the command does not say noreply, and it is never empty *)
Theorem reply_iff_not_noreply (s : sstate) c : (snd (step s c) = []) <-> is_noreply c = true.
Proof.
  unfold step. destruct (exec s c) as [s' o]. destruct (is_noreply c); split; intros H; try reflexivity; try discriminate.
  cbn [snd] in H. unfold reply in H. destruct o; try (apply app_eq_nil in H; destruct H as [_ H]; discriminate).
Qed.
