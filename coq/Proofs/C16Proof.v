(* C16 — the wrappers behave like Client.
   PooledClient: a call is the inner Client's call on the checked-out client (same result, same world up to
   closing the connection of a client that is being discarded); HashClient with its server in rotation and no
   failover bookkeeping pending: the inner client's call with the bare key; RetryingClient: transparent when
   the first attempt succeeds or attempts = 1. *)
From Coq Require Import ZArith List Bool Lia.
From PM Require Import Lib.Py Model.World Model.Readers Model.Client Model.Pooled Proofs.PoolProof
                       Model.Hash Proofs.C12Proof Proofs.C13Proof Proofs.C07Proof Model.Retrying.
Import ListNotations.
Open Scope Z_scope.

Section C16Pooled.
Variable P : Type.
Variable peer : P -> list Z -> P * list Z.
Variable c : cfg.
Variable pc : pcfg.
Hypothesis noign : c_ignore_exc c = false.
Hypothesis max1 : 1 <= pc_max pc.
Notation world := (world P).

(* _create_client hands every option on: the inner client's configuration is the wrapper's *)
Lemma inner_cfg_id : inner_cfg c = c.
Proof. unfold inner_cfg. destruct c. cbn in *. subst. reflexivity. Qed.

(* the bytes handed to sendall, oldest last *)
Definition sends (tr : list ev) : list ev := filter (fun e => match e with ESend _ _ => true | _ => false end) tr.

Lemma client_close_sends (w : world) : sends (w_trace (snd (client_close P w))) = sends (w_trace w).
Proof.
  unfold client_close, mbind, get_sock. destruct (w_sock w) as [sid|]; [|reflexivity].
  unfold mfinally, mtry, call, mbind, log, pop. cbn [fst snd w_script upd_trace].
  destruct (w_script w) as [|[|x|x] r]; cbn -[exn_isa].
  - destruct (w_sock w); reflexivity.
  - destruct (w_sock w); reflexivity.
  - destruct (exn_isa x Exception_); cbn; destruct (w_sock w); reflexivity.
  - destruct (w_sock w); reflexivity.
Qed.
Lemma after_remove_sends cid p (w : world) :
  sends (w_trace (snd (after_remove P cid p w))) = sends (w_trace w).
Proof.
  unfold after_remove, as_client.
  pose proof (client_close_sends (upd_sock w (sock_get (p_socks p) cid))) as H.
  destruct (client_close P _) as [r w']. cbn in *. exact H.
Qed.

(* every PooledClient method other than close/quit *)
Definition plain_op (o : op) : Prop := match o with OpClose | OpQuit => False | _ => True end.

Lemma pooled_op_plain o : plain_op o ->
  pooled_op P peer c pc o =
  with_client P pc (fun cid =>
    match miss_value o with
    | Some dflt => ptry P (as_client P cid (run_op P peer (inner_cfg c) o)) Exception_
                     (fun e => if c_ignore_exc c then pret P dflt else pthrow P e)
    | None => as_client P cid (run_op P peer (inner_cfg c) o) end).
Proof. destruct o; cbn; intros H; try reflexivity; destruct H. Qed.

(* without ignore_exc the read wrapper is the identity *)
Lemma swallow_id o cid p (w : world) :
  (match miss_value o with
   | Some dflt => ptry P (as_client P cid (run_op P peer (inner_cfg c) o)) Exception_
                    (fun e => if c_ignore_exc c then pret P dflt else pthrow P e)
   | None => as_client P cid (run_op P peer (inner_cfg c) o) end) p w
  = as_client P cid (run_op P peer c o) p w.
Proof.
  rewrite inner_cfg_id. destruct (miss_value o); [|reflexivity].
  unfold ptry. destruct (as_client P cid (run_op P peer c o) p w) as [[[v|e] p'] w']; [reflexivity|].
  rewrite noign. unfold pthrow. destruct (exn_isa e Exception_); reflexivity.
Qed.

Lemma with_client_ext {A} (b1 b2 : Z -> PM P A) : (forall cid p w, b1 cid p w = b2 cid p w) ->
  forall p w, with_client P pc b1 p w = with_client P pc b2 p w.
Proof.
  intros H p w. unfold with_client, pbind, ptry.
  destruct (pool_get P pc p w) as [[[cid|e] p1] w1]; [|reflexivity]. rewrite H. reflexivity.
Qed.

Theorem pooled_refines o p (w : world) cid p1 w1 : plain_op o -> PInv p ->
  pool_get P pc p w = (Ok cid, p1, w1) ->
  match as_client P cid (run_op P peer c o) p1 w1 with
  | (Ok v, p2, w2) => exists p3, pooled_op P peer c pc o p w = (Ok v, p3, w2) /\ PInv p3
  | (Raise e, p2, w2) => exists e' p3 w3, pooled_op P peer c pc o p w = (Raise e', p3, w3) /\
                           (e' = e \/ exn_isa e' Exception_ = false) /\ sends (w_trace w3) = sends (w_trace w2)
  end.
Proof.
  intros Hp Hinv Eg. rewrite (pooled_op_plain o Hp).
  rewrite (with_client_ext _ (fun cid => as_client P cid (run_op P peer c o)) (swallow_id o)).
  unfold with_client, pbind. rewrite Eg.
  pose proof (pool_get_spec P pc p w Hinv max1) as Hg. rewrite Eg in Hg. destruct Hg as (G1 & G2 & U & Ni & Lt).
  assert (Hh : Held cid p1) by (unfold Held; auto).
  unfold ptry.
  pose proof (framed_as_client P cid (run_op P peer c o) p1 w1) as Hf.
  destruct (as_client P cid (run_op P peer c o) p1 w1) as [[[v|e] p2] w2]; destruct Hf as (F1 & F2 & F3);
    pose proof (Held_frame cid p1 p2 Hh F1 F2 F3) as Hh2.
  - pose proof (pool_release_spec P cid p2 w2 Hh2) as Hr. unfold pool_release in *.
    destruct Hh2 as (U2 & _). rewrite U2, remove_first_single in *. unfold clock in *.
    destruct (p_clock (upd_p p2 [] (p_free p2))); cbn in *; destruct Hr as (_ & I3 & _); eexists; (split; [reflexivity|exact I3]).
  - destruct (exn_isa e (pc_h_pool pc)); [|exists e, p2, w2; auto].
    unfold pool_destroy. destruct Hh2 as (U2 & _). rewrite U2, remove_first_single.
    pose proof (after_remove_sends cid (upd_p p2 [] (p_free p2)) w2) as Hs.
    pose proof (after_remove_class P cid (upd_p p2 [] (p_free p2)) w2) as Hk.
    destruct (after_remove P cid (upd_p p2 [] (p_free p2)) w2) as [[[u|e2] p3] w3]; cbn [snd] in Hs.
    + exists e, p3, w3. auto.
    + exists e2, p3, w3. auto.
Qed.
End C16Pooled.

(* ------------------------------------------------------------------ HashClient, its server in rotation *)
Section C16Hash.
Variable route : list server -> dyn -> exc (option server).
Variable c : hcfg.
Hypothesis route_in : forall nodes k sv, route nodes k = Ok (Some sv) -> sv_mem nodes sv = true.
Hypothesis noign : hc_ignore_exc c = false.

Theorem hash_single_refines meth key d args (s : hstate) sv k :
  healthy s -> routed route c (h_nodes s) key = Some (sv, k) ->
  match icall sv meth (k :: args) s with
  | (Ok v, s1) => run_cmd route c meth key d args s = (Ok v, s1)
  | (Raise e, s1) => exists s2, run_cmd route c meth key d args s = (Raise e, s2) /\
                                (h_log s2 = h_log s1 \/ exists t, h_log s2 = HEvict sv t :: h_log s1)
  end.
Proof.
  intros Hh Hr. rewrite (run_cmd_healthy route c meth key d args s sv k Hh Hr).
  assert (Hn : sv_mem (h_nodes s) sv = true).
  { unfold routed in Hr. destruct (split_key key) as [sk k0]. destruct (key_ok c sk); [|discriminate].
    destruct (route (h_nodes s) sk) as [[sv0|]|] eqn:Er; try discriminate. injection Hr as <- <-. apply (route_in _ _ _ Er). }
  pose proof (icall_frame sv meth (k :: args) s) as [F1 F2].
  destruct (icall sv meth (k :: args) s) as [[v|e] s1]; [reflexivity|]. cbn [snd] in F1, F2.
  cbn [dispatch_handlers]. rewrite noign.
  destruct (exn_isa e OSError).
  - unfold hbind, mark_failed. destruct Hh as [Hf Hd]. rewrite F2, Hf. cbn [sv_get].
    unfold hbind. destruct (now_spec s1) as (t & s2 & En & N1 & N2 & N3 & N4 & N5 & N6 & N7). rewrite En.
    destruct (hc_retry_attempts c >? 0).
    + eexists. split; [reflexivity|]. left. cbn. exact N7.
    + set (s3 := upd s2 (h_nodes s2) (h_clients s2) (sv_set (h_failed s2) sv (0, t)) (h_dead s2) (h_last_check s2)).
      assert (F3 : sv_get (h_failed s3) sv = Some (0, t)) by (cbn; apply sv_get_set_same).
      assert (M3 : sv_mem (h_nodes s3) sv = true) by (cbn; rewrite N1, F1; exact Hn).
      unfold remove_server, hbind.
      destruct (now_spec s3) as (t' & s4 & En' & M1 & M2 & M3' & M4 & M5 & M6 & M7). rewrite En'.
      rewrite M3', F3. cbn [upd h_nodes]. rewrite M1, M3. unfold hlog, hthrow. cbn.
      eexists. split; [reflexivity|]. right. exists t'. cbn. rewrite M7. cbn. rewrite N7. reflexivity.
  - destruct (exn_isa e Exception_); eexists; (split; [reflexivity|left; reflexivity]).
Qed.
End C16Hash.

(* ------------------------------------------------------------------ RetryingClient *)
Theorem retrying_transparent (c : rcfg) (out : nat -> exc dyn) : 1 <= attempts c ->
  (forall v, out 0%nat = Ok v -> retry c out = (Ok v, [ECall])) /\
  (attempts c = 1 -> retry c out = (out 0%nat, [ECall])).
Proof.
  intros Ha. unfold retry.
  destruct (Z.to_nat (attempts c)) as [|n] eqn:En; [lia|].
  split.
  - intros v Hv. cbn [retry_from]. rewrite Hv. reflexivity.
  - intros H1. assert (n = 0%nat) by lia. subst n. cbn [retry_from].
    destruct (out 0%nat) as [v|e]; [reflexivity|].
    destruct (exn_isa e Exception_); [|reflexivity].
    unfold gives_up. rewrite H1. cbn. reflexivity.
Qed.
