(* Exact consumption for retrievals: a reply made of VALUE blocks closed by END is read by _fetch_cmd's loop item by
   item, each data block by its announced length, and nothing is left unread or over-read. *)
From Coq Require Import ZArith List Bool Lia.
From PM Require Import Lib.Py Spec.LegalKey Model.Lits Model.World Model.Readers Model.Serde Model.Client Proofs.Hoare Proofs.ReaderFacts
                       Proofs.DecimalFacts Proofs.C02Proof Proofs.Quiet.
Import ListNotations.
Open Scope Z_scope.

(* bytes.split() on single-space-joined tokens that contain no whitespace and are not empty gives the tokens back *)
Definition wtok (t : list Z) : Prop := t <> [] /\ Forall (fun ch => is_ws ch = false) t.
Lemma split_ws_run : forall t rest cur, Forall (fun ch => is_ws ch = false) t ->
  split_ws_aux (t ++ rest) cur = split_ws_aux rest (rev t ++ cur).
Proof.
  induction t as [|a t IH]; intros rest cur H; [reflexivity|].
  cbn [app split_ws_aux]. rewrite (Forall_inv H). rewrite IH by apply (Forall_inv_tail H). cbn [rev]. rewrite <- app_assoc. reflexivity.
Qed.
Lemma split_ws_join : forall toks, Forall wtok toks -> split_ws (join_with L_sp toks) = toks.
Proof.
  unfold split_ws. induction toks as [|t r IH]; intros H; [reflexivity|].
  destruct (Forall_inv H) as [Hne Hw]. destruct r as [|t2 r2].
  - cbn [join_with]. rewrite <- (app_nil_r t) at 1. rewrite split_ws_run by exact Hw. rewrite app_nil_r. cbn [split_ws_aux].
    destruct (rev t) as [|x xs] eqn:E.
    + exfalso. apply Hne. rewrite <- (rev_involutive t), E. reflexivity.
    + rewrite <- E, rev_involutive. reflexivity.
  - cbn [join_with]. rewrite split_ws_run by exact Hw. rewrite app_nil_r. cbn [app L_sp split_ws_aux]. change (is_ws 32) with true. cbn iota.
    destruct (rev t) as [|x xs] eqn:E.
    + exfalso. apply Hne. rewrite <- (rev_involutive t), E. reflexivity.
    + rewrite <- E, rev_involutive. f_equal. apply IH, (Forall_inv_tail H).
Qed.

Section QuietFetch.
Variable P : Type.
Variable peer : P -> list Z -> P * list Z.
Variable c : cfg.
Notation world := (world P).
Notation St := (St P).

(* the value reader on a stream that starts with the data block and its CRLF *)
Lemma h_readvalue_quiet sid p data rest :
  hoare (St sid p (data ++ CR :: LF :: rest)) (guarded_reader P (fun cs avail buf => readvalue cs avail [] false (zlen data + 2) buf 0))
        (fun x w => x = data /\ St sid p rest w) (fun _ _ => False).
Proof.
  intros w (H1 & H2 & H3 & H4 & H5). unfold guarded_reader, mtry, run_reader. rewrite H1.
  pose proof (readvalue_stream (zlen data) (zlen_nonneg data) (w_choices w) H4 (conn_get (w_conns w) sid) (w_buf w) 0%nat) as R.
  rewrite H3 in R.
  assert (Hlen : (zlen (data ++ CR :: LF :: rest) >=? zlen data + 2) = true).
  { unfold zlen. rewrite app_length. cbn [length]. lia. }
  rewrite Hlen in R. destruct R as (cs' & avail' & buf' & n' & E & Hr & Hf). rewrite E.
  assert (F : firstn (Z.to_nat (zlen data)) (data ++ CR :: LF :: rest) = data).
  { unfold zlen. rewrite Nat2Z.id. apply firstn_app_len. }
  assert (S : skipn (Z.to_nat (zlen data + 2)) (data ++ CR :: LF :: rest) = rest).
  { unfold zlen. replace (Z.to_nat (Z.of_nat (length data) + 2)) with (length (data ++ [CR; LF])) by (rewrite app_length; cbn; lia).
    replace (data ++ CR :: LF :: rest) with ((data ++ [CR; LF]) ++ rest) by (rewrite <- app_assoc; reflexivity). apply skipn_app_len. }
  rewrite F. rewrite S in Hr.
  match goal with |- context [log_n n' ?e ?w0] => destruct (log_n n' e w0) as [u w2] eqn:El end.
  assert (Hlog : forall k (w0 : world), w_sock (snd (log_n k (ERecv sid) w0)) = w_sock w0 /\ w_peer (snd (log_n k (ERecv sid) w0)) = w_peer w0 /\
            w_buf (snd (log_n k (ERecv sid) w0)) = w_buf w0 /\ w_conns (snd (log_n k (ERecv sid) w0)) = w_conns w0 /\
            w_choices (snd (log_n k (ERecv sid) w0)) = w_choices w0 /\ w_script (snd (log_n k (ERecv sid) w0)) = w_script w0).
  { induction k as [|k IH]; intros w0; [cbn; repeat split; reflexivity|]. cbn [log_n]. unfold mbind, log. cbn [fst snd].
    specialize (IH (upd_trace w0 (ERecv sid :: w_trace w0))). cbn in IH. exact IH. }
  match type of El with log_n n' ?e ?w0 = _ => pose proof (Hlog n' w0) as L; rewrite El in L; cbn [snd] in L end.
  destruct L as (L1 & L2 & L3 & L4 & L5 & L6). cbn in L1, L2, L3, L4, L5, L6.
  split; [reflexivity|]. unfold Quiet.St, normal_script. rewrite L1, L2, L3, L4, L5, L6, conn_get_set_same. repeat split; auto.
Qed.

(* ---- one VALUE block ---- *)
Definition ritem : Type := (list Z * Z * list Z * Z)%type.          (* wire key, flags, data, cas unique *)
Definition hdr (wc : bool) (it : ritem) : list Z :=
  let '(wk, fl, data, cas) := it in
  join_with L_sp ([L_VALUE; wk; str_of_Z fl; str_of_Z (zlen data)] ++ (if wc then [str_of_Z cas] else [])).
Definition block (wc : bool) (it : ritem) : list Z := let '(wk, fl, data, cas) := it in hdr wc it ++ [CR; LF] ++ data ++ [CR; LF].
Definition item_wf (it : ritem) : Prop := let '(wk, fl, data, cas) := it in legal wk = true /\ 0 <= fl /\ 0 <= cas.

Lemma str_wtok z : 0 <= z -> wtok (str_of_Z z).
Proof.
  intros Hz. destruct (str_of_Z_nonneg z Hz) as (A & B & C). split; [exact B|].
  apply Forall_forall. intros x Hx. apply digit_not_ws, (all_digits_in _ _ A Hx).
Qed.
Lemma legal_wtok k : legal k = true -> wtok k.
Proof.
  unfold legal. intros H. apply andb_true_iff in H. destruct H as [H1 H2]. apply andb_true_iff in H1. destruct H1 as [H0 _].
  split; [destruct k; [discriminate|discriminate]|].
  apply Forall_forall. intros x Hx. rewrite forallb_forall in H2. specialize (H2 x Hx). unfold key_byte_ok in H2.
  apply andb_true_iff in H2. destruct H2 as [H2 _]. destruct (is_ws x); [discriminate|reflexivity].
Qed.
Lemma hdr_tokens wc wk fl data cas : item_wf (wk, fl, data, cas) ->
  split_ws (hdr wc (wk, fl, data, cas)) = [L_VALUE; wk; str_of_Z fl; str_of_Z (zlen data)] ++ (if wc then [str_of_Z cas] else []).
Proof.
  intros (Hk & Hf & Hc). unfold hdr. apply split_ws_join.
  apply Forall_app. split.
  - apply Forall_cons; [split; [discriminate|repeat (apply Forall_cons; [reflexivity|]); apply Forall_nil]|]. apply Forall_cons; [apply legal_wtok, Hk|].
    apply Forall_cons; [apply str_wtok, Hf|]. apply Forall_cons; [apply str_wtok, zlen_nonneg|apply Forall_nil].
  - destruct wc; [apply Forall_cons; [apply str_wtok, Hc|apply Forall_nil]|apply Forall_nil].
Qed.
Lemma hdr_no_cr wc it : item_wf it -> Forall (fun ch => ch <> CR) (hdr wc it).
Proof.
  destruct it as [[[wk fl] data] cas]. intros (Hk & Hf & Hc). unfold hdr. apply join_no13.
  apply Forall_app. split.
  - apply Forall_cons; [apply tok_of_bool; reflexivity|]. apply Forall_cons; [apply legal_tok, Hk|]. apply Forall_cons; [apply str_tok|]. apply Forall_cons; [apply str_tok|apply Forall_nil].
  - destruct wc; [apply Forall_cons; [apply str_tok|apply Forall_nil]|apply Forall_nil].
Qed.

(* what _extract_value hands back for one item *)
Definition item_value (wc : bool) (remapped : list (list Z * dyn)) (it : ritem) : exc (dyn * dyn) :=
  let '(wk, fl, data, cas) := it in
  match bdict_get remapped wk with
  | None => Raise KeyError
  | Some okey => bind (serde_deserialize c (DBytes data) fl) (fun v => Ok (okey, if wc then DTuple [v; DBytes (str_of_Z cas)] else v))
  end.

Lemma h_extract_quiet sid p wc it rest remapped : item_wf it ->
  hoare (St sid p (let '(wk, fl, data, cas) := it in data ++ CR :: LF :: rest)) (extract_value P c wc (hdr wc it) remapped)
        (fun kv w => item_value wc remapped it = Ok kv /\ St sid p rest w)
        (fun e w => item_value wc remapped it = Raise e /\ normal_script P w).
Proof.
  destruct it as [[[wk fl] data] cas]. intros Hwf. unfold extract_value.
  rewrite (hdr_tokens wc wk fl data cas Hwf). destruct Hwf as (Hk & Hf & Hc).
  assert (Hparts : (match [L_VALUE; wk; str_of_Z fl; str_of_Z (zlen data)] ++ (if wc then [str_of_Z cas] else []), wc with
                    | [_; k; f; s; cs], true => Ok (k, f, s, cs)
                    | [_; k; f; s], false => Ok (k, f, s, [])
                    | _, _ => Raise ValueError end) = Ok (wk, str_of_Z fl, str_of_Z (zlen data), if wc then str_of_Z cas else [])).
  { destruct wc; reflexivity. }
  eapply h_bind with (Q1 := fun x w => x = (wk, str_of_Z fl, str_of_Z (zlen data), if wc then str_of_Z cas else []) /\ St sid p (data ++ CR :: LF :: rest) w).
  { intros w Hw. unfold lift. rewrite Hparts. auto. }
  intros [[[k0 f0] s0] c0].
  eapply h_bind with (Q1 := fun sz w => sz = zlen data /\ (k0, f0, s0, c0) = (wk, str_of_Z fl, str_of_Z (zlen data), if wc then str_of_Z cas else []) /\ St sid p (data ++ CR :: LF :: rest) w).
  { intros w [E Hw]. inversion E; subst. unfold lift. rewrite int_of_str_of_Z. auto. }
  intros sz.
  eapply h_bind with (Q1 := fun _ w => sz = zlen data /\ (k0, f0, s0, c0) = (wk, str_of_Z fl, str_of_Z (zlen data), if wc then str_of_Z cas else []) /\ St sid p (data ++ CR :: LF :: rest) w).
  { intros w (-> & E & Hw). destruct (Z.ltb_spec (zlen data) 0); [pose proof (zlen_nonneg data); lia|]. cbn. auto. }
  intros u.
  eapply h_bind with (Q1 := fun value w => value = data /\ (k0, f0, s0, c0) = (wk, str_of_Z fl, str_of_Z (zlen data), if wc then str_of_Z cas else []) /\ St sid p rest w).
  { intros w (-> & E & Hw). pose proof (h_readvalue_quiet sid p data rest w Hw) as R.
    destruct (guarded_reader P _ w) as [[x|e] w']; [destruct R; auto|destruct R]. }
  intros value. intros w (-> & E & Hw). inversion E; subst. assert (Hn : normal_script P w) by apply Hw.
  unfold mbind, lift, item_value. destruct (bdict_get remapped wk) as [okey|]; [|split; [reflexivity|exact Hn]].
  rewrite int_of_str_of_Z. destruct (serde_deserialize c (DBytes data) fl) as [v|e]; [|split; [reflexivity|exact Hn]].
  cbn [bind ret]. destruct wc; split; auto.
Qed.

(* ---- the loop of _fetch_cmd over VALUE blocks closed by END ---- *)
Fixpoint read_items (wc : bool) (remapped : list (list Z * dyn)) (items : list ritem) (acc : list dyn) : exc (list dyn) :=
  match items with
  | [] => Ok acc
  | it :: t => bind (item_value wc remapped it) (fun kv => read_items wc remapped t (dict_set acc (fst kv) (snd kv)))
  end.
Definition items_bytes (wc : bool) (items : list ritem) : list Z := flat_map (block wc) items ++ L_END ++ [CR; LF].

Lemma hdr_head wc it : item_wf it -> exists t, hdr wc it = L_VALUE ++ 32 :: t.
Proof. destruct it as [[[wk fl] data] cas]. intros _. unfold hdr. cbn [app join_with L_sp]. eexists. reflexivity. Qed.

Lemma fetch_loop_quiet sid p name wc remapped : forall items fuel acc, Forall item_wf items -> (length items < fuel)%nat ->
  hoare (St sid p (items_bytes wc items)) (fetch_loop P fuel c name wc remapped acc)
        (fun res w => read_items wc remapped items acc = Ok res /\ St sid p [] w)
        (fun e w => read_items wc remapped items acc = Raise e /\ normal_script P w).
Proof.
  induction items as [|it t IH]; intros fuel acc Hwf Hf; (destruct fuel as [|f]; [lia|]); cbn [fetch_loop].
  - (* END *)
    eapply h_bind with (Q1 := fun line w => line = L_END /\ St sid p [] w).
    { eapply h_conseq; [apply (h_readline_quiet P sid p L_END [])| | |intros e w []]; [repeat constructor; discriminate|auto|auto]. }
    intros line w [-> Hw]. cbn. auto.
  - destruct it as [[[wk fl] data] cas]. pose proof (Forall_inv Hwf) as Hit. pose proof (Forall_inv_tail Hwf) as Ht.
    unfold items_bytes. cbn [flat_map block]. rewrite <- !app_assoc. cbn [app].
    eapply h_bind with (Q1 := fun line w => line = hdr wc (wk, fl, data, cas) /\ St sid p (data ++ CR :: LF :: items_bytes wc t) w).
    { eapply h_conseq; [apply (h_readline_quiet P sid p (hdr wc (wk, fl, data, cas)) (data ++ [CR; LF] ++ flat_map (block wc) t ++ L_END ++ [CR; LF]) (hdr_no_cr wc _ Hit))| | |intros e w []].
      - intros w H. exact H.
      - intros a w H. unfold items_bytes. cbn [app] in *. exact H. }
    intros line. destruct (hdr_head wc (wk, fl, data, cas) Hit) as (tl & Eh).
    intros w [-> Hw]. unfold mbind at 1, lift.
    assert (Hre : raise_errors (hdr wc (wk, fl, data, cas)) = Ok tt) by (rewrite Eh; reflexivity).
    rewrite Hre. cbn iota beta.
    assert (Hend : list_eqb (hdr wc (wk, fl, data, cas)) L_END || list_eqb (hdr wc (wk, fl, data, cas)) L_OK = false) by (rewrite Eh; reflexivity).
    assert (Hval : prefixb L_VALUE (hdr wc (wk, fl, data, cas)) = true) by (rewrite Eh; reflexivity).
    rewrite Hend, Hval. unfold mbind.
    pose proof (h_extract_quiet sid p wc (wk, fl, data, cas) (items_bytes wc t) remapped Hit w Hw) as X.
    destruct (extract_value P c wc (hdr wc (wk, fl, data, cas)) remapped w) as [[[k v]|e] w1].
    + destruct X as [X1 X2]. cbn [read_items]. rewrite X1. cbn [bind fst snd].
      apply (IH f (dict_set acc k v) Ht ltac:(cbn in Hf; lia) w1 X2).
    + destruct X as [X1 X2]. cbn [read_items]. rewrite X1. cbn [bind]. auto.
Qed.

Lemma items_len wc : forall items, (length items <= length (flat_map (block wc) items))%nat.
Proof.
  induction items as [|[[[wk fl] data] cas] t IH]; [cbn; lia|]. cbn [flat_map length]. rewrite app_length.
  change (block wc (wk, fl, data, cas)) with (hdr wc (wk, fl, data, cas) ++ [CR; LF] ++ data ++ [CR; LF]).
  rewrite !app_length. cbn [length]. lia.
Qed.

(* the whole socket phase of _fetch_cmd on a connected, quiet client *)
Theorem fetch_io_quiet sid p p' name wc remapped cmd items :
  peer p cmd = (p', items_bytes wc items) -> Forall item_wf items -> c_ignore_exc c = false -> h_fetch c = BaseException ->
  hoare (St sid p []) (fetch_io P peer c name wc remapped cmd)
        (fun res w => read_items wc remapped items [] = Ok res /\ St sid p' [] w)
        (fun e w => read_items wc remapped items [] = Raise e /\ w_sock w = None).
Proof.
  intros Hp Hwf Hign Hh. unfold fetch_io, exchange.
  eapply h_bind with (Q1 := fun _ => St sid p []); [eapply h_conseq; [apply (h_reset_St P sid p)|auto|auto|intros e w []]|]. intros u1. cbn beta.
  eapply h_try with (E1 := fun e w => read_items wc remapped items [] = Raise e /\ normal_script P w).
  - eapply h_bind with (Q1 := fun _ => St sid p []); [eapply h_conseq; [apply (h_ensure_St P c sid p [])|auto|auto|intros e w []]|]. intros u. cbn beta.
    eapply h_bind with (Q1 := fun _ => St sid p' (items_bytes wc items));
      [eapply h_conseq; [apply (h_send_quiet P peer sid p cmd p' (items_bytes wc items) Hp)|auto|auto|intros e w []]|].
    intros u2. cbn beta. intros w Hw.
    apply (fetch_loop_quiet sid p' name wc remapped items _ [] Hwf); [|exact Hw].
    destruct Hw as (S1 & _ & S3 & _). unfold cur_avail. rewrite S1, S3. unfold items_bytes. rewrite app_length. pose proof (items_len wc items). lia.
  - intros e He. rewrite Hign. cbn [andb].
    eapply h_conseq; [apply (h_handler_after_read P (fun x => read_items wc remapped items [] = Raise x) e)|auto|intros a w []|auto].
  - intros e w He _. rewrite Hh in He. destruct e; discriminate.
Qed.
End QuietFetch.
