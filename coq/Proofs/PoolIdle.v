(* Idle expiry, for every history (C09): the stamps of the idle clients followed by the clock's future readings form one
   chronological sequence; every pool primitive only drops elements of it (a reading becomes a stamp in place).  Hence the idle
   list stays ordered oldest first, the expiry scan of a checkout - which stops at the first fresh client - leaves no client
   behind that has been idle for longer than the timeout, and every client it passed over was closed. *)
From Coq Require Import ZArith List Bool Lia Sorted.
From PM Require Import Lib.Py Model.World Model.Readers Model.Client Model.Pooled Proofs.PoolProof Proofs.PoolReuse.
Import ListNotations.
Open Scope Z_scope.

Inductive subseq : list Z -> list Z -> Prop :=
| sub_nil : subseq [] []
| sub_skip x l1 l2 : subseq l1 l2 -> subseq l1 (x :: l2)
| sub_keep x l1 l2 : subseq l1 l2 -> subseq (x :: l1) (x :: l2).

Lemma subseq_refl l : subseq l l.
Proof. induction l; constructor; assumption. Qed.
Lemma subseq_nil l : subseq [] l.
Proof. induction l; constructor; assumption. Qed.
Lemma subseq_trans a b c : subseq a b -> subseq b c -> subseq a c.
Proof.
  intros H1 H2. revert a H1. induction H2 as [|x l1 l2 H IH|x l1 l2 H IH]; intros a H1.
  - exact H1.
  - apply sub_skip. apply IH. exact H1.
  - inversion H1; subst.
    + apply sub_skip. apply IH. assumption.
    + apply sub_keep. apply IH. assumption.
Qed.
Lemma subseq_app a a' b b' : subseq a a' -> subseq b b' -> subseq (a ++ b) (a' ++ b').
Proof. intros Ha Hb. induction Ha; cbn; [exact Hb|apply sub_skip; exact IHHa|apply sub_keep; exact IHHa]. Qed.
Lemma subseq_suffix pre suf : subseq suf (pre ++ suf).
Proof. induction pre; cbn; [apply subseq_refl|apply sub_skip; exact IHpre]. Qed.
Lemma subseq_Forall (Q : Z -> Prop) a b : subseq a b -> Forall Q b -> Forall Q a.
Proof. intros H. induction H; intros F; [constructor|inversion F; subst; auto|inversion F; subst; constructor; auto]. Qed.
Lemma subseq_sorted a b : subseq a b -> StronglySorted Z.le b -> StronglySorted Z.le a.
Proof.
  intros H. induction H; intros S; [constructor|inversion S; subst; auto|].
  inversion S as [|? ? S' F]; subst. constructor; [auto|]. eapply subseq_Forall; eauto.
Qed.

Section Idle.
Variable P : Type.
Variable peer : P -> list Z -> P * list Z.
Notation PM := (PM P).

Definition stamps (p : pstate) : list Z := map snd (p_free p) ++ p_clock p.
Definition Chron (p : pstate) : Prop := StronglySorted Z.le (stamps p).
Definition left (p : pstate) : nat := length (p_clock p).

(* a computation that reads the clock at most k times and only drops elements of the chronological sequence *)
Definition Step {A} (k : nat) (m : PM A) : Prop :=
  forall p w, (k <= left p)%nat ->
    let p' := snd (fst (m p w)) in subseq (stamps p') (stamps p) /\ (left p <= left p' + k)%nat.

Lemma Step_weaken {A} k k' (m : PM A) : (k <= k')%nat -> Step k m -> Step k' m.
Proof. intros Hk H p w Hl. destruct (H p w ltac:(lia)) as [S L]. split; [exact S|lia]. Qed.
Lemma Step_ret {A} (a : A) : Step 0 (pret P a).
Proof. intros p w _. cbn. split; [apply subseq_refl|lia]. Qed.
Lemma Step_throw {A} e : Step 0 (@pthrow P A e).
Proof. intros p w _. cbn. split; [apply subseq_refl|lia]. Qed.
Lemma Step_bind {A B} k1 k2 (m : PM A) (f : A -> PM B) : Step k1 m -> (forall a, Step k2 (f a)) -> Step (k1 + k2) (pbind P m f).
Proof.
  intros Hm Hf p w Hl. unfold pbind. destruct (Hm p w ltac:(lia)) as [S1 L1].
  destruct (m p w) as [[r p1] w1]. cbn in S1, L1. destruct r as [a|e]; cbn.
  - destruct (Hf a p1 w1 ltac:(lia)) as [S2 L2]. split; [eapply subseq_trans; eauto|lia].
  - split; [exact S1|lia].
Qed.
Lemma Step_try {A} k1 k2 (m : PM A) c (h : exn -> PM A) : Step k1 m -> (forall e, Step k2 (h e)) -> Step (k1 + k2) (ptry P m c h).
Proof.
  intros Hm Hh p w Hl. unfold ptry. destruct (Hm p w ltac:(lia)) as [S1 L1].
  destruct (m p w) as [[r p1] w1]. cbn [fst snd] in S1, L1. destruct r as [a|e]; [cbn [fst snd]; split; [exact S1|lia]|].
  destruct (exn_isa e c); [|cbn [fst snd]; split; [exact S1|lia]].
  destruct (Hh e p1 w1 ltac:(lia)) as [S2 L2]. split; [eapply subseq_trans; eauto|lia].
Qed.
Lemma Step_finally {A} k1 k2 (m : PM A) (f : PM unit) : Step k1 m -> Step k2 f -> Step (k1 + k2) (pfinally P m f).
Proof.
  intros Hm Hf p w Hl. unfold pfinally. destruct (Hm p w ltac:(lia)) as [S1 L1].
  destruct (m p w) as [[r p1] w1]. cbn in S1, L1.
  destruct (Hf p1 w1 ltac:(lia)) as [S2 L2].
  destruct r as [a|e]; destruct (f p1 w1) as [[r2 p2] w2]; destruct r2; cbn in *; (split; [eapply subseq_trans; eauto|lia]).
Qed.
Lemma Step_as_client {A} cid (m : M P A) : Step 0 (as_client P cid m).
Proof.
  intros p w _. pose proof (as_client_frame P cid m p w) as H. destruct (as_client P cid m p w) as [[r p'] w'].
  destruct H as (_ & Hf & _ & Hc). cbn. unfold stamps, left. rewrite Hf, Hc. split; [apply subseq_refl|lia].
Qed.
Lemma Step_after_remove cid : Step 0 (after_remove P cid).
Proof. apply Step_as_client. Qed.

Lemma Step_clock : Step 1 (clock P).
Proof.
  intros p w Hl. unfold clock, left in *. destruct (p_clock p) as [|t r] eqn:E; [cbn in Hl; lia|].
  cbn. unfold stamps, left. cbn. rewrite E. split; [|cbn; lia].
  apply subseq_app; [apply subseq_refl|apply sub_skip, subseq_refl].
Qed.

Lemma scan_sub pc now : forall free p w, p_free p = free ->
  let p' := snd (fst (scan_free P pc now free p w)) in subseq (stamps p') (stamps p) /\ (left p <= left p' + 0)%nat.
Proof.
  induction free as [|[cid last] rest IH]; intros p w Hf.
  - cbn. unfold stamps, left. cbn. rewrite Hf. split; [apply subseq_refl|lia].
  - cbn [scan_free]. destruct (now - last <=? pc_idle pc).
    + cbn. unfold stamps, left. cbn. rewrite Hf. cbn. split; [apply sub_skip, subseq_refl|lia].
    + unfold pbind. cbn [fst snd].
      pose proof (Step_after_remove cid (upd_p p (p_used p) rest) w ltac:(lia)) as Ha.
      pose proof (after_remove_frame P cid (upd_p p (p_used p) rest) w) as Hfr.
      destruct (after_remove P cid (upd_p p (p_used p) rest) w) as [[r1 p1] w1]. cbn [fst snd] in Ha. destruct Ha as [S1 L1].
      destruct Hfr as (Hu & Hf1 & _). cbn in Hu, Hf1.
      assert (S0 : subseq (stamps p1) (stamps p)).
      { eapply subseq_trans; [exact S1|]. unfold stamps. cbn. rewrite Hf. cbn. apply sub_skip, subseq_refl. }
      assert (L0 : (left p <= left p1 + 0)%nat) by (unfold left in *; cbn in *; lia).
      destruct r1 as [u|e]; [|cbn [fst snd]; split; assumption].
      specialize (IH p1 w1 Hf1). destruct IH as [S2 L2].
      split; [eapply subseq_trans; eauto|lia].
Qed.

Lemma upd_same p : upd_p p (p_used p) (p_free p) = p.
Proof. destruct p; reflexivity. Qed.

Lemma Step_get pc : Step 1 (pool_get P pc).
Proof.
  unfold pool_get. change 1%nat with (1 + 0)%nat. apply Step_bind; [apply Step_clock|]. intros now.
  change 0%nat with (0 + 0)%nat. apply Step_bind.
  - intros p w Hl. exact (scan_sub pc now (p_free p) p w eq_refl).
  - intros found. change 0%nat with (0 + 0)%nat. apply Step_bind.
    + destruct found as [cid|]; [apply Step_ret|].
      intros p w _. destruct (Z.of_nat (length (p_used p)) >=? pc_max pc); cbn; unfold stamps, left; cbn; (split; [apply subseq_refl|lia]).
    + intros cid p w _. cbn. unfold stamps, left. cbn. split; [apply subseq_refl|lia].
Qed.

Lemma Step_release cid : Step 1 (pool_release P cid).
Proof.
  intros p w Hl. unfold pool_release. destruct (remove_first_z (p_used p) cid) as [used'|]; [|cbn; split; [apply subseq_refl|lia]].
  unfold clock, left in *. cbn. destruct (p_clock p) as [|t r] eqn:E; [cbn in Hl; lia|].
  cbn. unfold stamps, left. cbn. rewrite E. rewrite map_app. cbn. rewrite <- app_assoc. cbn. split; [apply subseq_refl|cbn; lia].
Qed.

Lemma Step_destroy cid : Step 0 (pool_destroy P cid).
Proof.
  intros p w Hl. unfold pool_destroy. destruct (remove_first_z (p_used p) cid) as [used'|]; [|cbn; split; [apply subseq_refl|lia]].
  pose proof (Step_after_remove cid (upd_p p used' (p_free p)) w ltac:(lia)) as H. exact H.
Qed.

Lemma Step_with {A} pc (body : Z -> PM A) : (forall cid, Step 0 (body cid)) -> Step 2 (with_client P pc body).
Proof.
  intros Hb. unfold with_client. change 2%nat with (1 + 1)%nat. apply Step_bind; [apply Step_get|]. intros cid.
  change 1%nat with (0 + 1)%nat. apply Step_bind.
  - change 0%nat with (0 + 0)%nat. apply Step_try; [apply Hb|]. intros e. change 0%nat with (0 + 0)%nat.
    apply Step_bind; [apply Step_destroy|intros _; apply Step_throw].
  - intros r. change 1%nat with (1 + 0)%nat. apply Step_bind; [apply Step_release|intros _; apply Step_ret].
Qed.

Lemma Step_close_loop : forall l, Step 0 (fun p w =>
   (fix go (l : list Z) (p : pstate) (w : world P) : exc dyn * pstate * world P :=
      match l with
      | [] => (Ok DNone, p, w)
      | cid :: t => match after_remove P cid p w with
                    | (Ok _, p', w') => go t p' w'
                    | (Raise e, p', w') => (Raise e, p', w') end
      end) l p w).
Proof.
  induction l as [|cid t IH]; intros p w Hl; [cbn; split; [apply subseq_refl|lia]|].
  pose proof (Step_after_remove cid p w ltac:(lia)) as Ha.
  destruct (after_remove P cid p w) as [[r1 p1] w1] eqn:E. cbn in Ha. destruct Ha as [S1 L1].
  cbv beta iota fix. destruct r1; [|cbn [fst snd]; split; assumption].
  destruct (IH p1 w1 ltac:(lia)) as [S2 L2]. cbv beta iota fix in S2, L2. split; [eapply subseq_trans; eauto|lia].
Qed.

Theorem Step_pooled_op c pc o : Step 2 (pooled_op P peer c pc o).
Proof.
  assert (Hmiss : forall o' cid, Step 0 (match miss_value o' with
        | Some dflt => ptry P (as_client P cid (run_op P peer (inner_cfg c) o')) Exception_
                         (fun e => if c_ignore_exc c then pret P dflt else pthrow P e)
        | None => as_client P cid (run_op P peer (inner_cfg c) o') end)).
  { intros o' cid. destruct (miss_value o'); [|apply Step_as_client].
    change 0%nat with (0 + 0)%nat. apply Step_try; [apply Step_as_client|]. intros e. destruct (c_ignore_exc c); [apply Step_ret|apply Step_throw]. }
  destruct o; cbn [pooled_op]; try (apply Step_with; intros cid; apply Hmiss).
  - (* quit *)
    apply Step_with. intros cid. change 0%nat with (0 + 0)%nat. apply Step_finally; [apply Step_as_client|apply Step_destroy].
  - (* close *)
    apply (Step_weaken 0 2); [lia|]. intros p w Hl.
    pose proof (Step_close_loop (p_used p ++ map fst (p_free p)) (upd_p p [] []) w ltac:(lia)) as H. cbn in H. destruct H as [S L].
    cbn. split; [|unfold left in *; cbn in *; exact L].
    eapply subseq_trans; [exact S|]. unfold stamps. cbn. apply subseq_suffix.
Qed.

(* every state reached by PooledClient calls keeps the idle list in chronological order, while the clock has readings left *)
Theorem pooled_ops_chron c pc : forall ops p w, Chron p -> (2 * length ops <= left p)%nat ->
  Chron (snd (fst (pooled_ops P peer c pc ops p w))).
Proof.
  induction ops as [|o t IH]; intros p w Hc Hl; [exact Hc|].
  cbn [pooled_ops]. destruct (Step_pooled_op c pc o p w ltac:(cbn [length] in Hl; lia)) as [S L].
  destruct (pooled_op P peer c pc o p w) as [[r p1] w1]. cbn in S, L.
  assert (Hc1 : Chron p1) by (eapply subseq_sorted; eauto).
  specialize (IH p1 w1 Hc1 ltac:(cbn [length] in Hl; lia)).
  destruct (pooled_ops P peer c pc t p1 w1) as [[rs p2] w2]. destruct rs; exact IH.
Qed.

(* ... and a checkout in such a state leaves nobody behind who has been idle for longer than the timeout *)
Theorem get_leaves_no_stale pc p w : PInv p -> 1 <= pc_max pc -> Chron p -> (1 <= left p)%nat ->
  let '(r, p', w') := pool_get P pc p w in
  forall c, r = Ok c -> Forall (fun e => now_of p - snd e <= pc_idle pc) (p_free p').
Proof.
  intros Hi Hm Hc Hl. pose proof (pool_get_reuses P pc p w Hi Hm) as H.
  destruct (pool_get P pc p w) as [[r p'] w']. intros c ->.
  destruct H as [(pre & last & Hf & Hfresh & _)|(_ & Hf & _)]; [|rewrite Hf; constructor].
  unfold Chron, stamps in Hc. rewrite Hf, map_app in Hc. cbn in Hc. rewrite <- app_assoc in Hc. cbn in Hc.
  assert (S : StronglySorted Z.le (last :: map snd (p_free p') ++ p_clock p)).
  { clear - Hc. induction (map snd pre) as [|y l IH]; cbn in Hc; [exact Hc|]. inversion Hc; subst. auto. }
  inversion S as [|? ? _ F]; subst. rewrite Forall_app in F. destruct F as [F _].
  rewrite Forall_forall in *. intros e He. assert (Hin : In (snd e) (map snd (p_free p'))) by (apply in_map; exact He).
  specialize (F _ Hin). lia.
Qed.
End Idle.
