(* Exact consumption: on a connected client with nothing pending, over a fault-free transport, an exchange with a
   peer that answers one CRLF-terminated line per command reads exactly those lines and leaves nothing unread and
   nothing over-read.  Used by C01 (a returning call has consumed its reply to the last byte) and C05 (the value
   returned is the reading of exactly the reply lines). *)
From Coq Require Import ZArith List Bool Lia.
From PM Require Import Lib.Py Model.Lits Model.World Model.Readers Model.Serde Model.Client Proofs.Hoare Proofs.ReaderFacts.
Import ListNotations.
Open Scope Z_scope.

Lemma conn_get_set_same c sid a : conn_get (conn_set c sid a) sid = a.
Proof. induction c as [|[s x] t IH]; cbn; [rewrite Z.eqb_refl; reflexivity|]. destruct (Z.eqb_spec s sid) as [->|N]; cbn; [rewrite Z.eqb_refl; reflexivity|]. destruct (Z.eqb_spec s sid); [contradiction|exact IH]. Qed.

(* the first CRLF of  line ++ CRLF ++ rest  is the one written, when the line has no CR *)
Lemma split_crlf_line : forall line rest, Forall (fun ch => ch <> CR) line -> split_crlf (line ++ CR :: LF :: rest) = Some (line, rest).
Proof.
  induction line as [|a t IH]; intros rest H.
  - cbn. reflexivity.
  - pose proof (Forall_inv H) as Ha. cbn [app split_crlf].
    destruct (t ++ CR :: LF :: rest) as [|b t'] eqn:E; [destruct t; discriminate|].
    destruct (Z.eqb_spec a CR); [contradiction|]. cbn [andb]. rewrite <- E, (IH rest (Forall_inv_tail H)). reflexivity.
Qed.

Section Quiet.
Variable P : Type.
Variable peer : P -> list Z -> P * list Z.
Variable c : cfg.
Notation world := (world P).

Definition normal_script (w : world) : Prop := Forall (fun o => o = ONormal) (w_script w).
(* connected on sid, peer state p, exactly r still to be read (local buffer first, then the socket), fault-free transport *)
Definition St (sid : Z) (p : P) (r : list Z) (w : world) : Prop :=
  w_sock w = Some sid /\ w_peer w = p /\ w_buf w ++ conn_get (w_conns w) sid = r /\ ff (w_choices w) /\ normal_script w.

Lemma St_nil sid p w : St sid p [] w -> w_buf w = [] /\ conn_get (w_conns w) sid = [].
Proof. intros (_ & _ & H & _). apply app_eq_nil in H. exact H. Qed.

Lemma h_call_normal sid p r e :
  hoare (St sid p r) (call (P:=P) e) (fun _ => St sid p r) (fun _ _ => False).
Proof.
  intros w (H1 & H2 & H3 & H4 & H5). unfold call, mbind, log, pop. cbn [fst snd w_script upd_trace].
  destruct (w_script w) as [|o t] eqn:Es.
  - cbn. unfold St, normal_script. cbn. rewrite Es. auto.
  - unfold normal_script in H5. rewrite Es in H5. pose proof (Forall_inv H5) as Ho. cbn beta in Ho. subst o. cbn.
    unfold St, normal_script. cbn. repeat split; auto. apply (Forall_inv_tail H5).
Qed.

Lemma h_call_late_normal sid p r e :
  hoare (St sid p r) (call_late (P:=P) e) (fun late w => late = None /\ St sid p r w) (fun _ _ => False).
Proof.
  intros w (H1 & H2 & H3 & H4 & H5). unfold call_late, mbind, log, pop. cbn [fst snd w_script upd_trace].
  destruct (w_script w) as [|o t] eqn:Es.
  - cbn. split; [reflexivity|]. unfold St, normal_script. cbn. rewrite Es. auto.
  - unfold normal_script in H5. rewrite Es in H5. pose proof (Forall_inv H5) as Ho. cbn beta in Ho. subst o. cbn.
    split; [reflexivity|]. unfold St, normal_script. cbn. repeat split; auto. apply (Forall_inv_tail H5).
Qed.

(* sendall on a quiet connection: afterwards exactly the peer's reply is pending *)
Lemma h_send_quiet sid p b p' r : peer p b = (p', r) ->
  hoare (St sid p []) (send peer b) (fun _ => St sid p' r) (fun _ _ => False).
Proof.
  intros Hp w Hw. pose proof (St_nil sid p w Hw) as [Hb Ha]. unfold send, mbind at 1, get_sock.
  destruct Hw as (H1 & H2 & H3 & H4 & H5). rewrite H1.
  pose proof (h_call_late_normal sid p [] (ESend sid b) w) as Hc. unfold mbind.
  destruct (call_late (ESend sid b) w) as [[late|x] w1]; [|exfalso; apply Hc; repeat split; auto].
  assert (Hw1 : late = None /\ St sid p [] w1) by (apply Hc; repeat split; auto). destruct Hw1 as [-> Hw1].
  pose proof (St_nil sid p w1 Hw1) as [Hb1 Ha1]. destruct Hw1 as (K1 & K2 & K3 & K4 & K5).
  unfold deliver_reply. rewrite K1, K2, Hp. unfold St, normal_script. cbn.
  rewrite conn_get_set_same, Ha1, Hb1. cbn. repeat split; auto.
Qed.

(* one guarded readline on a stream that starts with a complete line *)
Lemma h_readline_quiet sid p line rest : Forall (fun ch => ch <> CR) line ->
  hoare (St sid p (line ++ CR :: LF :: rest)) (guarded_reader P (fun cs avail buf => readline cs avail [] buf 0))
        (fun x w => x = line /\ St sid p rest w) (fun _ _ => False).
Proof.
  intros Hl w (H1 & H2 & H3 & H4 & H5). unfold guarded_reader, mtry, run_reader. rewrite H1.
  pose proof (readline_stream (w_choices w) H4 (conn_get (w_conns w) sid) [] (w_buf w) 0%nat eq_refl) as R.
  cbn [app] in R. rewrite H3, (split_crlf_line line rest Hl) in R.
  destruct R as (cs' & avail' & buf' & n' & E & Hr & Hf). rewrite E.
  match goal with |- context [log_n n' ?e ?w0] => destruct (log_n n' e w0) as [u w2] eqn:El end.
  assert (Hlog : forall k (w0 : world), w_sock (snd (log_n k (ERecv sid) w0)) = w_sock w0 /\ w_peer (snd (log_n k (ERecv sid) w0)) = w_peer w0 /\
            w_buf (snd (log_n k (ERecv sid) w0)) = w_buf w0 /\ w_conns (snd (log_n k (ERecv sid) w0)) = w_conns w0 /\
            w_choices (snd (log_n k (ERecv sid) w0)) = w_choices w0 /\ w_script (snd (log_n k (ERecv sid) w0)) = w_script w0).
  { induction k as [|k IH]; intros w0; [cbn; repeat split; reflexivity|]. cbn [log_n]. unfold mbind, log. cbn [fst snd].
    specialize (IH (upd_trace w0 (ERecv sid :: w_trace w0))). cbn in IH. exact IH. }
  match type of El with log_n n' ?e ?w0 = _ => pose proof (Hlog n' w0) as L; rewrite El in L; cbn [snd] in L end.
  destruct L as (L1 & L2 & L3 & L4 & L5 & L6). cbn in L1, L2, L3, L4, L5, L6.
  split; [reflexivity|]. unfold St, normal_script. rewrite L1, L2, L3, L4, L5, L6, conn_get_set_same. repeat split; auto.
Qed.

Definition line_ok (l : list Z) : Prop := Forall (fun ch => ch <> CR) l.
Definition lines_bytes (lines : list (list Z)) : list Z := concat (map (fun l => l ++ [CR; LF]) lines).

Lemma St_weaken {A} sid p r (m : M P A) Q :
  hoare (St sid p r) m Q (fun _ _ => False) -> hoare (St sid p r) m Q (fun _ _ => True).
Proof. intros H. eapply h_conseq; [apply H|auto|auto|intros e w []]. Qed.

(* ---- _store_cmd's reading loop: one line per stored item ---- *)
Fixpoint read_store_lines (name : list Z) (values : list (dyn * dyn)) (lines : list (list Z)) (acc : list dyn) : exc (list dyn) :=
  match values, lines with
  | kv :: vt, l :: lt =>
      bind (raise_errors l) (fun _ => bind (store_result name l) (fun v => read_store_lines name vt lt (dict_set acc (fst kv) v)))
  | _, _ => Ok acc
  end.

Lemma store_loop sid p name : forall values lines acc, length lines = length values -> Forall line_ok lines ->
  hoare (St sid p (lines_bytes lines))
        (mfor values (fun kv results =>
           mbind (guarded_reader P (fun cs avail buf => readline cs avail [] buf 0)) (fun line =>
           mbind (lift (raise_errors line)) (fun _ =>
           mbind (lift (store_result name line)) (fun v => ret (dict_set results (fst kv) v))))) acc)
        (fun res w => read_store_lines name values lines acc = Ok res /\ St sid p [] w)
        (fun e w => read_store_lines name values lines acc = Raise e /\ normal_script w).
Proof.
  induction values as [|kv vt IH]; intros lines acc Hlen Hok.
  - destruct lines; [|discriminate]. cbn [mfor lines_bytes map concat read_store_lines]. apply h_ret'. intros w H. auto.
  - destruct lines as [|l lt]; [discriminate|]. cbn [mfor].
    assert (Hl : line_ok l) by apply (Forall_inv Hok). assert (Hlt : Forall line_ok lt) by apply (Forall_inv_tail Hok).
    eapply h_bind with (Q1 := fun s' w => read_store_lines name (kv :: vt) (l :: lt) acc = read_store_lines name vt lt s' /\ St sid p (lines_bytes lt) w).
    + eapply h_bind with (Q1 := fun x w => x = l /\ St sid p (lines_bytes lt) w).
      * eapply h_conseq; [apply (h_readline_quiet sid p l (lines_bytes lt) Hl)| | |intros e w []].
        -- intros w H. unfold lines_bytes in *. cbn [map concat] in H. rewrite <- app_assoc in H. exact H.
        -- auto.
      * intros x. cbn [read_store_lines].
        intros w [-> Hw]. assert (Hn : normal_script w) by apply Hw.
        unfold mbind, lift. destruct (raise_errors l) as [u|e]; [|split; [reflexivity|exact Hn]]. cbn [bind].
        destruct (store_result name l) as [v|e]; [|split; [reflexivity|exact Hn]]. cbn [bind ret]. split; [reflexivity|exact Hw].
    + intros s'. intros w [E Hw]. rewrite E. apply (IH lt s'); [cbn in Hlen; lia|exact Hlt|exact Hw].
Qed.

(* ---- _misc_cmd's reading loop (end_tokens = b""): one line per command ---- *)
Fixpoint read_misc_lines (lines : list (list Z)) (acc : list (list Z)) : exc (list (list Z)) :=
  match lines with
  | l :: lt => bind (raise_errors l) (fun _ => read_misc_lines lt (acc ++ [l]))
  | [] => Ok acc
  end.
Lemma misc_loop sid p : forall (cmds : list (list Z)) lines acc, length lines = length cmds -> Forall line_ok lines ->
  hoare (St sid p (lines_bytes lines))
        (mfor cmds (fun _ results =>
           mbind (guarded_reader P (fun cs avail buf => readline cs avail [] buf 0)) (fun line =>
           mbind (lift (raise_errors line)) (fun _ => ret (results ++ [line])))) acc)
        (fun res w => read_misc_lines lines acc = Ok res /\ St sid p [] w)
        (fun e w => read_misc_lines lines acc = Raise e /\ normal_script w).
Proof.
  induction cmds as [|cm ct IH]; intros lines acc Hlen Hok.
  - destruct lines; [|discriminate]. cbn [mfor lines_bytes map concat read_misc_lines]. apply h_ret'. intros w H. auto.
  - destruct lines as [|l lt]; [discriminate|]. cbn [mfor].
    assert (Hl : line_ok l) by apply (Forall_inv Hok). assert (Hlt : Forall line_ok lt) by apply (Forall_inv_tail Hok).
    eapply h_bind with (Q1 := fun s' w => read_misc_lines (l :: lt) acc = read_misc_lines lt s' /\ St sid p (lines_bytes lt) w).
    + eapply h_bind with (Q1 := fun x w => x = l /\ St sid p (lines_bytes lt) w).
      * eapply h_conseq; [apply (h_readline_quiet sid p l (lines_bytes lt) Hl)| | |intros e w []].
        -- intros w H. unfold lines_bytes in *. cbn [map concat] in H. rewrite <- app_assoc in H. exact H.
        -- auto.
      * intros x. cbn [read_misc_lines]. intros w [-> Hw]. assert (Hn : normal_script w) by apply Hw. unfold mbind, lift.
        destruct (raise_errors l) as [u|e]; [|split; [reflexivity|exact Hn]]. cbn [bind ret]. split; [reflexivity|exact Hw].
    + intros s'. intros w [E Hw]. rewrite E. apply (IH lt s'); [cbn in Hlen; lia|exact Hlt|exact Hw].
Qed.

(* ---- whole exchanges on a connected, quiet client ---- *)
Lemma h_ensure_St sid p r : hoare (St sid p r) (ensure_connected P c) (fun _ => St sid p r) (fun _ _ => False).
Proof. intros w H. unfold ensure_connected, mbind, get_sock. destruct H as (H1 & H). rewrite H1. cbn. split; [exact H1|exact H]. Qed.
Lemma h_reset_St sid p : hoare (St sid p []) (@reset_buf P) (fun _ => St sid p []) (fun _ _ => False).
Proof.
  intros w H. pose proof (St_nil sid p w H) as [Hb Ha]. destruct H as (H1 & H2 & H3 & H4 & H5).
  unfold reset_buf, St, normal_script. cbn. rewrite Ha. repeat split; auto.
Qed.
Lemma close_normal : hoare normal_script (client_close P) (fun _ w => w_sock w = None) (fun _ _ => False).
Proof.
  intros w Hn. unfold client_close, mbind, get_sock. destruct (w_sock w) as [sid|] eqn:Es; [|exact Es].
  unfold mfinally, mtry, call, mbind, log, pop. cbn [fst snd w_script upd_trace].
  unfold normal_script in Hn. destruct (w_script w) as [|o t]; cbn.
  - destruct (w_sock w); reflexivity.
  - pose proof (Forall_inv Hn) as Ho. cbn beta in Ho. subst o. cbn. destruct (w_sock w); reflexivity.
Qed.
Lemma raise_errors_class l e : raise_errors l = Raise e -> exn_isa e Exception_ = true.
Proof.
  unfold raise_errors. destruct (prefixb L_ERROR l); [intros H; inversion H; reflexivity|].
  destruct (prefixb L_CLIENT_ERROR l); [intros H; inversion H; reflexivity|].
  destruct (prefixb L_SERVER_ERROR l); [intros H; inversion H; reflexivity|discriminate].
Qed.
Lemma store_result_class name l e : store_result name l = Raise e -> exn_isa e Exception_ = true.
Proof. unfold store_result. destruct (existsb _ _); [discriminate|]. intros H; inversion H; reflexivity. Qed.
Lemma read_store_class name : forall values lines acc e, read_store_lines name values lines acc = Raise e -> exn_isa e Exception_ = true.
Proof.
  induction values as [|kv vt IH]; intros lines acc e H; [discriminate|]. destruct lines as [|l lt]; [discriminate|]. cbn [read_store_lines] in H.
  destruct (raise_errors l) eqn:E1; [|inversion H; subst; apply (raise_errors_class l e E1)]. cbn [bind] in H.
  destruct (store_result name l) eqn:E2; [|inversion H; subst; apply (store_result_class name l e E2)]. cbn [bind] in H. apply (IH _ _ _ H).
Qed.
Lemma read_misc_class : forall lines acc e, read_misc_lines lines acc = Raise e -> exn_isa e Exception_ = true.
Proof.
  induction lines as [|l lt IH]; intros acc e H; [discriminate|]. cbn [read_misc_lines] in H.
  destruct (raise_errors l) eqn:E1; [|inversion H; subst; apply (raise_errors_class l e E1)]. cbn [bind] in H. apply (IH _ _ H).
Qed.

(* the handler of an exchange path after a reading error: close, re-raise *)
Lemma h_handler_after_read {A} (X : exn -> Prop) e :
  hoare (fun w => X e /\ normal_script w) (mbind (client_close P) (fun _ => @throw P A e)) (fun _ _ => False) (fun e' w => X e' /\ w_sock w = None).
Proof.
  eapply h_bind with (Q1 := fun _ w => X e /\ w_sock w = None).
  - intros w [Hx Hn]. pose proof (close_normal w Hn) as H. destruct (client_close P w) as [[u|x] w']; [auto|destruct H].
  - intros u. apply h_throw'. auto.
Qed.

Theorem store_io_quiet sid p p' name values cmds lines :
  peer p cmds = (p', lines_bytes lines) -> length lines = length values -> Forall line_ok lines ->
  (forall e, exn_isa e Exception_ = true -> exn_isa e (h_store c) = true) ->
  hoare (St sid p []) (store_io P peer c name values false cmds)
        (fun res w => read_store_lines name values lines [] = Ok res /\ St sid p' [] w)
        (fun e w => read_store_lines name values lines [] = Raise e /\ w_sock w = None).
Proof.
  intros Hp Hlen Hok Hc. unfold store_io, exchange.
  eapply h_bind with (Q1 := fun _ => St sid p []); [eapply h_conseq; [apply (h_ensure_St sid p [])|auto|auto|intros e w []]|]. intros u. cbn beta.
  eapply h_bind with (Q1 := fun _ => St sid p []); [eapply h_conseq; [apply (h_reset_St sid p)|auto|auto|intros e w []]|]. intros u1. cbn beta.
  eapply h_try with (E1 := fun e w => read_store_lines name values lines [] = Raise e /\ normal_script w).
  - eapply h_bind with (Q1 := fun _ => St sid p' (lines_bytes lines));
      [eapply h_conseq; [apply (h_send_quiet sid p cmds p' (lines_bytes lines) Hp)|auto|auto|intros e w []]|].
    intros u2. cbn beta iota. apply (store_loop sid p' name values lines [] Hlen Hok).
  - intros e He. eapply h_conseq; [apply (h_handler_after_read (fun x => read_store_lines name values lines [] = Raise x) e)|auto|intros a w []|auto].
  - intros e w He [H1 H2]. rewrite (Hc e (read_store_class name values lines [] e H1)) in He. discriminate.
Qed.

Theorem misc_cmd_quiet sid p p' cmds lines :
  peer p (concat cmds) = (p', lines_bytes lines) -> length lines = length cmds -> Forall line_ok lines ->
  (forall e, exn_isa e Exception_ = true -> exn_isa e (h_misc c) = true) ->
  hoare (St sid p []) (misc_cmd P peer c cmds false [])
        (fun res w => read_misc_lines lines [] = Ok res /\ St sid p' [] w)
        (fun e w => read_misc_lines lines [] = Raise e /\ w_sock w = None).
Proof.
  intros Hp Hlen Hok Hc. unfold misc_cmd, exchange.
  eapply h_bind with (Q1 := fun _ => St sid p []); [eapply h_conseq; [apply (h_ensure_St sid p [])|auto|auto|intros e w []]|]. intros u. cbn beta.
  eapply h_bind with (Q1 := fun _ => St sid p []); [eapply h_conseq; [apply (h_reset_St sid p)|auto|auto|intros e w []]|]. intros u1. cbn beta.
  eapply h_try with (E1 := fun e w => read_misc_lines lines [] = Raise e /\ normal_script w).
  - eapply h_bind with (Q1 := fun _ => St sid p' (lines_bytes lines));
      [eapply h_conseq; [apply (h_send_quiet sid p (concat cmds) p' (lines_bytes lines) Hp)|auto|auto|intros e w []]|].
    intros u2. cbn beta iota. apply (misc_loop sid p' cmds lines [] Hlen Hok).
  - intros e He. eapply h_conseq; [apply (h_handler_after_read (fun x => read_misc_lines lines [] = Raise x) e)|auto|intros a w []|auto].
  - intros e w He [H1 H2]. rewrite (Hc e (read_misc_class lines [] e H1)) in He. discriminate.
Qed.

(* noreply: the command is sent, nothing is read, and -- the peer sending nothing back -- nothing is left pending *)
Theorem store_io_noreply_quiet sid p p' name values cmds : peer p cmds = (p', []) ->
  hoare (St sid p []) (store_io P peer c name values true cmds) (fun _ => St sid p' []) (fun _ _ => False).
Proof.
  intros Hp. unfold store_io, exchange.
  eapply h_bind with (Q1 := fun _ => St sid p []); [apply (h_ensure_St sid p [])|]. intros u. cbn beta.
  eapply h_bind with (Q1 := fun _ => St sid p []); [apply (h_reset_St sid p)|]. intros u1. cbn beta.
  eapply h_try with (E1 := fun _ _ => False).
  - eapply h_bind with (Q1 := fun _ => St sid p' []); [apply (h_send_quiet sid p cmds p' [] Hp)|]. intros u2. cbn beta iota. apply h_ret'. auto.
  - intros e He w [].
  - intros e w He [].
Qed.
Theorem store_io_noreply_value sid p p' name values cmds : peer p cmds = (p', []) ->
  hoare (St sid p []) (store_io P peer c name values true cmds)
        (fun r w => r = fold_left (fun d kv => dict_set d (fst kv) (DBool true)) values [] /\ St sid p' [] w) (fun _ _ => False).
Proof.
  intros Hp. unfold store_io, exchange.
  eapply h_bind with (Q1 := fun _ => St sid p []); [apply (h_ensure_St sid p [])|]. intros u. cbn beta.
  eapply h_bind with (Q1 := fun _ => St sid p []); [apply (h_reset_St sid p)|]. intros u1. cbn beta.
  eapply h_try with (E1 := fun _ _ => False).
  - eapply h_bind with (Q1 := fun _ => St sid p' []); [apply (h_send_quiet sid p cmds p' [] Hp)|]. intros u2. cbn beta iota. apply h_ret'. auto.
  - intros e He w [].
  - intros e w He [].
Qed.
Theorem misc_cmd_noreply_quiet sid p p' cmds : peer p (concat cmds) = (p', []) ->
  hoare (St sid p []) (misc_cmd P peer c cmds true []) (fun _ => St sid p' []) (fun _ _ => False).
Proof.
  intros Hp. unfold misc_cmd, exchange.
  eapply h_bind with (Q1 := fun _ => St sid p []); [apply (h_ensure_St sid p [])|]. intros u. cbn beta.
  eapply h_bind with (Q1 := fun _ => St sid p []); [apply (h_reset_St sid p)|]. intros u1. cbn beta.
  eapply h_try with (E1 := fun _ _ => False).
  - eapply h_bind with (Q1 := fun _ => St sid p' []); [apply (h_send_quiet sid p (concat cmds) p' [] Hp)|]. intros u2. cbn beta iota. apply h_ret'. auto.
  - intros e He w [].
  - intros e w He [].
Qed.
End Quiet.
