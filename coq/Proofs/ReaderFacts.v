(* The socket readers return what the byte STREAM determines, however it is cut into recv() results.
   fault-free choices: any sequence of CChunk n (n arbitrary; at least one byte is delivered) and CEintr *)
From Coq Require Import ZArith List Bool Lia.
From PM Require Import Lib.Py Model.World Model.Readers.
Import ListNotations.
Open Scope Z_scope.

Definition ff_choice (c : choice) : Prop := match c with CChunk _ | CEintr => True | _ => False end.
Definition ff (cs : list choice) : Prop := Forall ff_choice cs.

Lemma ff_tail c cs : ff (c :: cs) -> ff cs.
Proof. intros H. inversion H; assumption. Qed.

(* ---------- split_crlf on concatenations ---------- *)
Lemma last_is_cr_cons a b s : last_is_cr (a :: b :: s) = last_is_cr (b :: s).
Proof. unfold last_is_cr. cbn [rev]. destruct (rev s) as [|c r] eqn:E; cbn; auto. Qed.
Lemma last_is_cr_single a : last_is_cr [a] = (a =? CR). Proof. reflexivity. Qed.
Lemma split_crlf_unfold a b t :
  split_crlf (a :: b :: t) = if (a =? CR) && (b =? LF) then Some ([], t)
     else match split_crlf (b :: t) with Some (l, r) => Some (a :: l, r) | None => None end.
Proof. reflexivity. Qed.

Lemma split_crlf_app_none s t : split_crlf s = None ->
  split_crlf (s ++ t) =
    if last_is_cr s && starts_lf t then Some (removelast s, tl t)
    else match split_crlf t with Some (l, r) => Some (s ++ l, r) | None => None end.
Proof.
  induction s as [|a s IH]; intros Hn.
  - cbn [app last_is_cr rev andb]. destruct (split_crlf t) as [[l r]|]; reflexivity.
  - destruct s as [|b s'].
    + rewrite last_is_cr_single. destruct t as [|c t'].
      * cbn [starts_lf]. rewrite andb_false_r. reflexivity.
      * cbn [app]. rewrite split_crlf_unfold. cbn [starts_lf tl removelast].
        destruct ((a =? CR) && (c =? LF)); [reflexivity|].
        destruct (split_crlf (c :: t')) as [[l r]|]; reflexivity.
    + rewrite last_is_cr_cons.
      rewrite split_crlf_unfold in Hn.
      destruct ((a =? CR) && (b =? LF)) eqn:E1; [discriminate|].
      destruct (split_crlf (b :: s')) as [[l r]|] eqn:E2; [discriminate|].
      specialize (IH eq_refl).
      change ((a :: b :: s') ++ t) with (a :: b :: (s' ++ t)).
      rewrite split_crlf_unfold, E1.
      change (b :: s' ++ t) with ((b :: s') ++ t). rewrite IH.
      destruct (last_is_cr (b :: s') && starts_lf t).
      * reflexivity.
      * destruct (split_crlf t) as [[l r]|]; reflexivity.
Qed.

Lemma split_crlf_app_some s t l r : split_crlf s = Some (l, r) -> split_crlf (s ++ t) = Some (l, r ++ t).
Proof.
  revert l r. induction s as [|a s IH]; intros l r E; [discriminate|].
  destruct s as [|b s']; [discriminate|].
  change ((a :: b :: s') ++ t) with (a :: b :: (s' ++ t)).
  rewrite split_crlf_unfold in *.
  destruct ((a =? CR) && (b =? LF)); [injection E as <- <-; reflexivity|].
  destruct (split_crlf (b :: s')) as [[l0 r0]|] eqn:E0; [|discriminate].
  injection E as <- <-.
  change (b :: s' ++ t) with ((b :: s') ++ t). rewrite (IH l0 r0 eq_refl). reflexivity.
Qed.

(* the two-clause test of _readline is the first-CRLF split of chunks-so-far ++ buf *)
Lemma readline_check_spec acc buf : split_crlf acc = None -> readline_check acc buf = split_crlf (acc ++ buf).
Proof. intros H. unfold readline_check. rewrite (split_crlf_app_none acc buf H). reflexivity. Qed.

Lemma firstn_skipn_nonempty (k : nat) (l : list Z) : (1 <= k)%nat -> l <> [] -> firstn k l <> [].
Proof. destruct k; [lia|]. destruct l; [congruence|]. discriminate. Qed.

(* ---------- _readline ---------- *)
Theorem readline_stream : forall cs, ff cs -> forall avail acc buf n,
  split_crlf acc = None ->
  match split_crlf (acc ++ buf ++ avail) with
  | Some (line, rest) =>
      exists cs' avail' buf' n', readline cs avail acc buf n = (RDone line, (cs', avail', buf'), n')
                                 /\ buf' ++ avail' = rest /\ ff cs'
  | None => exists cs' n', readline cs avail acc buf n = (RRaise WouldBlock, (cs', [], acc ++ buf ++ avail), n') /\ ff cs'
  end.
Proof.
  induction cs as [|c cs IH]; intros Hff avail acc buf n Hacc.
  - (* choices exhausted: everything available is delivered at once *)
    cbn [readline]. rewrite (readline_check_spec acc buf Hacc).
    destruct (split_crlf (acc ++ buf)) as [[line b']|] eqn:E1.
    + rewrite app_assoc. rewrite (split_crlf_app_some _ avail _ _ E1).
      exists [], avail, b', n. repeat split; auto; try constructor.
    + destruct avail as [|a0 av].
      * rewrite !app_nil_r, E1. exists [], (S n). split; [reflexivity|constructor].
      * rewrite (readline_check_spec (acc ++ buf) (a0 :: av) E1). rewrite <- app_assoc.
        destruct (split_crlf (acc ++ buf ++ a0 :: av)) as [[line b']|].
        -- exists [], [], b', (S n). repeat split; auto; try apply app_nil_r; try constructor.
        -- exists [], (S (S n)). split; [reflexivity|constructor].
  - cbn [readline]. rewrite (readline_check_spec acc buf Hacc).
    destruct (split_crlf (acc ++ buf)) as [[line b']|] eqn:E1.
    + rewrite app_assoc. rewrite (split_crlf_app_some _ avail _ _ E1).
      exists (c :: cs), avail, b', n. repeat split; auto.
    + destruct c as [k| |e|]; try (inversion Hff as [|? ? Hc _]; destruct Hc).
      * (* a chunk *)
        destruct avail as [|a0 av].
        -- rewrite !app_nil_r, E1. exists cs, (S n). split; [reflexivity|apply (ff_tail _ _ Hff)].
        -- specialize (IH (ff_tail _ _ Hff) (skipn (chunk_len k (a0 :: av)) (a0 :: av)) (acc ++ buf) (firstn (chunk_len k (a0 :: av)) (a0 :: av)) (S n) E1).
           rewrite <- !app_assoc in IH. rewrite firstn_skipn in IH. exact IH.
      * (* EINTR: recv is retried *)
        apply (IH (ff_tail _ _ Hff) avail acc buf (S n) Hacc).
Qed.

(* ---------- slices with in-range bounds ---------- *)
Lemma clamp_in_range n i : 0 <= i <= n -> clamp_index n i = i.
Proof. intros H. unfold clamp_index. destruct (Z.ltb_spec i 0); [lia|]. destruct (Z.ltb_spec i 0); [lia|]. destruct (Z.ltb_spec n i); lia. Qed.
Lemma py_slice_to_firstn s i : 0 <= i <= zlen s -> py_slice_to s i = firstn (Z.to_nat i) s.
Proof. intros H. unfold py_slice_to. rewrite clamp_in_range by exact H. reflexivity. Qed.
Lemma py_slice_from_skipn s i : 0 <= i <= zlen s -> py_slice_from s i = skipn (Z.to_nat i) s.
Proof. intros H. unfold py_slice_from. rewrite clamp_in_range by exact H. reflexivity. Qed.
Lemma zlen_app a b : zlen (a ++ b) = zlen a + zlen b.
Proof. unfold zlen. rewrite app_length. lia. Qed.
Lemma zlen_nonneg a : 0 <= zlen a. Proof. unfold zlen. lia. Qed.

Lemma removelast_firstn_len (l : list Z) : removelast l = firstn (length l - 1) l.
Proof.
  rewrite List.removelast_firstn_len. f_equal. lia.
Qed.

Lemma firstn_app_le (n : nat) (a b : list Z) : (n <= length a)%nat -> firstn n (a ++ b) = firstn n a.
Proof. intros H. rewrite firstn_app. replace (n - length a)%nat with O by lia. cbn [firstn]. apply app_nil_r. Qed.
Lemma skipn_app_le (n : nat) (a b : list Z) : (n <= length a)%nat -> skipn n (a ++ b) = skipn n a ++ b.
Proof. intros H. rewrite skipn_app. replace (n - length a)%nat with O by lia. reflexivity. Qed.

(* ---------- _readvalue: the value is the first `size` bytes of the stream, size+2 bytes are consumed ---------- *)
Definition rv_inv (size : Z) (acc : list Z) (started : bool) (rlen : Z) : Prop :=
  rlen = size + 2 - zlen acc /\ 0 < rlen /\ (started = true <-> acc <> []).

Lemma rv_finish_spec size acc started rlen buf :
  0 <= size -> rv_inv size acc started rlen -> rlen - zlen buf <= 0 ->
  readvalue_finish acc started rlen buf =
    (RDone (firstn (Z.to_nat size) (acc ++ buf)), skipn (Z.to_nat (size + 2)) (acc ++ buf)).
Proof.
  intros Hs (Hr & Hpos & Hst) Hle. unfold readvalue_finish.
  pose proof (zlen_nonneg acc). pose proof (zlen_nonneg buf).
  destruct (Z.eqb_spec rlen 1) as [E1|E1].
  - (* the value and its \r are in acc, the \n is the first byte of buf *)
    assert (Hacc : zlen acc = size + 1) by lia.
    assert (Hne : acc <> []) by (intros ->; unfold zlen in Hacc; cbn in Hacc; lia).
    destruct started; [|destruct Hst as [_ Hst]; specialize (Hst Hne); discriminate].
    rewrite py_slice_from_skipn by lia. f_equal.
    + f_equal. rewrite removelast_firstn_len. rewrite firstn_app.
      unfold zlen in Hacc. replace (Z.to_nat size - length acc)%nat with O by lia.
      cbn [firstn]. rewrite app_nil_r. f_equal. lia.
    + rewrite skipn_app. unfold zlen in Hacc.
      rewrite (skipn_all2 acc) by lia. cbn [app]. f_equal. lia.
  - rewrite py_slice_to_firstn by lia. rewrite py_slice_from_skipn by lia. f_equal.
    + f_equal. rewrite firstn_app. unfold zlen in *.
      rewrite (firstn_all2 acc) by lia. f_equal. f_equal. lia.
    + rewrite skipn_app. unfold zlen in *.
      rewrite (skipn_all2 acc) by lia. cbn [app]. f_equal. lia.
Qed.

Lemma rv_absorb_inv size acc started rlen buf :
  rv_inv size acc started rlen -> rlen - zlen buf > 0 ->
  let '(acc', started', rlen') := rv_absorb acc started rlen buf in
  rv_inv size acc' started' rlen' /\ acc' = acc ++ buf.
Proof.
  intros (Hr & Hpos & Hst) Hgt. unfold rv_absorb. destruct buf as [|b buf'].
  - rewrite app_nil_r. repeat split; auto; apply Hst.
  - repeat split; try (rewrite zlen_app; lia); try lia.
    + intros _. destruct acc; discriminate.
Qed.

Theorem readvalue_recv_stream size : 0 <= size -> forall cs, ff cs -> forall avail acc started rlen n,
  rv_inv size acc started rlen ->
  if zlen (acc ++ avail) >=? size + 2 then
    exists cs' avail' buf' n',
      readvalue_recv cs avail acc started rlen n = (RDone (firstn (Z.to_nat size) (acc ++ avail)), (cs', avail', buf'), n')
      /\ buf' ++ avail' = skipn (Z.to_nat (size + 2)) (acc ++ avail) /\ ff cs'
  else exists cs' n', readvalue_recv cs avail acc started rlen n = (RRaise WouldBlock, (cs', [], acc ++ avail), n') /\ ff cs'.
Proof.
  intros Hs. induction cs as [|c cs IH]; intros Hff avail acc started rlen n Hinv.
  - cbn [readvalue_recv]. destruct avail as [|a0 av].
    + rewrite app_nil_r. destruct Hinv as (Hr & Hpos & _).
      destruct (Z.geb_spec (zlen acc) (size + 2)); [lia|]. exists [], (S n). split; [reflexivity|constructor].
    + rewrite zlen_app. destruct Hinv as (Hr & Hpos & Hst).
      destruct (Z.gtb_spec (rlen - zlen (a0 :: av)) 0) as [G|G];
      destruct (Z.geb_spec (zlen acc + zlen (a0 :: av)) (size + 2)) as [G2|G2]; try lia;
        [exists [], (S (S n)); split; [reflexivity|constructor]|].
      rewrite (rv_finish_spec size acc started rlen (a0 :: av) Hs (conj Hr (conj Hpos Hst)) ltac:(lia)).
      exists [], [], (skipn (Z.to_nat (size + 2)) (acc ++ a0 :: av)), (S n).
      repeat split; [apply app_nil_r|constructor].
  - destruct c as [k| |e|]; try (inversion Hff as [|? ? Hc _]; destruct Hc); cbn [readvalue_recv].
    + destruct avail as [|a0 av].
      * rewrite app_nil_r. destruct Hinv as (Hr & Hpos & _).
        destruct (Z.geb_spec (zlen acc) (size + 2)); [lia|]. exists cs, (S n). split; [reflexivity|apply (ff_tail _ _ Hff)].
      * set (d := firstn (chunk_len k (a0 :: av)) (a0 :: av)). set (av' := skipn (chunk_len k (a0 :: av)) (a0 :: av)).
        assert (Hsplit : a0 :: av = d ++ av') by (symmetry; apply firstn_skipn).
        cbv zeta.
        destruct (Z.gtb_spec (rlen - zlen d) 0) as [G|G].
        -- pose proof (rv_absorb_inv size acc started rlen d Hinv ltac:(lia)) as A.
           destruct (rv_absorb acc started rlen d) as [[acc' started'] rlen'] eqn:EA.
           destruct A as [Hinv' ->].
           specialize (IH (ff_tail _ _ Hff) av' (acc ++ d) started' rlen' (S n) Hinv').
           rewrite <- app_assoc, <- Hsplit in IH. exact IH.
        -- destruct Hinv as (Hr & Hpos & Hst).
           rewrite (rv_finish_spec size acc started rlen d Hs (conj Hr (conj Hpos Hst)) ltac:(lia)).
           assert (Hlen : zlen (acc ++ d) >= size + 2) by (rewrite zlen_app; lia).
           rewrite Hsplit. rewrite app_assoc.
           assert (G2 : zlen ((acc ++ d) ++ av') >=? size + 2 = true).
           { rewrite zlen_app. pose proof (zlen_nonneg av'). apply Z.geb_le. lia. }
           rewrite G2.
           exists cs, av', (skipn (Z.to_nat (size + 2)) (acc ++ d)), (S n).
           unfold zlen in Hlen. repeat split.
           ++ f_equal. f_equal. f_equal. symmetry. apply firstn_app_le. lia.
           ++ symmetry. apply skipn_app_le. lia.
           ++ apply (ff_tail _ _ Hff).
    + apply (IH (ff_tail _ _ Hff) avail acc started rlen (S n) Hinv).
Qed.

Theorem readvalue_stream size : 0 <= size -> forall cs, ff cs -> forall avail buf n,
  if zlen (buf ++ avail) >=? size + 2 then
    exists cs' avail' buf' n',
      readvalue cs avail [] false (size + 2) buf n = (RDone (firstn (Z.to_nat size) (buf ++ avail)), (cs', avail', buf'), n')
      /\ buf' ++ avail' = skipn (Z.to_nat (size + 2)) (buf ++ avail) /\ ff cs'
  else exists cs' n', readvalue cs avail [] false (size + 2) buf n = (RRaise WouldBlock, (cs', [], buf ++ avail), n') /\ ff cs'.
Proof.
  intros Hs cs Hff avail buf n. unfold readvalue.
  assert (Hinv0 : rv_inv size [] false (size + 2)).
  { unfold rv_inv. change (zlen []) with 0. split; [lia|]. split; [lia|]. split; [discriminate|congruence]. }
  pose proof (zlen_nonneg buf). pose proof (zlen_nonneg avail).
  destruct (Z.gtb_spec (size + 2 - zlen buf) 0) as [G|G].
  - pose proof (rv_absorb_inv size [] false (size + 2) buf Hinv0 ltac:(lia)) as A.
    destruct (rv_absorb [] false (size + 2) buf) as [[acc' started'] rlen'] eqn:EA.
    destruct A as [Hinv' ->]. cbn [app].
    apply (readvalue_recv_stream size Hs cs Hff avail buf started' rlen' n Hinv').
  - rewrite (rv_finish_spec size [] false (size + 2) buf Hs Hinv0 ltac:(lia)). cbn [app].
    assert (G2 : zlen (buf ++ avail) >=? size + 2 = true) by (rewrite zlen_app; apply Z.geb_le; lia).
    rewrite G2. unfold zlen in G.
    exists cs, avail, (skipn (Z.to_nat (size + 2)) buf), n. repeat split.
    + f_equal. f_equal. f_equal. symmetry. apply firstn_app_le. lia.
    + symmetry. apply skipn_app_le. lia.
    + exact Hff.
Qed.

(* ---------- _readsegment: the first occurrence of the end token in the stream ---------- *)
Lemma prefixb_true_app tok s t : prefixb tok s = true -> (length tok <= length s)%nat /\ prefixb tok (s ++ t) = true.
Proof.
  revert s. induction tok as [|x tok IH]; intros s H; [split; [cbn; lia|reflexivity]|].
  destruct s as [|y s]; [discriminate|]. cbn [prefixb] in H. apply andb_prop in H. destruct H as [H1 H2].
  destruct (IH s H2) as [L P]. split; [cbn [length]; lia|]. cbn [app prefixb]. rewrite H1, P. reflexivity.
Qed.
Lemma prefixb_false_app tok s t : prefixb tok s = false -> (length tok <= length s)%nat -> prefixb tok (s ++ t) = false.
Proof.
  revert s. induction tok as [|x tok IH]; intros s H L; [discriminate|].
  destruct s as [|y s]; [cbn [length] in L; lia|]. cbn [prefixb app] in *.
  destruct (x =? y); [|reflexivity]. cbn [andb] in *. apply IH; [exact H|cbn [length] in L; lia].
Qed.
Lemma find_from_fits tok : forall s i j, find_from tok s i = Some j ->
  exists k : nat, j = i + Z.of_nat k /\ (k + length tok <= length s)%nat /\ prefixb tok (skipn k s) = true.
Proof.
  induction s as [|c s IH]; intros i j H; cbn [find_from] in H.
  - destruct (prefixb tok []) eqn:E; [|discriminate]. injection H as <-.
    exists O. destruct (prefixb_true_app tok [] [] E) as [L _]. repeat split; [lia|cbn in *; lia|exact E].
  - destruct (prefixb tok (c :: s)) eqn:E.
    + injection H as <-. exists O. destruct (prefixb_true_app tok (c :: s) [] E) as [L _]. repeat split; [lia|lia|exact E].
    + destruct (IH (i + 1) j H) as (k & -> & L & Pk). exists (S k). repeat split; [lia|cbn [length]; lia|exact Pk].
Qed.
Lemma find_from_app tok t : forall s i j, find_from tok s i = Some j -> find_from tok (s ++ t) i = Some j.
Proof.
  induction s as [|c s IH]; intros i j H.
  - cbn [find_from] in H. destruct (prefixb tok []) eqn:E; [|discriminate]. injection H as <-.
    destruct tok; [|discriminate]. cbn [app]. destruct t; reflexivity.
  - cbn [find_from] in H. cbn [app find_from]. destruct (prefixb tok (c :: s)) eqn:E.
    + destruct (prefixb_true_app tok (c :: s) t E) as [_ P]. cbn [app] in P. rewrite P. exact H.
    + destruct (find_from_fits tok s (i + 1) j H) as (k & _ & L & _).
      assert (P : prefixb tok ((c :: s) ++ t) = false) by (apply prefixb_false_app; [exact E|cbn [length]; lia]).
      cbn [app] in P. rewrite P. apply IH, H.
Qed.
Lemma split_token_app tok s t b a : split_token tok s = Some (b, a) -> split_token tok (s ++ t) = Some (b, a ++ t).
Proof.
  unfold split_token. destruct (find_from tok s 0) as [j|] eqn:E; [|discriminate].
  intros H. injection H as <- <-. rewrite (find_from_app tok t s 0 j E).
  destruct (find_from_fits tok s 0 j E) as (k & -> & L & _). rewrite Z.add_0_l, Nat2Z.id.
  f_equal. f_equal; [apply firstn_app_le; lia|apply skipn_app_le; lia].
Qed.

Theorem readsegment_stream tok : forall cs, ff cs -> forall avail buf n,
  match split_token tok (buf ++ avail) with
  | Some (before, after) =>
      exists cs' avail' buf' n', readsegment cs avail tok buf n = (RDone before, (cs', avail', buf'), n')
                                 /\ buf' ++ avail' = after /\ ff cs'
  | None => exists cs' n', readsegment cs avail tok buf n = (RRaise WouldBlock, (cs', [], buf ++ avail), n') /\ ff cs'
  end.
Proof.
  induction cs as [|c cs IH]; intros Hff avail buf n.
  - cbn [readsegment]. destruct (split_token tok buf) as [[b a]|] eqn:E1.
    + rewrite (split_token_app tok buf avail b a E1). exists [], avail, a, n. repeat split; auto; try constructor.
    + destruct avail as [|a0 av].
      * rewrite app_nil_r, E1. exists [], (S n). split; [reflexivity|constructor].
      * destruct (split_token tok (buf ++ a0 :: av)) as [[b a]|]; [|exists [], (S (S n)); split; [reflexivity|constructor]].
        exists [], [], a, (S n). repeat split; auto; try apply app_nil_r; try constructor.
  - cbn [readsegment]. destruct (split_token tok buf) as [[b a]|] eqn:E1.
    + rewrite (split_token_app tok buf avail b a E1). exists (c :: cs), avail, a, n. repeat split; auto.
    + destruct c as [k| |e|]; try (inversion Hff as [|? ? Hc _]; destruct Hc).
      * destruct avail as [|a0 av].
        -- rewrite app_nil_r, E1. exists cs, (S n). split; [reflexivity|apply (ff_tail _ _ Hff)].
        -- specialize (IH (ff_tail _ _ Hff) (skipn (chunk_len k (a0 :: av)) (a0 :: av)) (buf ++ firstn (chunk_len k (a0 :: av)) (a0 :: av)) (S n)).
           rewrite <- app_assoc, firstn_skipn in IH. exact IH.
      * apply (IH (ff_tail _ _ Hff) avail buf (S n)).
Qed.
