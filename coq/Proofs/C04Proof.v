(* C04 — what is stored is what is fetched: the server keeps the bytes, the retrieval reply carries them framed by
   their length, a strict reader gets exactly them back, and the prefixed wire key maps back to the caller's key. *)
From Coq Require Import ZArith List Bool Lia.
From PM Require Import Lib.Py Spec.LegalKey Model.Lits Spec.Proto Spec.Server Spec.Reply Proofs.DecimalFacts
                       Proofs.C19Proof Proofs.C02Proof.
Import ListNotations.
Open Scope Z_scope.

(* ---- the map ---- *)
Lemma leqb_refl a : list_eqb a a = true. Proof. apply C13Proof.leq_refl. Qed.
Lemma lookup_remove_same m k : lookup (remove m k) k = None.
Proof. induction m as [|[k' it] t IH]; [reflexivity|]. cbn [remove]. destruct (list_eqb k' k) eqn:E; [exact IH|]. cbn [lookup]. rewrite E. exact IH. Qed.
Lemma lookup_remove_other m k k' : list_eqb k k' = false -> lookup (remove m k) k' = lookup m k'.
Proof.
  intros N. induction m as [|[k0 it] t IH]; [reflexivity|]. cbn [remove lookup].
  destruct (list_eqb k0 k) eqn:E.
  - apply C13Proof.leq_eq in E. subst k0. rewrite N. exact IH.
  - cbn [lookup]. rewrite IH. reflexivity.
Qed.
Lemma lookup_put_same m k it : lookup (put m k it) k = Some it.
Proof. unfold put. cbn [lookup]. rewrite leqb_refl. reflexivity. Qed.
Lemma lookup_put_other m k it k' : list_eqb k k' = false -> lookup (put m k it) k' = lookup m k'.
Proof. intros N. unfold put. cbn [lookup]. rewrite N. apply lookup_remove_other, N. Qed.

(* a successful set, then a get of the same key before it expires: exactly the stored bytes and flags *)
Theorem set_then_get (s : sstate) k fl e data cas nr gets x :
  abs_exp (s_now s) e = Some x -> (x = 0 \/ s_now s < x) ->
  let s1 := fst (exec s (CStore VSet k fl e data cas nr)) in
  exists it, snd (exec s1 (CGet gets [k])) = OValues [(k, it)] /\ i_data it = data /\ i_flags it = fl /\ i_cas it = s_cas s + 1.
Proof.
  intros Hx Hl. cbn [exec fst]. unfold write. rewrite Hx.
  eexists. cbn [exec snd found_items flat_map]. unfold live, with_items. cbn [s_items s_now].
  rewrite lookup_put_same. unfold is_live. cbn [i_exp].
  assert (E : (x =? 0) || (s_now s <? x) = true) by (destruct Hl; [subst; reflexivity|apply orb_true_iff; right; lia]).
  rewrite E. cbn [app]. split; [reflexivity|]. cbn. auto.
Qed.
(* storing under one key never changes what another key holds *)
Theorem store_other_key (s : sstate) v k fl e data cas nr k' : list_eqb k k' = false ->
  lookup (s_items (fst (exec s (CStore v k fl e data cas nr)))) k' = lookup (s_items s) k'.
Proof.
  intros N. unfold exec.
  assert (W : lookup (s_items (write s k fl e data)) k' = lookup (s_items s) k').
  { unfold write. destruct (abs_exp (s_now s) e); cbn [with_items s_items]; [apply lookup_put_other, N|apply lookup_remove_other, N]. }
  destruct v; destruct (live s k) as [it|]; cbn [fst]; try exact W; try reflexivity;
    try (cbn [with_items s_items]; apply lookup_put_other, N).
  destruct (i_cas it =? digits_val cas 0); [exact W|reflexivity].
Qed.
(* a retrieval returns each requested key that is present once per request, with that key's own item *)
Theorem found_own (s : sstate) keys k it : In (k, it) (found_items s keys) -> In k keys /\ live s k = Some it.
Proof.
  unfold found_items. intros H. apply in_flat_map in H. destruct H as (k0 & Hk & H).
  destruct (live s k0) as [it0|] eqn:E; [|destruct H]. destruct H as [H|[]]. inversion H; subst. auto.
Qed.

(* ---- the reply: length framing ---- *)
Definition rv (with_cas : bool) (ki : list Z * item) : rvalue :=
  (fst ki, i_flags (snd ki), i_data (snd ki), if with_cas then i_cas (snd ki) else 0).
Definition item_ok (ki : list Z * item) : bool := legal (fst ki) && (0 <=? i_flags (snd ki)) && (0 <=? i_cas (snd ki)).

Lemma value_block_shape wc k it rest :
  value_block wc (k, it) ++ rest =
  join_with L_sp ([L_VALUE; k; str_of_Z (i_flags it); str_of_Z (zlen (i_data it))] ++ (if wc then [str_of_Z (i_cas it)] else []))
  ++ 13 :: 10 :: i_data it ++ L_crlf ++ rest.
Proof. unfold value_block. destruct wc; cbn [app join_with]; rewrite <- ?app_assoc; reflexivity. Qed.

Theorem parse_render_values wc : forall items fuel, forallb item_ok items = true -> (length items < fuel)%nat ->
  parse_values fuel wc (render_values wc items) = Some (map (rv wc) items).
Proof.
  unfold render_values. induction items as [|[k it] t IH]; intros fuel Hok Hf.
  - destruct fuel; [lia|]. reflexivity.
  - cbn [forallb] in Hok. apply andb_true_iff in Hok. destruct Hok as [Hi Ht]. unfold item_ok in Hi. cbn [fst snd] in Hi.
    apply andb_true_iff in Hi. destruct Hi as [Hi Hc]. apply andb_true_iff in Hi. destruct Hi as [Hk Hfl].
    destruct fuel as [|f]; [cbn in Hf; lia|]. cbn [flat_map]. rewrite <- app_assoc, value_block_shape.
    set (toks := [L_VALUE; k; str_of_Z (i_flags it); str_of_Z (zlen (i_data it))] ++ (if wc then [str_of_Z (i_cas it)] else [])).
    cbn [parse_values].
    assert (Htk : Forall tok_ok toks).
    { subst toks. apply Forall_app. split; [|destruct wc; [apply Forall_cons; [apply str_tok|apply Forall_nil]|apply Forall_nil]].
      apply Forall_cons; [apply tok_of_bool; reflexivity|]. apply Forall_cons; [apply legal_tok, Hk|].
      apply Forall_cons; [apply str_tok|]. apply Forall_cons; [apply str_tok|apply Forall_nil]. }
    rewrite take_line_app by apply join_no13, Htk. cbn [rev app].
    assert (Hne : list_eqb (join_with L_sp toks) L_END = false).
    { subst toks. cbn [app join_with L_VALUE L_END list_eqb]. reflexivity. }
    rewrite Hne. rewrite split_join by (try (subst toks; destruct wc; discriminate); apply toks_no32, Htk).
    subst toks.
    cbn [app]. cbn [list_eqb L_VALUE]. rewrite !Z.eqb_refl. cbn [andb]. rewrite Hk.
    rewrite udec_str by lia. rewrite udec_str by (unfold zlen; lia).
    assert (Hcas : (if wc then match (if wc then [str_of_Z (i_cas it)] else []) with [c] => udec c | _ => None end
                    else match (if wc then [str_of_Z (i_cas it)] else []) with [] => Some 0 | _ => None end) = Some (if wc then i_cas it else 0)).
    { destruct wc; [apply udec_str; lia|reflexivity]. }
    rewrite Hcas.
    unfold zlen. rewrite Nat2Z.id. rewrite skipn_app_len, firstn_app_len.
    assert (Hl : (Z.of_nat (length (i_data it)) + 2 <=? Z.of_nat (length (i_data it ++ L_crlf ++ flat_map (value_block wc) t ++ L_END ++ L_crlf))) = true).
    { rewrite !app_length. cbn [length L_crlf]. lia. }
    rewrite Hl. cbn [andb L_crlf app firstn list_eqb]. rewrite !Z.eqb_refl. cbn [andb].
    replace (length (i_data it) + 2)%nat with (length (i_data it ++ [13; 10])) by (rewrite app_length; reflexivity).
    replace (i_data it ++ 13 :: 10 :: flat_map (value_block wc) t ++ L_END ++ L_crlf)
      with ((i_data it ++ [13; 10]) ++ flat_map (value_block wc) t ++ L_END ++ L_crlf) by (rewrite <- app_assoc; reflexivity).
    rewrite skipn_app_len. rewrite IH by (try assumption; cbn in Hf; lia). reflexivity.
Qed.
