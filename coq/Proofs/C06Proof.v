(* Connection lifecycle (C06): the Client model never trips the lifecycle monitor, never holds more
   than one open socket, and after every public call the set of open sockets is exactly {self.sock}. *)
From Coq Require Import ZArith List Bool Lia.
From PM Require Import Lib.Py Spec.LegalKey Model.Lits Model.World Model.Readers Model.Serde Model.Client
                       Spec.Lifecycle Proofs.Hoare Proofs.Sim.
Import ListNotations.
Open Scope Z_scope.

Section C06.
Variable P : Type.
Variable peer : P -> list Z -> P * list Z.
Variable c : cfg.
Hypothesis tls_tcp : c_tls c = true -> c_tcp c = true.     (* TLS over UNIX sockets is outside C06's quantifier *)
Notation world := (world P).
Notation tls := (c_tls c).

(* only Exception-class failures are scripted for the non-recv socket calls (no interruption after the effect: those are
   BaseException-class events, C10's subject) *)
Definition script_exc (w : world) : Prop :=
  Forall (fun o => match o with OFail e => exn_isa e Exception_ = true | ONormal => True | OLate _ => False end) (w_script w).

Definition As (s : mstate) (k : option Z) (w : world) : Prop :=
  mon tls (w_trace w) = s /\ w_sock w = k /\ script_exc w.

Definition Idle : mstate := mk None false false.
Definition Live (sid ph : Z) (wr : bool) : mstate := mk (Some (sid, ph)) wr false.
Definition Ready (sid : Z) : mstate := Live sid 3 tls.

(* the invariant at call boundaries: the open sockets are exactly {self.sock}, which is ready for I/O *)
Definition Inv (w : world) : Prop :=
  script_exc w /\
  match w_sock w with
  | Some sid => mon tls (w_trace w) = Ready sid
  | None => mon tls (w_trace w) = Idle
  end.

(* ---------------- monitor transitions ---------------- *)
Lemma on_sock_ok s sid ph wr okp nx need :
  s = Live sid ph wr -> okp ph = true -> (negb need || wr) = true -> on_sock s sid okp nx need = Live sid (nx ph) wr.
Proof. intros -> H1 H2. unfold on_sock, Live. cbn. rewrite Z.eqb_refl, H1, H2. reflexivity. Qed.

Lemma mon_close sid ph wr : monitor tls (Live sid ph wr) (EClose sid) = Idle.
Proof. cbn. rewrite Z.eqb_refl. reflexivity. Qed.

Lemma mon_setopt sid ph wr o : (ph <=? 1) = true -> monitor tls (Live sid ph wr) (ESetopt sid o) = Live sid ph wr.
Proof. intros H. exact (on_sock_ok (Live sid ph wr) sid ph wr (fun ph => ph <=? 1) (fun ph => ph) false eq_refl H eq_refl). Qed.
Lemma tls_ok : (negb tls || tls) = true. Proof. destruct tls; reflexivity. Qed.
Lemma mon_send sid b : monitor tls (Ready sid) (ESend sid b) = Ready sid.
Proof. exact (on_sock_ok (Live sid 3 tls) sid 3 tls (fun ph => ph =? 3) (fun ph => ph) tls eq_refl eq_refl tls_ok). Qed.
Lemma mon_recv sid : monitor tls (Ready sid) (ERecv sid) = Ready sid.
Proof. exact (on_sock_ok (Live sid 3 tls) sid 3 tls (fun ph => ph =? 3) (fun ph => ph) tls eq_refl eq_refl tls_ok). Qed.
Lemma mon_timeout0 sid wr : monitor tls (Live sid 0 wr) (ETimeout sid 0) = Live sid 1 wr.
Proof. exact (on_sock_ok (Live sid 0 wr) sid 0 wr (fun ph => ph =? 0) (fun _ => 1) false eq_refl eq_refl eq_refl). Qed.
Lemma mon_connect sid j : monitor tls (Live sid 1 tls) (EConnect sid j) = Live sid 2 tls.
Proof. exact (on_sock_ok (Live sid 1 tls) sid 1 tls (fun ph => ph =? 1) (fun _ => 2) tls eq_refl eq_refl tls_ok). Qed.
Lemma mon_timeout1 sid wr : monitor tls (Live sid 2 wr) (ETimeout sid 1) = Live sid 3 wr.
Proof. exact (on_sock_ok (Live sid 2 wr) sid 2 wr (fun ph => ph =? 2) (fun _ => 3) false eq_refl eq_refl eq_refl). Qed.

(* ---------------- primitives ---------------- *)
Lemma h_log s k e (E : exn -> world -> Prop) : hoare (As s k) (log e) (fun _ => As (monitor tls s e) k) E.
Proof.
  intros w (H1 & H2 & H3). unfold log. split; [|split; [exact H2|exact H3]].
  cbn [w_trace upd_trace]. change (mon tls (e :: w_trace w)) with (monitor tls (mon tls (w_trace w)) e). rewrite H1. reflexivity.
Qed.

Lemma mon_cons e t : mon tls (e :: t) = monitor tls (mon tls t) e.
Proof. reflexivity. Qed.

Lemma script_exc_tail (w : world) o r : w_script w = o :: r -> script_exc w -> script_exc (upd_script w r).
Proof. unfold script_exc. intros E H. cbn. rewrite E in H. inversion H; assumption. Qed.

Lemma h_call s k e :
  hoare (As s k) (call (P:=P) e) (fun _ => As (monitor tls s e) k)
        (fun x w => exn_isa x Exception_ = true /\ As (monitor tls s e) k w).
Proof.
  intros w (H1 & H2 & H3). unfold call, mbind, log, pop. cbn [fst snd w_script upd_trace].
  assert (Hm : mon tls (e :: w_trace w) = monitor tls s e) by (rewrite mon_cons, H1; reflexivity).
  destruct (w_script w) as [|o r] eqn:Es.
  - cbn. split; [exact Hm|split; [exact H2|exact H3]].
  - assert (H3' := H3). unfold script_exc in H3'. rewrite Es in H3'.
    pose proof (Forall_inv H3') as Ho. pose proof (Forall_inv_tail H3') as Hr.
    destruct o as [|x|x]; cbn; [split; [exact Hm|split; [exact H2|exact Hr]]| |destruct Ho].
    split; [exact Ho|]. split; [exact Hm|split; [exact H2|exact Hr]].
Qed.
Lemma h_call_late s k e :
  hoare (As s k) (call_late (P:=P) e) (fun late w => late = None /\ As (monitor tls s e) k w)
        (fun x w => exn_isa x Exception_ = true /\ As (monitor tls s e) k w).
Proof.
  intros w (H1 & H2 & H3). unfold call_late, mbind, log, pop. cbn [fst snd w_script upd_trace].
  assert (Hm : mon tls (e :: w_trace w) = monitor tls s e) by (rewrite mon_cons, H1; reflexivity).
  destruct (w_script w) as [|o r] eqn:Es.
  - cbn. split; [reflexivity|]. split; [exact Hm|split; [exact H2|exact H3]].
  - assert (H3' := H3). unfold script_exc in H3'. rewrite Es in H3'.
    pose proof (Forall_inv H3') as Ho. pose proof (Forall_inv_tail H3') as Hr.
    destruct o as [|x|x]; cbn; [split; [reflexivity|split; [exact Hm|split; [exact H2|exact Hr]]]| |destruct Ho].
    split; [exact Ho|]. split; [exact Hm|split; [exact H2|exact Hr]].
Qed.

Lemma h_pop s k (E : exn -> world -> Prop) :
  hoare (As s k) (@pop P) (fun o w => As s k w /\ match o with OFail x => exn_isa x Exception_ = true | ONormal => True | OLate _ => False end) E.
Proof.
  intros w (H1 & H2 & H3). unfold pop. destruct (w_script w) as [|o r] eqn:Es; cbn.
  - repeat split; auto.
  - assert (H3' := H3). unfold script_exc in H3'. rewrite Es in H3'.
    pose proof (Forall_inv H3') as Ho. pose proof (Forall_inv_tail H3') as Hr.
    split; [split; [exact H1|split; [exact H2|exact Hr]]|exact Ho].
Qed.

Lemma As_stable s k (w w' : world) :
  w_trace w' = w_trace w -> w_sock w' = w_sock w -> w_script w' = w_script w -> As s k w -> As s k w'.
Proof. intros T S C (H1 & H2 & H3). unfold As, script_exc. rewrite T, S, C. auto. Qed.

Lemma h_fresh_sid s k (E : exn -> world -> Prop) : hoare (As s k) (@fresh_sid P) (fun _ => As s k) E.
Proof. intros w (H1 & H2 & H3). cbn. repeat split; auto. Qed.
Lemma h_fresh_wrapped s k raw (E : exn -> world -> Prop) : hoare (As s k) (@fresh_wrapped P raw) (fun _ => As s k) E.
Proof. intros w (H1 & H2 & H3). cbn. repeat split; auto. Qed.
Lemma h_set_sock s k k' (E : exn -> world -> Prop) : hoare (As s k) (@set_sock P k') (fun _ => As s k') E.
Proof. intros w (H1 & H2 & H3). cbn. repeat split; auto. Qed.
Lemma h_drop_sock s k (E : exn -> world -> Prop) : hoare (As s k) (@drop_sock P) (fun _ => As s None) E.
Proof. intros w (H1 & H2 & H3). unfold drop_sock. destruct (w_sock w); cbn; repeat split; auto. Qed.
Lemma h_reset_buf s k (E : exn -> world -> Prop) : hoare (As s k) (@reset_buf P) (fun _ => As s k) E.
Proof. intros w (H1 & H2 & H3). cbn. repeat split; auto. Qed.
Lemma h_mark_bad s k (E : exn -> world -> Prop) : hoare (As s k) (@mark_bad P) (fun _ => As s k) E.
Proof. intros w (H1 & H2 & H3). cbn. repeat split; auto. Qed.
Lemma h_deliver s k b (E : exn -> world -> Prop) : hoare (As s k) (deliver_reply peer b) (fun _ => As s k) E.
Proof.
  intros w H. unfold deliver_reply. destruct (w_sock w); [|exact H].
  destruct (peer (w_peer w) b). apply (As_stable s k w); auto.
Qed.
Lemma h_get_sock s k (E : exn -> world -> Prop) : hoare (As s k) (@get_sock P) (fun r w => r = k /\ As s k w) E.
Proof. intros w (H1 & H2 & H3). cbn. repeat split; auto. Qed.

(* ---------------- close ---------------- *)
(* from the boundary invariant: afterwards nothing is open and self.sock is None, whatever close() did *)
Lemma h_client_close :
  hoare Inv (client_close P) (fun _ => As Idle None) (fun _ => As Idle None).
Proof.
  intros w [Hs Hm]. unfold client_close, mbind, get_sock.
  destruct (w_sock w) as [sid|] eqn:Es.
  - assert (Hpre : As (Ready sid) (Some sid) w) by (repeat split; auto).
    pose proof (h_call (Ready sid) (Some sid) (EClose sid) w Hpre) as Hc.
    unfold mfinally, mtry.
    destruct (call (EClose sid) w) as [[uu|x] w'] eqn:Ec.
      pose proof (h_drop_sock _ _ (fun _ _ => False) w' Hc) as Hd. unfold Ready in Hd.
      rewrite (mon_close sid 3 tls) in Hd.
      destruct (drop_sock w') as [[u2|e2] w'']; [exact Hd|destruct Hd].
    + destruct Hc as [Hx Hc]. rewrite Hx. cbn [ret].
      pose proof (h_drop_sock _ _ (fun _ _ => False) w' Hc) as Hd. unfold Ready in Hd.
      rewrite (mon_close sid 3 tls) in Hd.
      destruct (drop_sock w') as [[u2|e2] w'']; [exact Hd|destruct Hd].
  - cbn. repeat split; auto.
Qed.

(* close from an arbitrary As state with self.sock = None is a no-op *)
Lemma h_client_close_none s (E : exn -> world -> Prop) :
  hoare (As s None) (client_close P) (fun _ => As s None) E.
Proof. intros w (H1 & H2 & H3). unfold client_close, mbind, get_sock. rewrite H2. cbn. repeat split; auto. Qed.

(* ---------------- _connect ---------------- *)
Definition wr_after : bool := tls.

Lemma h_try_make j :
  hoare (As Idle None) (try_make P c j)
        (fun r w => match r with
                    | inl sid => As (Live sid 0 tls) None w
                    | inr e => As Idle None w end)
        (fun _ => As Idle None).
Proof.
  unfold try_make.
  cbn beta; eapply h_bind; [apply h_pop|]. intros o. destruct o as [|e|e]; [| |intros w [_ []]].
  - (* socket() succeeded *)
    cbn beta; eapply h_conseq with (Pre' := As Idle None); [|intros w [H _]; exact H|intros a w H; exact H|intros e w H; exact H].
    cbn beta; eapply h_bind; [apply h_fresh_sid|]. intros sid.
    cbn beta; eapply h_bind; [apply h_log|]. intros ?u; cbn beta.
    change (monitor tls Idle (ESocket sid j)) with (Live sid 0 false).
    cbn beta; eapply h_try with (E1 := fun e w => exn_isa e Exception_ = true /\ (As (Live sid 0 false) None w)).
    + (* body *)
      cbn beta; eapply h_bind with (Q1 := fun _ => As (Live sid 0 false) None).
      * destruct (c_nodelay c).
        -- eapply h_conseq; [apply h_call|intros w H; exact H| |].
           ++ intros a w H. rewrite (mon_setopt sid 0 false 1 eq_refl) in H. exact H.
           ++ intros e w [Hx H]. rewrite (mon_setopt sid 0 false 1 eq_refl) in H. split; assumption.
        -- apply h_ret'; intros ?w ?H; cbn beta; try assumption.
      * intros ?u; cbn beta. destruct tls eqn:Et.
        -- cbn beta; eapply h_bind; [apply h_pop|]. intros o2. destruct o2 as [|e2|e2]; [| |intros w [_ []]].
           ++ eapply h_conseq with (Pre' := As (Live sid 0 false) None); [|intros w [H _]; exact H|intros a w H; exact H|intros e w H; exact H].
              cbn beta; eapply h_bind; [apply h_fresh_wrapped|]. intros wsid.
              cbn beta; eapply h_bind; [apply h_log|]. intros ?u; cbn beta.
              assert (Em : forall t, monitor t (Live sid 0 false) (EWrap sid wsid) = Live wsid 0 true).
              { intros t. cbn. rewrite Z.eqb_refl. reflexivity. }
              rewrite Em. apply h_ret'; intros ?w ?H; cbn beta; try assumption.
           ++ intros w [H Hx]. cbn beta in Hx.
              pose proof (h_log (Live sid 0 false) None (EWrapFail sid) (fun _ _ => False) w) as Hl.
              rewrite Et in Hl. specialize (Hl H).
              unfold mbind. destruct (log (EWrapFail sid) w) as [[uu|e3] w']; [|destruct Hl].
              cbn. split; [exact Hx|exact Hl].
        -- apply h_ret'; intros ?w ?H; cbn beta; try assumption.
    + (* except Exception: sock.close(); a failing close() propagates, the socket counts as closed *)
      intros e He. intros w [Hx H].
      pose proof (h_call (Live sid 0 false) None (EClose sid) w H) as Hc.
      rewrite (mon_close sid 0 false) in Hc.
      unfold mbind. destruct (call (EClose sid) w) as [[uu|x] w']; [exact Hc|exact (proj2 Hc)].
    + intros e w He [Hx _]. congruence.
  - (* socket() raised *)
    intros w [H Hx]. cbn beta in Hx.
    pose proof (h_log Idle None (ESocketFail j) (fun _ _ => False) w H) as Hl.
    unfold mbind. destruct (log (ESocketFail j) w) as [[uu|e3] w']; [|destruct Hl].
    rewrite Hx. cbn. exact Hl.
Qed.

Lemma h_addr_loop : forall n j err,
  hoare (As Idle None) (addr_loop P c j n err)
        (fun r w => match r with
                    | (Some (sid, _), None) => As (Live sid 0 tls) None w
                    | (Some _, Some _) => False
                    | (None, _) => As Idle None w end)
        (fun _ => As Idle None).
Proof.
  induction n as [|n IH]; intros j err; cbn [addr_loop].
  - intros w H. exact H.
  - cbn beta; eapply h_bind; [apply h_try_make|]. intros r. destruct r as [sid|e].
    + intros w H. exact H.
    + apply IH.
Qed.

(* the second half of _connect on a freshly created socket *)
Lemma h_connect_tail sid j :
  hoare (As (Live sid 0 tls) None)
        (mtry (mbind (call (ETimeout sid 0)) (fun _ =>
           mbind (if c_keepalive c then mbind (call (ESetopt sid 2)) (fun _ => mbind (call (ESetopt sid 3)) (fun _ =>
                    mbind (call (ESetopt sid 4)) (fun _ => call (ESetopt sid 5)))) else ret tt) (fun _ =>
           mbind (call (EConnect sid j)) (fun _ => call (P:=P) (ETimeout sid 1))))) Exception_
           (fun e => mbind (call (EClose sid)) (fun _ => throw e)))
        (fun _ => As (Ready sid) None) (fun _ => As Idle None).
Proof.
  pose proof (mon_timeout0 sid tls) as T0.
  assert (SO : forall o, monitor tls (Live sid 1 tls) (ESetopt sid o) = Live sid 1 tls) by (intros o; apply mon_setopt; reflexivity).
  pose proof (mon_connect sid j) as CN.
  pose proof (mon_timeout1 sid tls) as T1.
  cbn beta; eapply h_try with (E1 := fun e w => exn_isa e Exception_ = true /\ exists ph, As (Live sid ph tls) None w).
  - cbn beta; eapply h_bind with (Q1 := fun _ => As (Live sid 1 tls) None).
    { eapply h_conseq; [apply h_call|intros w H; exact H|intros a w H; rewrite T0 in H; exact H|].
      intros e w [Hx H]. rewrite T0 in H. split; [exact Hx|exists 1; exact H]. }
    intros ?u; cbn beta. cbn beta; eapply h_bind with (Q1 := fun _ => As (Live sid 1 tls) None).
    { destruct (c_keepalive c); [|(apply h_ret'; intros ?w ?H; cbn beta; try assumption)].
      assert (K : forall o, hoare (As (Live sid 1 tls) None) (call (P:=P) (ESetopt sid o)) (fun _ => As (Live sid 1 tls) None)
                              (fun e w => exn_isa e Exception_ = true /\ exists ph, As (Live sid ph tls) None w)).
      { intros o. eapply h_conseq; [apply h_call|intros w H; exact H|intros a w H; rewrite SO in H; exact H|].
        intros e w [Hx H]. rewrite SO in H. split; [exact Hx|exists 1; exact H]. }
      cbn beta; eapply h_bind; [apply K|]. intros ?u; cbn beta. cbn beta; eapply h_bind; [apply K|]. intros ?u; cbn beta. cbn beta; eapply h_bind; [apply K|]. intros ?u; cbn beta. apply K. }
    intros ?u; cbn beta. cbn beta; eapply h_bind with (Q1 := fun _ => As (Live sid 2 tls) None).
    { eapply h_conseq; [apply h_call|intros w H; exact H|intros a w H; rewrite CN in H; exact H|].
      intros e w [Hx H]. rewrite CN in H. split; [exact Hx|exists 2; exact H]. }
    intros ?u; cbn beta. eapply h_conseq; [apply h_call|intros w H; exact H|intros a w H; rewrite T1 in H; exact H|].
    intros e w [Hx H]. rewrite T1 in H. split; [exact Hx|exists 3; exact H].
  - intros e He w [Hx [ph H]].
    pose proof (h_call (Live sid ph tls) None (EClose sid) w H) as Hc.
    rewrite (mon_close sid ph tls) in Hc.
    unfold mbind. destruct (call (EClose sid) w) as [[uu|x] w']; [exact Hc|exact (proj2 Hc)].
  - intros e w He [Hx _]. congruence.
Qed.

Lemma h_client_connect :
  hoare Inv (client_connect P c) (fun _ w => exists sid, As (Ready sid) (Some sid) w) (fun _ => As Idle None).
Proof.
  unfold client_connect.
  cbn beta; eapply h_bind; [apply h_client_close|]. intros ?u; cbn beta.
  cbn beta; eapply h_bind with (Q1 := fun sj w => As (Live (fst sj) 0 tls) None w).
  - case_eq (c_tcp c); intros Etcp.
    + cbn beta; eapply h_bind with (Q1 := fun _ => As Idle None).
      { eapply h_conseq; [apply h_call|intros w H; exact H|intros a w H; exact H|intros e w [_ H]; exact H]. }
      intros ?u; cbn beta. cbn beta; eapply h_bind; [apply h_addr_loop|].
      intros [[[sid j]|] [e|]]; intros w H; cbn in *; try exact H; try destruct H.
    + (* UNIX socket: no TLS by hypothesis *)
      assert (Etls : tls = false) by (destruct tls eqn:X; [rewrite (tls_tcp eq_refl) in Etcp; discriminate|reflexivity]).
      cbn beta; eapply h_bind; [apply h_pop|]. intros o. destruct o as [|e|e]; [| |intros w [_ []]].
      * eapply h_conseq with (Pre' := As Idle None); [|intros w [H _]; exact H|intros a w H; exact H|intros e w H; exact H].
        cbn beta; eapply h_bind; [apply h_fresh_sid|]. intros sid.
        cbn beta; eapply h_bind; [apply h_log|]. intros ?u; cbn beta.
        change (monitor tls Idle (ESocket sid (-1))) with (Live sid 0 false). rewrite Etls. apply h_ret'; intros ?w ?H; cbn beta; try assumption.
      * intros w [H Hx].
        pose proof (h_log Idle None (ESocketFail (-1)) (fun _ _ => False) w H) as Hl.
        unfold mbind. destruct (log (ESocketFail (-1)) w) as [[uu|e3] w']; [|destruct Hl]. cbn. exact Hl.
  - intros [sid j]. cbn [fst].
    cbn beta; eapply h_bind; [apply h_connect_tail|]. intros ?u; cbn beta.
    eapply h_conseq; [apply h_set_sock|intros w H; exact H|intros a w H; exists sid; exact H|intros e w H; exact H].
Qed.

(* ---------------- address fallback ---------------- *)
(* a resolved address whose socket() fails with an ordinary error is skipped ... *)
Lemma addr_loop_skip j n err (w : world) e rest :
  w_script w = OFail e :: rest -> exn_isa e Exception_ = true ->
  addr_loop P c j (S n) err w =
  addr_loop P c (j + 1) n (Some e) (upd_trace (upd_script w rest) (ESocketFail j :: w_trace w)).
Proof.
  intros Hs He. cbn [addr_loop]. unfold mbind at 1. unfold try_make. unfold mbind at 1. unfold pop. rewrite Hs.
  unfold mbind at 1. unfold log at 1. cbn [fst snd]. rewrite He. cbn [ret]. reflexivity.
Qed.
(* ... and the first address for which a socket can be set up is used, with no error left over from
   the addresses that were skipped *)
Lemma addr_loop_success j n err (w w' : world) sid :
  try_make P c j w = (Ok (inl sid), w') -> addr_loop P c j (S n) err w = (Ok (Some (sid, j), None), w').
Proof. intros H. cbn [addr_loop]. unfold mbind. rewrite H. reflexivity. Qed.

(* ---------------- the exchange phase ---------------- *)
Definition InvS (w : world) : Prop := exists sid, As (Ready sid) (Some sid) w.
Definition InvN : world -> Prop := As Idle None.
Lemma Inv_iff w : Inv w <-> (InvS w \/ InvN w).
Proof.
  unfold Inv, InvS, InvN, As. split.
  - intros [Hs Hm]. destruct (w_sock w) as [sid|] eqn:Es; [left; exists sid; auto|right; auto].
  - intros [[sid (H1 & H2 & H3)]|(H1 & H2 & H3)]; rewrite H2; auto.
Qed.
Lemma InvS_Inv w : InvS w -> Inv w. Proof. intros H. apply Inv_iff. left. exact H. Qed.
Lemma InvN_Inv w : InvN w -> Inv w. Proof. intros H. apply Inv_iff. right. exact H. Qed.

Lemma h_ensure_connected : hoare Inv (ensure_connected P c) (fun _ => InvS) (fun _ => InvN).
Proof.
  intros w Hw. unfold ensure_connected, mbind, get_sock.
  destruct (w_sock w) as [sid|] eqn:Es.
  - cbn. apply Inv_iff in Hw. destruct Hw as [H|(H1 & H2 & H3)]; [exact H|congruence].
  - pose proof (h_client_connect w Hw) as Hc. destruct (client_connect P c w) as [[u|e] w']; exact Hc.
Qed.

Lemma h_send b : hoare InvS (send peer b) (fun _ => InvS) (fun _ => InvS).
Proof.
  intros w [sid H]. unfold send, mbind, get_sock. destruct H as (H1 & H2 & H3). rewrite H2.
  pose proof (h_call_late (Ready sid) (Some sid) (ESend sid b) w (conj H1 (conj H2 H3))) as Hc.
  rewrite mon_send in Hc.
  destruct (call_late (ESend sid b) w) as [[late|e] w'].
  - destruct Hc as [-> Hc].
    pose proof (h_deliver (Ready sid) (Some sid) b (fun _ _ => False) w' Hc) as Hd.
    destruct (deliver_reply peer b w') as [[u2|e2] w'']; [exists sid; exact Hd|destruct Hd].
  - exists sid. exact (proj2 Hc).
Qed.

Lemma mon_recv_n sid n (w : world) : As (Ready sid) (Some sid) w -> As (Ready sid) (Some sid) (snd (log_n n (ERecv sid) w)).
Proof.
  revert w. induction n as [|n IH]; intros w H; [exact H|].
  cbn [log_n]. unfold mbind.
  pose proof (h_log (Ready sid) (Some sid) (ERecv sid) (fun _ _ => False) w H) as Hl. rewrite mon_recv in Hl.
  destruct (log (ERecv sid) w) as [[u|e] w']; [|destruct Hl]. apply IH, Hl.
Qed.

Lemma h_run_reader {A} (r : list choice -> list Z -> list Z -> rres A * rstate * nat) :
  hoare InvS (run_reader r) (fun _ => InvS) (fun _ => InvS).
Proof.
  intros w [sid (H1 & H2 & H3)]. unfold run_reader. rewrite H2.
  destruct (r (w_choices w) (conn_get (w_conns w) sid) (w_buf w)) as [[res [[cs' av'] b']] n].
  set (w1 := upd_buf (upd_conns (upd_choices w cs') (conn_set (w_conns w) sid av')) b').
  assert (Hw1 : As (Ready sid) (Some sid) w1) by (apply (As_stable _ _ w); auto; repeat split; auto).
  pose proof (mon_recv_n sid n w1 Hw1) as Hn.
  destruct (log_n n (ERecv sid) w1) as [u w2]. cbn [snd] in Hn.
  destruct res; exists sid; exact Hn.
Qed.

Lemma h_guarded_reader {A} (r : list choice -> list Z -> list Z -> rres A * rstate * nat) :
  hoare InvS (guarded_reader P r) (fun _ => InvS) (fun _ => Inv).
Proof.
  unfold guarded_reader.
  eapply h_try with (E1 := fun _ => InvS); [apply h_run_reader| |intros e w _ H; apply InvS_Inv, H].
  intros e He. eapply h_bind with (Q1 := fun _ => InvN).
  - eapply h_conseq; [apply h_client_close|intros w H; apply InvS_Inv, H|intros a w H; exact H|intros x w H; apply InvN_Inv, H].
  - intros u. apply h_throw'. intros w H. apply InvN_Inv, H.
Qed.

(* what the cleanup handler of an exchange guarantees: nothing open, self.sock = None *)
Definition Eh (h : exn) (e : exn) (w : world) : Prop := Inv w /\ (exn_isa e h = true -> InvN w).

Lemma Eh_of_InvN h e w : InvN w -> Eh h e w.
Proof. intros H. split; [apply InvN_Inv, H|intros _; exact H]. Qed.

Lemma h_handler_close {A} h e (Q : A -> world -> Prop) :
  exn_isa e h = true -> hoare Inv (mbind (client_close P) (fun _ => @throw P A e)) Q (Eh h).
Proof.
  intros He. eapply h_bind with (Q1 := fun _ => InvN).
  - eapply h_conseq; [apply h_client_close|intros w H; exact H|intros a w H; exact H|intros x w H; apply Eh_of_InvN, H].
  - intros u. apply h_throw'. intros w H. apply Eh_of_InvN, H.
Qed.

Lemma InvS_stable (w w' : world) :
  w_trace w' = w_trace w -> w_sock w' = w_sock w -> w_script w' = w_script w -> InvS w -> InvS w'.
Proof. intros T S C [sid H]. exists sid. apply (As_stable _ _ w); assumption. Qed.

Lemma hS_reset_buf (E : exn -> world -> Prop) : hoare InvS (@reset_buf P) (fun _ => InvS) E.
Proof. intros w H. cbn. apply (InvS_stable w); auto. Qed.
Lemma hS_mark_bad (E : exn -> world -> Prop) : hoare InvS (@mark_bad P) (fun _ => InvS) E.
Proof. intros w H. cbn. apply (InvS_stable w); auto. Qed.
Lemma h_lift_keep {A} (I : world -> Prop) (x : exc A) : hoare I (lift x) (fun _ => I) (fun _ => I).
Proof. intros w H. unfold lift. destruct x; exact H. Qed.

(* reading phase helpers: from InvS, normal exit InvS, exceptional exit Inv *)
Definition rd {A} (m : M P A) : Prop := hoare InvS m (fun _ => InvS) (fun _ => Inv).
Lemma rd_bind {A B} (m : M P A) (k : A -> M P B) : rd m -> (forall a, rd (k a)) -> rd (mbind m k).
Proof. intros H1 H2. eapply h_bind; [apply H1|intros a; apply H2]. Qed.
Lemma rd_lift {A} (x : exc A) : rd (lift x).
Proof. eapply h_conseq; [apply (h_lift_keep InvS)|auto|auto|intros e w H; apply InvS_Inv, H]. Qed.
Lemma rd_ret {A} (a : A) : rd (ret a).
Proof. apply h_ret'. auto. Qed.
Lemma rd_throw {A} e : rd (@throw P A e).
Proof. apply h_throw'. intros w H. apply InvS_Inv, H. Qed.
Lemma rd_reader {A} (r : list choice -> list Z -> list Z -> rres A * rstate * nat) : rd (guarded_reader P r).
Proof. apply h_guarded_reader. Qed.
Lemma rd_for {A S} (l : list A) (body : A -> S -> M P S) : (forall x s, rd (body x s)) -> forall s, rd (mfor l body s).
Proof. intros H s. apply (h_for P (fun _ => InvS) l body (fun _ => Inv)). intros x s0. apply H. Qed.

Lemma rd_extract_value expect_cas line remapped : rd (extract_value P c expect_cas line remapped).
Proof.
  unfold extract_value. apply rd_bind; [apply rd_lift|]. intros [[[key flags] size] cas].
  apply rd_bind; [apply rd_lift|]. intros sz.
  apply rd_bind.
  { destruct (sz <? 0); [|apply rd_ret]. eapply h_conseq; [apply hS_mark_bad|auto|auto|intros e w H; exact H]. }
  intros u. apply rd_bind; [apply rd_reader|]. intros value.
  apply rd_bind; [apply rd_lift|]. intros okey. apply rd_bind; [apply rd_lift|]. intros fl.
  apply rd_bind; [apply rd_lift|]. intros v. apply rd_ret.
Qed.

Lemma rd_fetch_loop name expect_cas remapped : forall fuel result, rd (fetch_loop P fuel c name expect_cas remapped result).
Proof.
  induction fuel as [|fuel IH]; intros result; cbn [fetch_loop]; [apply rd_throw|].
  apply rd_bind; [apply rd_reader|]. intros line. apply rd_bind; [apply rd_lift|]. intros u.
  destruct (list_eqb line L_END || list_eqb line L_OK); [apply rd_ret|].
  destruct (prefixb L_VALUE line).
  - apply rd_bind; [apply rd_extract_value|]. intros [k v]. apply IH.
  - destruct (list_eqb name L_stats && prefixb L_STAT line).
    + destruct (split_ws line) as [|x [|k rest]]; try apply rd_throw. apply IH.
    + destruct (list_eqb name L_stats && prefixb L_ITEM line); [|apply rd_throw].
      destruct (split_ws line) as [|x [|k rest]]; try apply rd_throw. apply IH.
Qed.

(* an exchange: body from InvS with reading-phase posts, wrapped in the cleanup handler *)
Lemma h_exchange_try {A} (body : M P A) h (handler : exn -> M P A) :
  rd body ->
  (forall e, exn_isa e h = true -> hoare Inv (handler e) (fun _ => Inv) (Eh h)) ->
  hoare InvS (mtry body h handler) (fun _ => Inv) (Eh h).
Proof.
  intros Hb Hh. eapply h_try with (E1 := fun _ => Inv).
  - eapply h_conseq; [apply Hb|auto|intros a w H; apply InvS_Inv, H|auto].
  - exact Hh.
  - intros e w He H. split; [exact H|]. intros X. congruence.
Qed.

Lemma Inv_reset_buf (E : exn -> world -> Prop) (I : world -> Prop) :
  (forall w w', w_trace w' = w_trace w -> w_sock w' = w_sock w -> w_script w' = w_script w -> I w -> I w') ->
  hoare I (@reset_buf P) (fun _ => I) E.
Proof. intros HI w H. cbn. apply (HI w); auto. Qed.
Lemma Inv_stable (w w' : world) :
  w_trace w' = w_trace w -> w_sock w' = w_sock w -> w_script w' = w_script w -> Inv w -> Inv w'.
Proof. unfold Inv, script_exc. intros T S C H. rewrite T, S, C. exact H. Qed.

(* ---- the socket phase of the three exchange paths: every exit keeps the invariant, and an exception of a
        class covered by the cleanup handler leaves nothing open and self.sock = None ---- *)
Lemma h_fetch_io name expect_cas remapped cmd :
  hoare Inv (fetch_io P peer c name expect_cas remapped cmd) (fun _ => Inv) (Eh (h_fetch c)).
Proof.
  unfold fetch_io, exchange.
  eapply h_bind; [apply (Inv_reset_buf _ Inv Inv_stable)|]. intros u. cbn beta.
  eapply h_try with (E1 := fun _ => Inv).
  - eapply h_bind with (Q1 := fun _ => InvS).
    { eapply h_conseq; [apply h_ensure_connected|auto|auto|intros e w H; apply InvN_Inv, H]. }
    intros u1. cbn beta. eapply h_bind with (Q1 := fun _ => InvS).
    { eapply h_conseq; [apply h_send|auto|auto|intros e w H; apply InvS_Inv, H]. }
    intros u2.
    apply (h_read P InvS (fun w => S (S (length (w_buf w ++ cur_avail w))))
                  (fun fuel => fetch_loop P fuel c name expect_cas remapped [])).
    intros fuel.
    eapply h_conseq; [apply rd_fetch_loop|auto|intros a w H; apply InvS_Inv, H|auto].
  - intros e He. eapply h_bind with (Q1 := fun _ => InvN).
    + eapply h_conseq; [apply h_client_close|auto|auto|intros x w H; apply Eh_of_InvN, H].
    + intros u3. destruct (c_ignore_exc c && exn_isa e Exception_).
      * apply h_ret'. intros w H. apply InvN_Inv, H.
      * apply h_throw'. intros w H. apply Eh_of_InvN, H.
  - intros e w He H. split; [exact H|intros X; congruence].
Qed.

Lemma h_store_io name values noreply cmds :
  hoare Inv (store_io P peer c name values noreply cmds) (fun _ => Inv) (Eh (h_store c)).
Proof.
  unfold store_io.
  eapply h_bind with (Q1 := fun _ => InvS).
  { eapply h_conseq; [apply h_ensure_connected|auto|auto|intros e w H; apply Eh_of_InvN, H]. }
  intros u. unfold exchange.
  eapply h_bind; [apply (Inv_reset_buf _ InvS InvS_stable)|]. intros u1. cbn beta.
  apply h_exchange_try.
  - apply rd_bind.
    { eapply h_conseq; [apply h_send|auto|auto|intros e w H; apply InvS_Inv, H]. }
    intros u2. destruct noreply; [apply rd_ret|].
    apply rd_for. intros kv results. apply rd_bind; [apply rd_reader|]. intros line.
    apply rd_bind; [apply rd_lift|]. intros u3. apply rd_bind; [apply rd_lift|]. intros v. apply rd_ret.
  - intros e He. apply h_handler_close, He.
Qed.

Lemma h_misc_cmd cmds noreply end_tokens :
  hoare Inv (misc_cmd P peer c cmds noreply end_tokens) (fun _ => Inv) (Eh (h_misc c)).
Proof.
  unfold misc_cmd.
  eapply h_bind with (Q1 := fun _ => InvS).
  { eapply h_conseq; [apply h_ensure_connected|auto|auto|intros e w H; apply Eh_of_InvN, H]. }
  intros u. unfold exchange.
  eapply h_bind; [apply (Inv_reset_buf _ InvS InvS_stable)|]. intros u1. cbn beta.
  apply h_exchange_try.
  - apply rd_bind.
    { eapply h_conseq; [apply h_send|auto|auto|intros e w H; apply InvS_Inv, H]. }
    intros u2. destruct noreply; [apply rd_ret|].
    apply rd_for. intros x results. apply rd_bind; [apply rd_reader|]. intros line.
    apply rd_bind; [apply rd_lift|]. intros u3. apply rd_ret.
  - intros e He. apply h_handler_close, He.
Qed.

(* ---- public operations: the invariant holds again whenever a call returns or raises ---- *)
Definition keeps {A} (m : M P A) : Prop := hoare Inv m (fun _ => Inv) (fun _ => Inv).
Lemma keeps_bind {A B} (m : M P A) (k : A -> M P B) : keeps m -> (forall a, keeps (k a)) -> keeps (mbind m k).
Proof. intros H1 H2. eapply h_bind; [apply H1|intros a; apply H2]. Qed.
Lemma keeps_lift {A} (x : exc A) : keeps (lift x). Proof. apply (h_lift_keep Inv). Qed.
Lemma keeps_ret {A} (a : A) : keeps (ret a). Proof. apply h_ret'. auto. Qed.
Lemma keeps_throw {A} e : keeps (@throw P A e). Proof. apply h_throw'. auto. Qed.
Lemma keeps_of_Eh {A} (m : M P A) h : hoare Inv m (fun _ => Inv) (Eh h) -> keeps m.
Proof. intros H. eapply h_conseq; [apply H|auto|auto|intros e w [H1 _]; exact H1]. Qed.

Lemma keeps_fetch_cmd name keys expect_cas prefix expire : keeps (fetch_cmd P peer c name keys expect_cas prefix expire).
Proof.
  unfold fetch_cmd. apply keeps_bind; [apply keeps_lift|]. intros pks. apply keeps_bind; [apply keeps_lift|]. intros eb.
  eapply keeps_of_Eh, h_fetch_io.
Qed.
Lemma keeps_store_cmd name values expire noreply flags cas : keeps (store_cmd P peer c name values expire noreply flags cas).
Proof.
  unfold store_cmd. apply keeps_bind; [apply keeps_lift|]. intros eb. apply keeps_bind; [apply keeps_lift|]. intros cmds.
  eapply keeps_of_Eh, h_store_io.
Qed.
Lemma keeps_misc_cmd cmds noreply end_tokens : keeps (misc_cmd P peer c cmds noreply end_tokens).
Proof. eapply keeps_of_Eh, h_misc_cmd. Qed.
Lemma keeps_client_close : keeps (client_close P).
Proof. eapply h_conseq; [apply h_client_close|auto|intros a w H; apply InvN_Inv, H|intros e w H; apply InvN_Inv, H]. Qed.

Lemma keeps_mtry {A} (m : M P A) cls (h : exn -> M P A) : keeps m -> (forall e, keeps (h e)) -> keeps (mtry m cls h).
Proof.
  intros Hm Hh w Hw. unfold mtry. specialize (Hm w Hw). destruct (m w) as [[a|e] w']; [exact Hm|].
  destruct (exn_isa e cls); [apply (Hh e w' Hm)|exact Hm].
Qed.

Ltac kp := repeat first
  [ apply keeps_ret | apply keeps_throw | apply keeps_lift
  | apply keeps_bind; [first [apply keeps_lift|apply keeps_store_cmd|apply keeps_fetch_cmd|apply keeps_misc_cmd|apply keeps_client_close]|intros]
  | apply keeps_mtry; [|intros]
  | match goal with |- keeps (if ?b then _ else _) => destruct b end
  | match goal with |- keeps (match ?x with _ => _ end) => destruct x end ].

Theorem keeps_run_op o : keeps (run_op P peer c o).
Proof.
  destruct o; cbn [run_op]; unfold arith; kp.
Qed.

Theorem keeps_run_ops : forall ops, hoare Inv (run_ops P peer c ops) (fun _ => Inv) (fun _ => Inv).
Proof.
  induction ops as [|o t IH]; cbn [run_ops]; [apply h_ret'; auto|].
  intros w Hw. pose proof (keeps_run_op o w Hw) as H1.
  destruct (run_op P peer c o w) as [r w'].
  assert (Hw' : Inv w') by (destruct r; exact H1).
  specialize (IH w' Hw'). destruct (run_ops P peer c t w') as [[rs|e] w'']; exact IH.
Qed.
End C06.
