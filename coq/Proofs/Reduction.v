(* A lock makes its block atomic: forward simulation with stuttering from the micro-step interleaving semantics (one
   shared access per step) to the semantics in which acquire..release is one transition.  Generic in the program: the
   hypotheses wf_* are the lock discipline of the program text. Used by C08. *)
From Coq Require Import List Arith Bool Lia.
Import ListNotations.

(* Generic "a lock makes its block atomic" theorem, as a forward simulation with stuttering. *)
Section Reduction.
Variables (Sh Loc Ev : Type).
Inductive kind_t := KFree | KAcq | KCrit | KRel | KDone.
Variable kind : Loc -> kind_t.                    (* next action of a thread, from its local state (pc lives in Loc) *)
Variable free_step : Loc -> Loc * list Ev.        (* outside the lock: no access to Sh *)
Variable crit_step : Sh -> Loc -> Sh * Loc * list Ev.
Variable acq_step rel_step : Loc -> Loc.

Definition inside (k : kind_t) := match k with KCrit | KRel => true | _ => false end.
(* lock discipline of the program text (checked by computation on the generated IR) *)
Hypothesis wf_acq  : forall l, kind l = KAcq -> inside (kind (acq_step l)) = true.
Hypothesis wf_crit : forall sh l, kind l = KCrit -> inside (kind (snd (fst (crit_step sh l)))) = true.
Hypothesis wf_rel  : forall l, kind l = KRel -> inside (kind (rel_step l)) = false.
Hypothesis wf_free : forall l, kind l = KFree -> inside (kind (fst (free_step l))) = false.

Definition tid := nat.
Definition upd {A} (f : tid -> A) (t : tid) (a : A) : tid -> A := fun u => if Nat.eqb u t then a else f u.
Lemma upd_same {A} (f : tid -> A) t a : upd f t a t = a. Proof. unfold upd. now rewrite Nat.eqb_refl. Qed.
Lemma upd_other {A} (f : tid -> A) t a u : u <> t -> upd f t a u = f u.
Proof. unfold upd. intros H. destruct (Nat.eqb_spec u t); congruence. Qed.

Record mstate := { m_sh : Sh; m_lock : option tid; m_loc : tid -> Loc; m_ev : tid -> list Ev }.
Record astate := { a_sh : Sh; a_loc : tid -> Loc; a_ev : tid -> list Ev }.

(* micro-step semantics: one shared access per step, scheduler picks t *)
Inductive mstep (t : tid) : mstate -> mstate -> Prop :=
| MFree s l' e : kind (m_loc s t) = KFree -> free_step (m_loc s t) = (l', e) ->
    mstep t s {| m_sh := m_sh s; m_lock := m_lock s; m_loc := upd (m_loc s) t l'; m_ev := upd (m_ev s) t (m_ev s t ++ e) |}
| MAcq s : kind (m_loc s t) = KAcq -> m_lock s = None ->
    mstep t s {| m_sh := m_sh s; m_lock := Some t; m_loc := upd (m_loc s) t (acq_step (m_loc s t)); m_ev := m_ev s |}
| MCrit s sh' l' e : kind (m_loc s t) = KCrit -> crit_step (m_sh s) (m_loc s t) = (sh', l', e) ->
    mstep t s {| m_sh := sh'; m_lock := m_lock s; m_loc := upd (m_loc s) t l'; m_ev := upd (m_ev s) t (m_ev s t ++ e) |}
| MRel s : kind (m_loc s t) = KRel ->
    mstep t s {| m_sh := m_sh s; m_lock := None; m_loc := upd (m_loc s) t (rel_step (m_loc s t)); m_ev := m_ev s |}.

(* run of critical steps *)
Inductive crit_run : Sh -> Loc -> Sh -> Loc -> list Ev -> Prop :=
| CR0 sh l : crit_run sh l sh l []
| CRS sh l sh1 l1 e1 sh2 l2 e2 : crit_run sh l sh1 l1 e1 -> kind l1 = KCrit ->
    crit_step sh1 l1 = (sh2, l2, e2) -> crit_run sh l sh2 l2 (e1 ++ e2).

(* atomic semantics: acquire; whole block; release = one transition *)
Inductive astep (t : tid) : astate -> astate -> Prop :=
| AFree s l' e : kind (a_loc s t) = KFree -> free_step (a_loc s t) = (l', e) ->
    astep t s {| a_sh := a_sh s; a_loc := upd (a_loc s) t l'; a_ev := upd (a_ev s) t (a_ev s t ++ e) |}
| ABlock s sh' l' e : kind (a_loc s t) = KAcq ->
    crit_run (a_sh s) (acq_step (a_loc s t)) sh' l' e -> kind l' = KRel ->
    astep t s {| a_sh := sh'; a_loc := upd (a_loc s) t (rel_step l'); a_ev := upd (a_ev s) t (a_ev s t ++ e) |}.

Inductive areach (s0 : astate) : astate -> Prop :=
| AR0 : areach s0 s0
| ARS s t s' : areach s0 s -> astep t s s' -> areach s0 s'.
Inductive mreach (s0 : mstate) : mstate -> Prop :=
| MR0 : mreach s0 s0
| MRS s t s' : mreach s0 s -> mstep t s s' -> mreach s0 s'.

(* simulation relation *)
Definition R (m : mstate) (a : astate) : Prop :=
  match m_lock m with
  | None => m_sh m = a_sh a /\ (forall u, m_loc m u = a_loc a u /\ m_ev m u = a_ev a u /\ inside (kind (m_loc m u)) = false)
  | Some t =>
      kind (a_loc a t) = KAcq /\
      (exists e, crit_run (a_sh a) (acq_step (a_loc a t)) (m_sh m) (m_loc m t) e /\ m_ev m t = a_ev a t ++ e) /\
      inside (kind (m_loc m t)) = true /\
      (forall u, u <> t -> m_loc m u = a_loc a u /\ m_ev m u = a_ev a u /\ inside (kind (m_loc m u)) = false)
  end.

Lemma sim_step m a t m' : R m a -> mstep t m m' -> exists a', R m' a' /\ (a' = a \/ astep t a a').
Proof.
  intros HR Hs. unfold R in HR. destruct Hs as [s l' e Hk Hf | s Hk Hl | s sh' l' e Hk Hc | s Hk].
  - (* free step by t *)
    revert HR; destruct (m_lock s) as [h|] eqn:EL; intros HR.
    + destruct HR as (Ha & (e0 & Hrun & Hev) & Hin & Hoth).
      assert (t <> h) by (intros ->; rewrite Hk in Hin; discriminate).
      destruct (Hoth t H) as (Hl1 & Hl2 & Hl3).
      exists {| a_sh := a_sh a; a_loc := upd (a_loc a) t l'; a_ev := upd (a_ev a) t (a_ev a t ++ e) |}.
      split.
      * unfold R; cbn. rewrite !upd_other by congruence. repeat split; auto.
        -- exists e0. auto.
        -- destruct (Nat.eq_dec u t) as [->|Hne]; [rewrite !upd_same; auto|rewrite !upd_other by auto; apply Hoth; auto].
        -- destruct (Nat.eq_dec u t) as [->|Hne]; [rewrite !upd_same; congruence|rewrite !upd_other by auto; apply Hoth; auto].
        -- destruct (Nat.eq_dec u t) as [->|Hne]; [rewrite upd_same|rewrite upd_other by auto; apply Hoth; auto].
           pose proof (wf_free _ Hk) as W. rewrite Hf in W. exact W.
      * right. rewrite Hl1 in Hk, Hf. now apply AFree.
    + destruct HR as (Hsh & Hall). destruct (Hall t) as (Hl1 & Hl2 & Hl3).
      exists {| a_sh := a_sh a; a_loc := upd (a_loc a) t l'; a_ev := upd (a_ev a) t (a_ev a t ++ e) |}.
      split.
      * unfold R; cbn. split; [exact Hsh|]. intros u.
        destruct (Nat.eq_dec u t) as [->|Hne].
        -- rewrite !upd_same. repeat split; [congruence|]. pose proof (wf_free _ Hk) as W. rewrite Hf in W. exact W.
        -- rewrite !upd_other by auto. apply Hall.
      * right. rewrite Hl1 in Hk, Hf. now apply AFree.
  - (* acquire: atomic system stutters *)
    rewrite Hl in HR. destruct HR as (Hsh & Hall). destruct (Hall t) as (Hl1 & Hl2 & Hl3).
    exists a. split; [|left; reflexivity].
    unfold R; cbn. rewrite upd_same. repeat split.
    + congruence.
    + exists []. rewrite <- Hl1, <- Hsh. split; [constructor|rewrite app_nil_r; exact Hl2].
    + apply wf_acq; exact Hk.
    + rewrite upd_other by auto. apply Hall.
    + apply Hall.
    + rewrite upd_other by auto. apply Hall.
  - (* critical micro-step: only the holder can be here; atomic stutters *)
    revert HR; destruct (m_lock s) as [h|] eqn:EL; intros HR.
    + destruct HR as (Ha & (e0 & Hrun & Hev) & Hin & Hoth).
      assert (t = h).
      { destruct (Nat.eq_dec t h); auto. destruct (Hoth t n) as (_ & _ & W). rewrite Hk in W. discriminate. }
      subst h. exists a. split; [|left; reflexivity].
      unfold R; cbn. rewrite !upd_same. repeat split; auto.
      * exists (e0 ++ e). split; [eapply CRS; eauto|rewrite Hev, app_assoc; reflexivity].
      * pose proof (wf_crit (m_sh s) _ Hk) as W. rewrite Hc in W. exact W.
      * rewrite upd_other by auto. apply Hoth; auto.
      * rewrite upd_other by auto. apply Hoth; auto.
      * rewrite upd_other by auto. apply Hoth; auto.
    + destruct HR as (_ & Hall). destruct (Hall t) as (_ & _ & W). rewrite Hk in W. discriminate.
  - (* release: matched by the one atomic block transition *)
    revert HR; destruct (m_lock s) as [h|] eqn:EL; intros HR.
    + destruct HR as (Ha & (e0 & Hrun & Hev) & Hin & Hoth).
      assert (t = h).
      { destruct (Nat.eq_dec t h); auto. destruct (Hoth t n) as (_ & _ & W). rewrite Hk in W. discriminate. }
      subst h.
      exists {| a_sh := m_sh s; a_loc := upd (a_loc a) t (rel_step (m_loc s t)); a_ev := upd (a_ev a) t (a_ev a t ++ e0) |}.
      split.
      * unfold R; cbn. split; [reflexivity|]. intros u.
        destruct (Nat.eq_dec u t) as [->|Hne].
        -- rewrite !upd_same. repeat split; [exact Hev|apply wf_rel; exact Hk].
        -- rewrite !upd_other by auto. apply Hoth; auto.
      * right. eapply ABlock; eauto.
    + destruct HR as (_ & Hall). destruct (Hall t) as (_ & _ & W). rewrite Hk in W. discriminate.
Qed.

Theorem reduction m0 a0 : R m0 a0 -> forall m, mreach m0 m -> exists a, areach a0 a /\ R m a.
Proof.
  intros H0 m Hm. induction Hm as [|s t s' Hr IH Hs].
  - exists a0. split; [constructor|exact H0].
  - destruct IH as (a & Ha & HR). destruct (sim_step _ _ _ _ HR Hs) as (a' & HR' & [->|Hst]).
    + exists a. auto.
    + exists a'. split; [econstructor; eauto|exact HR'].
Qed.

(* Consequence used by C08: an invariant of the atomic system holds in every micro-reachable state with the lock free *)
Corollary invariant_transfer (Inv : Sh -> (tid -> Loc) -> (tid -> list Ev) -> Prop) m0 a0 :
  R m0 a0 ->
  (forall a, areach a0 a -> Inv (a_sh a) (a_loc a) (a_ev a)) ->
  (forall f g f' g', (forall u, f u = f' u) -> (forall u, g u = g' u) -> forall sh, Inv sh f' g' -> Inv sh f g) ->
  forall m, mreach m0 m -> m_lock m = None -> Inv (m_sh m) (m_loc m) (m_ev m).
Proof.
  intros H0 HI Hext m Hm HL. destruct (reduction _ _ H0 _ Hm) as (a & Ha & HR).
  unfold R in HR. rewrite HL in HR. destruct HR as (Hsh & Hall).
  rewrite Hsh. eapply Hext; [| |apply HI; exact Ha]; intros u; apply Hall.
Qed.
End Reduction.
Print Assumptions invariant_transfer.
