(* End to end for retrievals: get / gets / get_many / gets_many on a connected client with nothing pending, a fault-free
   transport and the specification server as the peer return exactly what the server holds under the caller's keys,
   deserialised, and leave nothing unread: the composition of C02 (the request is the intended get), Spec/Server (the
   answer is one VALUE block per live key, closed by END), QuietFetch (each block is read by its announced length) and the
   key remapping of _fetch_cmd. *)
From Coq Require Import ZArith List Bool Lia.
From PM Require Import Lib.Py Spec.LegalKey Model.Lits Spec.Proto Spec.Server Model.World Model.Readers Model.Serde Model.Client
                       Proofs.Hoare Proofs.ReaderFacts Proofs.DecimalFacts Proofs.C02Proof Proofs.C04Proof Proofs.C07Proof
                       Proofs.Quiet Proofs.QuietFetch Proofs.QuietConnect Proofs.QuietAny Proofs.E2E Proofs.Utf8Facts Proofs.C15Proof.
Import ListNotations.
Open Scope Z_scope.

(* ---- the server's answer to a get, as the item list QuietFetch reads ---- *)
Definition to_ritem (ki : list Z * item) : ritem := (fst ki, i_flags (snd ki), i_data (snd ki), i_cas (snd ki)).
Lemma value_block_block g ki : value_block g ki = QuietFetch.block g (to_ritem ki).
Proof.
  destruct ki as [k it]. rewrite <- (app_nil_r (value_block g (k, it))), value_block_shape.
  unfold to_ritem, QuietFetch.block, hdr. cbn [fst snd]. rewrite app_nil_r. reflexivity.
Qed.
Lemma reply_values c l : reply c (OValues l) = items_bytes (wants_cas c) (map to_ritem l).
Proof.
  unfold reply, items_bytes. f_equal. induction l as [|ki t IH]; [reflexivity|]. cbn [flat_map map]. rewrite IH, value_block_block. reflexivity.
Qed.

(* stored items carry non-negative flags and cas versions: an invariant of the server *)
Definition item_nonneg (ki : list Z * item) : Prop := 0 <= i_flags (snd ki) /\ 0 <= i_cas (snd ki).
Definition swf (s : sstate) : Prop := Forall item_nonneg (s_items s) /\ 0 <= s_cas s.
Lemma swf_empty now : swf (empty_server now).
Proof. split; [apply Forall_nil|cbn; lia]. Qed.
Lemma remove_Forall (Q : list Z * item -> Prop) m k : Forall Q m -> Forall Q (remove m k).
Proof.
  induction m as [|[k' it] t IH]; intros H; [apply Forall_nil|]. cbn [remove].
  destruct (list_eqb k' k); [apply IH, (Forall_inv_tail H)|apply Forall_cons; [apply (Forall_inv H)|apply IH, (Forall_inv_tail H)]].
Qed.
Lemma lookup_Forall (Q : list Z * item -> Prop) m k it : Forall Q m -> lookup m k = Some it -> exists k', Q (k', it).
Proof.
  induction m as [|[k' it'] t IH]; intros H E; [discriminate|]. cbn [lookup] in E.
  destruct (list_eqb k' k); [inversion E; subst; exists k'; apply (Forall_inv H)|apply IH; [apply (Forall_inv_tail H)|exact E]].
Qed.
Lemma live_nonneg s k it : swf s -> live s k = Some it -> 0 <= i_flags it /\ 0 <= i_cas it.
Proof.
  intros [H _] E. unfold live in E. destruct (lookup (s_items s) k) as [it'|] eqn:El; [|discriminate].
  destruct (is_live (s_now s) it'); [|discriminate]. inversion E; subst it'.
  destruct (lookup_Forall item_nonneg _ _ _ H El) as (k' & Hq). exact Hq.
Qed.
Lemma swf_put s k it cas : swf s -> 0 <= i_flags it -> 0 <= i_cas it -> 0 <= cas -> swf (with_items s (put (s_items s) k it) cas).
Proof.
  intros [H Hc] Hf Hi Hcas. split; [|exact Hcas]. cbn [with_items s_items]. unfold put.
  apply Forall_cons; [split; assumption|apply remove_Forall, H].
Qed.
Lemma swf_remove s k cas : swf s -> 0 <= cas -> swf (with_items s (remove (s_items s) k) cas).
Proof. intros [H Hc] Hcas. split; [apply remove_Forall, H|exact Hcas]. Qed.
Lemma swf_write s k fl e data : swf s -> 0 <= fl -> swf (write s k fl e data).
Proof.
  intros H Hf. pose proof (proj2 H) as Hc. unfold write. destruct (abs_exp (s_now s) e).
  - apply swf_put; cbn [i_flags i_cas]; try assumption; lia.
  - apply swf_remove; [assumption|lia].
Qed.
Lemma swf_retime s k it e : swf s -> 0 <= i_flags it -> 0 <= i_cas it -> swf (retime s k it e).
Proof.
  intros H Hf Hi. pose proof (proj2 H) as Hc. unfold retime. destruct (abs_exp (s_now s) e).
  - apply swf_put; cbn [i_flags i_cas]; assumption.
  - apply swf_remove; assumption.
Qed.
(* every well-formed command keeps it *)
Theorem exec_swf s cm : swf s -> wf_cmd cm = true -> swf (fst (exec s cm)).
Proof.
  intros H Hwf. pose proof (proj2 H) as Hc. destruct cm; cbn [exec].
  - (* store *)
    assert (Hf : 0 <= flags).
    { cbn [wf_cmd] in Hwf. repeat (apply andb_true_iff in Hwf; destruct Hwf as [Hwf ?]). lia. }
    destruct (live s key) as [it|] eqn:El; [destruct (live_nonneg s key it H El) as [Hif Hic]|];
      destruct v; cbn [fst]; try exact H; try (apply swf_write; assumption);
      try (apply swf_put; cbn [i_flags i_cas]; try assumption; lia).
    destruct (i_cas it =? digits_val cas 0); cbn [fst]; [apply swf_write; assumption|exact H].
  - exact H.
  - (* gat: a fold of retimes *)
    cbn [fst]. clear Hwf. revert s H Hc. induction keys as [|k t IH]; intros s H Hc; [exact H|]. cbn [fold_left].
    destruct (live s k) as [it|] eqn:El; [|apply IH; assumption].
    destruct (live_nonneg s k it H El) as [Hif Hic]. pose proof (swf_retime s k it exptime H Hif Hic) as H'. apply IH; [exact H'|apply H'].
  - destruct (live s key); cbn [fst]; apply swf_remove; assumption.
  - destruct (live s key) as [it|] eqn:El; [|exact H]. destruct (live_nonneg s key it H El) as [Hif Hic].
    destruct (numeric (i_data it)); cbn [fst]; [|exact H]. apply swf_put; cbn [i_flags i_cas]; try assumption; lia.
  - destruct (live s key) as [it|] eqn:El; cbn [fst]; [|exact H]. destruct (live_nonneg s key it H El) as [Hif Hic]. apply swf_retime; assumption.
  - cbn [fst]. destruct (delay =? 0); [|exact H]. split; [apply Forall_nil|exact Hc].
  - exact H.
Qed.
Lemma tick_swf s d : swf s -> swf (tick s d).
Proof. intros H. exact H. Qed.

Lemma found_wf s keys : swf s -> forallb legal keys = true -> Forall item_wf (map to_ritem (found_items s keys)).
Proof.
  intros H Hl. apply Forall_forall. intros r Hr. apply in_map_iff in Hr. destruct Hr as ([k it] & <- & Hin).
  destruct (found_own s keys k it Hin) as [Hk El]. destruct (live_nonneg s k it H El) as [Hf Hc].
  unfold to_ritem, item_wf. cbn [fst snd]. rewrite forallb_forall in Hl. auto.
Qed.

Lemma serve_get s g pks : pks <> [] -> forallb legal pks = true ->
  serve s (render (CGet g pks)) = (s, items_bytes g (map to_ritem (found_items s pks))).
Proof.
  intros Hne Hl. rewrite serve_one by (cbn [wf_cmd]; rewrite Hl; destruct pks; [contradiction|reflexivity]).
  cbn [exec is_noreply]. rewrite reply_values. reflexivity.
Qed.

(* ---- the validation prefix of _fetch_cmd for a plain retrieval ---- *)
Definition wire_keys (c : cfg) (prefix : list Z) : list dyn -> exc (list (list Z)) :=
  fix go (ks : list dyn) : exc (list (list Z)) :=
    match ks with [] => Ok [] | k :: t => bind (check_key c prefix k) (fun w => bind (go t) (fun r => Ok (w :: r))) end.
Definition remap (pks : list (list Z)) (keys : list dyn) : list (list Z * dyn) :=
  fold_left (fun d kw => bdict_set d (fst kw) (snd kw)) (combine pks keys) [].
Lemma fetch_plan_get c (g : bool) keys pks : wire_keys c (c_prefix c) keys = Ok pks -> pks <> [] ->
  fetch_plan c (if g then L_gets else L_get) keys (c_prefix c) None = Ok (remap pks keys, render (CGet g pks)).
Proof.
  intros H Hne. unfold fetch_plan. change (wire_keys c (c_prefix c) keys = Ok pks) in H. unfold wire_keys in H. rewrite H.
  f_equal. f_equal. unfold render. cbn [header Proto.block]. rewrite app_nil_r. destruct pks as [|p ps]; [contradiction|].
  cbn [join_with app]. rewrite <- !app_assoc. reflexivity.
Qed.

Section E2EFetch.
Variable c : cfg.
Hypothesis no_ignore : c_ignore_exc c = false.
Hypothesis fetch_handler : h_fetch c = BaseException.
Variable fr : option Z.               (* Some sid: connected on sid, nothing pending; None: any ready client (Proofs/QuietAny.v) *)
Hypothesis Hcan : connectable c fr.
Notation world := (world sstate).
Notation St := (St sstate).
Notation Start := (Start sstate fr).
Notation Done := (Done sstate fr).

(* the socket phase and the validation before it: what _fetch_cmd returns for get/gets with any number of keys *)
Theorem fetch_e2e s (g : bool) keys pks : wire_keys c (c_prefix c) keys = Ok pks -> keys <> [] -> swf s ->
  let items := map to_ritem (found_items s pks) in
  hoare (Start s) (fetch_cmd sstate serve c (if g then L_gets else L_get) keys g (c_prefix c) None)
        (fun res w => read_items c g (remap pks keys) items [] = Ok res /\ Done s w)
        (fun e w => read_items c g (remap pks keys) items [] = Raise e /\ w_sock w = None).
Proof.
  intros Hk Hne Hs. cbn zeta.
  destruct (map_keys_legal c (c_prefix c) keys pks Hk) as [Hl Hn].
  assert (Hpne : pks <> []) by (destruct pks; [destruct keys; [contradiction|discriminate]|discriminate]).
  intros w Hw. rewrite fetch_cmd_plan, (fetch_plan_get c g keys pks Hk Hpne).
  apply (fetch_io_any sstate serve c fr Hcan s s (if g then L_gets else L_get) g (remap pks keys) (render (CGet g pks))
           (map to_ritem (found_items s pks)) (serve_get s g pks Hpne Hl) (found_wf s pks Hs Hl) no_ignore fetch_handler w Hw).
Qed.

(* ---- one key: get and gets ---- *)
Definition deser (it : item) : exc dyn := serde_deserialize c (DBytes (i_data it)) (i_flags it).

Lemma wire_one key k : check_key c (c_prefix c) key = Ok k -> wire_keys c (c_prefix c) [key] = Ok [k].
Proof. intros H. cbn [wire_keys]. rewrite H. reflexivity. Qed.
Lemma found_one s k : found_items s [k] = match live s k with Some it => [(k, it)] | None => [] end.
Proof. unfold found_items. cbn [flat_map]. apply app_nil_r. Qed.
Lemma read_one (g : bool) s key k : check_key c (c_prefix c) key = Ok k ->
  read_items c g (remap [k] [key]) (map to_ritem (found_items s [k])) [] =
  match live s k with
  | None => Ok []
  | Some it => bind (deser it) (fun v => Ok [DTuple [key; if g then DTuple [v; DBytes (str_of_Z (i_cas it))] else v]])
  end.
Proof.
  intros Hk. rewrite found_one. destruct (live s k) as [it|]; [|reflexivity].
  cbn [map read_items]. unfold item_value, remap, to_ritem. cbn [combine fold_left bdict_set bdict_get fst snd].
  rewrite leqb_refl. fold (deser it). destruct (deser it) as [v|e]; reflexivity.
Qed.

Theorem get_e2e s key default k : check_key c (c_prefix c) key = Ok k -> swf s ->
  hoare (Start s) (run_op sstate serve c (OpGet key default))
        (fun v w => match live s k with None => v = default | Some it => deser it = Ok v end /\ Done s w)
        (fun e w => (exists it, live s k = Some it /\ deser it = Raise e) /\ w_sock w = None).
Proof.
  intros Hk Hs. cbn [run_op]. intros w Hw.
  pose proof (fetch_e2e s false [key] [k] (wire_one key k Hk) ltac:(discriminate) Hs w Hw) as F. cbn zeta in F.
  rewrite (read_one false s key k Hk) in F. unfold mbind.
  destruct (fetch_cmd sstate serve c L_get [key] false (c_prefix c) None w) as [[r|e] w'].
  - destruct F as [F1 F2]. cbn [ret]. split; [|exact F2]. destruct (live s k) as [it|].
    + destruct (deser it) as [v|e]; [|discriminate]. cbn [bind] in F1. inversion F1; subst r.
      unfold lookup_or. cbn [dict_get]. rewrite (key_eqb_refl c key k Hk). reflexivity.
    + inversion F1; subst r. reflexivity.
  - destruct F as [F1 F2]. split; [|exact F2]. destruct (live s k) as [it|]; [|discriminate].
    exists it. split; [reflexivity|]. destruct (deser it) as [v|e']; [discriminate|]. cbn [bind] in F1. inversion F1. reflexivity.
Qed.

Theorem gets_e2e s key default cas_default k : check_key c (c_prefix c) key = Ok k -> swf s ->
  hoare (Start s) (run_op sstate serve c (OpGets key default cas_default))
        (fun v w => match live s k with
                    | None => v = DTuple [default; cas_default]
                    | Some it => exists x, deser it = Ok x /\ v = DTuple [x; DBytes (str_of_Z (i_cas it))] end /\ Done s w)
        (fun e w => (exists it, live s k = Some it /\ deser it = Raise e) /\ w_sock w = None).
Proof.
  intros Hk Hs. cbn [run_op]. intros w Hw.
  pose proof (fetch_e2e s true [key] [k] (wire_one key k Hk) ltac:(discriminate) Hs w Hw) as F. cbn zeta in F.
  rewrite (read_one true s key k Hk) in F. unfold mbind.
  destruct (fetch_cmd sstate serve c L_gets [key] true (c_prefix c) None w) as [[r|e] w'].
  - destruct F as [F1 F2]. cbn [ret]. split; [|exact F2]. destruct (live s k) as [it|].
    + destruct (deser it) as [v|e]; [|discriminate]. cbn [bind] in F1. inversion F1; subst r.
      unfold lookup_or. cbn [dict_get]. rewrite (key_eqb_refl c key k Hk). exists v. auto.
    + inversion F1; subst r. reflexivity.
  - destruct F as [F1 F2]. split; [|exact F2]. destruct (live s k) as [it|]; [|discriminate].
    exists it. split; [reflexivity|]. destruct (deser it) as [v|e']; [discriminate|]. cbn [bind] in F1. inversion F1. reflexivity.
Qed.

(* ---- any number of keys: get_many and gets_many ---- *)
(* the documented result as a function of the server state: for each requested key in order, if the server holds it
   live, its deserialised value goes under the caller's own key *)
Fixpoint many_spec (g : bool) (s : sstate) (l : list (list Z * dyn)) (acc : list dyn) : exc (list dyn) :=
  match l with
  | [] => Ok acc
  | (pk, key) :: t =>
      match live s pk with
      | None => many_spec g s t acc
      | Some it => bind (deser it) (fun x => many_spec g s t (dict_set acc key (if g then DTuple [x; DBytes (str_of_Z (i_cas it))] else x)))
      end
  end.
Lemma read_items_many (g : bool) s R : forall l acc, (forall pk key, In (pk, key) l -> bdict_get R pk = Some key) ->
  read_items c g R (map to_ritem (found_items s (map fst l))) acc = many_spec g s l acc.
Proof.
  induction l as [|[pk key] t IH]; intros acc HR; [reflexivity|].
  cbn [map fst many_spec]. unfold found_items. cbn [flat_map]. fold (found_items s (map fst t)).
  assert (HR' : forall pk0 key0, In (pk0, key0) t -> bdict_get R pk0 = Some key0) by (intros; apply HR; right; assumption).
  destruct (live s pk) as [it|]; [|cbn [app]; apply IH, HR'].
  cbn [app map read_items]. unfold item_value, to_ritem. cbn [fst snd]. rewrite (HR pk key (or_introl eq_refl)).
  fold (deser it). destruct (deser it) as [x|e]; [|reflexivity]. cbn [bind fst snd]. apply IH, HR'.
Qed.

(* the remapping table of _fetch_cmd when the wire keys are pairwise different *)
Lemma bdict_set_fresh d k v : bdict_get d k = None -> bdict_set d k v = d ++ [(k, v)].
Proof.
  induction d as [|[k' v'] t IH]; intros H; [reflexivity|]. cbn [bdict_get] in H. cbn [bdict_set app].
  destruct (list_eqb k' k); [discriminate|]. rewrite IH by exact H. reflexivity.
Qed.
Lemma bdict_get_app_none d d' k : bdict_get d k = None -> bdict_get (d ++ d') k = bdict_get d' k.
Proof.
  induction d as [|[k' v'] t IH]; intros H; [reflexivity|]. cbn [bdict_get app] in *. destruct (list_eqb k' k); [discriminate|apply IH, H].
Qed.
Lemma bdict_get_notin d k : ~ In k (map fst d) -> bdict_get d k = None.
Proof.
  induction d as [|[k' v'] t IH]; intros H; [reflexivity|]. cbn [bdict_get]. destruct (list_eqb k' k) eqn:E.
  - apply C13Proof.leq_eq in E. subst. exfalso. apply H. left. reflexivity.
  - apply IH. intros X. apply H. right. exact X.
Qed.
Lemma remap_nodup : forall (l d : list (list Z * dyn)), NoDup (map fst (d ++ l)) ->
  fold_left (fun d kw => bdict_set d (fst kw) (snd kw)) l d = d ++ l.
Proof.
  induction l as [|[k v] t IH]; intros d H; [rewrite app_nil_r; reflexivity|]. cbn [fold_left fst snd].
  assert (Hn : bdict_get d k = None).
  { apply bdict_get_notin. rewrite map_app in H. cbn [map fst] in H. apply NoDup_remove_2 in H. intros X. apply H. apply in_or_app. left. exact X. }
  rewrite (bdict_set_fresh d k v Hn). rewrite IH; [rewrite <- app_assoc; reflexivity|]. rewrite <- app_assoc. exact H.
Qed.
Lemma bdict_get_nodup : forall (l : list (list Z * dyn)) pk key, NoDup (map fst l) -> In (pk, key) l -> bdict_get l pk = Some key.
Proof.
  induction l as [|[k v] t IH]; intros pk key H Hin; [destruct Hin|]. cbn [bdict_get]. cbn [map fst] in H.
  destruct Hin as [Hin|Hin].
  - inversion Hin; subst. rewrite leqb_refl. reflexivity.
  - destruct (list_eqb k pk) eqn:E.
    + apply C13Proof.leq_eq in E. subst k. exfalso. apply (NoDup_cons_iff pk (map fst t)) in H. destruct H as [H _]. apply H.
      apply in_map_iff. exists (pk, key). auto.
    + apply IH; [apply (NoDup_cons_iff k (map fst t)) in H; apply H|exact Hin].
Qed.
Lemma combine_fst {A B} : forall (a : list A) (b : list B), length a = length b -> map fst (combine a b) = a.
Proof. induction a as [|x a IH]; intros [|y b] H; try discriminate; [reflexivity|]. cbn [combine map fst]. rewrite IH by (cbn in H; lia). reflexivity. Qed.

Theorem fetch_many_e2e s (g : bool) keys pks : wire_keys c (c_prefix c) keys = Ok pks -> keys <> [] -> NoDup pks -> swf s ->
  hoare (Start s) (fetch_cmd sstate serve c (if g then L_gets else L_get) keys g (c_prefix c) None)
        (fun res w => many_spec g s (combine pks keys) [] = Ok res /\ Done s w)
        (fun e w => many_spec g s (combine pks keys) [] = Raise e /\ w_sock w = None).
Proof.
  intros Hk Hne Hnd Hs.
  destruct (map_keys_legal c (c_prefix c) keys pks Hk) as [_ Hn].
  assert (Hfst : map fst (combine pks keys) = pks) by (apply combine_fst, Hn).
  assert (Hre : remap pks keys = combine pks keys).
  { unfold remap. rewrite (remap_nodup (combine pks keys) []); [reflexivity|]. cbn [app]. rewrite Hfst. exact Hnd. }
  assert (E : read_items c g (remap pks keys) (map to_ritem (found_items s pks)) [] = many_spec g s (combine pks keys) []).
  { pose proof (read_items_many g s (remap pks keys) (combine pks keys) []) as X. rewrite Hfst in X. apply X. intros pk key Hin. rewrite Hre. apply bdict_get_nodup; [rewrite Hfst; exact Hnd|exact Hin]. }
  pose proof (fetch_e2e s g keys pks Hk Hne Hs) as F. cbn zeta in F. rewrite E in F. exact F.
Qed.

Theorem get_many_e2e s (g oneshot : bool) keys pks : wire_keys c (c_prefix c) keys = Ok pks -> keys <> [] -> NoDup pks -> swf s ->
  hoare (Start s) (run_op sstate serve c (if g then OpGetsMany oneshot keys else OpGetMany oneshot keys))
        (fun v w => (exists res, many_spec g s (combine pks keys) [] = Ok res /\ v = DDict res) /\ Done s w)
        (fun e w => many_spec g s (combine pks keys) [] = Raise e /\ w_sock w = None).
Proof.
  intros Hk Hne Hnd Hs. pose proof (fetch_many_e2e s g keys pks Hk Hne Hnd Hs) as F.
  destruct keys as [|k0 kt]; [contradiction|].
  intros w Hw. specialize (F w Hw). destruct g; cbn [run_op]; unfold mbind;
    match goal with |- context [fetch_cmd sstate serve c ?a ?b ?cc ?d ?e w] => destruct (fetch_cmd sstate serve c a b cc d e w) as [[r|e0] w'] end;
    cbn [ret]; try exact F; (destruct F as [F1 F2]; split; [exists r; auto|exact F2]).
Qed.

(* ---- set, then get: what was stored is what comes back ---- *)
Lemma live_write s k fl e data x : abs_exp (s_now s) e = Some x -> (x = 0 \/ s_now s < x) ->
  live (write s k fl e data) k = Some {| i_flags := fl; i_exp := x; i_data := data; i_cas := s_cas s + 1 |}.
Proof.
  intros Hx Hl. unfold write. rewrite Hx. unfold live, with_items. cbn [s_items s_now]. rewrite lookup_put_same.
  unfold is_live. cbn [i_exp].
  assert (E : (x =? 0) || (s_now s <? x) = true) by (destruct Hl; [subst; reflexivity|apply orb_true_iff; right; lia]).
  rewrite E. reflexivity.
Qed.
Lemma live_write_other s k fl e data k' : list_eqb k k' = false -> live (write s k fl e data) k' = live s k'.
Proof.
  intros N. unfold write, live. destruct (abs_exp (s_now s) e); cbn [with_items s_items s_now];
    [rewrite lookup_put_other by exact N|rewrite lookup_remove_other by exact N]; reflexivity.
Qed.

(* what the configured serializer produces, the deserializer turns back into the value; without a serializer the caller gets
   the stored bytes.  The native types (bytes, str, int) never reach the pickle oracle; any other value comes back provided
   pickle round-trips THAT value, and with CompressedSerde provided the codec round-trips (the oracle hypotheses of C15) *)
Definition native (v : dyn) : Prop := match v with DBytes _ | DStr _ | DInt _ => True | _ => False end.
Definition roundtrips (value : dyn) : Prop :=
  (c_serde c =? 0) = true \/
  ((pickled value = true -> o_loads (c_orc c) (o_dumps (c_orc c) (o_pickle_version (c_orc c)) value) = Ok value) /\
   ((c_serde c =? 2) = true -> forall b, o_decompress (c_orc c) (o_compress (c_orc c) b) = Ok b)).
Lemma native_roundtrips value : native value -> (c_serde c =? 2) = false -> roundtrips value.
Proof. intros Hn H2. right. split; [destruct value; try destruct Hn; discriminate|rewrite H2; discriminate]. Qed.
Definition comes_back (value : dyn) (db : list Z) : dyn := if c_serde c =? 0 then DBytes db else value.
Lemma serde_roundtrip value data dfl db : roundtrips value ->
  serde_serialize c value = Ok (data, dfl) -> data_bytes c data = Ok db ->
  serde_deserialize c (DBytes db) dfl = Ok (comes_back value db).
Proof.
  unfold serde_serialize, serde_deserialize, comes_back, roundtrips. cbv zeta. intros Hn Hs Hd. destruct (c_serde c =? 0) eqn:E0; [reflexivity|].
  destruct Hn as [Hn|[Hp Hc]]; [discriminate|].
  assert (He : encodable value).
  { destruct value; cbn [encodable]; try exact I. intros Hnone. destruct (c_serde c =? 2); [unfold c_serialize in Hs|]; cbn [serialize] in Hs;
      rewrite Hnone in Hs; discriminate. }
  destruct (c_serde c =? 2) eqn:E2.
  - destruct (compressed_serde_roundtrip_at _ _ _ _ (o_min_compress_len (c_orc c)) (o_pickle_version (c_orc c)) value He Hp (Hc eq_refl))
      as (b0 & f0 & b & f & _ & Hcs & _ & Hcd & _).
    rewrite Hcs in Hs. inversion Hs; subst data dfl. cbn [data_bytes] in Hd. inversion Hd; subst db. exact Hcd.
  - destruct (pickle_serde_roundtrip_at _ _ (o_pickle_version (c_orc c)) value He Hp) as (b & f & Hps & _ & Hpd).
    rewrite Hps in Hs. inversion Hs; subst data dfl. cbn [data_bytes] in Hd. inversion Hd; subst db. exact Hpd.
Qed.

Lemma store_intent_one_inv v key value expire nr flags cb v' k f e db cb' nr' :
  store_intent c v [(key, value)] expire nr flags cb = Ok [CStore v' k f e db cb' nr'] ->
  check_key c (c_prefix c) key = Ok k /\ int_value expire = Some e /\
  exists data dfl, serde_serialize c value = Ok (data, dfl) /\ data_bytes c data = Ok db /\
                   int_value (match flags with DNone => DInt dfl | _ => flags end) = Some f.
Proof.
  unfold store_intent. intros Hi. destruct (int_value expire) as [e0|]; [|discriminate]. cbn [map_exc] in Hi. unfold store_item in Hi. cbn [fst snd] in Hi.
  destruct (check_key c (c_prefix c) key) as [k0|x]; [|discriminate]. cbn [bind] in Hi.
  destruct (serde_serialize c value) as [[data dfl]|x]; [|discriminate]. cbn [bind fst snd] in Hi.
  destruct (int_value match flags with DNone => DInt dfl | _ => flags end) as [f0|] eqn:Ef; [|discriminate].
  destruct (data_bytes c data) as [db0|x] eqn:Ed; [|discriminate]. cbn [bind] in Hi. injection Hi as _ <- <- <- <- _ _.
  split; [reflexivity|]. split; [reflexivity|]. exists data, dfl. auto.
Qed.

Hypothesis catches_store : forall e, exn_isa e Exception_ = true -> exn_isa e (h_store c) = true.

Theorem set_then_get_e2e s key value expire n bytes default x :
  let nr := eff_noreply c n in
  store_bytes c (verb_name 0) [(key, value)] expire nr DNone None = Ok bytes -> in_i64 expire ->
  roundtrips value -> swf s ->
  (forall e, int_value expire = Some e -> abs_exp (s_now s) e = Some x /\ (x = 0 \/ s_now s < x)) ->
  exists db,
  hoare (Start s) (mbind (run_op sstate serve c (OpStore 0 key value expire n DNone)) (fun _ => run_op sstate serve c (OpGet key default)))
        (fun v w => v = comes_back value db /\ exists s', Done s' w) (fun _ _ => False).
Proof.
  cbn zeta. intros Hb He Hn Hs Hx.
  assert (Hu : in_u32 DNone) by (intros z Hz; discriminate).
  destruct (store_e2e c catches_store fr Hcan s 0 key value expire n DNone bytes Hb He Hu) as (k & f & e & db & Hi & Hst). cbn zeta in Hst.
  destruct (store_intent_one_inv _ _ _ _ _ _ _ _ _ _ _ _ _ _ Hi) as (Hk & Ee & data & dfl & Hser & Hdb & Hf).
  cbn in Hf. inversion Hf; subst f.
  pose proof (store_intent_wf c _ _ _ _ _ _ _ Hi He Hu ltac:(discriminate)) as Hwf. cbn [forallb] in Hwf. rewrite andb_true_r in Hwf.
  destruct (Hx e Ee) as [Hax Hlive].
  exists db. eapply h_bind; [exact Hst|]. intros r. cbn beta.
  set (s' := fst (exec s (CStore (sv_of 0) k dfl e db [] (eff_noreply c n)))).
  assert (Hs' : swf s') by (apply exec_swf; assumption).
  assert (Hl : live s' k = Some {| i_flags := dfl; i_exp := x; i_data := db; i_cas := s_cas s + 1 |}) by (apply live_write; assumption).
  eapply h_conseq; [apply (get_e2e s' key default k Hk Hs')| | |].
  - intros w [_ Hw]. apply Done_Start, Hw.
  - intros v w [Hv Hw]. rewrite Hl in Hv. unfold deser in Hv. cbn [i_data i_flags] in Hv.
    rewrite (serde_roundtrip value data dfl db Hn Hser Hdb) in Hv. inversion Hv. split; [reflexivity|exists s'; exact Hw].
  - intros e0 w [(it & Hit & Hd) _]. rewrite Hl in Hit. inversion Hit; subst it. unfold deser in Hd. cbn [i_data i_flags] in Hd.
    rewrite (serde_roundtrip value data dfl db Hn Hser Hdb) in Hd. discriminate.
Qed.

(* ... and a set of one key leaves what a get of any other key returns unchanged *)
Theorem set_keeps_other_e2e s key value expire n bytes key2 k2 default :
  let nr := eff_noreply c n in
  store_bytes c (verb_name 0) [(key, value)] expire nr DNone None = Ok bytes -> in_i64 expire -> swf s ->
  check_key c (c_prefix c) key2 = Ok k2 -> (forall k, check_key c (c_prefix c) key = Ok k -> list_eqb k k2 = false) ->
  hoare (Start s) (mbind (run_op sstate serve c (OpStore 0 key value expire n DNone)) (fun _ => run_op sstate serve c (OpGet key2 default)))
        (fun v w => match live s k2 with None => v = default | Some it => deser it = Ok v end /\ exists s', Done s' w)
        (fun e w => (exists it, live s k2 = Some it /\ deser it = Raise e) /\ w_sock w = None).
Proof.
  cbn zeta. intros Hb He Hs Hk2 Hne.
  assert (Hu : in_u32 DNone) by (intros z Hz; discriminate).
  destruct (store_e2e c catches_store fr Hcan s 0 key value expire n DNone bytes Hb He Hu) as (k & f & e & db & Hi & Hst). cbn zeta in Hst.
  destruct (store_intent_one_inv _ _ _ _ _ _ _ _ _ _ _ _ _ _ Hi) as (Hk & _).
  pose proof (store_intent_wf c _ _ _ _ _ _ _ Hi He Hu ltac:(discriminate)) as Hwf. cbn [forallb] in Hwf. rewrite andb_true_r in Hwf.
  set (s' := fst (exec s (CStore (sv_of 0) k f e db [] (eff_noreply c n)))) in *.
  eapply h_bind with (Q1 := fun _ w => Done s' w); [eapply h_conseq; [exact Hst|auto|intros a w [_ Hw]; exact Hw|intros e0 w []]|].
  intros r. cbn beta.
  assert (Hs' : swf s') by (apply exec_swf; assumption).
  assert (Hl : live s' k2 = live s k2) by (apply live_write_other, Hne, Hk).
  eapply h_conseq; [apply (get_e2e s' key2 default k2 Hk2 Hs')| | |].
  - intros w Hw. apply Done_Start, Hw.
  - intros v w [Hv Hw]. rewrite Hl in Hv. split; [exact Hv|exists s'; exact Hw].
  - intros e0 w [Hv Hw]. rewrite Hl in Hv. split; assumption.
Qed.
End E2EFetch.
